(* Structural invariant DInv: every Decision node respects its vtree node (variables of the primes under the
   left child, of the subs under the right child), literals are over registered variables, and the
   caches only relate handles whose variable sets are included.  It is preserved by every operation
   under every budget, and it implies the decomposability check `decomp_ok` of Decomp.v. *)
Require Import KV.Sdd.Model KV.Sdd.Sem KV.Sdd.Spec KV.Sdd.Decomp KV.Sdd.History.
Require Import KV.Sdd.SemProofs KV.Sdd.Hoare KV.Sdd.GHoare KV.Sdd.OpsProofs KV.Sdd.TopProofs KV.Sdd.MainProofs KV.Sdd.Vtree.
Require Import Lia Permutation.

Definition vars (m : mgr) (id : N) : list N := vars_of m id.

Lemma vars_tab_gtab : forall l, vars_tab l = gtab node (list N) vars_node l.
Proof. reflexivity. Qed.

Lemma vars_ext : forall m m' id, validh m id -> ext m m' -> vars m' id = vars m id.
Proof.
  intros m m' id Hv [[l Hl] _]. unfold vars, vars_of. rewrite Hl, !vars_tab_gtab. now apply gtab_nth_app.
Qed.

Lemma vars_node_at : forall m id, validh m id ->
  vars m id = vars_node (vars_tab (firstn (N.to_nat id) (nodes m))) (node_at m id).
Proof.
  intros m id Hv. unfold vars, vars_of, node_at. rewrite !vars_tab_gtab.
  now apply (gtab_nth node (list N) vars_node [] (nodes m) (N.to_nat id) NFalse).
Qed.

Lemma vars_prefix : forall m k p, (N.to_nat p < k)%nat -> (k <= length (nodes m))%nat ->
  nth (N.to_nat p) (vars_tab (firstn k (nodes m))) [] = vars m p.
Proof.
  intros m k p Hp Hk. unfold vars, vars_of. rewrite !vars_tab_gtab, gtab_firstn. now apply nth_firstn_lt.
Qed.

Definition flatvars (m : mgr) (els : list elem) : list N :=
  flat_map (fun e => vars m (fst e) ++ vars m (snd e)) els.

Lemma flatvars_perm : forall m els els', Permutation els els' -> forall x, In x (flatvars m els) <-> In x (flatvars m els').
Proof.
  intros m els els' HP x. unfold flatvars. rewrite !in_flat_map. split; intros [e [He Hx]]; exists e; split; auto.
  - eapply Permutation_in; eauto.
  - eapply Permutation_in; [apply Permutation_sym|]; eauto.
Qed.

Section Fix.
  Variable vn : list vnode.
  Variable v2v : list (N * N).
  Variable root : option N.
  Hypothesis HVt : VtOk vn v2v root.
  Let H0 : VtOk0 vn v2v := proj1 HVt.

  Definition lset (vt : N) : list N := match vat vn vt with VInt l _ => vs vn l | VLeaf _ => [] end.
  Definition rset (vt : N) : list N := match vat vn vt with VInt _ r => vs vn r | VLeaf _ => [] end.

  Definition elem_resp (m : mgr) (vt : N) (e : elem) : Prop :=
    validh m (fst e) /\ validh m (snd e) /\ incl (vars m (fst e)) (lset vt) /\ incl (vars m (snd e)) (rset vt).
  Definition respects (m : mgr) (vt : N) (els : list elem) : Prop := Forall (elem_resp m vt) els.

  Definition node_okD (m : mgr) (k : nat) (n : node) : Prop :=
    match n with
    | NLit v _ => exists i, In (v, i) v2v
    | NDec vt els => vvalid vn vt /\
        Forall (fun e => (N.to_nat (fst e) < k)%nat /\ (N.to_nat (snd e) < k)%nat /\
                         incl (vars m (fst e)) (lset vt) /\ incl (vars m (snd e)) (rset vt)) els
    | _ => True
    end.

  Record DInv (m : mgr) : Prop := {
    d_vn : vnodes m = vn;
    d_v2v : var2vt m = v2v;
    d_root : vroot m = root;
    d_head : exists t, nodes m = NFalse :: NTrue :: t;
    d_nodes : forall k, (k < length (nodes m))%nat -> node_okD m k (nth k (nodes m) NFalse);
    d_utab : forall key id, In (key, id) (utab m) -> validh m id /\ node_at m id = node_of_key key;
    d_acache : forall a b o r, In ((a, b, o), r) (acache m) ->
                 validh m a /\ validh m b /\ validh m r /\ incl (vars m r) (vars m a ++ vars m b);
    d_ncache : forall id r, In (id, r) (ncache m) -> validh m id /\ validh m r /\ incl (vars m r) (vars m id)
  }.

  Lemma valid0 : forall m, DInv m -> validh m 0 /\ validh m 1 /\ vars m 0 = [] /\ vars m 1 = [].
  Proof.
    intros m Hd. destruct (d_head m Hd) as [t Ht].
    assert (V0 : validh m 0) by (unfold validh; rewrite Ht; cbn; lia).
    assert (V1 : validh m 1) by (unfold validh; rewrite Ht; cbn; lia).
    split; [exact V0|]. split; [exact V1|].
    rewrite (vars_node_at m 0 V0), (vars_node_at m 1 V1). unfold node_at. rewrite Ht. split; reflexivity.
  Qed.

  Lemma vars_lit : forall m id v pol, validh m id -> node_at m id = NLit v pol -> vars m id = [v].
  Proof. intros m id v pol Hv Hn. rewrite (vars_node_at m id Hv), Hn. reflexivity. Qed.

  Lemma vars_dec : forall m id vt els, DInv m -> validh m id -> node_at m id = NDec vt els ->
    vars m id = flatvars m els /\ respects m vt els /\ vvalid vn vt.
  Proof.
    intros m id vt els Hd Hv Hn. pose proof (d_nodes m Hd _ Hv) as Hk. unfold node_at in Hn. rewrite Hn in Hk.
    destruct Hk as [Hvt Hk]. cbn in Hk.
    rewrite (vars_node_at m id Hv). unfold node_at. rewrite Hn. cbn [vars_node]. unfold validh in Hv.
    split; [|split; [|exact Hvt]].
    - unfold flatvars. clear Hn. induction Hk as [|e els (A & B & _) Hk IH]; [reflexivity|].
      cbn [flat_map]. rewrite IH. rewrite !(vars_prefix m) by lia. reflexivity.
    - unfold respects. eapply Forall_impl; [|exact Hk]. intros e (A & B & C & D).
      unfold elem_resp, validh. repeat split; auto; lia.
  Qed.

  Lemma vtree_of_vars : forall m id nv, DInv m -> validh m id -> vtree_of m id = Some nv ->
    vvalid vn nv /\ incl (vars m id) (vs vn nv).
  Proof.
    intros m id nv Hd Hv Hvt. unfold vtree_of in Hvt.
    destruct (node_at m id) as [| |v pol|vt els] eqn:En; try discriminate.
    - rewrite (d_v2v m Hd) in Hvt. apply alookupN_in in Hvt.
      destruct (vt_map _ _ H0 v nv Hvt) as [A B]. split; [exact A|].
      rewrite (vars_lit m id v pol Hv En), (vs_leaf vn nv v A B). apply incl_refl.
    - injection Hvt as <-. destruct (vars_dec m id vt els Hd Hv En) as (A & B & C). split; [exact C|].
      rewrite A. intros x Hx. unfold flatvars in Hx. apply in_flat_map in Hx as [e [He Hx]].
      unfold respects in B. rewrite Forall_forall in B. destruct (B e He) as (_ & _ & P & S).
      unfold lset, rset in P, S. destruct (vat vn vt) as [w|l r] eqn:Ea.
      + apply in_app_or in Hx as [Hx|Hx]; [destruct (P x Hx) | destruct (S x Hx)].
      + rewrite (vs_int vn v2v H0 vt l r C Ea). apply in_or_app.
        apply in_app_or in Hx as [Hx|Hx]; [left; now apply P | right; now apply S].
  Qed.

  Lemma vtree_of_none : forall m id, DInv m -> validh m id -> vtree_of m id = None -> vars m id = [].
  Proof.
    intros m id Hd Hv Hvt. unfold vtree_of in Hvt. rewrite (vars_node_at m id Hv).
    destruct (node_at m id) as [| |v pol|vt els] eqn:En; try reflexivity; try discriminate.
    exfalso. pose proof (d_nodes m Hd _ Hv) as Hk. unfold node_at in En. rewrite En in Hk. destruct Hk as [i Hi].
    rewrite (d_v2v m Hd) in Hvt. destruct (alookupN_in_some _ _ _ Hi) as [j Hj]. congruence.
  Qed.

  (* stability *)
  Lemma validh_stable : forall id, stable (fun m => validh m id).
  Proof. intros id m m' H He. eapply validh_ext; eauto. Qed.
  Lemma elem_resp_ext : forall m m' vt e, elem_resp m vt e -> ext m m' -> elem_resp m' vt e.
  Proof.
    intros m m' vt e (A & B & C & D) He. unfold elem_resp.
    rewrite (vars_ext m m' _ A He), (vars_ext m m' _ B He). repeat split; auto; eapply validh_ext; eauto.
  Qed.
  Lemma respects_stable : forall vt els, stable (fun m => respects m vt els).
  Proof. intros vt els m m' H He. eapply Forall_impl; [|exact H]. intros e Hr. eapply elem_resp_ext; eauto. Qed.

  (* ---- facts with fixed variable lists (stable by construction) ------------------------------------- *)
  Definition VI (m : mgr) (id : N) (L : list N) : Prop := validh m id /\ incl (vars m id) L.
  Lemma VI_stable : forall id L, stable (fun m => VI m id L).
  Proof. intros id L m m' [A B] He. split; [eapply validh_ext; eauto|]. now rewrite (vars_ext m m' id A He). Qed.
  Lemma VI_mono : forall m id L L', VI m id L -> incl L L' -> VI m id L'.
  Proof. intros m id L L' [A B] H. split; [exact A|]. eapply incl_tran; eauto. Qed.
  Lemma VI_self : forall m id, validh m id -> VI m id (vars m id).
  Proof. intros. split; [assumption | apply incl_refl]. Qed.

  Definition VE (m : mgr) (id : N) (L : list N) : Prop := validh m id /\ vars m id = L.
  Lemma VE_stable : forall id L, stable (fun m => VE m id L).
  Proof. intros id L m m' [A B] He. split; [eapply validh_ext; eauto|]. now rewrite (vars_ext m m' id A He). Qed.
  Lemma VE_VI : forall m id L, VE m id L -> VI m id L.
  Proof. intros m id L [A B]. split; [exact A|]. rewrite B. apply incl_refl. Qed.

  Definition respL (m : mgr) (els : list elem) (Lp Ls : list N) : Prop :=
    Forall (fun e => VI m (fst e) Lp /\ VI m (snd e) Ls) els.
  Lemma respL_stable : forall els Lp Ls, stable (fun m => respL m els Lp Ls).
  Proof.
    intros els Lp Ls m m' H He. eapply Forall_impl; [|exact H]. intros e [A B].
    split; eapply VI_stable; eauto.
  Qed.
  Lemma respL_mono : forall m els Lp Ls Lp' Ls', respL m els Lp Ls -> incl Lp Lp' -> incl Ls Ls' -> respL m els Lp' Ls'.
  Proof.
    intros m els Lp Ls Lp' Ls' H H1 H2. eapply Forall_impl; [|exact H]. intros e [A B].
    split; eapply VI_mono; eauto.
  Qed.
  Lemma respL_perm : forall m els els' Lp Ls, respL m els Lp Ls -> Permutation els els' -> respL m els' Lp Ls.
  Proof.
    intros m els els' Lp Ls H HP. unfold respL in *. rewrite Forall_forall in *. intros e He.
    apply H. eapply Permutation_in; [apply Permutation_sym|]; eauto.
  Qed.

  Definition under (m : mgr) (id vt : N) : Prop :=
    validh m id /\ match vtree_of m id with Some nv => desc vn nv vt = true | None => True end.
  Lemma vtree_of_ext : forall m m' id, validh m id -> ext m m' -> vtree_of m' id = vtree_of m id.
  Proof.
    intros m m' id Hv He. unfold vtree_of. rewrite (node_at_ext m m' id Hv He).
    destruct He as (_ & _ & _ & E & _). now rewrite E.
  Qed.
  Lemma under_stable : forall id vt, stable (fun m => under m id vt).
  Proof.
    intros id vt m m' [A B] He. split; [eapply validh_ext; eauto|]. now rewrite (vtree_of_ext m m' id A He).
  Qed.

  Notation gt := (gtriple DInv).

  Ltac stab := repeat first [apply VI_stable | apply under_stable | apply respL_stable | apply stable_const | assumption | apply stable_and].

  (* ---- allocation ------------------------------------------------------------------------------------ *)
  Lemma node_okD_ext : forall m m' k n, (k <= length (nodes m))%nat -> node_okD m k n -> ext m m' -> node_okD m' k n.
  Proof.
    intros m m' k n Hk H He. destruct n as [| |v pol|vt els]; cbn in *; auto.
    destruct H as [Hv H]. split; [exact Hv|].
    eapply Forall_impl; [|exact H]. intros e (A & B & C & D).
    rewrite (vars_ext m m' (fst e)), (vars_ext m m' (snd e)); auto; unfold validh; lia.
  Qed.

  Lemma alloc_D : forall m k n,
    DInv m -> n = node_of_key k -> node_okD m (length (nodes m)) n ->
    DInv (alloc_m k n m) /\ ext m (alloc_m k n m) /\ validh (alloc_m k n m) (node_count m) /\
    node_at (alloc_m k n m) (node_count m) = n.
  Proof.
    intros m k n Hd Hn Hok.
    assert (He : ext m (alloc_m k n m)) by (split; [exists [n]; reflexivity | repeat split]).
    assert (Hv : validh (alloc_m k n m) (node_count m)).
    { unfold validh, node_count. cbn. rewrite Nnat.Nat2N.id, app_length. cbn. lia. }
    assert (Hat : node_at (alloc_m k n m) (node_count m) = n).
    { unfold node_at, node_count. cbn. rewrite Nnat.Nat2N.id, app_nth2, Nat.sub_diag by lia. reflexivity. }
    split; [|auto]. constructor; try (cbn; apply Hd).
    - destruct (d_head m Hd) as [t Ht]. exists (t ++ [n]). cbn. now rewrite Ht.
    - cbn [nodes alloc_m]. intros j Hj. rewrite app_length in Hj. cbn in Hj.
      destruct (Nat.eq_dec j (length (nodes m))) as [->|Hne].
      + rewrite app_nth2, Nat.sub_diag by lia. cbn [nth]. exact (node_okD_ext m _ _ _ (le_n _) Hok He).
      + rewrite app_nth1 by lia. assert (Hjl : (j < length (nodes m))%nat) by lia.
        exact (node_okD_ext m _ j _ (Nat.lt_le_incl _ _ Hjl) (d_nodes m Hd j Hjl) He).
    - cbn [utab alloc_m]. intros key id [[= <- <-]|Hin].
      + split; [exact Hv | now rewrite Hat].
      + destruct (d_utab m Hd _ _ Hin) as [A B]. split; [eapply validh_ext; eauto|].
        rewrite (node_at_ext m) by auto. exact B.
    - cbn [acache alloc_m]. intros a b o r Hin. destruct (d_acache m Hd _ _ _ _ Hin) as (A & B & C & D).
      rewrite (vars_ext m _ a A He), (vars_ext m _ b B He), (vars_ext m _ r C He).
      repeat split; auto; eapply validh_ext; eauto.
    - cbn [ncache alloc_m]. intros id r Hin. destruct (d_ncache m Hd _ _ Hin) as (A & B & C).
      rewrite (vars_ext m _ id A He), (vars_ext m _ r B He). repeat split; auto; eapply validh_ext; eauto.
  Qed.

  Lemma t_allocD : forall (P : mgr -> Prop) k n (Q : N -> mgr -> Prop),
    n = node_of_key k ->
    (forall m, DInv m -> P m -> node_okD m (length (nodes m)) n) ->
    (forall m m' id, DInv m -> P m -> DInv m' -> ext m m' -> validh m' id -> node_at m' id = n -> Q id m') ->
    gt P (alloc k n) Q.
  Proof.
    intros P k n Q Hn Hok HQ m b Hi Hp. unfold alloc. cbn [fst snd].
    destruct (alloc_D m k n Hi Hn (Hok m Hi Hp)) as (A & B & C & D).
    split; [exact A|]. split; [exact B|]. intros a [= <-]. exact (HQ m _ _ Hi Hp A B C D).
  Qed.

  (* ---- literal ------------------------------------------------------------------------------------------ *)
  Lemma literal_D : forall v pol, (exists i, In (v, i) v2v) ->
    gt (fun _ => True) (literal v pol) (fun r m => VI m r [v]).
  Proof.
    intros v pol Hreg. unfold literal.
    eapply gt_seq; [apply gt_checkpoint|].
    apply gt_getm. intros m0.
    destruct (alookup ukey_eqb (KLit v pol) (utab m0)) as [id|] eqn:E.
    - apply gt_ret. intros m Hi [-> _]. apply alookup_utab in E.
      destruct (d_utab _ Hi _ _ E) as [A B]. cbn in B. split; [exact A|].
      rewrite (vars_lit _ id v pol A B). apply incl_refl.
    - eapply gt_seq; [apply gt_before_alloc|].
      apply t_allocD; [reflexivity | intros; exact Hreg |].
      intros m m' id _ _ _ _ Hv Hn. split; [exact Hv|]. rewrite (vars_lit m' id v pol Hv Hn). apply incl_refl.
  Qed.

  (* ---- find_or_alloc ------------------------------------------------------------------------------------ *)
  Definition foa_pre (vt : N) (els : list elem) (Lp Ls : list N) (m : mgr) : Prop :=
    respL m els Lp Ls /\ incl Lp (lset vt) /\ incl Ls (rset vt) /\ vvalid vn vt.
  Lemma foa_pre_stable : forall vt els Lp Ls, stable (foa_pre vt els Lp Ls).
  Proof. intros vt els Lp Ls m m' (A & B & C & D) He. split; [eapply respL_stable; eauto | auto]. Qed.

  Lemma dec_VI : forall m id vt els Lp Ls, DInv m -> validh m id -> node_at m id = NDec vt els ->
    respL m els Lp Ls -> VI m id (Lp ++ Ls).
  Proof.
    intros m id vt els Lp Ls Hd Hv Hn Hr. split; [exact Hv|].
    destruct (vars_dec m id vt els Hd Hv Hn) as (A & _ & _). rewrite A.
    intros x Hx. unfold flatvars in Hx. apply in_flat_map in Hx as [e [He Hx]].
    unfold respL in Hr. rewrite Forall_forall in Hr. destruct (Hr e He) as [[_ P] [_ S]].
    apply in_or_app. apply in_app_or in Hx as [Hx|Hx]; [left; now apply P | right; now apply S].
  Qed.

  Lemma find_or_alloc_D : forall vt els Lp Ls,
    gt (foa_pre vt els Lp Ls) (find_or_alloc vt els) (fun r m => VI m r (Lp ++ Ls) /\ vtree_of m r = Some vt).
  Proof.
    intros vt els Lp Ls. unfold find_or_alloc.
    apply gt_getm. intros m0.
    destruct (alookup ukey_eqb (KDec vt (sort_els els)) (utab m0)) as [id|] eqn:E.
    - apply gt_ret. intros m Hi [-> (A & B & C & D)]. apply alookup_utab in E.
      destruct (d_utab _ Hi _ _ E) as [Hv Hn]. cbn in Hn.
      split; [|unfold vtree_of; now rewrite Hn].
      eapply dec_VI; eauto. eapply respL_perm; eauto. apply sort_els_perm.
    - eapply gt_seq; [apply gt_before_alloc|].
      apply t_allocD; [reflexivity | |].
      + intros m Hi [-> (A & B & C & D)]. cbn. split; [exact D|].
        pose proof (respL_perm _ _ _ _ _ A (sort_els_perm els)) as A'.
        eapply Forall_impl; [|exact A']. intros e [[V1 I1] [V2 I2]]. unfold validh in V1, V2.
        repeat split; auto; eapply incl_tran; eauto.
      + intros m m' id Hi [-> (A & B & C & D)] Hi' He Hv Hn.
        split; [|unfold vtree_of; now rewrite Hn].
        eapply dec_VI; eauto. eapply respL_stable; [|exact He]. eapply respL_perm; eauto. apply sort_els_perm.
  Qed.

  Definition inter (L S : list N) : list N := filter (fun x => nmem x S) L.
  Lemma inter_l : forall L S, incl (inter L S) L.
  Proof. intros L S x H. apply filter_In in H. tauto. Qed.
  Lemma inter_r : forall L S, incl (inter L S) S.
  Proof.
    intros L S x H. apply filter_In in H as [_ H]. unfold nmem in H. apply existsb_exists in H as [y [Hy E]].
    apply N.eqb_eq in E. now subst.
  Qed.
  Lemma inter_in : forall A L S, incl A L -> incl A S -> incl A (inter L S).
  Proof.
    intros A L S H1 H2 x Hx. apply filter_In. split; [auto|]. unfold nmem. apply existsb_exists.
    exists x. split; [auto | apply N.eqb_refl].
  Qed.

  Lemma VI_const0 : forall m L, DInv m -> VI m 0 L.
  Proof. intros m L Hd. destruct (valid0 m Hd) as (A & _ & C & _). split; [exact A|]. rewrite C. intros x []. Qed.
  Lemma VI_const1 : forall m L, DInv m -> VI m 1 L.
  Proof. intros m L Hd. destruct (valid0 m Hd) as (_ & A & _ & C). split; [exact A|]. rewrite C. intros x []. Qed.

  Lemma trim_D : forall m els Lp Ls r, DInv m -> respL m els Lp Ls -> trim els = Some r -> VI m r (Lp ++ Ls).
  Proof.
    intros m els Lp Ls r Hd H Ht.
    destruct els as [|[p1 s1] [|[p2 s2] [|? ?]]]; cbn in Ht; try discriminate.
    - injection Ht as <-. now apply VI_const0.
    - destruct (p1 =? ID_TRUE); [|discriminate]. injection Ht as <-.
      inversion H as [|? ? [_ Hs] _]; subst. cbn in Hs. eapply VI_mono; [exact Hs | apply incl_appr, incl_refl].
    - inversion H as [|? ? [Hp1 _] HT]; subst. inversion HT as [|? ? [Hp2 _] _]; subst. cbn in *.
      destruct ((s1 =? ID_TRUE) && (s2 =? ID_FALSE)).
      + injection Ht as <-. eapply VI_mono; [exact Hp1 | apply incl_appl, incl_refl].
      + destruct ((s2 =? ID_TRUE) && (s1 =? ID_FALSE)); [|discriminate].
        injection Ht as <-. eapply VI_mono; [exact Hp2 | apply incl_appl, incl_refl].
  Qed.

  Lemma respL_drop : forall m els Lp Ls, respL m els Lp Ls -> respL m (drop_false_primes els) Lp Ls.
  Proof.
    intros m els Lp Ls H. unfold respL, drop_false_primes in *. rewrite Forall_forall in *.
    intros e He. apply filter_In in He as [He _]. auto.
  Qed.

  (* ================================================================================================ *)
  Section BodiesD.
    Variable rapply : N -> N -> bop -> M N.
    Variable rnegate : N -> M N.
    Hypothesis HapplyD : forall a b o La Lb,
      gt (fun m => VI m a La /\ VI m b Lb) (rapply a b o) (fun r m => VI m r (La ++ Lb)).
    Hypothesis HnegateD : forall id L,
      gt (fun m => VI m id L) (rnegate id) (fun r m => VI m r L).

    Lemma forall_ungroup : forall (P : elem -> Prop) g,
      Forall P (ungroup g) <-> Forall (fun grp => Forall (fun p => P (p, fst grp)) (snd grp)) g.
    Proof.
      intros P g. induction g as [|[s ps] g IH]; [split; constructor|].
      unfold ungroup in *. cbn [flat_map fst snd]. rewrite Forall_app, IH. rewrite Forall_map.
      split; [intros [A B]; constructor; auto | intros H; inversion H; subst; split; auto].
    Qed.

    Lemma compress_D : forall els Lp Ls,
      gt (fun m => respL m els Lp Ls) (compress rapply els) (fun els' m => respL m els' Lp Ls).
    Proof.
      intros els Lp Ls. unfold compress.
      eapply gt_seq; [apply gt_checkpoint|].
      destruct (N.of_nat (length (group_by_sub els)) =? N.of_nat (length els)).
      { apply gt_ret. auto. }
      set (g := group_by_sub els).
      set (Pall := fun m : mgr => Forall (fun grp => Forall (fun p => VI m p Lp /\ VI m (fst grp) Ls) (snd grp)) g).
      assert (SPall : stable Pall).
      { unfold Pall. intros m m' H He. eapply Forall_impl; [|exact H]. intros grp Hg.
        eapply Forall_impl; [|exact Hg]. intros p [A B]. split; eapply VI_stable; eauto. }
      set (I := fun (acc : list elem) (dG : list (N * list N)) (m : mgr) => respL m acc Lp Ls).
      eapply gt_conseq.
      - refine (gt_mfoldl DInv _ Pall I g g SPall eq_refl _ [] []).
        intros acc dG grp gx Hin. pose proof (in_combine_l _ _ _ _ Hin) as Hing.
        assert (Hgrp : forall m, Pall m -> forall p, In p (snd grp) -> VI m p Lp /\ VI m (fst grp) Ls).
        { intros m HP q Hq. unfold Pall in HP. rewrite Forall_forall in HP. specialize (HP grp Hing).
          rewrite Forall_forall in HP. exact (HP q Hq). }
        destruct grp as [s [|p0 rest]]; cbn [snd fst] in *.
        { apply gt_fail. intros; discriminate. }
        set (P2 := fun m : mgr => I acc dG m /\ Pall m).
        assert (SP2 : stable P2).
        { apply stable_and; [|exact SPall]. unfold I. apply respL_stable. }
        set (I2 := fun (a : N) (dx : list N) (m : mgr) => VI m a Lp).
        eapply gt_bind.
        + eapply gt_pre.
          * refine (gt_mfoldl DInv (fun a p => rapply a p Or) P2 I2 rest rest SP2 eq_refl _ p0 []).
            intros a dx p px Hin2. pose proof (in_combine_l _ _ _ _ Hin2) as Hinp.
            eapply gt_conseq.
            -- apply (gt_call DInv (fun m => I2 a dx m /\ P2 m) _ _ _ (HapplyD a p Or Lp Lp)).
               ++ apply stable_and; [unfold I2; apply VI_stable | exact SP2].
               ++ intros m Hi [H1 [_ HPa]]. split; [exact H1|]. exact (proj1 (Hgrp m HPa p (or_intror Hinp))).
            -- intros m Hi H; exact H.
            -- intros r m Hi [H1 [_ H2]]. split; [|exact H2]. unfold I2. eapply VI_mono; [exact H1|].
               intros x Hx. apply in_app_or in Hx. tauto.
          * intros m Hi [HI HPa]. split; [|split; assumption]. unfold I2.
            exact (proj1 (Hgrp m HPa p0 (or_introl eq_refl))).
        + intros merged. apply gt_ret. intros m Hi [Hm [HI HPa]]. split; [|exact HPa].
          unfold I, respL in *. apply Forall_app. split; [exact HI|]. constructor; [|constructor].
          cbn [fst snd]. split; [exact Hm | exact (proj2 (Hgrp m HPa p0 (or_introl eq_refl)))].
      - intros m Hi H. split; [constructor|].
        unfold Pall. apply forall_ungroup with (P := fun e => VI m (fst e) Lp /\ VI m (snd e) Ls).
        eapply respL_perm; [exact H | apply Permutation_sym, group_by_sub_perm].
      - intros els' m Hi [H _]. exact H.
    Qed.

    (* ---- unique_d ----------------------------------------------------------------------------------- *)
    Lemma unique_d_D : forall vt els Lp Ls,
      gt (foa_pre vt els Lp Ls) (unique_d rapply vt els) (fun r m => VI m r (Lp ++ Ls)).
    Proof.
      intros vt els Lp Ls. unfold unique_d.
      eapply gt_seq; [apply gt_checkpoint|].
      destruct (trim (drop_false_primes els)) as [r|] eqn:E.
      - apply gt_ret. intros m Hi (A & _). eapply trim_D; [exact Hi | apply respL_drop; exact A | exact E].
      - eapply gt_bindk with (P1 := fun m => respL m (drop_false_primes els) Lp Ls)
                              (Q := fun els2 m => respL m els2 Lp Ls).
        + apply compress_D.
        + apply foa_pre_stable.
        + intros m Hi (A & _). now apply respL_drop.
        + intros els2. destruct (trim els2) as [r|] eqn:E2.
          * apply gt_ret. intros m Hi [A _]. eapply trim_D; eauto.
          * eapply gt_conseq; [apply (find_or_alloc_D vt els2 Lp Ls) | |].
            -- intros m Hi [A (_ & B & C & D)]. repeat split; assumption.
            -- intros r m Hi [A _]. exact A.
    Qed.

    (* ---- expand ------------------------------------------------------------------------------------- *)
    Lemma is_desc_vn : forall m d a, DInv m -> is_desc m d a = desc vn d a.
    Proof. intros m d a Hd. unfold is_desc, desc. now rewrite (d_vn m Hd). Qed.
    Lemma children_vn : forall m vt l r, DInv m -> vtree_children m vt = Some (l, r) ->
      vat vn vt = VInt l r /\ vvalid vn vt.
    Proof.
      intros m vt l r Hd H. unfold vtree_children, vnode_at in H. rewrite (d_vn m Hd) in H.
      fold (vat vn vt) in H. destruct (vat vn vt) as [v|l' r'] eqn:E; [discriminate|]. injection H as <- <-.
      split; [reflexivity|]. unfold vvalid. destruct (Nat.lt_ge_cases (N.to_nat vt) (length vn)); [assumption|].
      unfold vat in E. rewrite nth_overflow in E by lia. discriminate.
    Qed.

    Lemma expand_D : forall id vt L,
      gt (fun m => VI m id L /\ under m id vt) (expand rnegate id vt)
         (fun els m => respL m els (inter L (lset vt)) (inter L (rset vt))).
    Proof.
      intros id vt L. unfold expand.
      eapply gt_seq; [apply gt_checkpoint|].
      destruct (id =? ID_TRUE) eqn:E1.
      { apply gt_ret. intros m Hi _. constructor; [|constructor]. cbn. split; apply VI_const1; assumption. }
      destruct (id =? ID_FALSE) eqn:E0.
      { apply gt_ret. intros m Hi _. constructor; [|constructor]. cbn.
        split; [apply VI_const1 | apply VI_const0]; assumption. }
      apply gt_getm. intros m0.
      (* the branch for a node that is not a Decision at vt; nvne: its vtree node differs from vt *)
      assert (Hother : (forall nv, vtree_of m0 id = Some nv -> forall l r, vat vn vt = VInt l r -> nv <> vt) ->
                gt (fun m => m = m0 /\ VI m id L /\ under m id vt)
                (match vtree_children m0 vt, vtree_of m0 id with
                 | Some (lft, _), Some nv =>
                     if (nv =? lft) || is_desc m0 nv lft
                     then neg <- rnegate id ;; ret [(id, ID_TRUE); (neg, ID_FALSE)]
                     else ret [(ID_TRUE, id)]
                 | _, _ => fail Panic
                 end) (fun els m => respL m els (inter L (lset vt)) (inter L (rset vt)))).
      { intros Hne.
        destruct (vtree_children m0 vt) as [[lft rgt]|] eqn:Ec; [|apply gt_fail; intros; discriminate].
        destruct (vtree_of m0 id) as [nv|] eqn:Ev; [|apply gt_fail; intros; discriminate].
        destruct ((nv =? lft) || is_desc m0 nv lft) eqn:Econd.
        - apply gt_init. intros m1 Hi1 [-> [HV HU]].
          destruct (children_vn _ _ _ _ Hi1 Ec) as [Hat Hvt].
          assert (Hd : desc vn nv lft = true).
          { apply orb_prop in Econd as [E|E]; [apply N.eqb_eq in E; subst; apply desc_refl | now rewrite <- (is_desc_vn m0)]. }
          destruct (vtree_of_vars m0 id nv Hi1 (proj1 HV) Ev) as [_ Hincl].
          assert (HVl : VI m0 id (inter L (lset vt))).
          { split; [exact (proj1 HV)|]. apply inter_in; [exact (proj2 HV)|].
            unfold lset. rewrite Hat. eapply incl_tran; [exact Hincl | now apply (desc_incl' vn v2v H0)]. }
          apply gt_pre with (P' := fun m => VI m id (inter L (lset vt))); [|intros m Hi ->; exact HVl].
          eapply gt_bindk with (P1 := fun m => VI m id (inter L (lset vt))) (Q := fun r m => VI m r (inter L (lset vt))).
          + apply HnegateD.
          + apply VI_stable.
          + auto.
          + intros neg. apply gt_ret. intros m Hi [Hn Hid].
            constructor; [|constructor; [|constructor]]; cbn [fst snd].
            * split; [exact Hid | now apply VI_const1].
            * split; [exact Hn | now apply VI_const0].
        - apply gt_ret. intros m Hi [-> [HV HU]].
          destruct (children_vn _ _ _ _ Hi Ec) as [Hat Hvt].
          constructor; [|constructor]. cbn [fst snd]. split; [now apply VI_const1|].
          split; [exact (proj1 HV)|]. apply inter_in; [exact (proj2 HV)|].
          destruct HU as [_ HU]. rewrite Ev in HU.
          apply orb_false_elim in Econd as [En Ed]. rewrite (is_desc_vn _ _ _ Hi) in Ed.
          destruct (desc_children vn v2v H0 nv vt lft rgt Hat HU (Hne nv eq_refl lft rgt Hat)) as [Hl|Hr]; [congruence|].
          destruct (vtree_of_vars _ id nv Hi (proj1 HV) Ev) as [_ Hincl].
          unfold rset. rewrite Hat. eapply incl_tran; [exact Hincl | now apply (desc_incl' vn v2v H0)]. }
      destruct (node_at m0 id) as [| |v pol|dv els] eqn:En.
      - apply Hother. intros nv Hnv. unfold vtree_of in Hnv. rewrite En in Hnv. discriminate.
      - apply Hother. intros nv Hnv. unfold vtree_of in Hnv. rewrite En in Hnv. discriminate.
      - (* literal: its vtree node is a leaf, vt is internal *)
        apply gt_init. intros m1 Hi1 [-> [HV HU]].
        eapply gt_pre; [apply Hother | intros m Hi ->; split; [reflexivity | split; assumption]].
        intros nv Hnv l r Hat Heq. subst nv. unfold vtree_of in Hnv. rewrite En in Hnv.
        rewrite (d_v2v _ Hi1) in Hnv. apply alookupN_in in Hnv.
        destruct (vt_map _ _ H0 v vt Hnv) as [_ B]. congruence.
      - destruct (dv =? vt) eqn:Edv.
        + apply N.eqb_eq in Edv. subst dv. apply gt_ret. intros m Hi [-> [HV HU]].
          destruct (vars_dec _ id vt els Hi (proj1 HV) En) as (A & B & C).
          unfold respL, respects in *. rewrite Forall_forall in *. intros e He.
          destruct (B e He) as (V1 & V2 & I1 & I2).
          assert (Hsub : incl (vars m0 (fst e) ++ vars m0 (snd e)) L).
          { eapply incl_tran; [|exact (proj2 HV)]. rewrite A. intros x Hx. unfold flatvars. apply in_flat_map. eauto. }
          split; (split; [assumption|]); apply inter_in; auto.
          * eapply incl_tran; [apply incl_appl, incl_refl | exact Hsub].
          * eapply incl_tran; [apply incl_appr, incl_refl | exact Hsub].
        + apply Hother. intros nv Hnv l r Hat Heq. unfold vtree_of in Hnv. rewrite En in Hnv.
          injection Hnv as <-. subst dv. now rewrite N.eqb_refl in Edv.
    Qed.

    (* ---- normalize_to ----------------------------------------------------------------------------------- *)
    Lemma under_self : forall m r vt, validh m r -> vtree_of m r = Some vt -> under m r vt.
    Proof. intros m r vt Hv H. split; [exact Hv|]. rewrite H. apply desc_refl. Qed.

    Lemma normalize_D : forall id target L,
      gt (fun m => VI m id L /\ under m id target) (normalize_to rapply rnegate id target)
         (fun r m => VI m r L /\ under m r target).
    Proof.
      intros id target L. unfold normalize_to.
      eapply gt_seq; [apply gt_checkpoint|].
      destruct ((id =? ID_TRUE) || (id =? ID_FALSE)) eqn:Ec; [apply gt_ret; auto|].
      apply orb_false_elim in Ec as [Ec1 Ec0].
      apply gt_getm. intros m0.
      destruct (vtree_of m0 id) as [v|] eqn:Ev; [|apply gt_ret; intros m Hi [_ H]; exact H].
      destruct (v =? target); [apply gt_ret; intros m Hi [_ H]; exact H|].
      destruct (vtree_children m0 target) as [[lft rgt]|] eqn:Ech; [|apply gt_fail; intros; discriminate].
      destruct (is_desc m0 v lft) eqn:Edl.
      - apply gt_init. intros m1 Hi1 [-> [HV HU]].
        destruct (children_vn _ _ _ _ Hi1 Ech) as [Hat Hvt].
        rewrite (is_desc_vn _ _ _ Hi1) in Edl.
        destruct (vtree_of_vars m0 id v Hi1 (proj1 HV) Ev) as [_ Hincl].
        assert (HVl : VI m0 id (inter L (lset target))).
        { split; [exact (proj1 HV)|]. apply inter_in; [exact (proj2 HV)|].
          unfold lset. rewrite Hat. eapply incl_tran; [exact Hincl | now apply (desc_incl' vn v2v H0)]. }
        apply gt_pre with (P' := fun m => VI m id (inter L (lset target)) /\ under m id target);
          [|intros m Hi ->; split; assumption].
        eapply gt_bindk with (P1 := fun m => VI m id (inter L (lset target))) (Q := fun r m => VI m r (inter L (lset target))).
        + apply HnegateD.
        + apply stable_and; [apply VI_stable | apply under_stable].
        + intros m Hi [A _]; exact A.
        + intros neg. unfold make_decision_raw.
          eapply gt_seq; [apply gt_checkpoint|].
          unfold drop_false_primes. cbn [filter fst]. rewrite Ec0. cbn [negb].
          destruct (neg =? ID_FALSE) eqn:En0; cbn [negb trim].
          * (* the negation is FALSE: a Decision {(id, TRUE)} at target *)
            rewrite Ec1.
            eapply gt_conseq; [apply (find_or_alloc_D target [(id, ID_TRUE)] (inter L (lset target)) []) | |].
            -- intros m Hi [Hn [Hid _]]. split; [|split; [apply inter_r | split; [intros x [] | exact Hvt]]].
               constructor; [|constructor]. cbn [fst snd]. split; [exact Hid | now apply VI_const1].
            -- intros r m Hi [A B]. split; [|apply under_self; [exact (proj1 A) | exact B]].
               eapply VI_mono; [exact A|]. rewrite app_nil_r. apply inter_l.
          * replace ((ID_TRUE =? ID_TRUE) && (ID_FALSE =? ID_FALSE)) with true by reflexivity.
            apply gt_ret. intros m Hi [_ [Hid HU']]. split; [|exact HU']. eapply VI_mono; [exact Hid | apply inter_l].
      - destruct (is_desc m0 v rgt); [|apply gt_ret; intros m Hi [_ H]; exact H].
        unfold unique_d. eapply gt_seq; [apply gt_checkpoint|].
        unfold drop_false_primes. cbn [filter fst].
        replace (negb (ID_TRUE =? ID_FALSE)) with true by reflexivity. cbn [trim].
        replace (ID_TRUE =? ID_TRUE) with true by reflexivity.
        apply gt_ret. intros m Hi [_ H]; exact H.
    Qed.

    (* ---- apply_same_vtree -------------------------------------------------------------------------------- *)
    Lemma same_vtree_D : forall a b o vt La Lb,
      gt (fun m => VI m a La /\ VI m b Lb /\ under m a vt /\ under m b vt /\ vvalid vn vt)
         (apply_same_vtree rapply rnegate a b o vt) (fun r m => VI m r (La ++ Lb)).
    Proof.
      intros a b o vt La Lb. unfold apply_same_vtree.
      set (P0 := fun m : mgr => VI m a La /\ VI m b Lb /\ under m a vt /\ under m b vt /\ vvalid vn vt).
      assert (SP0 : stable P0).
      { unfold P0. stab. }
      set (LpA := inter La (lset vt)). set (LsA := inter La (rset vt)).
      set (LpB := inter Lb (lset vt)). set (LsB := inter Lb (rset vt)).
      eapply gt_bindk with (P1 := fun m => VI m a La /\ under m a vt) (Q := fun ea m => respL m ea LpA LsA).
      { apply expand_D. } { exact SP0. } { intros m Hi (A & B & C & D & E). split; assumption. }
      intros ea.
      eapply gt_bindk with (P1 := fun m => VI m b Lb /\ under m b vt) (Q := fun eb m => respL m eb LpB LsB).
      { apply expand_D. } { apply stable_and; [apply respL_stable | exact SP0]. }
      { intros m Hi (_ & A & B & C & D & E). split; assumption. }
      intros eb.
      set (Pall := fun m : mgr => respL m eb LpB LsB /\ respL m ea LpA LsA /\ P0 m).
      assert (SPall : stable Pall).
      { unfold Pall. stab. }
      set (I := fun (acc : list elem) (dG : list (elem * elem)) (m : mgr) => respL m acc (LpA ++ LpB) (LsA ++ LsB)).
      eapply gt_bind with (Q := fun els m => respL m els (LpA ++ LpB) (LsA ++ LsB) /\ Pall m).
      - eapply gt_conseq.
        + refine (gt_mfoldl DInv _ Pall I (list_prod ea eb) (list_prod ea eb) SPall eq_refl _ [] []).
          intros acc dG [[pa sa] [pb sb]] g Hin. pose proof (in_combine_l _ _ _ _ Hin) as Hinp. cbn [fst snd].
          apply in_prod_iff in Hinp as [Hia Hib].
          set (P2 := fun m : mgr => I acc dG m /\ Pall m).
          assert (SP2 : stable P2) by (apply stable_and; [unfold I; apply respL_stable | exact SPall]).
          assert (Hel : forall m, P2 m -> (VI m pa LpA /\ VI m sa LsA) /\ (VI m pb LpB /\ VI m sb LsB)).
          { intros m [_ (HB & HA & _)]. unfold respL in HA, HB. rewrite Forall_forall in HA, HB.
            split; [exact (HA _ Hia) | exact (HB _ Hib)]. }
          eapply gt_seq; [apply gt_checkpoint|].
          eapply gt_bindk with (P1 := fun m => VI m pa LpA /\ VI m pb LpB) (Q := fun r m => VI m r (LpA ++ LpB)).
          { apply (HapplyD pa pb And). } { exact SP2. }
          { intros m Hi H. destruct (Hel m H) as [[? ?] [? ?]]. split; assumption. }
          intros prime. destruct (prime =? ID_FALSE).
          * apply gt_ret. intros m Hi [_ [HI HP]]. split; assumption.
          * eapply gt_bindk with (P1 := fun m => VI m sa LsA /\ VI m sb LsB) (Q := fun r m => VI m r (LsA ++ LsB)).
            { apply (HapplyD sa sb o). } { apply stable_and; [apply VI_stable | exact SP2]. }
            { intros m Hi [_ H]. destruct (Hel m H) as [[? ?] [? ?]]. split; assumption. }
            intros sub. apply gt_ret. intros m Hi [Hs [Hp [HI HP]]]. split; [|exact HP].
            unfold I, respL in *. apply Forall_app. split; [exact HI|]. constructor; [|constructor]. split; assumption.
        + intros m Hi H. split; [constructor | exact H].
        + intros els m Hi [HI HP]. split; assumption.
      - intros els. eapply gt_conseq; [apply (unique_d_D vt els (LpA ++ LpB) (LsA ++ LsB)) | |].
        + intros m Hi [HI (_ & _ & (_ & _ & _ & _ & Hvt))]. split; [exact HI|].
          split; [|split; [|exact Hvt]]; apply incl_app; apply inter_r.
        + intros r m Hi H. eapply VI_mono; [exact H|].
          intros x Hx. apply in_or_app.
          apply in_app_or in Hx as [Hx|Hx]; apply in_app_or in Hx as [Hx|Hx]; apply inter_l in Hx; auto.
    Qed.

    (* ---- apply_norm / apply_inner --------------------------------------------------------------------------- *)
    Lemma apply_norm_D : forall a b o t La Lb,
      gt (fun m => VI m a La /\ VI m b Lb /\ under m a t /\ under m b t /\ vvalid vn t)
         (apply_norm rapply rnegate a b o t) (fun r m => VI m r (La ++ Lb)).
    Proof.
      intros a b o t La Lb. unfold apply_norm.
      set (P0 := fun m : mgr => VI m a La /\ VI m b Lb /\ under m a t /\ under m b t /\ vvalid vn t).
      assert (SP0 : stable P0) by (unfold P0; stab).
      eapply gt_bindk with (P1 := fun m => VI m a La /\ under m a t) (Q := fun l m => VI m l La /\ under m l t).
      { apply normalize_D. } { exact SP0. } { intros m Hi (A & B & C & D & E). split; assumption. }
      intros l.
      eapply gt_bindk with (P1 := fun m => VI m b Lb /\ under m b t) (Q := fun r m => VI m r Lb /\ under m r t).
      { apply normalize_D. } { stab. } { intros m Hi (_ & A & B & C & D & E). split; assumption. }
      intros r. eapply gt_pre; [apply (same_vtree_D l r o t La Lb)|].
      intros m Hi ([A B] & [C D] & (_ & _ & _ & _ & E)).
      split; [exact C|]. split; [exact A|]. split; [exact D|]. split; [exact B | exact E].
    Qed.

    Lemma apply_inner_D : forall a b o La Lb,
      gt (fun m => VI m a La /\ VI m b Lb) (apply_inner rapply rnegate a b o) (fun r m => VI m r (La ++ Lb)).
    Proof.
      intros a b o La Lb. unfold apply_inner.
      eapply gt_seq; [apply gt_checkpoint|].
      apply gt_getm. intros m0. apply gt_init. intros m1 Hi1 [-> [HA HB]].
      assert (Hnorm : forall t, under m0 a t -> under m0 b t -> vvalid vn t ->
                gt (fun m => m = m0) (apply_norm rapply rnegate a b o t) (fun r m => VI m r (La ++ Lb))).
      { intros t Ua Ub Vt. eapply gt_pre; [apply (apply_norm_D a b o t La Lb)|].
        intros m Hi ->. repeat split; try assumption; try apply HA; try apply HB; try apply Ua; try apply Ub. }
      destruct (vtree_of m0 a) as [va|] eqn:Eva; destruct (vtree_of m0 b) as [vb|] eqn:Evb.
      - destruct (vtree_of_vars m0 a va Hi1 (proj1 HA) Eva) as [Vva _].
        destruct (vtree_of_vars m0 b vb Hi1 (proj1 HB) Evb) as [Vvb _].
        destruct (va =? vb) eqn:Eab.
        + apply N.eqb_eq in Eab. subst vb. eapply gt_pre; [apply (same_vtree_D a b o va La Lb)|].
          intros m Hi ->. split; [exact HA|]. split; [exact HB|].
          split; [apply under_self; [exact (proj1 HA) | exact Eva]|].
          split; [apply under_self; [exact (proj1 HB) | exact Evb] | exact Vva].
        + rewrite !(is_desc_vn m0) by exact Hi1.
          destruct (desc vn va vb) eqn:D1.
          * apply Hnorm; [split; [exact (proj1 HA) | now rewrite Eva] | apply under_self; [exact (proj1 HB) | exact Evb] | exact Vvb].
          * destruct (desc vn vb va) eqn:D2.
            -- apply Hnorm; [apply under_self; [exact (proj1 HA) | exact Eva] | split; [exact (proj1 HB) | now rewrite Evb] | exact Vva].
            -- destruct (find_lca m0 va vb) as [t|] eqn:El; [|apply gt_fail; intros; discriminate].
               unfold find_lca in El. rewrite (d_vn _ Hi1), (d_root _ Hi1) in El.
               destruct (lca_sound vn v2v root H0 va vb t (proj2 HVt) Vva Vvb El) as [L1 L2].
               assert (Vt : vvalid vn t).
               { destruct (N.eq_dec va t) as [<-|Hne]; [exact Vva|]. exact (proj1 (desc_valid_int vn va t L1 Hne)). }
               apply Hnorm; [split; [exact (proj1 HA) | now rewrite Eva] | split; [exact (proj1 HB) | now rewrite Evb] | exact Vt].
      - destruct (vtree_of_vars m0 a va Hi1 (proj1 HA) Eva) as [Vva _].
        apply Hnorm; [apply under_self; [exact (proj1 HA) | exact Eva] | split; [exact (proj1 HB) | now rewrite Evb] | exact Vva].
      - destruct (vtree_of_vars m0 b vb Hi1 (proj1 HB) Evb) as [Vvb _].
        apply Hnorm; [split; [exact (proj1 HA) | now rewrite Eva] | apply under_self; [exact (proj1 HB) | exact Evb] | exact Vvb].
      - apply gt_fail; intros; discriminate.
    Qed.

    (* ---- apply (body) ------------------------------------------------------------------------------------- *)
    Lemma incl_app_l : forall (A B : list N), incl A (A ++ B).
    Proof. intros. apply incl_appl, incl_refl. Qed.
    Lemma incl_app_r : forall (A B : list N), incl B (A ++ B).
    Proof. intros. apply incl_appr, incl_refl. Qed.
    Lemma incl_app2 : forall (A B A' B' : list N), incl A A' -> incl B B' -> incl (A ++ B) (A' ++ B').
    Proof. intros A B A' B' H1 H2. apply incl_app; [apply incl_appl | apply incl_appr]; assumption. Qed.

    Lemma acache_ins_D : forall m a b o r,
      DInv m -> validh m a -> validh m b -> VI m r (vars m a ++ vars m b) ->
      DInv (acache_ins (cache_key a b o) r m) /\ ext m (acache_ins (cache_key a b o) r m).
    Proof.
      intros m a b o r Hd Ha Hb [Hr Hi]. split.
      - constructor; try apply Hd.
        cbn [acache acache_ins]. intros a' b' o' r' [Heq|Hin]; [|exact (d_acache m Hd _ _ _ _ Hin)].
        unfold cache_key in Heq. destruct (a <=? b); injection Heq as E1 E2 E3 E4; subst a' b' o' r'.
        + unfold validh, vars, vars_of in *. cbn. repeat split; assumption.
        + unfold validh, vars, vars_of in *. cbn. repeat split; try assumption.
          intros x Hx. specialize (Hi x Hx). apply in_or_app. apply in_app_or in Hi. tauto.
      - split; [exists []; cbn; now rewrite app_nil_r | repeat split].
    Qed.

    Lemma apply_body_D : forall a b o La Lb,
      gt (fun m => VI m a La /\ VI m b Lb) (apply_body rapply rnegate a b o) (fun r m => VI m r (La ++ Lb)).
    Proof.
      intros a b o La Lb. unfold apply_body.
      eapply gt_seq; [apply gt_checkpoint|].
      destruct (terminal a b o) as [r|] eqn:Et.
      { apply gt_ret. intros m Hi [HA HB]. unfold terminal in Et.
        assert (Hc : r = 0 \/ r = 1 \/ r = a \/ r = b).
        { unfold ID_FALSE, ID_TRUE in Et. destruct o;
            repeat match type of Et with (if ?c then _ else _) = _ => destruct c end;
            try discriminate; injection Et as <-; auto. }
        destruct Hc as [->|[->|[->| ->]]];
          [now apply VI_const0 | now apply VI_const1 | eapply VI_mono; [exact HA | apply incl_app_l]
           | eapply VI_mono; [exact HB | apply incl_app_r]]. }
      apply gt_getm. intros m0.
      destruct (compl_lits (node_at m0 a) (node_at m0 b) o) as [r|] eqn:Ec.
      { apply gt_ret. intros m Hi _. unfold compl_lits in Ec.
        destruct (node_at m0 a); try discriminate. destruct (node_at m0 b); try discriminate.
        destruct ((v =? v0) && negb (Bool.eqb pol pol0)); [|discriminate]. injection Ec as <-.
        destruct o; [now apply VI_const0 | now apply VI_const1]. }
      destruct (alookup akey_eqb (cache_key a b o) (acache m0)) as [r|] eqn:El.
      { apply gt_ret. intros m Hi [-> [HA HB]].
        apply (alookup_in akey_eqb akey_eqb_eq) in El. unfold cache_key in El.
        destruct (a <=? b); destruct (d_acache _ Hi _ _ _ _ El) as (V1 & V2 & V3 & I3); (split; [exact V3|]);
          (eapply incl_tran; [exact I3|]).
        - apply incl_app2; [exact (proj2 HA) | exact (proj2 HB)].
        - intros x Hx. apply in_or_app. apply in_app_or in Hx as [Hx|Hx]; [right; now apply (proj2 HB) | left; now apply (proj2 HA)]. }
      apply gt_init. intros m1 Hi1 [-> [HA HB]].
      set (La0 := vars m0 a). set (Lb0 := vars m0 b).
      set (P0 := fun m : mgr => VE m a La0 /\ VE m b Lb0).
      assert (SP0 : stable P0) by (unfold P0; apply stable_and; apply VE_stable).
      apply gt_pre with (P' := P0); [|intros m Hi ->; split; (split; [|reflexivity]); [exact (proj1 HA) | exact (proj1 HB)]].
      eapply gt_bindk with (P1 := fun m => VI m a La0 /\ VI m b Lb0) (Q := fun r m => VI m r (La0 ++ Lb0)).
      { apply apply_inner_D. } { exact SP0. } { intros m Hi [A B]. split; apply VE_VI; assumption. }
      intros r. eapply gt_bind.
      - apply gt_modm with (Q := fun _ m => VI m r (La0 ++ Lb0)).
        intros m Hi [Hr [[Va Ia] [Vb Ib]]].
        assert (Hr' : VI m r (vars m a ++ vars m b)) by (rewrite Ia, Ib; exact Hr).
        destruct (acache_ins_D m a b o r Hi Va Vb Hr') as [H1 H2].
        split; [exact H1|]. split; [exact H2|]. eapply VI_stable; [exact Hr | exact H2].
      - intros u. apply gt_ret. intros m Hi Hr. eapply VI_mono; [exact Hr|].
        apply incl_app2; [exact (proj2 HA) | exact (proj2 HB)].
    Qed.

    (* ---- negate (body) -------------------------------------------------------------------------------------- *)
    Lemma ncache_ins_D : forall m id r,
      DInv m -> validh m id -> VI m r (vars m id) ->
      DInv (ncache_ins id r m) /\ ext m (ncache_ins id r m).
    Proof.
      intros m id r Hd Ha [Hr Hi]. split.
      - constructor; try apply Hd.
        cbn [ncache ncache_ins]. intros id' r' [Heq|Hin]; [|exact (d_ncache m Hd _ _ Hin)].
        injection Heq as E1 E2; subst id' r'. unfold validh, vars, vars_of in *. cbn. repeat split; assumption.
      - split; [exists []; cbn; now rewrite app_nil_r | repeat split].
    Qed.

    Lemma negate_body_D : forall id L,
      gt (fun m => VI m id L) (negate_body rapply rnegate id) (fun r m => VI m r L).
    Proof.
      intros id L. unfold negate_body.
      eapply gt_seq; [apply gt_checkpoint|].
      destruct (id =? ID_FALSE). { apply gt_ret. intros m Hi _. now apply VI_const1. }
      destruct (id =? ID_TRUE). { apply gt_ret. intros m Hi _. now apply VI_const0. }
      apply gt_getm. intros m0.
      destruct (alookup N.eqb id (ncache m0)) as [r|] eqn:El.
      { apply gt_ret. intros m Hi [-> HA].
        apply (alookup_in N.eqb) in El; [|intros ? ? HH; now apply N.eqb_eq in HH].
        destruct (d_ncache _ Hi _ _ El) as (V1 & V2 & I2). split; [exact V2|].
        eapply incl_tran; [exact I2 | exact (proj2 HA)]. }
      apply gt_init. intros m1 Hi1 [-> HA].
      set (L0 := vars m0 id).
      set (P0 := fun m : mgr => VE m id L0).
      assert (SP0 : stable P0) by (unfold P0; apply VE_stable).
      assert (HP0 : P0 m0) by (split; [exact (proj1 HA) | reflexivity]).
      assert (Hcont : forall r, gt (fun m => VI m r L0 /\ P0 m) (modm (ncache_ins id r) ;;; ret r) (fun r m => VI m r L)).
      { intros r. eapply gt_bind.
        + apply gt_modm with (Q := fun _ m => VI m r L0).
          intros m Hi [Hr [Va Ia]].
          assert (Hr' : VI m r (vars m id)) by (rewrite Ia; exact Hr).
          destruct (ncache_ins_D m id r Hi Va Hr') as [H1 H2].
          split; [exact H1|]. split; [exact H2|]. eapply VI_stable; [exact Hr | exact H2].
        + intros u. apply gt_ret. intros m Hi Hr. eapply VI_mono; [exact Hr | exact (proj2 HA)]. }
      destruct (node_at m0 id) as [| |v pol|vt els] eqn:En.
      - eapply gt_bind; [apply gt_fail; intros; discriminate | intros; apply Hcont].
      - eapply gt_bind; [apply gt_fail; intros; discriminate | intros; apply Hcont].
      - (* literal *)
        assert (Hreg : exists i, In (v, i) v2v).
        { pose proof (d_nodes _ Hi1 _ (proj1 HA)) as Hk. unfold node_at in En. rewrite En in Hk. exact Hk. }
        assert (HL0 : L0 = [v]) by (unfold L0; now rewrite (vars_lit m0 id v pol (proj1 HA) En)).
        apply gt_pre with (P' := P0); [|intros m Hi ->; exact HP0].
        eapply gt_bind; [|exact Hcont].
        eapply gt_conseq.
        + apply (gt_call DInv P0 (fun _ => True) _ _ (literal_D v (negb pol) Hreg)); [exact SP0 | auto].
        + auto.
        + intros r m Hi [Hr HP]. split; [|exact HP]. now rewrite HL0.
      - (* decision *)
        destruct (vars_dec m0 id vt els Hi1 (proj1 HA) En) as (A & B & C).
        set (Lp := inter L0 (lset vt)). set (Ls := inter L0 (rset vt)).
        assert (HR0 : respL m0 els Lp Ls).
        { unfold respL, respects in *. rewrite Forall_forall in *. intros e He.
          destruct (B e He) as (V1 & V2 & I1 & I2).
          assert (Hsub : incl (vars m0 (fst e) ++ vars m0 (snd e)) L0).
          { unfold L0. rewrite A. intros x Hx. unfold flatvars. apply in_flat_map. eauto. }
          split; (split; [assumption|]); apply inter_in; auto.
          - eapply incl_tran; [apply incl_app_l | exact Hsub].
          - eapply incl_tran; [apply incl_app_r | exact Hsub]. }
        set (Pall := fun m : mgr => respL m els Lp Ls /\ P0 m).
        assert (SPall : stable Pall) by (unfold Pall; stab).
        set (I := fun (acc : list elem) (dG : list elem) (m : mgr) => respL m acc Lp Ls).
        apply gt_pre with (P' := fun m => I [] [] m /\ Pall m);
          [|intros m Hi ->; split; [constructor | split; assumption]].
        eapply gt_bind; [|exact Hcont].
        eapply gt_bind with (Q := fun negs m => respL m negs Lp Ls /\ Pall m).
        + eapply gt_conseq.
          * refine (gt_mfoldl DInv _ Pall I els els SPall eq_refl _ [] []).
            intros acc dG [p s0] g Hin. pose proof (in_combine_l _ _ _ _ Hin) as Hine. cbn [fst snd].
            eapply gt_bindk with (P1 := fun m => VI m s0 Ls) (Q := fun r m => VI m r Ls).
            { apply HnegateD. } { unfold I. stab. }
            { intros m Hi [_ [HR _]]. unfold respL in HR. rewrite Forall_forall in HR. exact (proj2 (HR _ Hine)). }
            intros ns. apply gt_ret. intros m Hi [Hns [HI [HR HP]]]. split; [|split; assumption].
            unfold I, respL in *. apply Forall_app. split; [exact HI|]. constructor; [|constructor].
            cbn [fst snd]. split; [|exact Hns]. rewrite Forall_forall in HR. exact (proj1 (HR _ Hine)).
          * auto.
          * intros negs m Hi H. exact H.
        + intros negs. eapply gt_conseq.
          * apply (gt_call DInv (fun m => respL m negs Lp Ls /\ Pall m) (foa_pre vt negs Lp Ls) _ _ (unique_d_D vt negs Lp Ls)).
            -- stab.
            -- intros m Hi [HRn _]. split; [exact HRn|]. split; [apply inter_r|]. split; [apply inter_r | exact C].
          * auto.
          * intros r m Hi [Hr [_ [_ HP]]]. split; [|exact HP]. eapply VI_mono; [exact Hr|].
            apply incl_app; apply inter_l.
    Qed.
  End BodiesD.

  (* ---- fuel induction, exactly_one ---------------------------------------------------------------------- *)
  Lemma fuel_D : forall fuel,
    (forall a b o La Lb, gt (fun m => VI m a La /\ VI m b Lb) (apply_f fuel a b o) (fun r m => VI m r (La ++ Lb))) /\
    (forall id L, gt (fun m => VI m id L) (negate_f fuel id) (fun r m => VI m r L)).
  Proof.
    induction fuel as [|f [IHa IHn]].
    - split; intros; cbn [apply_f negate_f]; apply gt_fail; intros; discriminate.
    - split; intros; cbn [apply_f negate_f].
      + apply apply_body_D; assumption.
      + apply negate_body_D; assumption.
  Qed.
  Lemma apply_f_D : forall fuel a b o La Lb,
    gt (fun m => VI m a La /\ VI m b Lb) (apply_f fuel a b o) (fun r m => VI m r (La ++ Lb)).
  Proof. intros fuel. apply (fuel_D fuel). Qed.
  Lemma negate_f_D : forall fuel id L, gt (fun m => VI m id L) (negate_f fuel id) (fun r m => VI m r L).
  Proof. intros fuel. apply (fuel_D fuel). Qed.

  Definition regd (v : N) : Prop := exists i, In (v, i) v2v.

  Lemma exactly_one_D : forall fuel vars0, Forall regd vars0 ->
    gt (fun _ => True) (exactly_one fuel vars0) (fun r m => VI m r vars0).
  Proof.
    intros fuel vars0. induction vars0 as [|v rest IH]; intros Hreg; cbn [exactly_one].
    - eapply gt_seq; [apply gt_checkpoint|]. apply gt_ret. intros m Hi _. now apply VI_const0.
    - inversion Hreg as [|? ? Hv Hrest]; subst.
      eapply gt_seq; [apply gt_checkpoint|]. destruct rest as [|w rest'].
      + eapply gt_post; [apply literal_D; exact Hv|]. auto.
      + set (rest := w :: rest') in *.
        eapply gt_bindk with (P1 := fun _ => True) (Q := fun r m => VI m r [v]).
        { apply literal_D; exact Hv. } { apply stable_true. } { auto. }
        intros ft.
        eapply gt_bindk with (P1 := fun _ => True) (Q := fun r m => VI m r [v]).
        { apply literal_D; exact Hv. } { stab. } { auto. }
        intros ff.
        set (P2 := fun m : mgr => VI m ff [v] /\ VI m ft [v] /\ True).
        assert (SP2 : stable P2) by (unfold P2; stab).
        set (I := fun (acc : N) (dG : list N) (m : mgr) => VI m acc dG).
        eapply gt_bind with (Q := fun allf m => I allf rest m /\ P2 m).
        * eapply gt_conseq.
          -- refine (gt_mfoldl DInv _ P2 I rest rest SP2 eq_refl _ ID_TRUE []).
             intros acc dG r g Hin. pose proof (in_combine_l _ _ _ _ Hin) as Hinr.
             apply in_combine_same in Hin. subst g.
             assert (Hr : regd r) by (rewrite Forall_forall in Hrest; auto).
             eapply gt_bindk with (P1 := fun _ => True) (Q := fun lf m => VI m lf [r]).
             { apply literal_D; exact Hr. } { unfold I. stab. } { auto. }
             intros lf. eapply gt_conseq.
             ++ apply (gt_call DInv (fun m => VI m lf [r] /\ I acc dG m /\ P2 m) _ _ _ (apply_f_D fuel acc lf And dG [r])).
                ** unfold I. stab.
                ** intros m Hi [H1 [H2 _]]. split; assumption.
             ++ auto.
             ++ intros r0 m Hi [Hr0 [_ [_ HP]]]. split; [exact Hr0 | exact HP].
          -- intros m Hi HP. split; [|exact HP]. unfold I. now apply VI_const1.
          -- intros allf m Hi H. exact H.
        * intros allf.
          eapply gt_bindk with (P1 := fun m => VI m ft [v] /\ VI m allf rest) (Q := fun r m => VI m r ([v] ++ rest)).
          { apply (apply_f_D fuel ft allf And). } { unfold I. stab. }
          { intros m Hi [H1 [_ [H2 _]]]. split; assumption. }
          intros lb.
          eapply gt_bindk with (P1 := fun _ => True) (Q := fun r m => VI m r rest).
          { apply IH; exact Hrest. } { unfold I. stab. } { auto. }
          intros rc.
          eapply gt_bindk with (P1 := fun m => VI m ff [v] /\ VI m rc rest) (Q := fun r m => VI m r ([v] ++ rest)).
          { apply (apply_f_D fuel ff rc And). } { unfold I. stab. }
          { intros m Hi [H1 [_ [_ [H2 _]]]]. split; assumption. }
          intros rb.
          eapply gt_conseq.
          -- apply (apply_f_D fuel lb rb Or ([v] ++ rest) ([v] ++ rest)).
          -- intros m Hi [H1 [_ [H2 _]]]. split; assumption.
          -- intros r m Hi H. eapply VI_mono; [exact H|]. apply incl_app; apply incl_refl.
  Qed.

  (* ---- decomposability follows ---------------------------------------------------------------------------- *)
  Lemma lrset_disjoint : forall vt, disjoint (lset vt) (rset vt).
  Proof.
    intros vt. unfold lset, rset. destruct (vat vn vt) as [v|l r] eqn:E; [intros x []|].
    destruct (Nat.lt_ge_cases (N.to_nat vt) (length vn)) as [Hlt|Hge].
    - exact (proj2 (proj2 (vt_int _ _ H0 vt l r Hlt E))).
    - unfold vat in E. rewrite nth_overflow in E by lia. discriminate.
  Qed.
End Fix.
