(* Decidable reducedness check for the right-linear vtrees the manager builds: every internal vtree node has a leaf as
   left child, and every Decision node is { (literal x, s1), (literal not-x, s2) } (sorted by prime handle) for the
   variable x of the left leaf, compressed (s1 <> s2) and not trimmable. *)
Require Import KV.Sdd.Model KV.Sdd.Sem.

Definition rl_vtree (m : mgr) : bool :=
  forallb (fun vnd => match vnd with
                      | VInt l _ => match vnode_at m l with VLeaf _ => true | _ => false end
                      | VLeaf _ => true
                      end) (vnodes m).

Definition is_lit (m : mgr) (id x : N) (pol : bool) : bool :=
  match node_at m id with NLit v p => (v =? x) && Bool.eqb p pol | _ => false end.

Definition reduced_node (m : mgr) (n : node) : bool :=
  match n with
  | NDec vt els =>
      match vnode_at m vt with
      | VInt l _ =>
          match vnode_at m l, els with
          | VLeaf x, [(p1, s1); (p2, s2)] =>
              (p1 <? p2) &&
              ((is_lit m p1 x true && is_lit m p2 x false) || (is_lit m p1 x false && is_lit m p2 x true)) &&
              negb (s1 =? s2) &&
              negb ((s1 =? 1) && (s2 =? 0)) && negb ((s2 =? 1) && (s1 =? 0))
          | _, _ => false
          end
      | VLeaf _ => false
      end
  | _ => true
  end.

Definition reduced_ok (m : mgr) : bool := rl_vtree m && forallb (reduced_node m) (nodes m).
