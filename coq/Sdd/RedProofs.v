(* REDUCEDNESS pass (a copy of SafeProofs.v with a stronger invariant): besides the positional invariant, every Decision
   node has no FALSE prime, is not trimmable, has pairwise distinct subs and is stored sorted; negate-cache entries map
   literals to literals.  Original header follows.
   Safety / totality: under the positional invariant PInv (every Decision node sits at an internal vtree node, its
   primes below the left child and its subs below the right child; only node 0 is FALSE and only node 1 is TRUE;
   literals are over registered variables; the unique table is sound AND complete, so equal nodes have equal
   handles; cache entries are positioned) every operation, given fuel above 2 * (number of vtree nodes) + 3,
   ends with Ok or a budget error: never out of fuel, never on a Rust panic path. *)
Require Import KV.Sdd.Model KV.Sdd.Sem KV.Sdd.Spec KV.Sdd.Decomp KV.Sdd.History.
Require Import KV.Sdd.SemProofs KV.Sdd.Hoare KV.Sdd.SHoare KV.Sdd.OpsProofs KV.Sdd.TopProofs KV.Sdd.MainProofs.
Require Import KV.Sdd.Vtree KV.Sdd.Vtree2 KV.Sdd.DecompProofs.
Require Import Lia Permutation.

Definition key_of (n : node) : ukey :=
  match n with NLit v p => KLit v p | NDec vt els => KDec vt els | _ => KLit 0 true end.

Lemma ukey_eqb_refl : forall k, ukey_eqb k k = true.
Proof.
  assert (He : forall e, els_eqb e e = true).
  { induction e as [|[p s] e IH]; [reflexivity|]. cbn. unfold elem_eqb. cbn. now rewrite !N.eqb_refl, IH. }
  intros [v p|vt els]; cbn; rewrite N.eqb_refl; [destruct p; reflexivity | apply He].
Qed.

Lemma alookup_cons_ne : forall k k' (v : N) l, k <> k' -> alookup ukey_eqb k ((k', v) :: l) = alookup ukey_eqb k l.
Proof.
  intros k k' v l H. cbn. destruct (ukey_eqb k k') eqn:E; [apply ukey_eqb_eq in E; contradiction | reflexivity].
Qed.

Lemma opt_case : forall {A} (o : option A), (exists x, o = Some x) \/ o = None.
Proof. intros A [x|]; eauto. Qed.

Lemma st_conj : forall Inv {A} (P : mgr -> Prop) (c : M A) (Q1 Q2 : A -> mgr -> Prop),
  striple Inv P c Q1 -> striple Inv P c Q2 -> striple Inv P c (fun a m => Q1 a m /\ Q2 a m).
Proof.
  intros Inv A P c Q1 Q2 H1 H2 m b Hi Hp. destruct (H1 m b Hi Hp) as (A1 & B1 & C1). destruct (H2 m b Hi Hp) as (_ & _ & C2).
  split; [exact A1|]. split; [exact B1|]. destruct (snd (c (m, b))); cbn [good] in *; auto.
Qed.

Section FixS.
  Variable vn : list vnode.
  Variable v2v : list (N * N).
  Variable root : option N.
  Hypothesis HVt : VtOk vn v2v root.
  Hypothesis HU : PUniq vn root.
  (* right-linear: the left child of every internal vtree node is a leaf *)
  Hypothesis HRL : forall i l r, vvalid vn i -> vat vn i = VInt l r -> exists x, vat vn l = VLeaf x.
  Let H0 : VtOk0 vn v2v := proj1 HVt.

  Definition nozero (els : list elem) : Prop := Forall (fun e : elem => fst e <> 0) els.
  Definition rextra (els : list elem) : Prop :=
    nozero els /\ trim els = None /\ NoDup (map snd els) /\ exists l0, els = sort_els l0.

  Notation under := (under vn).

  Definition node_okP (m : mgr) (k : nat) (n : node) : Prop :=
    match n with
    | NFalse => k = 0%nat
    | NTrue => k = 1%nat
    | NLit v _ => exists i, In (v, i) v2v
    | NDec vt els => rextra els /\ exists l r, vat vn vt = VInt l r /\ vvalid vn vt /\
        Forall (fun e => (N.to_nat (fst e) < k)%nat /\ (N.to_nat (snd e) < k)%nat /\
                         under m (fst e) l /\ under m (snd e) r) els
    end.

  Definition UA (m : mgr) (a b r : N) : Prop :=
    validh m r /\ forall t, vvalid vn t -> under m a t -> under m b t -> under m r t.
  Definition UN (m : mgr) (id r : N) : Prop :=
    validh m r /\ forall t, under m id t -> under m r t.

  Record PInv (m : mgr) : Prop := {
    p_vn : vnodes m = vn;
    p_v2v : var2vt m = v2v;
    p_root : vroot m = root;
    p_head : exists t, nodes m = NFalse :: NTrue :: t;
    p_nodes : forall k, (k < length (nodes m))%nat -> node_okP m k (nth k (nodes m) NFalse);
    p_utab : forall key id, In (key, id) (utab m) -> validh m id /\ node_at m id = node_of_key key;
    p_utabc : forall k, (2 <= k < length (nodes m))%nat ->
                alookup ukey_eqb (key_of (nth k (nodes m) NFalse)) (utab m) = Some (N.of_nat k);
    p_acache : forall a b o r, In ((a, b, o), r) (acache m) -> validh m a /\ validh m b /\ UA m a b r;
    p_ncache : forall id r, In (id, r) (ncache m) -> validh m id /\ UN m id r;
    p_acnc : forall a b o r, In ((a, b, o), r) (acache m) -> a <> 0 /\ a <> 1 /\ b <> 0 /\ b <> 1;
    p_ncnc : forall id r, In (id, r) (ncache m) -> id <> 0 /\ id <> 1;
    p_nclit : forall id r, In (id, r) (ncache m) -> forall x p, node_at m id = NLit x p -> node_at m r = NLit x (negb p)
  }.

  (* ---- basic consequences ------------------------------------------------------------------------------------ *)
  Lemma pvalid01 : forall m, PInv m -> validh m 0 /\ validh m 1 /\ node_at m 0 = NFalse /\ node_at m 1 = NTrue.
  Proof.
    intros m Hp. destruct (p_head m Hp) as [t Ht]. unfold validh, node_at. rewrite Ht. cbn. repeat split; lia.
  Qed.

  Lemma under_const0 : forall m t, PInv m -> under m 0 t.
  Proof. intros m t Hp. destruct (pvalid01 m Hp) as (A & _ & C & _). split; [exact A|]. unfold vtree_of. now rewrite C. Qed.
  Lemma under_const1 : forall m t, PInv m -> under m 1 t.
  Proof. intros m t Hp. destruct (pvalid01 m Hp) as (_ & A & _ & C). split; [exact A|]. unfold vtree_of. now rewrite C. Qed.

  Lemma under_trans : forall m id t t', under m id t -> desc vn t t' = true -> under m id t'.
  Proof.
    intros m id t t' [A B] H. split; [exact A|]. destruct (vtree_of m id) as [nv|]; [|exact I].
    eapply (desc_trans' vn v2v H0); eauto.
  Qed.

  Lemma child_desc : forall vt l r, vvalid vn vt -> vat vn vt = VInt l r -> desc vn l vt = true /\ desc vn r vt = true.
  Proof.
    intros vt l r Hv Ha. rewrite !(desc_int vn v2v H0 _ vt l r Hv Ha), !(desc_refl vn). now rewrite !orb_true_r.
  Qed.

  (* the only nodes without a vtree position are the two constants *)
  Lemma vtree_none_const : forall m id, PInv m -> validh m id -> vtree_of m id = None -> id = 0 \/ id = 1.
  Proof.
    intros m id Hp Hv H. pose proof (p_nodes m Hp _ Hv) as Hk. unfold vtree_of, node_at in H.
    destruct (nth (N.to_nat id) (nodes m) NFalse) as [| |v p|vt els] eqn:En; cbn in Hk.
    - left. lia.
    - right. lia.
    - exfalso. destruct Hk as [i Hi]. rewrite (p_v2v m Hp) in H. destruct (alookupN_in_some _ _ _ Hi) as [j Hj]. congruence.
    - discriminate.
  Qed.

  Lemma node_ge2 : forall m id, PInv m -> validh m id -> id <> 0 -> id <> 1 ->
    (2 <= N.to_nat id)%nat /\ (exists v p, node_at m id = NLit v p) \/ (2 <= N.to_nat id)%nat /\ (exists vt els, node_at m id = NDec vt els).
  Proof.
    intros m id Hp Hv H0' H1'. pose proof (p_nodes m Hp _ Hv) as Hk. unfold node_at.
    assert (2 <= N.to_nat id)%nat by lia.
    destruct (nth (N.to_nat id) (nodes m) NFalse) as [| |v p|vt els]; cbn in Hk; try lia; [left | right]; split; eauto.
  Qed.

  (* equal nodes have equal handles (unique table complete) *)
  Lemma node_unique : forall m i j, PInv m -> validh m i -> validh m j ->
    (2 <= N.to_nat i)%nat -> (2 <= N.to_nat j)%nat -> node_at m i = node_at m j -> i = j.
  Proof.
    intros m i j Hp Vi Vj Gi Gj E. unfold node_at in E.
    pose proof (p_utabc m Hp (N.to_nat i) (conj Gi Vi)) as A. pose proof (p_utabc m Hp (N.to_nat j) (conj Gj Vj)) as B.
    rewrite E in A. rewrite A in B. injection B as B. rewrite !Nnat.N2Nat.id in B. exact B.
  Qed.

  Lemma lit_position : forall m id v p, PInv m -> validh m id -> node_at m id = NLit v p ->
    exists i, vtree_of m id = Some i /\ vvalid vn i /\ vat vn i = VLeaf v.
  Proof.
    intros m id v p Hp Hv Hn. pose proof (p_nodes m Hp _ Hv) as Hk. unfold node_at in Hn. rewrite Hn in Hk. destruct Hk as [i Hi].
    unfold vtree_of, node_at. rewrite Hn, (p_v2v m Hp). destruct (alookupN_in_some _ _ _ Hi) as [j Hj].
    exists j. split; [exact Hj|]. apply alookupN_in in Hj. exact (vt_map _ _ H0 v j Hj).
  Qed.

  Lemma dec_position : forall m id vt els, PInv m -> validh m id -> node_at m id = NDec vt els ->
    exists l r, vat vn vt = VInt l r /\ vvalid vn vt /\ vtree_of m id = Some vt /\
      Forall (fun e => (N.to_nat (fst e) < N.to_nat id)%nat /\ (N.to_nat (snd e) < N.to_nat id)%nat /\
                       under m (fst e) l /\ under m (snd e) r) els.
  Proof.
    intros m id vt els Hp Hv Hn. pose proof (p_nodes m Hp _ Hv) as Hk. unfold node_at in Hn. rewrite Hn in Hk.
    destruct Hk as [_ (l & r & A & B & C)]. exists l, r. repeat split; auto. unfold vtree_of, node_at. now rewrite Hn.
  Qed.

  Lemma is_desc_vnP : forall m d a, PInv m -> is_desc m d a = desc vn d a.
  Proof. intros m d a Hp. unfold is_desc, desc. now rewrite (p_vn m Hp). Qed.
  Lemma children_vnP : forall m vt l r, PInv m -> vtree_children m vt = Some (l, r) -> vat vn vt = VInt l r /\ vvalid vn vt.
  Proof.
    intros m vt l r Hp H. unfold vtree_children, vnode_at in H. rewrite (p_vn m Hp) in H.
    fold (vat vn vt) in H. destruct (vat vn vt) as [v|l' r'] eqn:E; [discriminate|]. injection H as <- <-.
    split; [reflexivity|]. unfold vvalid. destruct (Nat.lt_ge_cases (N.to_nat vt) (length vn)); [assumption|].
    unfold vat in E. rewrite nth_overflow in E by lia. discriminate.
  Qed.
  Lemma children_some : forall m vt l r, PInv m -> vat vn vt = VInt l r -> vtree_children m vt = Some (l, r).
  Proof. intros m vt l r Hp H. unfold vtree_children, vnode_at. rewrite (p_vn m Hp). fold (vat vn vt). now rewrite H. Qed.

  Definition vtS (m : mgr) (id v : N) : Prop := validh m id /\ vtree_of m id = Some v.
  Lemma vtS_stable : forall id v, stable (fun m => vtS m id v).
  Proof. intros id v m m' [A B] He. split; [eapply validh_ext; eauto|]. now rewrite (vtree_of_ext m m' id A He). Qed.

  (* stability *)
  Lemma UA_stable : forall a b r, stable (fun m => validh m a /\ validh m b /\ UA m a b r).
  Proof.
    intros a b r m m' (Va & Vb & [Vr H]) He. split; [eapply validh_ext; eauto|]. split; [eapply validh_ext; eauto|].
    split; [eapply validh_ext; eauto|]. intros t Ht [_ Ua] [_ Ub].
    rewrite (vtree_of_ext m m' a Va He) in Ua. rewrite (vtree_of_ext m m' b Vb He) in Ub.
    eapply under_stable; [apply H; [exact Ht | split; assumption | split; assumption] | exact He].
  Qed.
  Lemma UN_stable : forall id r, stable (fun m => validh m id /\ UN m id r).
  Proof.
    intros id r m m' (Va & [Vr H]) He. split; [eapply validh_ext; eauto|]. split; [eapply validh_ext; eauto|].
    intros t [_ Ua]. rewrite (vtree_of_ext m m' id Va He) in Ua.
    eapply under_stable; [apply H; split; assumption | exact He].
  Qed.

  Notation stp := (striple PInv).
  Ltac stab := repeat first [apply under_stable | apply validh_stable | apply UA_stable | apply UN_stable
                            | apply stable_const | assumption | apply stable_and].

  (* ---- allocation ---------------------------------------------------------------------------------------------- *)
  Lemma node_okP_ext : forall m m' k n, (k <= length (nodes m))%nat -> node_okP m k n -> ext m m' -> node_okP m' k n.
  Proof.
    intros m m' k n Hk H He. destruct n as [| |v pol|vt els]; cbn in *; auto.
    destruct H as [Hx (l & r & A & B & C)]. split; [exact Hx|]. exists l, r. split; [exact A|]. split; [exact B|].
    eapply Forall_impl; [|exact C]. intros e (E1 & E2 & E3 & E4).
    repeat split; auto; eapply under_stable; eauto.
  Qed.

  Lemma alloc_P : forall m k n,
    PInv m -> n = node_of_key k -> k = key_of n -> node_okP m (length (nodes m)) n ->
    alookup ukey_eqb k (utab m) = None ->
    PInv (alloc_m k n m) /\ ext m (alloc_m k n m) /\ validh (alloc_m k n m) (node_count m) /\
    node_at (alloc_m k n m) (node_count m) = n.
  Proof.
    intros m k n Hp Hn Hk Hok Hnone.
    assert (He : ext m (alloc_m k n m)) by (split; [exists [n]; reflexivity | repeat split]).
    assert (Hv : validh (alloc_m k n m) (node_count m)).
    { unfold validh, node_count. cbn. rewrite Nnat.Nat2N.id, app_length. cbn. lia. }
    assert (Hat : node_at (alloc_m k n m) (node_count m) = n).
    { unfold node_at, node_count. cbn. rewrite Nnat.Nat2N.id, app_nth2, Nat.sub_diag by lia. reflexivity. }
    split; [|auto]. constructor; try (cbn; apply Hp).
    - destruct (p_head m Hp) as [t Ht]. exists (t ++ [n]). cbn. now rewrite Ht.
    - cbn [nodes alloc_m]. intros j Hj. rewrite app_length in Hj. cbn in Hj.
      destruct (Nat.eq_dec j (length (nodes m))) as [->|Hne].
      + rewrite app_nth2, Nat.sub_diag by lia. cbn [nth]. exact (node_okP_ext m _ _ _ (le_n _) Hok He).
      + rewrite app_nth1 by lia. assert (Hjl : (j < length (nodes m))%nat) by lia.
        exact (node_okP_ext m _ j _ (Nat.lt_le_incl _ _ Hjl) (p_nodes m Hp j Hjl) He).
    - cbn [utab alloc_m]. intros key id [[= <- <-]|Hin].
      + split; [exact Hv | now rewrite Hat].
      + destruct (p_utab m Hp _ _ Hin) as [A B]. split; [eapply validh_ext; eauto|].
        rewrite (node_at_ext m) by auto. exact B.
    - cbn [nodes utab alloc_m]. intros j [Hj2 Hj]. rewrite app_length in Hj. cbn in Hj.
      destruct (Nat.eq_dec j (length (nodes m))) as [->|Hne].
      + rewrite app_nth2, Nat.sub_diag by lia. cbn [nth]. rewrite <- Hk. cbn. rewrite ukey_eqb_refl. reflexivity.
      + rewrite app_nth1 by lia. assert (Hjl : (2 <= j < length (nodes m))%nat) by lia.
        pose proof (p_utabc m Hp j Hjl) as Hold.
        rewrite alookup_cons_ne; [exact Hold|]. intros Heq. rewrite Heq in Hold. congruence.
    - cbn [acache alloc_m]. intros a b o r Hin. eapply (UA_stable a b r m); [exact (p_acache m Hp _ _ _ _ Hin) | exact He].
    - cbn [ncache alloc_m]. intros id r Hin. eapply (UN_stable id r m); [exact (p_ncache m Hp _ _ Hin) | exact He].
    - cbn [ncache alloc_m]. intros id r Hin x p Hn'.
      destruct (p_ncache m Hp _ _ Hin) as [Vid [Vr _]].
      rewrite (node_at_ext m) in Hn' by auto. rewrite (node_at_ext m) by auto. exact (p_nclit m Hp id r Hin x p Hn').
  Qed.

  Lemma st_allocP : forall (P : mgr -> Prop) k n (Q : N -> mgr -> Prop),
    n = node_of_key k -> k = key_of n ->
    (forall m, PInv m -> P m -> node_okP m (length (nodes m)) n /\ alookup ukey_eqb k (utab m) = None) ->
    (forall m m' id, PInv m -> P m -> PInv m' -> ext m m' -> validh m' id -> node_at m' id = n -> Q id m') ->
    stp P (alloc k n) Q.
  Proof.
    intros P k n Q Hn Hk Hok HQ m b Hi Hp. unfold alloc. cbn [fst snd good].
    destruct (Hok m Hi Hp) as [O1 O2].
    destruct (alloc_P m k n Hi Hn Hk O1 O2) as (A & B & C & D).
    split; [exact A|]. split; [exact B|]. exact (HQ m _ _ Hi Hp A B C D).
  Qed.

  (* ---- literal ---------------------------------------------------------------------------------------------------- *)
  Definition regd' (v : N) : Prop := exists i, In (v, i) v2v.

  Lemma literal_S : forall v pol, regd' v ->
    stp (fun _ => True) (literal v pol) (fun r m => validh m r /\ node_at m r = NLit v pol).
  Proof.
    intros v pol Hreg. unfold literal.
    eapply st_seq; [apply st_checkpoint|].
    apply st_getm. intros m0.
    destruct (alookup ukey_eqb (KLit v pol) (utab m0)) as [id|] eqn:E.
    - apply st_ret. intros m Hi [-> _]. apply alookup_utab in E. exact (p_utab _ Hi _ _ E).
    - eapply st_seq; [apply st_before_alloc|].
      apply st_allocP; [reflexivity | reflexivity | |].
      + intros m Hi [-> _]. split; [exact Hreg | exact E].
      + intros m m' id _ _ _ _ Hv Hn. split; assumption.
  Qed.

  Lemma lit_under : forall m r v pol t, PInv m -> validh m r -> node_at m r = NLit v pol ->
    (forall i, alookup N.eqb v v2v = Some i -> desc vn i t = true) -> under m r t.
  Proof.
    intros m r v pol t Hp Hv Hn H. split; [exact Hv|]. unfold vtree_of. rewrite Hn, (p_v2v m Hp).
    destruct (alookup N.eqb v v2v) as [i|] eqn:E; [now apply H | exact I].
  Qed.

  (* ---- find_or_alloc ------------------------------------------------------------------------------------------------ *)
  Definition posd (m : mgr) (l r : N) (els : list elem) : Prop :=
    Forall (fun e => under m (fst e) l /\ under m (snd e) r) els.
  Lemma posd_stable : forall l r els, stable (fun m => posd m l r els).
  Proof.
    intros l r els m m' H He. eapply Forall_impl; [|exact H]. intros e [A B]. split; eapply under_stable; eauto.
  Qed.
  Lemma posd_perm : forall m l r els els', posd m l r els -> Permutation els els' -> posd m l r els'.
  Proof.
    intros m l r els els' H HP. unfold posd in *. rewrite Forall_forall in *. intros e He.
    apply H. eapply Permutation_in; [apply Permutation_sym|]; eauto.
  Qed.

  Lemma nozero_perm : forall els els', nozero els -> Permutation els els' -> nozero els'.
  Proof.
    intros els els' H HP. unfold nozero in *. rewrite Forall_forall in *. intros e He.
    apply H. eapply Permutation_in; [apply Permutation_sym|]; eauto.
  Qed.
  Lemma trim_perm : forall els els', Permutation els els' -> trim els = None -> trim els' = None.
  Proof.
    intros els els' HP H. pose proof (Permutation_length HP) as Hlen.
    destruct els as [|[p1 s1] [|[p2 s2] [|e3 els]]]; cbn in H; try discriminate.
    - apply Permutation_length_1_inv in HP. subst els'. exact H.
    - apply Permutation_length_2_inv in HP as [HP|HP]; subst els'; [exact H|].
      cbn. destruct ((s1 =? ID_TRUE) && (s2 =? ID_FALSE)); [discriminate|].
      destruct ((s2 =? ID_TRUE) && (s1 =? ID_FALSE)); [discriminate | reflexivity].
    - destruct els' as [|e1' [|e2' [|e3' els']]]; cbn in Hlen; try discriminate. destruct e1', e2'. reflexivity.
  Qed.
  Lemma nodup_snd_perm : forall (els els' : list elem), NoDup (map snd els) -> Permutation els els' -> NoDup (map snd els').
  Proof. intros els els' H HP. eapply Permutation_NoDup; [apply Permutation_map; exact HP | exact H]. Qed.

  Definition foaQ (m : mgr) (l r : N) (els : list elem) : Prop :=
    posd m l r els /\ nozero els /\ trim els = None /\ NoDup (map snd els).
  Lemma foaQ_stable : forall l r els, stable (fun m => foaQ m l r els).
  Proof. intros l r els m m' (A & B) He. split; [eapply posd_stable; eauto | exact B]. Qed.

  Lemma find_or_alloc_S : forall vt l r els, vat vn vt = VInt l r -> vvalid vn vt ->
    stp (fun m => foaQ m l r els) (find_or_alloc vt els) (fun x m => validh m x /\ vtree_of m x = Some vt).
  Proof.
    intros vt l r els Hat Hvt. unfold find_or_alloc.
    apply st_getm. intros m0.
    destruct (alookup ukey_eqb (KDec vt (sort_els els)) (utab m0)) as [id|] eqn:E.
    - apply st_ret. intros m Hi [-> A]. apply alookup_utab in E.
      destruct (p_utab _ Hi _ _ E) as [Hv Hn]. cbn in Hn. split; [exact Hv|]. unfold vtree_of. now rewrite Hn.
    - eapply st_seq; [apply st_before_alloc|].
      apply st_allocP; [reflexivity | reflexivity | |].
      + intros m Hi [-> (A & B & C & D)]. split; [|exact E]. cbn. pose proof (sort_els_perm els) as HP. split.
        * split; [eapply nozero_perm; eauto|]. split; [eapply trim_perm; eauto|]. split; [eapply nodup_snd_perm; eauto | eauto].
        * exists l, r. split; [exact Hat|]. split; [exact Hvt|].
          pose proof (posd_perm _ _ _ _ _ A HP) as A'.
          eapply Forall_impl; [|exact A']. intros e [[V1 U1] [V2 U2]]. unfold validh in V1, V2.
          repeat split; auto.
      + intros m m' id Hi _ Hi' He Hv Hn. split; [exact Hv|]. unfold vtree_of. now rewrite Hn.
  Qed.

  Lemma trim_S : forall m els vt l r x, PInv m -> vat vn vt = VInt l r -> vvalid vn vt ->
    posd m l r els -> trim els = Some x -> under m x vt.
  Proof.
    intros m els vt l r x Hp Hat Hvt H Ht. destruct (child_desc vt l r Hvt Hat) as [Dl Dr].
    destruct els as [|[p1 s1] [|[p2 s2] [|? ?]]]; cbn in Ht; try discriminate.
    - injection Ht as <-. now apply under_const0.
    - destruct (p1 =? ID_TRUE); [|discriminate]. injection Ht as <-.
      inversion H as [|? ? [_ Hs] _]; subst. cbn in Hs. eapply under_trans; eauto.
    - inversion H as [|? ? [Hp1 _] HT]; subst. inversion HT as [|? ? [Hp2 _] _]; subst. cbn in *.
      destruct ((s1 =? ID_TRUE) && (s2 =? ID_FALSE)).
      + injection Ht as <-. eapply under_trans; eauto.
      + destruct ((s2 =? ID_TRUE) && (s1 =? ID_FALSE)); [|discriminate]. injection Ht as <-. eapply under_trans; eauto.
  Qed.

  Lemma posd_drop : forall m l r els, posd m l r els -> posd m l r (drop_false_primes els).
  Proof.
    intros m l r els H. unfold posd, drop_false_primes in *. rewrite Forall_forall in *.
    intros e He. apply filter_In in He as [He _]. auto.
  Qed.

  Lemma group_add_nonempty : forall s p g, Forall (fun grp => snd grp <> []) g -> Forall (fun grp : N * list N => snd grp <> []) (group_add s p g).
  Proof.
    intros s p g H. induction H as [|[s' ps] g Hx H IH]; cbn [group_add]; [constructor; [discriminate | constructor]|].
    destruct (s' =? s); constructor; auto. cbn. destruct ps; discriminate.
  Qed.
  Lemma group_by_sub_nonempty : forall els, Forall (fun grp : N * list N => snd grp <> []) (group_by_sub els).
  Proof.
    intros els. unfold group_by_sub.
    assert (G : forall g, Forall (fun grp : N * list N => snd grp <> []) g ->
              Forall (fun grp : N * list N => snd grp <> []) (fold_left (fun g e => group_add (snd e) (fst e) g) els g)).
    { induction els as [|e els IH]; intros g Hg; [exact Hg|]. cbn [fold_left]. apply IH. now apply group_add_nonempty. }
    apply G. constructor.
  Qed.

  Definition gkeys (g : list (N * list N)) : list N := map fst g.

  Lemma group_add_spec : forall s p g, NoDup (gkeys g) ->
    NoDup (gkeys (group_add s p g)) /\
    (forall k, In k (gkeys (group_add s p g)) <-> In k (gkeys g) \/ k = s) /\
    ((In s (gkeys g) /\ length (group_add s p g) = length g) \/ (~ In s (gkeys g) /\ length (group_add s p g) = S (length g))).
  Proof.
    intros s p g. induction g as [|[s' ps] g IH]; intros Hn.
    - cbn. split; [constructor; [intros [] | constructor]|]. split; [intros k; cbn; intuition congruence|]. right. split; [intros []|reflexivity].
    - cbn [group_add]. inversion Hn as [|? ? Hs' Hg]; subst. destruct (s' =? s) eqn:E.
      + apply N.eqb_eq in E. subst s'. cbn. split; [exact Hn|]. split; [intros k; cbn; intuition congruence|]. left. split; [now left | reflexivity].
      + apply N.eqb_neq in E. destruct (IH Hg) as (A & B & C). cbn [gkeys map fst] in *. split; [|split].
        * constructor; [|exact A]. intros Hin. apply B in Hin as [Hin| ->]; [contradiction | congruence].
        * intros k. cbn. rewrite B. intuition congruence.
        * destruct C as [[C1 C2]|[C1 C2]]; [left | right]; (split; [|cbn; now rewrite C2]); unfold gkeys in *; cbn in *; intuition congruence.
  Qed.

  Lemma group_fold_spec : forall els g, NoDup (gkeys g) ->
    let g' := fold_left (fun g e => group_add (snd e) (fst e) g) els g in
    NoDup (gkeys g') /\ (length g' <= length g + length els)%nat /\
    (length g' = (length g + length els)%nat -> NoDup (map snd els) /\ forall e, In e els -> ~ In (snd e) (gkeys g)).
  Proof.
    induction els as [|[p s] els IH]; intros g Hn; cbn [fold_left].
    - cbn. split; [exact Hn|]. split; [lia|]. intros _. split; [constructor | intros e []].
    - destruct (group_add_spec s p g Hn) as (A & B & C). cbn [fst snd].
      destruct (IH (group_add s p g) A) as (X & Y & Z). cbn zeta in *. split; [exact X|]. cbn [length].
      destruct C as [[C1 C2]|[C1 C2]]; rewrite C2 in Y, Z; (split; [lia|]); intros Hlen; [lia|].
      destruct (Z ltac:(lia)) as [Z1 Z2]. cbn [map snd]. split.
      + constructor; [|exact Z1]. intros Hin. apply in_map_iff in Hin as [e [He Hin]]. apply (Z2 e Hin). apply B. right. now rewrite He.
      + intros e [<-|He]; [exact C1|]. intros Hk. apply (Z2 e He). apply B. now left.
  Qed.

  Lemma groups_keys_nodup : forall els, NoDup (gkeys (group_by_sub els)).
  Proof. intros els. apply (group_fold_spec els []). constructor. Qed.
  Lemma groups_len_nodup : forall els, length (group_by_sub els) = length els -> NoDup (map snd els).
  Proof. intros els H. apply (group_fold_spec els []); [constructor | exact H]. Qed.

  Lemma under_leaf_lit : forall m id l x, PInv m -> vat vn l = VLeaf x -> under m id l -> id <> 0 -> id <> 1 ->
    exists p, node_at m id = NLit x p.
  Proof.
    intros m id l x Hp Hl [Hv Hu] N0 N1.
    assert (Hleaf : forall nv, desc vn nv l = true -> nv = l).
    { intros nv H. rewrite (desc_nonint vn nv l) in H by (intros a b; rewrite Hl; discriminate). now apply N.eqb_eq in H. }
    destruct (node_ge2 m id Hp Hv N0 N1) as [[_ [v [p En]]]|[_ [vt [els En]]]].
    - destruct (lit_position m id v p Hp Hv En) as (i & A & _ & C). rewrite A in Hu. apply Hleaf in Hu. subst i.
      rewrite Hl in C. injection C as <-. eauto.
    - destruct (dec_position m id vt els Hp Hv En) as (l' & r' & A & _ & C & _). rewrite C in Hu. apply Hleaf in Hu. subst vt. congruence.
  Qed.

  Lemma lit_nonzero : forall m id x p, PInv m -> node_at m id = NLit x p -> id <> 0.
  Proof. intros m id x p Hp H ->. destruct (pvalid01 m Hp) as (_ & _ & C & _). congruence. Qed.

  (* ================================================================================================ *)
  Section BodiesS.
    Variable rapply : N -> N -> bop -> M N.
    Variable rnegate : N -> M N.
    Variable K : nat.
    Hypothesis HapplyS : forall a b o t, (2 * N.to_nat t + 3 < K)%nat -> vvalid vn t ->
      stp (fun m => under m a t /\ under m b t) (rapply a b o) (fun r m => UA m a b r).
    Definition LitN (m : mgr) (id r : N) : Prop := forall x p, node_at m id = NLit x p -> node_at m r = NLit x (negb p).
    Hypothesis HnegateS : forall id t, (2 * N.to_nat t + 2 < K)%nat -> vvalid vn t ->
      stp (fun m => under m id t) (rnegate id) (fun r m => UN m id r /\ LitN m id r).
    Hypothesis HapplyNZ : forall a b l x, vat vn l = VLeaf x -> vvalid vn l -> (2 * N.to_nat l + 3 < K)%nat ->
      stp (fun m => under m a l /\ under m b l /\ a <> 0 /\ b <> 0) (rapply a b Or) (fun r m => r <> 0).

    (* convenient forms *)
    Lemma apply_under : forall a b o t, (2 * N.to_nat t + 3 < K)%nat -> vvalid vn t ->
      stp (fun m => under m a t /\ under m b t) (rapply a b o) (fun r m => under m r t).
    Proof.
      intros a b o t Hk Ht. eapply st_conseq.
      - apply (st_call PInv (fun m => under m a t /\ under m b t) _ _ _ (HapplyS a b o t Hk Ht)); [stab | auto].
      - auto.
      - intros r m Hi [[_ H] [A B]]. now apply H.
    Qed.
    Lemma negate_under : forall id t, (2 * N.to_nat t + 2 < K)%nat -> vvalid vn t ->
      stp (fun m => under m id t) (rnegate id) (fun r m => under m r t).
    Proof.
      intros id t Hk Ht. eapply st_conseq.
      - apply (st_call PInv (fun m => under m id t) _ _ _ (HnegateS id t Hk Ht)); [stab | auto].
      - auto.
      - intros r m Hi [[[_ H] _] A]. now apply H.
    Qed.
    Lemma negate_lit : forall id t x p, (2 * N.to_nat t + 2 < K)%nat -> vvalid vn t ->
      stp (fun m => under m id t /\ node_at m id = NLit x p) (rnegate id) (fun r m => under m r t /\ node_at m r = NLit x (negb p)).
    Proof.
      intros id t x p Hk Ht. eapply st_conseq.
      - apply (st_call PInv (fun m => under m id t /\ node_at m id = NLit x p) _ _ _ (HnegateS id t Hk Ht)).
        + intros m m' [A B] He. split; [eapply under_stable; eauto|]. rewrite (node_at_ext m m' id (proj1 A) He). exact B.
        + intros m Hi [A _]. exact A.
      - auto.
      - intros r m Hi [[[_ H] HL] [A B]]. split; [now apply H | now apply HL].
    Qed.

    Lemma compress_S : forall els l r x, vat vn l = VLeaf x -> (2 * N.to_nat l + 3 < K)%nat -> vvalid vn l ->
      stp (fun m => posd m l r els /\ nozero els) (compress rapply els)
          (fun els' m => posd m l r els' /\ nozero els' /\ NoDup (map snd els')).
    Proof.
      intros els l r x Hleaf Hk Hl. unfold compress.
      eapply st_seq; [apply st_checkpoint|].
      destruct (N.of_nat (length (group_by_sub els)) =? N.of_nat (length els)) eqn:Elen.
      { apply N.eqb_eq in Elen. apply Nnat.Nat2N.inj in Elen.
        apply st_ret. intros m Hi [A B]. split; [exact A|]. split; [exact B | now apply groups_len_nodup]. }
      set (g := group_by_sub els).
      pose proof (group_by_sub_nonempty els) as Hne. fold g in Hne.
      set (Pall := fun m : mgr => Forall (fun grp => Forall (fun p => (under m p l /\ p <> 0) /\ under m (fst grp) r) (snd grp)) g).
      assert (SPall : stable Pall).
      { unfold Pall. intros m m' H He. eapply Forall_impl; [|exact H]. intros grp Hg.
        eapply Forall_impl; [|exact Hg]. intros p [[A A'] B]. split; [split; [eapply under_stable; eauto | exact A'] | eapply under_stable; eauto]. }
      set (I := fun (acc : list elem) (dG : list (N * list N)) (m : mgr) => posd m l r acc /\ nozero acc /\ map snd acc = gkeys dG).
      eapply st_conseq.
      - refine (st_mfoldl PInv _ Pall I g g SPall eq_refl _ [] []).
        intros acc dG grp gx Hin. pose proof (in_combine_l _ _ _ _ Hin) as Hing.
        apply in_combine_same in Hin. subst gx.
        assert (Hgrp : forall m, Pall m -> forall p, In p (snd grp) -> (under m p l /\ p <> 0) /\ under m (fst grp) r).
        { intros m HP q Hq. unfold Pall in HP. rewrite Forall_forall in HP. specialize (HP grp Hing).
          rewrite Forall_forall in HP. exact (HP q Hq). }
        rewrite Forall_forall in Hne. specialize (Hne grp Hing).
        destruct grp as [s [|p0 rest]]; cbn [snd fst] in *; [contradiction|].
        set (P2 := fun m : mgr => I acc dG m /\ Pall m).
        assert (SP2 : stable P2).
        { apply stable_and; [|exact SPall]. unfold I. intros m m' (A & B & C) He. split; [eapply posd_stable; eauto | auto]. }
        set (I2 := fun (a : N) (dx : list N) (m : mgr) => under m a l /\ a <> 0).
        eapply st_bind.
        + eapply st_pre.
          * refine (st_mfoldl PInv (fun a p => rapply a p Or) P2 I2 rest rest SP2 eq_refl _ p0 []).
            intros a dx p px Hin2. pose proof (in_combine_l _ _ _ _ Hin2) as Hinp.
            eapply st_conseq.
            -- apply (st_conj PInv (fun m => I2 a dx m /\ P2 m)).
               ++ apply (st_call PInv (fun m => I2 a dx m /\ P2 m) _ _ _ (apply_under a p Or l Hk Hl)).
                  ** apply stable_and; [unfold I2; apply stable_and; [apply under_stable | apply stable_const] | exact SP2].
                  ** intros m Hi [[H1 _] [_ HPa]]. split; [exact H1|]. exact (proj1 (proj1 (Hgrp m HPa p (or_intror Hinp)))).
               ++ eapply st_pre; [apply (HapplyNZ a p l x Hleaf Hl Hk)|].
                  intros m Hi [[H1 H1'] [_ HPa]]. destruct (Hgrp m HPa p (or_intror Hinp)) as [[G1 G2] _]. auto.
            -- intros m Hi H; exact H.
            -- intros y m Hi [[H1 [_ H2]] H3]. split; [split; [exact H1 | exact H3] | exact H2].
          * intros m Hi [HI HPa]. split; [|split; assumption]. exact (proj1 (Hgrp m HPa p0 (or_introl eq_refl))).
        + intros merged. apply st_ret. intros m Hi [[Hm Hm'] [(HI1 & HI2 & HI3) HPa]]. split; [|exact HPa].
          unfold I. split; [|split].
          * unfold posd in *. apply Forall_app. split; [exact HI1|]. constructor; [|constructor].
            cbn [fst snd]. split; [exact Hm | exact (proj2 (Hgrp m HPa p0 (or_introl eq_refl)))].
          * unfold nozero in *. apply Forall_app. split; [exact HI2|]. constructor; [exact Hm' | constructor].
          * rewrite map_app, HI3. unfold gkeys. rewrite map_app. reflexivity.
      - intros m Hi [H Hnz]. split; [split; [constructor | split; [constructor | reflexivity]]|].
        unfold Pall. apply forall_ungroup with (P := fun e => (under m (fst e) l /\ fst e <> 0) /\ under m (snd e) r).
        assert (Hall : Forall (fun e => (under m (fst e) l /\ fst e <> 0) /\ under m (snd e) r) els).
        { unfold posd, nozero in *. rewrite Forall_forall in *. intros e He. destruct (H e He). split; [split; auto | auto]. }
        rewrite Forall_forall in *. intros e He. apply Hall. eapply Permutation_in; [apply group_by_sub_perm | exact He].
      - intros els' m Hi [(A & B & C) _]. split; [exact A|]. split; [exact B|]. cbn [app] in C. rewrite C. apply groups_keys_nodup.
    Qed.

    Lemma unique_d_S : forall vt l r els, vat vn vt = VInt l r -> vvalid vn vt -> (2 * N.to_nat vt + 1 < K)%nat ->
      stp (fun m => posd m l r els) (unique_d rapply vt els) (fun x m => under m x vt).
    Proof.
      intros vt l r els Hat Hvt Hk. unfold unique_d.
      destruct (vt_int _ _ H0 vt l r Hvt Hat) as (Hl & Hr & _).
      assert (Hlv : vvalid vn l) by (unfold vvalid in *; lia).
      destruct (HRL vt l r Hvt Hat) as [x Hleaf].
      assert (Hnz : nozero (drop_false_primes els)).
      { unfold nozero, drop_false_primes. apply Forall_forall. intros e He. apply filter_In in He as [_ He].
        apply negb_true_iff, N.eqb_neq in He. exact He. }
      eapply st_seq; [apply st_checkpoint|].
      destruct (trim (drop_false_primes els)) as [y|] eqn:E.
      - apply st_ret. intros m Hi A. exact (trim_S m _ vt l r y Hi Hat Hvt (posd_drop _ _ _ _ A) E).
      - eapply st_bind.
        + eapply st_pre; [apply (compress_S (drop_false_primes els) l r x Hleaf); [lia | exact Hlv]|].
          intros m Hi A. split; [now apply posd_drop | exact Hnz].
        + intros els2. cbn beta. destruct (trim els2) as [y|] eqn:E2.
          * apply st_ret. intros m Hi (A & _). exact (trim_S m _ vt l r y Hi Hat Hvt A E2).
          * eapply st_conseq; [apply (find_or_alloc_S vt l r els2 Hat Hvt) | |].
            -- intros m Hi (A & B & C). split; [exact A|]. split; [exact B|]. split; [exact E2 | exact C].
            -- intros y m Hi [A B]. now apply under_self.
    Qed.

    (* ---- expand ---------------------------------------------------------------------------------------------------- *)
    Lemma expand_S : forall id vt l r, vat vn vt = VInt l r -> vvalid vn vt -> (2 * N.to_nat vt < K)%nat ->
      stp (fun m => under m id vt) (expand rnegate id vt) (fun els m => posd m l r els).
    Proof.
      intros id vt l r Hat Hvt Hk. unfold expand.
      destruct (vt_int _ _ H0 vt l r Hvt Hat) as (Hl & Hr & _).
      assert (Hlv : vvalid vn l) by (unfold vvalid in *; lia).
      eapply st_seq; [apply st_checkpoint|].
      destruct (id =? ID_TRUE) eqn:E1.
      { apply st_ret. intros m Hi _. constructor; [|constructor]. cbn. split; apply under_const1; assumption. }
      destruct (id =? ID_FALSE) eqn:E0.
      { apply st_ret. intros m Hi _. constructor; [|constructor]. cbn. split; [apply under_const1 | apply under_const0]; assumption. }
      apply N.eqb_neq in E1, E0.
      apply st_getm. intros m0. apply st_init. intros m1 Hi1 [-> HU0].
      (* the branch for a node that is not a Decision at vt *)
      assert (Hother : (forall nv, vtree_of m0 id = Some nv -> nv <> vt) ->
                stp (fun m => m = m0)
                (match vtree_children m0 vt, vtree_of m0 id with
                 | Some (lft, _), Some nv =>
                     if (nv =? lft) || is_desc m0 nv lft
                     then neg <- rnegate id ;; ret [(id, ID_TRUE); (neg, ID_FALSE)]
                     else ret [(ID_TRUE, id)]
                 | _, _ => fail Panic
                 end) (fun els m => posd m l r els)).
      { intros Hne. rewrite (children_some m0 vt l r Hi1 Hat).
        destruct (vtree_of m0 id) as [nv|] eqn:Ev.
        2:{ apply st_false. intros m _ _. destruct (vtree_none_const m0 id Hi1 (proj1 HU0) Ev); contradiction. }
        destruct ((nv =? l) || is_desc m0 nv l) eqn:Econd.
        - assert (Hd : desc vn nv l = true).
          { apply orb_prop in Econd as [E|E]; [apply N.eqb_eq in E; subst; apply desc_refl | now rewrite <- (is_desc_vnP m0)]. }
          assert (HUl : under m0 id l) by (split; [exact (proj1 HU0) | now rewrite Ev]).
          apply st_pre with (P' := fun m => under m id l); [|intros m Hi ->; exact HUl].
          eapply st_bindk with (P1 := fun m => under m id l) (Q := fun x m => under m x l).
          + apply negate_under; [lia | exact Hlv].
          + apply under_stable.
          + auto.
          + intros neg. apply st_ret. intros m Hi [Hn Hid].
            constructor; [|constructor; [|constructor]]; cbn [fst snd].
            * split; [exact Hid | now apply under_const1].
            * split; [exact Hn | now apply under_const0].
        - apply st_ret. intros m Hi ->. constructor; [|constructor]. cbn [fst snd]. split; [now apply under_const1|].
          split; [exact (proj1 HU0)|]. rewrite Ev. destruct HU0 as [_ HU']. rewrite Ev in HU'.
          apply orb_false_elim in Econd as [En Ed]. rewrite (is_desc_vnP _ _ _ Hi) in Ed.
          destruct (desc_children vn v2v H0 nv vt l r Hat HU' (Hne nv eq_refl)) as [Hl'|Hr']; [congruence | exact Hr']. }
      destruct (node_at m0 id) as [| |v pol|dv els] eqn:En.
      - apply Hother. intros nv Hnv. unfold vtree_of in Hnv. rewrite En in Hnv. discriminate.
      - apply Hother. intros nv Hnv. unfold vtree_of in Hnv. rewrite En in Hnv. discriminate.
      - apply Hother. intros nv Hnv Heq. subst nv.
        destruct (lit_position m0 id v pol Hi1 (proj1 HU0) En) as (i & A & B & C). rewrite A in Hnv. injection Hnv as ->. congruence.
      - destruct (dv =? vt) eqn:Edv.
        + apply N.eqb_eq in Edv. subst dv. apply st_ret. intros m Hi ->.
          destruct (dec_position m0 id vt els Hi (proj1 HU0) En) as (l' & r' & A & B & C & D).
          rewrite Hat in A. injection A as <- <-. unfold posd. eapply Forall_impl; [|exact D]. intros e (_ & _ & X & Y). split; assumption.
        + apply Hother. intros nv Hnv Heq. unfold vtree_of in Hnv. rewrite En in Hnv.
          injection Hnv as <-. subst dv. now rewrite N.eqb_refl in Edv.
    Qed.

    (* ---- normalize_to --------------------------------------------------------------------------------------------------- *)
    Lemma normalize_S : forall id target, vvalid vn target -> (2 * N.to_nat target < K)%nat ->
      stp (fun m => under m id target) (normalize_to rapply rnegate id target) (fun x m => under m x target).
    Proof.
      intros id target Hvt Hk. unfold normalize_to.
      eapply st_seq; [apply st_checkpoint|].
      destruct ((id =? ID_TRUE) || (id =? ID_FALSE)) eqn:Ec; [apply st_ret; auto|].
      apply orb_false_elim in Ec as [Ec1 Ec0].
      apply st_getm. intros m0. apply st_init. intros m1 Hi1 [-> HU0].
      destruct (vtree_of m0 id) as [v|] eqn:Ev; [|apply st_ret; intros m Hi ->; exact HU0].
      destruct (v =? target) eqn:Evt; [apply st_ret; intros m Hi ->; exact HU0|].
      apply N.eqb_neq in Evt.
      assert (Hdv : desc vn v target = true) by (destruct HU0 as [_ H]; now rewrite Ev in H).
      destruct (desc_valid_int vn v target Hdv Evt) as [_ (l & r & Hat)].
      rewrite (children_some m0 target l r Hi1 Hat).
      destruct (vt_int _ _ H0 target l r Hvt Hat) as (Hl & Hr & _).
      assert (Hlv : vvalid vn l) by (unfold vvalid in *; lia).
      destruct (is_desc m0 v l) eqn:Edl.
      - rewrite (is_desc_vnP _ _ _ Hi1) in Edl.
        assert (HUl : under m0 id l) by (split; [exact (proj1 HU0) | now rewrite Ev]).
        destruct (HRL target l r Hvt Hat) as [x Hleaf].
        assert (Nid0 : id <> 0) by (apply N.eqb_neq; exact Ec0).
        assert (Nid1 : id <> 1) by (apply N.eqb_neq; exact Ec1).
        destruct (under_leaf_lit m0 id l x Hi1 Hleaf HUl Nid0 Nid1) as [p Elit].
        set (P1 := fun m : mgr => under m id l /\ node_at m id = NLit x p).
        assert (SP1 : stable P1).
        { unfold P1. intros m m' [A B] He. split; [eapply under_stable; eauto|]. rewrite (node_at_ext m m' id (proj1 A) He). exact B. }
        apply st_pre with (P' := fun m => P1 m /\ under m id target); [|intros m Hi ->; split; [split; assumption | assumption]].
        eapply st_bindk with (P1 := P1) (Q := fun y m => under m y l /\ node_at m y = NLit x (negb p)).
        + apply negate_lit; [lia | exact Hlv].
        + apply stable_and; [exact SP1 | apply under_stable].
        + intros m Hi [A _]; exact A.
        + intros neg. unfold make_decision_raw.
          eapply st_seq; [apply st_checkpoint|].
          unfold drop_false_primes. cbn [filter fst]. rewrite Ec0. cbn [negb].
          destruct (neg =? ID_FALSE) eqn:En0; cbn [negb trim].
          * (* the negation of a literal is a literal, never FALSE *)
            apply st_false. intros m Hi [[_ Hn] _]. apply N.eqb_eq in En0. subst neg. exact (lit_nonzero m 0 x (negb p) Hi Hn eq_refl).
          * replace ((ID_TRUE =? ID_TRUE) && (ID_FALSE =? ID_FALSE)) with true by reflexivity.
            apply st_ret. intros m Hi [_ [_ HU']]. exact HU'.
      - destruct (is_desc m0 v r); [|apply st_ret; intros m Hi ->; exact HU0].
        unfold unique_d. eapply st_seq; [apply st_checkpoint|].
        unfold drop_false_primes. cbn [filter fst].
        replace (negb (ID_TRUE =? ID_FALSE)) with true by reflexivity. cbn [trim].
        replace (ID_TRUE =? ID_TRUE) with true by reflexivity.
        apply st_ret. intros m Hi ->; exact HU0.
    Qed.

    (* ---- apply_same_vtree ------------------------------------------------------------------------------------------------ *)
    Lemma same_vtree_S : forall a b o vt l r, vat vn vt = VInt l r -> vvalid vn vt -> (2 * N.to_nat vt + 2 < K)%nat ->
      stp (fun m => under m a vt /\ under m b vt) (apply_same_vtree rapply rnegate a b o vt) (fun x m => under m x vt).
    Proof.
      intros a b o vt l r Hat Hvt Hk. unfold apply_same_vtree.
      destruct (vt_int _ _ H0 vt l r Hvt Hat) as (Hl & Hr & _).
      assert (Hlv : vvalid vn l) by (unfold vvalid in *; lia).
      assert (Hrv : vvalid vn r) by (unfold vvalid in *; lia).
      set (P0 := fun m : mgr => under m a vt /\ under m b vt).
      assert (SP0 : stable P0) by (unfold P0; stab).
      eapply st_bindk with (P1 := fun m => under m a vt) (Q := fun ea m => posd m l r ea).
      { apply (expand_S a vt l r Hat Hvt); lia. } { exact SP0. } { intros m Hi [A _]; exact A. }
      intros ea.
      eapply st_bindk with (P1 := fun m => under m b vt) (Q := fun eb m => posd m l r eb).
      { apply (expand_S b vt l r Hat Hvt); lia. } { apply stable_and; [apply posd_stable | exact SP0]. }
      { intros m Hi [_ [_ B]]; exact B. }
      intros eb.
      set (Pall := fun m : mgr => posd m l r eb /\ posd m l r ea /\ P0 m).
      assert (SPall : stable Pall).
      { unfold Pall. apply stable_and; [apply posd_stable|]. apply stable_and; [apply posd_stable | exact SP0]. }
      set (I := fun (acc : list elem) (dG : list (elem * elem)) (m : mgr) => posd m l r acc).
      eapply st_bind with (Q := fun els m => posd m l r els).
      - eapply st_conseq.
        + refine (st_mfoldl PInv _ Pall I (list_prod ea eb) (list_prod ea eb) SPall eq_refl _ [] []).
          intros acc dG [[pa sa] [pb sb]] g Hin. pose proof (in_combine_l _ _ _ _ Hin) as Hinp. cbn [fst snd].
          apply in_prod_iff in Hinp as [Hia Hib].
          set (P2 := fun m : mgr => I acc dG m /\ Pall m).
          assert (SP2 : stable P2) by (apply stable_and; [unfold I; apply posd_stable | exact SPall]).
          assert (Hel : forall m, P2 m -> (under m pa l /\ under m sa r) /\ (under m pb l /\ under m sb r)).
          { intros m [_ (HB & HA & _)]. unfold posd in HA, HB. rewrite Forall_forall in HA, HB.
            split; [exact (HA _ Hia) | exact (HB _ Hib)]. }
          eapply st_seq; [apply st_checkpoint|].
          eapply st_bindk with (P1 := fun m => under m pa l /\ under m pb l) (Q := fun x m => under m x l).
          { apply apply_under; [lia | exact Hlv]. } { exact SP2. }
          { intros m Hi H. destruct (Hel m H) as [[? ?] [? ?]]. split; assumption. }
          intros prime. destruct (prime =? ID_FALSE).
          * apply st_ret. intros m Hi [_ [HI HP]]. split; assumption.
          * eapply st_bindk with (P1 := fun m => under m sa r /\ under m sb r) (Q := fun x m => under m x r).
            { apply apply_under; [lia | exact Hrv]. } { apply stable_and; [apply under_stable | exact SP2]. }
            { intros m Hi [_ H]. destruct (Hel m H) as [[? ?] [? ?]]. split; assumption. }
            intros sub. apply st_ret. intros m Hi [Hs [Hp [HI HP]]]. split; [|exact HP].
            unfold I, posd in *. apply Forall_app. split; [exact HI|]. constructor; [|constructor]. split; assumption.
        + intros m Hi H. split; [constructor | exact H].
        + intros els m Hi [HI _]. exact HI.
      - intros els. apply (unique_d_S vt l r els Hat Hvt). lia.
    Qed.

    (* ---- apply_norm / apply_inner ------------------------------------------------------------------------------------------ *)
    Lemma apply_norm_S : forall a b o t l r, vat vn t = VInt l r -> vvalid vn t -> (2 * N.to_nat t + 2 < K)%nat ->
      stp (fun m => under m a t /\ under m b t) (apply_norm rapply rnegate a b o t) (fun x m => under m x t).
    Proof.
      intros a b o t l r Hat Hvt Hk. unfold apply_norm.
      set (P0 := fun m : mgr => under m a t /\ under m b t).
      assert (SP0 : stable P0) by (unfold P0; stab).
      eapply st_bindk with (P1 := fun m => under m a t) (Q := fun x m => under m x t).
      { apply normalize_S; [exact Hvt | lia]. } { exact SP0. } { intros m Hi [A _]; exact A. }
      intros x.
      eapply st_bindk with (P1 := fun m => under m b t) (Q := fun y m => under m y t).
      { apply normalize_S; [exact Hvt | lia]. } { stab. } { intros m Hi [_ [_ B]]; exact B. }
      intros y. eapply st_pre; [apply (same_vtree_S x y o t l r Hat Hvt Hk)|].
      intros m Hi [A [B _]]. split; assumption.
    Qed.

    Definition nonterm (m : mgr) (a b : N) (o : bop) : Prop :=
      a <> 0 /\ a <> 1 /\ b <> 0 /\ b <> 1 /\ a <> b /\ compl_lits (node_at m a) (node_at m b) o = None.
    Lemma nonterm_stable : forall a b o, stable (fun m => validh m a /\ validh m b /\ nonterm m a b o).
    Proof.
      intros a b o m m' (Va & Vb & H) He. split; [eapply validh_ext; eauto|]. split; [eapply validh_ext; eauto|].
      unfold nonterm in *. now rewrite (node_at_ext m m' a Va He), (node_at_ext m m' b Vb He).
    Qed.

    Lemma apply_inner_S : forall a b o T, vvalid vn T -> (2 * N.to_nat T + 2 < K)%nat ->
      stp (fun m => under m a T /\ under m b T /\ nonterm m a b o) (apply_inner rapply rnegate a b o)
          (fun x m => UA m a b x).
    Proof.
      intros a b o T HvT Hk. unfold apply_inner.
      eapply st_seq; [apply st_checkpoint|].
      apply st_getm. intros m0. apply st_init. intros m1 Hi1 [-> (HA & HB & HN)].
      destruct HN as (Na0 & Na1 & Nb0 & Nb1 & Nab & Ncompl).
      destruct (vtree_of m0 a) as [va|] eqn:Eva.
      2:{ apply st_false. intros m _ _. destruct (vtree_none_const m0 a Hi1 (proj1 HA) Eva); contradiction. }
      destruct (vtree_of m0 b) as [vb|] eqn:Evb.
      2:{ apply st_false. intros m _ _. destruct (vtree_none_const m0 b Hi1 (proj1 HB) Evb); contradiction. }
      assert (DaT : desc vn va T = true) by (destruct HA as [_ H]; now rewrite Eva in H).
      assert (DbT : desc vn vb T = true) by (destruct HB as [_ H]; now rewrite Evb in H).
      pose proof (desc_le' vn v2v H0 T va DaT) as LaT. pose proof (desc_le' vn v2v H0 T vb DbT) as LbT.
      (* conclusion from a result positioned under a node t0 that lies under every common ancestor *)
      set (P0 := fun m : mgr => vtS m a va /\ vtS m b vb).
      assert (SP0 : stable P0) by (unfold P0; apply stable_and; apply vtS_stable).
      assert (HP0 : P0 m0) by (split; (split; [apply HA || apply HB | assumption])).
      assert (Hfin : forall t0 l r, vat vn t0 = VInt l r -> vvalid vn t0 -> t0 <= T ->
                desc vn va t0 = true -> desc vn vb t0 = true ->
                (forall t', vvalid vn t' -> desc vn va t' = true -> desc vn vb t' = true -> desc vn t0 t' = true) ->
                forall c, (c = apply_norm rapply rnegate a b o t0 \/ c = apply_same_vtree rapply rnegate a b o t0) ->
                stp (fun m => m = m0) c (fun x m => UA m a b x)).
      { intros t0 l r Hat Hvt Hle Da Db Hmin c Hc.
        assert (Hk0 : (2 * N.to_nat t0 + 2 < K)%nat) by lia.
        assert (HUab : forall m, P0 m -> under m a t0 /\ under m b t0).
        { intros m [[Va Ea] [Vb Eb]]. split; (split; [assumption|]); [now rewrite Ea | now rewrite Eb]. }
        eapply st_conseq with (P' := P0) (Q' := fun x m => under m x t0 /\ P0 m).
        - destruct Hc as [->| ->].
          + apply (st_call PInv P0 _ _ _ (apply_norm_S a b o t0 l r Hat Hvt Hk0)); [exact SP0 | intros m _ H; exact (HUab m H)].
          + apply (st_call PInv P0 _ _ _ (same_vtree_S a b o t0 l r Hat Hvt Hk0)); [exact SP0 | intros m _ H; exact (HUab m H)].
        - intros m Hi ->. exact HP0.
        - intros x m Hi [Ux [[Va Ea] [Vb Eb]]]. split; [exact (proj1 Ux)|]. intros t' Ht' [_ A'] [_ B'].
          rewrite Ea in A'. rewrite Eb in B'. eapply under_trans; [exact Ux | now apply Hmin]. }
      destruct (va =? vb) eqn:Eab.
      - apply N.eqb_eq in Eab. subst vb.
        (* both at the same vtree node: it is internal, otherwise a and b are equal or complementary literals *)
        destruct (vat vn va) as [w|l r] eqn:Hat.
        + apply st_false. intros m _ _.
          destruct (node_ge2 m0 a Hi1 (proj1 HA) Na0 Na1) as [[Ga [v [p En]]]|[Ga [vt [els En]]]].
          2:{ destruct (dec_position m0 a vt els Hi1 (proj1 HA) En) as (l & r & A & _ & C & _). rewrite Eva in C. injection C as ->. congruence. }
          destruct (node_ge2 m0 b Hi1 (proj1 HB) Nb0 Nb1) as [[Gb [v' [p' En']]]|[Gb [vt [els En']]]].
          2:{ destruct (dec_position m0 b vt els Hi1 (proj1 HB) En') as (l & r & A & _ & C & _). rewrite Evb in C. injection C as ->. congruence. }
          destruct (lit_position m0 a v p Hi1 (proj1 HA) En) as (i & A1 & _ & A3).
          destruct (lit_position m0 b v' p' Hi1 (proj1 HB) En') as (i' & B1 & _ & B3).
          rewrite Eva in A1. injection A1 as <-. rewrite Evb in B1. injection B1 as <-.
          rewrite A3 in B3. injection B3 as <-.
          unfold compl_lits in Ncompl. rewrite En, En', N.eqb_refl in Ncompl. cbn [andb] in Ncompl.
          destruct (Bool.eqb p p') eqn:Ep; [|discriminate]. apply Bool.eqb_prop in Ep. subst p'.
          apply Nab. apply (node_unique m0 a b Hi1 (proj1 HA) (proj1 HB) Ga Gb). congruence.
        + assert (Hvva : vvalid vn va).
          { unfold vvalid. destruct (Nat.lt_ge_cases (N.to_nat va) (length vn)); [assumption|].
            unfold vat in Hat. rewrite nth_overflow in Hat by lia. discriminate. }
          apply (Hfin va l r Hat Hvva LaT (desc_refl vn va) (desc_refl vn va)); [intros t' _ D _; exact D | now right].
      - apply N.eqb_neq in Eab. rewrite !(is_desc_vnP m0) by exact Hi1.
        destruct (desc vn va vb) eqn:D1.
        + destruct (desc_valid_int vn va vb D1 Eab) as [Vvb (l & r & Hat)].
          apply (Hfin vb l r Hat Vvb LbT D1 (desc_refl vn vb)); [intros t' _ _ D; exact D | now left].
        + destruct (desc vn vb va) eqn:D2.
          * destruct (desc_valid_int vn vb va D2 (fun e => Eab (eq_sym e))) as [Vva (l & r & Hat)].
            apply (Hfin va l r Hat Vva LaT (desc_refl vn va) D2); [intros t' _ D _; exact D | now left].
          * unfold find_lca. rewrite (p_vn _ Hi1), (p_root _ Hi1).
            destruct (lca_min vn v2v root H0 HU va vb T HvT DaT DbT) as (x0 & F & Dx & Dax & Dbx). rewrite F.
            assert (Hne : va <> x0) by (intros ->; congruence).
            destruct (desc_valid_int vn va x0 Dax Hne) as [Vx (l & r & Hat)].
            apply (Hfin x0 l r Hat Vx (desc_le' vn v2v H0 T x0 Dx) Dax Dbx); [|now left].
            intros t' Ht' Da' Db'. destruct (lca_min vn v2v root H0 HU va vb t' Ht' Da' Db') as (x1 & F1 & Dx1 & _).
            rewrite F in F1. injection F1 as <-. exact Dx1.
    Qed.

    (* ---- apply (body) ------------------------------------------------------------------------------------------------------ *)
    Lemma UA_sym : forall m a b r, UA m a b r -> UA m b a r.
    Proof. intros m a b r [V H]. split; [exact V|]. intros t Ht A B. now apply H. Qed.
    Lemma UA_left : forall m a b, validh m a -> UA m a b a.
    Proof. intros m a b V. split; [exact V|]. intros t _ A _. exact A. Qed.
    Lemma UA_right : forall m a b, validh m b -> UA m a b b.
    Proof. intros m a b V. split; [exact V|]. intros t _ _ B. exact B. Qed.

    Lemma acache_ins_P : forall m a b o r,
      PInv m -> validh m a -> validh m b -> UA m a b r -> a <> 0 -> a <> 1 -> b <> 0 -> b <> 1 ->
      PInv (acache_ins (cache_key a b o) r m) /\ ext m (acache_ins (cache_key a b o) r m).
    Proof.
      intros m a b o r Hp Ha Hb Hr Na0 Na1 Nb0 Nb1. split.
      - constructor; try apply Hp.
        + cbn [acache acache_ins]. intros a' b' o' r' [Heq|Hin]; [|exact (p_acache m Hp _ _ _ _ Hin)].
          unfold cache_key in Heq. destruct (a <=? b); injection Heq as E1 E2 E3 E4; subst a' b' o' r'.
          * split; [exact Ha|]. split; [exact Hb | exact Hr].
          * split; [exact Hb|]. split; [exact Ha | now apply UA_sym].
        + cbn [acache acache_ins]. intros a' b' o' r' [Heq|Hin]; [|exact (p_acnc m Hp _ _ _ _ Hin)].
          unfold cache_key in Heq. destruct (a <=? b); injection Heq as E1 E2 E3 E4; subst a' b' o' r'; auto.
      - split; [exists []; cbn; now rewrite app_nil_r | repeat split].
    Qed.

    Lemma apply_body_S : forall a b o T, vvalid vn T -> (2 * N.to_nat T + 3 < S K)%nat ->
      stp (fun m => under m a T /\ under m b T) (apply_body rapply rnegate a b o) (fun x m => UA m a b x).
    Proof.
      intros a b o T HvT Hk. unfold apply_body.
      eapply st_seq; [apply st_checkpoint|].
      destruct (terminal a b o) as [x|] eqn:Et.
      { apply st_ret. intros m Hi [HA HB]. unfold terminal in Et.
        assert (Hc : x = 0 \/ x = 1 \/ x = a \/ x = b).
        { unfold ID_FALSE, ID_TRUE in Et. destruct o;
            repeat match type of Et with (if ?c then _ else _) = _ => destruct c end;
            try discriminate; injection Et as <-; auto. }
        destruct Hc as [->|[->|[->| ->]]].
        - split; [apply (pvalid01 m Hi) | intros; now apply under_const0].
        - split; [apply (pvalid01 m Hi) | intros; now apply under_const1].
        - apply UA_left. exact (proj1 HA).
        - apply UA_right. exact (proj1 HB). }
      assert (Hnt : a <> 0 /\ a <> 1 /\ b <> 0 /\ b <> 1 /\ a <> b).
      { unfold terminal, ID_FALSE, ID_TRUE in Et.
        destruct o; destruct (a =? 0) eqn:A0, (a =? 1) eqn:A1, (b =? 0) eqn:B0, (b =? 1) eqn:B1, (a =? b) eqn:AB;
          cbn in Et; try discriminate; apply N.eqb_neq in A0, A1, B0, B1, AB; auto. }
      apply st_getm. intros m0.
      destruct (compl_lits (node_at m0 a) (node_at m0 b) o) as [x|] eqn:Ec.
      { apply st_ret. intros m Hi _. unfold compl_lits in Ec.
        destruct (node_at m0 a); try discriminate. destruct (node_at m0 b); try discriminate.
        destruct ((v =? v0) && negb (Bool.eqb pol pol0)); [|discriminate]. injection Ec as <-.
        destruct o; (split; [apply (pvalid01 m Hi) | intros; first [now apply under_const0 | now apply under_const1]]). }
      destruct (alookup akey_eqb (cache_key a b o) (acache m0)) as [x|] eqn:El.
      { apply st_ret. intros m Hi [-> [HA HB]].
        apply (alookup_in akey_eqb akey_eqb_eq) in El. unfold cache_key in El.
        destruct (a <=? b); destruct (p_acache _ Hi _ _ _ _ El) as (_ & _ & H); [exact H | now apply UA_sym]. }
      set (P0 := fun m : mgr => under m a T /\ under m b T /\ validh m a /\ validh m b /\ nonterm m a b o).
      assert (SP0 : stable P0).
      { unfold P0. intros m m' (A & B & C) He. split; [eapply under_stable; eauto|]. split; [eapply under_stable; eauto|].
        eapply (nonterm_stable a b o m); eauto. }
      apply st_pre with (P' := P0).
      2:{ intros m Hi [-> [HA HB]]. destruct Hnt as (N1 & N2 & N3 & N4 & N5).
          split; [exact HA|]. split; [exact HB|]. split; [exact (proj1 HA)|]. split; [exact (proj1 HB)|].
          repeat split; assumption. }
      eapply st_bindk with (P1 := fun m => under m a T /\ under m b T /\ nonterm m a b o) (Q := fun x m => UA m a b x).
      { apply apply_inner_S; [exact HvT | lia]. } { exact SP0. }
      { intros m Hi (A & B & _ & _ & C). split; [exact A|]. split; [exact B | exact C]. }
      intros x. eapply st_bind.
      - apply st_modm with (Q := fun _ m => UA m a b x).
        intros m Hi [Hx (_ & _ & Va & Vb & (N1 & N2 & N3 & N4 & _))].
        destruct (acache_ins_P m a b o x Hi Va Vb Hx N1 N2 N3 N4) as [H1 H2].
        split; [exact H1|]. split; [exact H2|].
        exact (proj2 (proj2 (UA_stable a b x m _ (conj Va (conj Vb Hx)) H2))).
      - intros u. apply st_ret. auto.
    Qed.

    (* ---- negate (body) -------------------------------------------------------------------------------------------------------- *)
    Lemma ncache_ins_P : forall m id r,
      PInv m -> validh m id -> UN m id r -> LitN m id r -> id <> 0 -> id <> 1 -> PInv (ncache_ins id r m) /\ ext m (ncache_ins id r m).
    Proof.
      intros m id r Hp Ha Hr HL N0 N1. split.
      - constructor; try apply Hp.
        + cbn [ncache ncache_ins]. intros id' r' [Heq|Hin]; [|exact (p_ncache m Hp _ _ Hin)].
          injection Heq as E1 E2; subst id' r'. split; assumption.
        + cbn [ncache ncache_ins]. intros id' r' [Heq|Hin]; [|exact (p_ncnc m Hp _ _ Hin)].
          injection Heq as E1 E2; subst id' r'. split; assumption.
        + cbn [ncache ncache_ins]. intros id' r' [Heq|Hin]; [|exact (p_nclit m Hp _ _ Hin)].
          injection Heq as E1 E2; subst id' r'. exact HL.
      - split; [exists []; cbn; now rewrite app_nil_r | repeat split].
    Qed.

    Lemma negate_body_S : forall id T, vvalid vn T -> (2 * N.to_nat T + 2 < S K)%nat ->
      stp (fun m => under m id T) (negate_body rapply rnegate id) (fun x m => UN m id x /\ LitN m id x).
    Proof.
      intros id T HvT Hk. unfold negate_body.
      eapply st_seq; [apply st_checkpoint|].
      destruct (id =? ID_FALSE) eqn:E0.
      { apply N.eqb_eq in E0. subst id. apply st_ret. intros m Hi _. split; [split; [apply (pvalid01 m Hi) | intros; now apply under_const1]|].
        intros x p Hn. destruct (pvalid01 m Hi) as (_ & _ & C & _). unfold ID_FALSE in *. congruence. }
      destruct (id =? ID_TRUE) eqn:E1.
      { apply N.eqb_eq in E1. subst id. apply st_ret. intros m Hi _. split; [split; [apply (pvalid01 m Hi) | intros; now apply under_const0]|].
        intros x p Hn. destruct (pvalid01 m Hi) as (_ & _ & _ & C). unfold ID_TRUE in *. congruence. }
      apply N.eqb_neq in E0, E1.
      apply st_getm. intros m0.
      destruct (alookup N.eqb id (ncache m0)) as [x|] eqn:El.
      { apply st_ret. intros m Hi [-> HA].
        apply (alookup_in N.eqb) in El; [|intros ? ? HH; now apply N.eqb_eq in HH].
        split; [exact (proj2 (p_ncache _ Hi _ _ El)) | exact (p_nclit _ Hi _ _ El)]. }
      apply st_init. intros m1 Hi1 [-> HA].
      assert (Hcont : forall x, stp (fun m => validh m id /\ UN m id x /\ LitN m id x) (modm (ncache_ins id x) ;;; ret x)
                                 (fun x m => UN m id x /\ LitN m id x)).
      { intros x. eapply st_bind.
        + apply st_modm with (Q := fun _ m => UN m id x /\ LitN m id x).
          intros m Hi (Va & Hx & HL). destruct (ncache_ins_P m id x Hi Va Hx HL E0 E1) as [H1 H2].
          split; [exact H1|]. split; [exact H2|]. split; [exact (proj2 (UN_stable id x m _ (conj Va Hx) H2)) | exact HL].
        + intros u. apply st_ret. auto. }
      destruct (node_ge2 m0 id Hi1 (proj1 HA) E0 E1) as [[Gi [v [p En]]]|[Gi [vt [els En]]]]; rewrite En.
      - (* literal *)
        destruct (lit_position m0 id v p Hi1 (proj1 HA) En) as (i & A1 & A2 & A3).
        assert (Hreg : regd' v).
        { pose proof (p_nodes _ Hi1 _ (proj1 HA)) as Hkk. unfold node_at in En. rewrite En in Hkk. exact Hkk. }
        set (P0 := fun m : mgr => vtS m id i /\ node_at m id = NLit v p).
        assert (SP0 : stable P0).
        { unfold P0. intros m m' [A B] He. split; [eapply vtS_stable; eauto|]. rewrite (node_at_ext m m' id (proj1 A) He). exact B. }
        apply st_pre with (P' := P0); [|intros m Hi ->; split; [split; [exact (proj1 HA) | exact A1] | exact En]].
        eapply st_bind; [|exact Hcont].
        eapply st_conseq.
        + apply (st_call PInv P0 (fun _ => True) _ _ (literal_S v (negb p) Hreg)); [exact SP0 | auto].
        + auto.
        + intros x m Hi [[Vx Nx] [[Vid Eid] Enid]]. split; [exact Vid|]. split.
          * split; [exact Vx|]. intros t [_ Ut]. rewrite Eid in Ut. split; [exact Vx|]. unfold vtree_of. rewrite Nx, (p_v2v m Hi).
            unfold vtree_of in A1. rewrite En, (p_v2v _ Hi1) in A1. rewrite A1. exact Ut.
          * intros x' p' Hn'. rewrite Enid in Hn'. injection Hn' as <- <-. exact Nx.
      - (* decision *)
        destruct (dec_position m0 id vt els Hi1 (proj1 HA) En) as (l & r & Hat & Hvt & Evt & Hels).
        assert (DvT : desc vn vt T = true) by (destruct HA as [_ H]; now rewrite Evt in H).
        pose proof (desc_le' vn v2v H0 T vt DvT) as LvT.
        destruct (vt_int _ _ H0 vt l r Hvt Hat) as (Hl & Hr & _).
        assert (Hrv : vvalid vn r) by (unfold vvalid in *; lia).
        assert (HP0 : posd m0 l r els) by (unfold posd; eapply Forall_impl; [|exact Hels]; intros e (_ & _ & X & Y); split; assumption).
        set (Pall := fun m : mgr => posd m l r els /\ vtS m id vt /\ node_at m id = NDec vt els).
        assert (SPall : stable Pall).
        { unfold Pall. intros m m' (A & B & C) He. split; [eapply posd_stable; eauto|]. split; [eapply vtS_stable; eauto|].
          rewrite (node_at_ext m m' id (proj1 B) He). exact C. }
        set (I := fun (acc : list elem) (dG : list elem) (m : mgr) => posd m l r acc).
        apply st_pre with (P' := fun m => I [] [] m /\ Pall m);
          [|intros m Hi ->; split; [constructor | split; [exact HP0 | split; [split; [exact (proj1 HA) | exact Evt] | exact En]]]].
        eapply st_bind; [|exact Hcont].
        eapply st_bind with (Q := fun negs m => posd m l r negs /\ Pall m).
        + eapply st_conseq.
          * refine (st_mfoldl PInv _ Pall I els els SPall eq_refl _ [] []).
            intros acc dG [p s0] g Hin. pose proof (in_combine_l _ _ _ _ Hin) as Hine. cbn [fst snd].
            eapply st_bindk with (P1 := fun m => under m s0 r) (Q := fun x m => under m x r).
            { apply negate_under; [lia | exact Hrv]. } { apply stable_and; [unfold I; apply posd_stable | exact SPall]. }
            { intros m Hi [_ [HR _]]. unfold posd in HR. rewrite Forall_forall in HR. exact (proj2 (HR _ Hine)). }
            intros ns. apply st_ret. intros m Hi [Hns [HI [HR HP]]]. split; [|split; assumption].
            unfold I, posd in *. apply Forall_app. split; [exact HI|]. constructor; [|constructor].
            cbn [fst snd]. split; [|exact Hns]. rewrite Forall_forall in HR. exact (proj1 (HR _ Hine)).
          * auto.
          * intros negs m Hi H. exact H.
        + intros negs. eapply st_conseq.
          * apply (st_call PInv (fun m => posd m l r negs /\ Pall m) (fun m => posd m l r negs) _ _ (unique_d_S vt l r negs Hat Hvt ltac:(lia))).
            -- apply stable_and; [apply posd_stable | exact SPall].
            -- intros m Hi [A _]. exact A.
          * auto.
          * intros x m Hi [Ux [_ [_ [[Vid Eid] Enid]]]]. split; [exact Vid|]. split.
            -- split; [exact (proj1 Ux)|]. intros t [_ Ut]. rewrite Eid in Ut. eapply under_trans; eauto.
            -- intros x' p' Hn'. rewrite Enid in Hn'. discriminate.
    Qed.

    (* Or of two non-FALSE handles that live at a leaf (TRUE or the literals of its variable) is decided by the terminal
       cases and is never FALSE *)
    Lemma apply_body_NZ : forall a b l x, vat vn l = VLeaf x -> vvalid vn l ->
      stp (fun m => under m a l /\ under m b l /\ a <> 0 /\ b <> 0) (apply_body rapply rnegate a b Or) (fun r m => r <> 0).
    Proof.
      intros a b l x Hleaf Hl. unfold apply_body.
      eapply st_seq; [apply st_checkpoint|].
      destruct (terminal a b Or) as [y|] eqn:Et.
      { apply st_ret. intros m Hi (_ & _ & Na & Nb). unfold terminal, ID_TRUE, ID_FALSE in Et.
        destruct ((a =? 1) || (b =? 1)); [injection Et as <-; discriminate|].
        destruct (a =? 0) eqn:A0; [apply N.eqb_eq in A0; contradiction|].
        destruct (b =? 0) eqn:B0; [apply N.eqb_eq in B0; contradiction|].
        destruct (a =? b); [injection Et as <-; exact Na | discriminate]. }
      assert (Hnt : a <> 1 /\ b <> 1 /\ a <> b).
      { unfold terminal, ID_FALSE, ID_TRUE in Et.
        destruct (a =? 0) eqn:A0, (a =? 1) eqn:A1, (b =? 0) eqn:B0, (b =? 1) eqn:B1, (a =? b) eqn:AB;
          cbn in Et; try discriminate; apply N.eqb_neq in A1, B1, AB; auto. }
      destruct Hnt as (Na1 & Nb1 & Nab).
      apply st_getm. intros m0. apply st_init. intros m1 Hi1 [-> (Ua & Ub & Na0 & Nb0)].
      destruct (under_leaf_lit m0 a l x Hi1 Hleaf Ua Na0 Na1) as [pa Ea].
      destruct (under_leaf_lit m0 b l x Hi1 Hleaf Ub Nb0 Nb1) as [pb Eb].
      rewrite Ea, Eb. cbn [compl_lits]. rewrite N.eqb_refl. cbn [andb].
      destruct (Bool.eqb pa pb) eqn:Ep.
      - exfalso. apply Bool.eqb_prop in Ep. subst pb. apply Nab.
        assert (Ga : (2 <= N.to_nat a)%nat) by lia. assert (Gb : (2 <= N.to_nat b)%nat) by lia.
        apply (node_unique m0 a b Hi1 (proj1 Ua) (proj1 Ub) Ga Gb). congruence.
      - cbn [negb]. apply st_ret. intros m _ _. discriminate.
    Qed.
  End BodiesS.

  (* ---- fuel induction ------------------------------------------------------------------------------------------------------------ *)
  Lemma fuel_S : forall fuel,
    (forall a b o t, (2 * N.to_nat t + 3 < fuel)%nat -> vvalid vn t ->
       stp (fun m => under m a t /\ under m b t) (apply_f fuel a b o) (fun r m => UA m a b r)) /\
    (forall id t, (2 * N.to_nat t + 2 < fuel)%nat -> vvalid vn t ->
       stp (fun m => under m id t) (negate_f fuel id) (fun r m => UN m id r /\ LitN m id r)) /\
    (forall a b l x, vat vn l = VLeaf x -> vvalid vn l -> (2 * N.to_nat l + 3 < fuel)%nat ->
       stp (fun m => under m a l /\ under m b l /\ a <> 0 /\ b <> 0) (apply_f fuel a b Or) (fun r m => r <> 0)).
  Proof.
    induction fuel as [|f (IHa & IHn & IHz)].
    - split; [|split]; intros; lia.
    - split; [|split]; intros; cbn [apply_f negate_f].
      + apply (apply_body_S (apply_f f) (negate_f f) f IHa IHn IHz); assumption.
      + apply (negate_body_S (apply_f f) (negate_f f) f IHa IHn IHz); assumption.
      + apply (apply_body_NZ (apply_f f) (negate_f f) a b l x); assumption.
  Qed.

  (* every valid handle lies under the root *)
  Lemma all_under_root : forall m x r0, PInv m -> root = Some r0 -> validh m x -> under m x r0.
  Proof.
    intros m x r0 Hp Hr Hv. split; [exact Hv|]. destruct (vtree_of m x) as [nv|] eqn:E; [|exact I].
    pose proof (proj2 HVt) as HR. unfold RootOk in HR. rewrite Hr in HR. destruct HR as [_ HR]. apply HR.
    destruct (N.eq_dec x 0) as [->|N0]; [destruct (pvalid01 m Hp) as (_ & _ & C & _); unfold vtree_of in E; rewrite C in E; discriminate|].
    destruct (N.eq_dec x 1) as [->|N1]; [destruct (pvalid01 m Hp) as (_ & _ & _ & C); unfold vtree_of in E; rewrite C in E; discriminate|].
    destruct (node_ge2 m x Hp Hv N0 N1) as [[_ [v [p En]]]|[_ [vt [els En]]]].
    - destruct (lit_position m x v p Hp Hv En) as (i & A & B & _). rewrite E in A. injection A as ->. exact B.
    - destruct (dec_position m x vt els Hp Hv En) as (l & r & _ & B & C & _). rewrite E in C. injection C as ->. exact B.
  Qed.

  Lemma root_valid : forall r0, root = Some r0 -> vvalid vn r0.
  Proof. intros r0 Hr. pose proof (proj2 HVt) as HR. unfold RootOk in HR. rewrite Hr in HR. apply HR. Qed.

  Lemma const_only : forall m x, PInv m -> root = None -> validh m x -> x = 0 \/ x = 1.
  Proof.
    intros m x Hp Hr Hv. pose proof (proj2 HVt) as HR. unfold RootOk in HR. rewrite Hr in HR. destruct HR as [Evn _].
    destruct (N.eq_dec x 0) as [->|N0]; [now left|]. destruct (N.eq_dec x 1) as [->|N1]; [now right|]. exfalso.
    assert (Hnv : forall i, ~ vvalid vn i) by (intros i H; unfold vvalid in H; rewrite Evn in H; cbn in H; lia).
    destruct (node_ge2 m x Hp Hv N0 N1) as [[_ [v [p En]]]|[_ [vt [els En]]]].
    - destruct (lit_position m x v p Hp Hv En) as (i & _ & B & _). exact (Hnv i B).
    - destruct (dec_position m x vt els Hp Hv En) as (l & r & _ & B & _). exact (Hnv vt B).
  Qed.

  (* top-level calls: fuel above 2 * |vtree| + 3 *)
  Lemma apply_top_S : forall fuel a b o, (2 * length vn + 3 < fuel)%nat ->
    stp (fun m => validh m a /\ validh m b) (apply_f fuel a b o) (fun r m => validh m r).
  Proof.
    intros fuel a b o Hf. destruct (opt_case root) as [[r0 Er]|Er].
    - pose proof (root_valid r0 Er) as Vr.
      eapply st_conseq; [apply (proj1 (fuel_S fuel) a b o r0); [unfold vvalid in Vr; lia | exact Vr] | |].
      + intros m Hi [A B]. split; eapply all_under_root; eauto.
      + intros r m Hi [V _]. exact V.
    - destruct fuel as [|f]; [lia|]. cbn [apply_f]. unfold apply_body.
      eapply st_seq; [apply st_checkpoint|].
      apply st_init. intros m0 Hi0 [Va Vb].
      assert (Hc : (a = 0 \/ a = 1) /\ (b = 0 \/ b = 1)) by (split; eapply const_only; eauto).
      destruct (pvalid01 m0 Hi0) as (V0 & V1 & _).
      assert (Ht : exists x, terminal a b o = Some x /\ (x = 0 \/ x = 1)).
      { destruct Hc as [[->| ->] [->| ->]]; destruct o; cbn; eauto. }
      destruct Ht as [x [-> Hx]]. apply st_ret. intros m Hi ->. destruct Hx as [->| ->]; assumption.
  Qed.

  Lemma negate_top_S : forall fuel id, (2 * length vn + 3 < fuel)%nat ->
    stp (fun m => validh m id) (negate_f fuel id) (fun r m => validh m r).
  Proof.
    intros fuel id Hf. destruct (opt_case root) as [[r0 Er]|Er].
    - pose proof (root_valid r0 Er) as Vr.
      eapply st_conseq; [apply (proj1 (proj2 (fuel_S fuel)) id r0); [unfold vvalid in Vr; lia | exact Vr] | |].
      + intros m Hi A. eapply all_under_root; eauto.
      + intros r m Hi [[V _] _]. exact V.
    - destruct fuel as [|f]; [lia|]. cbn [negate_f]. unfold negate_body.
      eapply st_seq; [apply st_checkpoint|].
      apply st_init. intros m0 Hi0 Va. destruct (pvalid01 m0 Hi0) as (V0 & V1 & _).
      destruct (const_only m0 id Hi0 Er Va) as [->| ->]; cbn; apply st_ret; intros m Hi ->; assumption.
  Qed.

  Lemma literal_top_S : forall v pol, regd' v -> stp (fun _ => True) (literal v pol) (fun r m => validh m r).
  Proof. intros v pol H. eapply st_post; [apply literal_S; exact H|]. intros r m _ [A _]. exact A. Qed.

  Lemma exactly_one_S : forall fuel vars0, Forall regd' vars0 -> (2 * length vn + 3 < fuel)%nat ->
    stp (fun _ => True) (exactly_one fuel vars0) (fun r m => validh m r).
  Proof.
    intros fuel vars0 Hreg Hf. induction vars0 as [|v rest IH]; cbn [exactly_one].
    - eapply st_seq; [apply st_checkpoint|]. apply st_ret. intros m Hi _. apply (pvalid01 m Hi).
    - inversion Hreg as [|? ? Hv Hrest]; subst.
      eapply st_seq; [apply st_checkpoint|]. destruct rest as [|w rest'].
      + now apply literal_top_S.
      + set (rest := w :: rest') in *.
        eapply st_bindk with (P1 := fun _ => True) (Q := fun r m => validh m r).
        { now apply literal_top_S. } { apply stable_const. } { auto. }
        intros ft.
        eapply st_bindk with (P1 := fun _ => True) (Q := fun r m => validh m r).
        { now apply literal_top_S. } { stab. } { auto. }
        intros ff.
        set (P2 := fun m : mgr => validh m ff /\ validh m ft /\ True).
        assert (SP2 : stable P2) by (unfold P2; stab).
        set (I := fun (acc : N) (dG : list N) (m : mgr) => validh m acc).
        eapply st_bind with (Q := fun allf m => I allf rest m /\ P2 m).
        * eapply st_conseq.
          -- refine (st_mfoldl PInv _ P2 I rest rest SP2 eq_refl _ ID_TRUE []).
             intros acc dG r g Hin. pose proof (in_combine_l _ _ _ _ Hin) as Hinr.
             assert (Hr : regd' r) by (rewrite Forall_forall in Hrest; auto).
             eapply st_bindk with (P1 := fun _ => True) (Q := fun lf m => validh m lf).
             { now apply literal_top_S. } { unfold I. stab. } { auto. }
             intros lf. eapply st_conseq.
             ++ apply (st_call PInv (fun m => validh m lf /\ I acc dG m /\ P2 m) _ _ _ (apply_top_S fuel acc lf And Hf)).
                ** unfold I. stab.
                ** intros m Hi [H1 [H2 _]]. split; assumption.
             ++ auto.
             ++ intros r0 m Hi [Hr0 [_ [_ HP]]]. split; [exact Hr0 | exact HP].
          -- intros m Hi HP. split; [|exact HP]. unfold I. apply (pvalid01 m Hi).
          -- intros allf m Hi H. exact H.
        * intros allf.
          eapply st_bindk with (P1 := fun m => validh m ft /\ validh m allf) (Q := fun r m => validh m r).
          { apply (apply_top_S fuel ft allf And Hf). } { unfold I. stab. }
          { intros m Hi [H1 [_ [H2 _]]]. split; assumption. }
          intros lb.
          eapply st_bindk with (P1 := fun _ => True) (Q := fun r m => validh m r).
          { apply IH; exact Hrest. } { unfold I. stab. } { auto. }
          intros rc.
          eapply st_bindk with (P1 := fun m => validh m ff /\ validh m rc) (Q := fun r m => validh m r).
          { apply (apply_top_S fuel ff rc And Hf). } { unfold I. stab. }
          { intros m Hi [H1 [_ [_ [H2 _]]]]. split; assumption. }
          intros rb.
          eapply st_pre; [apply (apply_top_S fuel lb rb Or Hf)|].
          intros m Hi [H1 [_ [H2 _]]]. split; assumption.
  Qed.
End FixS.
