(* Bounded canonicity: the sweep over all operand pairs of three variables, evaluated by the
   kernel's virtual machine, and its reading as a universally quantified (bounded) statement. *)
Require Import KV.Sdd.Model KV.Sdd.Sem KV.Sdd.Spec KV.Sdd.History KV.Sdd.Canon3Defs.
Require Import Lia.

Lemma in_tabs256 : forall t, t < 256 -> In t tabs256.
Proof.
  intros t H. unfold tabs256. apply in_map_iff. exists (N.to_nat t). split; [apply Nnat.N2Nat.id|].
  apply in_seq. lia.
Qed.
Lemma in_idx8 : forall k, k < 8 -> In k (map N.of_nat (seq 0 8)).
Proof.
  intros t H. apply in_map_iff. exists (N.to_nat t). split; [apply Nnat.N2Nat.id|]. apply in_seq. lia.
Qed.

Lemma nodupb_NoDup : forall l, nodupb l = true -> NoDup l.
Proof.
  induction l as [|x l IH]; cbn; intros H; constructor; apply andb_prop in H as [H1 H2]; [|now apply IH].
  intros Hin. apply negb_true_iff in H1. unfold nmem in H1.
  assert (existsb (N.eqb x) l = true) by (apply existsb_exists; exists x; split; [assumption | apply N.eqb_refl]).
  congruence.
Qed.

(* "for the managers built by the model over three variables: the handle table is a bijection between
   the 256 truth tables and 256 handles, each handle denotes its table, and apply / negate on any
   operands return exactly the handle of the result's table" *)
Definition canonical3 (fuel : nat) (m : mgr) (hs : list N) : Prop :=
  let h := fun t : N => nth (N.to_nat t) hs 0 in
  length hs = 256%nat /\ NoDup hs /\
  (forall t k, t < 256 -> k < 8 -> den m (h t) (sigma_of k) = N.testbit t k) /\
  (forall ta tb o, ta < 256 -> tb < 256 ->
     exists st, apply_f fuel (h ta) (h tb) o (m, unlimited) = (st, Ok (h (bop_tab o ta tb)))) /\
  (forall ta, ta < 256 -> exists st, negate_f fuel (h ta) (m, unlimited) = (st, Ok (h (255 - ta)))).

Lemma fa_elim : forall {A} (f : A -> bool) l, forallb f l = true -> forall x, In x l -> f x = true.
Proof. intros A f l H. apply forallb_forall. exact H. Qed.

Lemma check3_sound : forall fuel m hs, check3 fuel m hs = true -> canonical3 fuel m hs.
Proof.
  intros fuel m hs H. unfold check3 in H. unfold canonical3.
  apply andb_prop in H as [H H4]. apply andb_prop in H as [H H3]. apply andb_prop in H as [H1 H2].
  pose proof (fa_elim _ _ H3) as H3'. pose proof (fa_elim _ _ H4) as H4'. clear H3 H4.
  split; [apply Nat.eqb_eq; exact H1|]. split; [apply nodupb_NoDup; exact H2|]. split; [|split].
  - intros t k Ht Hk. pose proof (H3' t (in_tabs256 t Ht)) as Q. unfold table_ok in Q.
    pose proof (fa_elim _ _ Q k (in_idx8 k Hk)) as Q2. apply Bool.eqb_prop. exact Q2.
  - intros ta tb o Ha Hb. pose proof (H4' ta (in_tabs256 ta Ha)) as Q. apply andb_prop in Q as [_ Q].
    pose proof (fa_elim _ _ Q tb (in_tabs256 tb Hb)) as Q2. apply andb_prop in Q2 as [P1 P2].
    assert (P : pair_ok fuel m hs ta tb o = true) by (destruct o; assumption). unfold pair_ok in P.
    set (res := apply_f fuel (nth (N.to_nat ta) hs 0) (nth (N.to_nat tb) hs 0) o (m, unlimited)) in *.
    clearbody res. destruct res as [st [r| | |]]; try discriminate.
    apply N.eqb_eq in P. subst r. exists st. reflexivity.
  - intros ta Ha. pose proof (H4' ta (in_tabs256 ta Ha)) as Q. apply andb_prop in Q as [P _]. unfold neg_ok in P.
    set (res := negate_f fuel (nth (N.to_nat ta) hs 0) (m, unlimited)) in *.
    clearbody res. destruct res as [st [r| | |]]; try discriminate.
    apply N.eqb_eq in P. subst r. exists st. reflexivity.
Qed.

(* 2 x 65536 applies + 256 negates on the model's manager, by the kernel's VM *)
Lemma sweep_012 : check3 FUEL3 (m3 [0; 1; 2]) (h3 [0; 1; 2]) = true.
Proof. vm_cast_no_check (@eq_refl bool true). Qed.

Lemma canonical3_012 : canonical3 FUEL3 (m3 [0; 1; 2]) (h3 [0; 1; 2]).
Proof. exact (check3_sound FUEL3 (m3 [0; 1; 2]) (h3 [0; 1; 2]) sweep_012). Qed.
