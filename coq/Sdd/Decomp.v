(* Executable structural check used as the hypothesis of the wmc theorem: the syntactic variable
   set of every node (bottom-up table, like the denotation) and decomposability of every Decision
   element (the variables below the prime and below the sub are disjoint). *)
Require Import KV.Sdd.Model KV.Sdd.Sem.

Definition vars_node (tab : list (list N)) (n : node) : list N :=
  match n with
  | NLit v _ => [v]
  | NDec _ els => flat_map (fun e => nth (N.to_nat (fst e)) tab [] ++ nth (N.to_nat (snd e)) tab []) els
  | _ => []
  end.
Definition vars_tab (l : list node) : list (list N) :=
  fold_left (fun tab n => tab ++ [vars_node tab n]) l [].
Definition vars_of (m : mgr) (id : N) : list N := nth (N.to_nat id) (vars_tab (nodes m)) [].

Definition disjointb (a b : list N) : bool := forallb (fun x => negb (nmem x b)) a.

Definition decomp_node (tab : list (list N)) (n : node) : bool :=
  match n with
  | NDec _ els => forallb (fun e => disjointb (nth (N.to_nat (fst e)) tab []) (nth (N.to_nat (snd e)) tab [])) els
  | _ => true
  end.
(* every Decision element of the arena is decomposable *)
Definition decomp_tab (l : list node) : list (list N) * bool :=
  fold_left (fun st n => (fst st ++ [vars_node (fst st) n], snd st && decomp_node (fst st) n)) l ([], true).
Definition decomp_ok (m : mgr) : bool := snd (decomp_tab (nodes m)).

(* every literal of the arena is over a variable of `vs` *)
Definition lits_in (vs : list N) (m : mgr) : bool :=
  forallb (fun n => match n with NLit v _ => nmem v vs | _ => true end) (nodes m).

(* weights are normalised on vs: pos + neg = 1 *)
Definition normalised (vs : list N) (m : mgr) : bool :=
  forallb (fun v => Qeq_bool (pos_of m v + neg_of m v) 1) vs.
