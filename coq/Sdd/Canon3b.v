(* second introduction order of the bounded canonicity sweep (separate file: built in parallel) *)
Require Import KV.Sdd.Model KV.Sdd.Sem KV.Sdd.Spec KV.Sdd.History KV.Sdd.Canon3Defs KV.Sdd.Canon3.
Lemma sweep_201 : check3 FUEL3 (m3 [2; 0; 1]) (h3 [2; 0; 1]) = true.
Proof. vm_cast_no_check (@eq_refl bool true). Qed.
Lemma canonical3_201 : canonical3 FUEL3 (m3 [2; 0; 1]) (h3 [2; 0; 1]).
Proof. exact (check3_sound FUEL3 (m3 [2; 0; 1]) (h3 [2; 0; 1]) sweep_201). Qed.
