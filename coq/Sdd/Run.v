(* Entry points of the correspondence check: run a history of manager operations on the model and
   render what a user of the API can observe as numbers. *)
Require Import KV.Sdd.Model KV.Sdd.Sem KV.Sdd.Spec.
Require Import ZArith.

Definition budspec := option (option N * list bool).   (* None = the unbudgeted twin *)

Inductive op :=
| OVar (v : N) (pos neg : Q) (k : vkind)
| OLit (v : N) (pol : bool) (b : budspec)
| OApply (i j : N) (o : bop) (b : budspec)
| ONeg (i : N) (b : budspec)
| OEo (vs : list N) (b : budspec).

Definition mkbud (b : budspec) : budget :=
  match b with None => unlimited | Some (l, o) => Bud l o 0 end.

Definition FUEL : nat := 200.

Definition rcode {A} (r : res A) : N :=
  match r with Ok _ => 0 | Err Deadline => 1 | Err NodeBudget => 2 | Fuel => 3 | Panic => 4 end.

(* state of a run: manager, handles produced so far (0 = FALSE for a failed operation),
   spec formula of every handle *)
Record rstate := RS { rm : mgr; rh : list N; rf : list form }.
Definition rinit := RS mgr_new [] [].

Definition hnd (s : rstate) (i : N) : N := nth (N.to_nat i) (rh s) 0.
Definition frm (s : rstate) (i : N) : form := nth (N.to_nat i) (rf s) FFalse.

Definition exec (s : rstate) (c : M N) (b : budspec) (f : form) : rstate * (N * N * N * N) :=
  match c (rm s, mkbud b) with
  | ((m', b'), r) =>
      let h := match r with Ok h => h | _ => 0 end in
      let f' := match r with Ok _ => f | _ => FFalse end in
      (RS m' (rh s ++ [h]) (rf s ++ [f']), (rcode r, h, ticks b', node_count m'))
  end.

Definition step (s : rstate) (o : op) : rstate * (N * N * N * N) :=
  match o with
  | OVar v p n k => (RS (ensure_variable_weights v p n k (rm s)) (rh s) (rf s), (9, 0, 0, node_count (rm s)))
  | OLit v pol b => exec s (literal v pol) b (FLit v pol)
  | OApply i j o b => exec s (apply_f FUEL (hnd s i) (hnd s j) o) b
                        (match o with And => FAnd (frm s i) (frm s j) | Or => FOr (frm s i) (frm s j) end)
  | ONeg i b => exec s (negate_f FUEL (hnd s i)) b (FNot (frm s i))
  | OEo vs b => exec s (exactly_one FUEL vs) b (FExactlyOne vs)
  end.

Fixpoint run_from (s : rstate) (ops : list op) : rstate * list (N * N * N * N) :=
  match ops with
  | [] => (s, [])
  | o :: t => let (s1, r) := step s o in let (s2, rs) := run_from s1 t in (s2, r :: rs)
  end.

(* truth tables of all handles over variables 0..nv-1: evaluate the arena once per assignment *)
Definition tables (nv : N) (m : mgr) (hs : list N) : list N :=
  let rows := map (fun k => (k, eval_arena (sigma_of k) (nodes m))) (indices nv) in
  map (fun h => fold_left (fun acc kr => if nth (N.to_nat h) (snd kr) false then N.lor acc (N.shiftl 1 (fst kr)) else acc) rows 0) hs.

Definition qr (q : Q) : Z * N := let r := Qred q in (Qnum r, Npos (Qden r)).
Definition blit (l : lit) : N * N := (fst l, if snd l then 1 else 0).

(* the full report of a history:
   per step (code, handle, checkpoints consumed, node count); then per handle:
   model truth table, spec truth table, wmc, models (cubes), gradient *)
Definition report (nv : N) (ops : list op) (detail : bool) :=
  let (s, steps) := run_from rinit ops in
  let m := rm s in
  (steps,
   tables nv m (rh s),
   map (fun f => table_of nv (fun sg => feval sg f)) (rf s),
   map (fun h => qr (wmc m h)) (rh s),
   if detail then map (fun h => map (map blit) (enumerate_models m h)) (rh s) else [],
   if detail then map (fun h => map (fun vg => (fst vg, qr (snd vg))) (wmc_gradient m h)) (rh s) else []).

(* interruption: run `pre`, then the budgeted operation `o` under budget b, then `post`;
   report the step results of o and post and the tables of all handles *)
Definition interrupted (nv : N) (pre : list op) (o : op) (post : list op) :=
  let (s0, _) := run_from rinit pre in
  let (s1, r) := step s0 o in
  let (s2, rs) := run_from s1 post in
  ([r], rs, tables nv (rm s2) (rh s2)).
