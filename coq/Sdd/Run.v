(* Entry points of the correspondence check: run a history of manager operations on the model and
   render what a user of the API can observe as numbers. *)
Require Import KV.Sdd.Model KV.Sdd.Sem KV.Sdd.Spec.
Require Export KV.Sdd.History KV.Sdd.Decomp.
Require Import ZArith.

Definition FUEL : nat := 200.

(* truth tables of all handles over variables 0..nv-1: evaluate the arena once per assignment *)
Definition tables (nv : N) (m : mgr) (hs : list N) : list N :=
  let rows := map (fun k => (k, eval_arena (sigma_of k) (nodes m))) (indices nv) in
  map (fun h => fold_left (fun acc kr => if nth (N.to_nat h) (snd kr) false then N.lor acc (N.shiftl 1 (fst kr)) else acc) rows 0) hs.

Definition qr (q : Q) : Z * N := let r := Qred q in (Qnum r, Npos (Qden r)).
Definition blit (l : lit) : N * N := (fst l, if snd l then 1 else 0).

(* the full report of a history:
   per step (code, handle, checkpoints consumed, node count); then per handle:
   model truth table, spec truth table, wmc, models (cubes), gradient *)
Definition report (nv : N) (ops : list op) (detail : bool) :=
  let (s, steps) := run_from FUEL rinit ops in
  let m := rm s in
  (steps,
   tables nv m (rh s),
   map (fun f => table_of nv (fun sg => feval sg f)) (rf s),
   map (fun h => qr (wmc m h)) (rh s),
   if detail then map (fun h => map (map blit) (enumerate_models m h)) (rh s) else [],
   if detail then map (fun h => map (fun vg => (fst vg, qr (snd vg))) (wmc_gradient m h)) (rh s) else [],
   decomp_ok m).

(* interruption: run `pre`, then the budgeted operation `o` under budget b, then `post`;
   report the step results of o and post and the tables of all handles *)
Definition interrupted (nv : N) (pre : list op) (o : op) (post : list op) :=
  let (s0, _) := run_from FUEL rinit pre in
  let (s1, r) := step FUEL s0 o in
  let (s2, rs) := run_from FUEL s1 post in
  ([r], rs, tables nv (rm s2) (rh s2)).
