(* Entry points of the correspondence check: run a history of manager operations on the model and
   render what a user of the API can observe as numbers. *)
Require Import KV.Sdd.Model KV.Sdd.Sem KV.Sdd.Spec.
Require Export KV.Sdd.History KV.Sdd.Decomp KV.Sdd.Reduced.
Require Import ZArith.

Definition FUEL : nat := 200.

(* truth tables of all handles over variables 0..nv-1: evaluate the arena once per assignment *)
Definition tables (nv : N) (m : mgr) (hs : list N) : list N :=
  let rows := map (fun k => (k, eval_arena (sigma_of k) (nodes m))) (indices nv) in
  map (fun h => fold_left (fun acc kr => if nth (N.to_nat h) (snd kr) false then N.lor acc (N.shiftl 1 (fst kr)) else acc) rows 0) hs.

(* big numbers print slowly (number notations are un-interpreted by reduction): a truth table is rendered as its
   eight 32-bit words, least significant first *)
Definition words (t : N) : list N :=
  map (fun i => N.land (N.shiftr t (32 * N.of_nat i)) 4294967295) (seq 0 8).

Definition qr (q : Q) : Z * N := let r := Qred q in (Qnum r, Npos (Qden r)).
Definition blit (l : lit) : N * N := (fst l, if snd l then 1 else 0).

(* Spec truth tables of all slots, bottom-up over the slot references of the history (the formula trees
   `rf` share subformulas, so `feval` on them re-evaluates shared parts exponentially often): the value of
   a slot under sigma is `feval` unfolded one level, reading the operand slots' values; a slot whose
   operation did not return Ok is FALSE. *)
Definition sval (sigma : asg) (vals : list bool) (o : op) (ok : bool) : option bool :=
  match o with
  | OVar _ _ _ _ => None
  | OLit v pol _ => Some (ok && Bool.eqb (sigma v) pol)
  | OApply i j bo _ => Some (ok && bop_sem bo (nth (N.to_nat i) vals false) (nth (N.to_nat j) vals false))
  | ONeg i _ => Some (ok && negb (nth (N.to_nat i) vals false))
  | OEo vs _ => Some (ok && feval sigma (FExactlyOne vs))
  end.
Definition spec_row (sigma : asg) (ops : list op) (codes : list N) : list bool :=
  fold_left (fun vals oc => match sval sigma vals (fst oc) (snd oc =? 0) with Some b => vals ++ [b] | None => vals end)
            (combine ops codes) [].
Definition spec_tables (nv : N) (ops : list op) (codes : list N) : list N :=
  let rows := map (fun k => (k, spec_row (sigma_of k) ops codes)) (indices nv) in
  let n := length (filter (fun o => match o with OVar _ _ _ _ => false | _ => true end) ops) in
  map (fun i => fold_left (fun acc kr => if nth i (snd kr) false then N.lor acc (N.shiftl 1 (fst kr)) else acc) rows 0)
      (seq 0 n).

(* shared tables: `wmc m h`, `enumerate_models m h`, `wmc_gradient m h` each rebuild the bottom-up table of the
   whole arena; a report reads all handles from one table per weight assignment (common subexpressions only:
   see `wmcs_eq`, `models_eq`, `grads_eq` below). *)
Definition wmcs (m : mgr) (hs : list N) : list Q :=
  let tab := wmc_table m in map (fun h => nth (N.to_nat h) tab 0%Q) hs.
Definition modelss (m : mgr) (hs : list N) : list (list (list lit)) :=
  let tab := models_table m in map (fun h => nth (N.to_nat h) tab []) hs.
Definition grads (m : mgr) (hs : list N) : list (list (N * Q)) :=
  let tabs := map (fun vl => (fst vl, kind_of m (fst vl),
                              wmc_table (set_weights (fst vl) 1 0 m), wmc_table (set_weights (fst vl) 0 1 m))) (var2vt m) in
  map (fun h => map (fun t => match t with
                              | (v, k, t1, t0) =>
                                  let a := nth (N.to_nat h) t1 0%Q in
                                  (v, match k with Indep => (a - nth (N.to_nat h) t0 0%Q)%Q | Excl _ => a end)
                              end) tabs) hs.

Lemma wmcs_eq : forall m hs, wmcs m hs = map (wmc m) hs.
Proof. reflexivity. Qed.
Lemma models_eq : forall m hs, modelss m hs = map (enumerate_models m) hs.
Proof. reflexivity. Qed.
Lemma grads_eq : forall m hs, grads m hs = map (wmc_gradient m) hs.
Proof.
  intros m hs. unfold grads, wmc_gradient. apply map_ext. intros h. rewrite map_map. apply map_ext.
  intros [v l]. cbn [fst]. unfold grad_var, wmc. destruct (kind_of m v); reflexivity.
Qed.

(* the full report of a history:
   per step (code, handle, checkpoints consumed, node count); then per handle:
   model truth table, spec truth table, wmc, models (cubes), gradient; decomposability of the final manager *)
Definition report (nv : N) (ops : list op) (detail : bool) :=
  let (s, steps) := run_from FUEL rinit ops in
  let m := rm s in
  (steps,
   map words (tables nv m (rh s)),
   map words (spec_tables nv ops (map (fun x => fst (fst (fst x))) steps)),
   map qr (wmcs m (rh s)),
   if detail then map (map (map blit)) (modelss m (rh s)) else [],
   if detail then map (map (fun vg => (fst vg, qr (snd vg)))) (grads m (rh s)) else [],
   decomp_ok m && reduced_ok m).

(* interruption: run `pre`, then the budgeted operation `o` under budget b, then `post`;
   report the step results of o and post and the tables of all handles *)
Definition interrupted (nv : N) (pre : list op) (o : op) (post : list op) :=
  let (s0, _) := run_from FUEL rinit pre in
  let (s1, r) := step FUEL s0 o in
  let (s2, rs) := run_from FUEL s1 post in
  ([r], rs, map words (tables nv (rm s2) (rh s2))).
