(* C07, bounded canonicity (separate property file: its dependency cone contains the two VM sweeps, which
   coqchk - it has no VM - cannot re-check in reasonable time; coqc's kernel checks them with vm_compute). *)
Require Import KV.Sdd.Model KV.Sdd.Sem KV.Sdd.Spec KV.Sdd.History.
Require Import KV.Sdd.Canon3Defs KV.Sdd.Canon3 KV.Sdd.Canon3b.

(* (4) BOUNDED canonicity, three variables.  m3 order / h3 order: the model's manager after registering
   variables 0,1,2 in the given order and building all 256 functions as disjunctions of minterms, and
   the table of their handles.  Proved by evaluating the sweep (2 x 65536 applies + 256 negates) with the
   kernel's VM and lifting with forallb_forall: the 256 handles are pairwise distinct, each denotes its
   truth table, and apply / negate of ANY operands among them return exactly the handle of the result's
   truth table - so on this domain handles are equal iff truth tables are equal.
   This is a statement about a finite domain.  Unbounded canonicity,
       forall history, forall slots i j, (forall sigma, den i sigma = den j sigma) -> handle i = handle j,
   is NOT proved (Darwiche's canonicity theorem for compressed trimmed SDDs over a growing vtree); the
   check tests it on every generated handle. *)
Theorem C07_canonical_3 :
  canonical3 FUEL3 (m3 [0; 1; 2]%N) (h3 [0; 1; 2]%N) /\ canonical3 FUEL3 (m3 [2; 0; 1]%N) (h3 [2; 0; 1]%N).
Proof. exact (conj canonical3_012 canonical3_201). Qed.
Print Assumptions C07_canonical_3.

