(* More about the vtree: every node has at most one parent, the ancestor chain computed by `vtree_ancestors`
   is complete, and `find_lca` returns the LOWEST common ancestor (it lies below every common ancestor). *)
Require Import KV.Sdd.Model KV.Sdd.Sem KV.Sdd.Decomp KV.Sdd.Vtree.
Require Import Lia.

Section Vt2.
  Variable vn : list vnode.
  Variable v2v : list (N * N).
  Variable root : option N.
  Hypothesis Hok : VtOk0 vn v2v.

  Definition child (i c : N) : Prop := exists l r, vat vn i = VInt l r /\ (l = c \/ r = c).

  Definition PUniq : Prop :=
    (forall i j c, vvalid vn i -> vvalid vn j -> child i c -> child j c -> i = j) /\
    (forall r i, root = Some r -> vvalid vn i -> ~ child i r).
  Hypothesis HU : PUniq.

  Lemma find_parent_complete : forall (l : list vnode) idx c k x y,
    nth_error l k = Some (VInt x y) -> (x = c \/ y = c) -> exists p, find_parent l idx c = Some p.
  Proof.
    induction l as [|[v|a b] l IH]; intros idx c k x y Hk Hc; [destruct k; discriminate| |].
    - destruct k; [discriminate|]. cbn in Hk. cbn. eapply IH; eauto.
    - cbn. destruct ((a =? c) || (b =? c)) eqn:E; [eauto|]. destruct k.
      + cbn in Hk. injection Hk as -> ->. apply orb_false_elim in E as [E1 E2].
        destruct Hc as [->| ->]; [rewrite N.eqb_refl in E1 | rewrite N.eqb_refl in E2]; discriminate.
      + cbn in Hk. eapply IH; eauto.
  Qed.

  Lemma find_parent_child : forall c p, find_parent vn 0 c = Some p -> vvalid vn p /\ child p c.
  Proof.
    intros c p H. destruct (find_parent_sound _ _ _ _ H) as (k & x & y & -> & Hk & Hxy).
    assert (Hlt : (k < length vn)%nat) by (apply nth_error_Some; congruence).
    split; [unfold vvalid; rewrite N.add_0_l, Nnat.Nat2N.id; exact Hlt|].
    exists x, y. split; [|exact Hxy]. unfold vat. rewrite N.add_0_l, Nnat.Nat2N.id. now apply nth_error_nth.
  Qed.

  Lemma find_parent_is : forall t c, vvalid vn t -> child t c -> find_parent vn 0 c = Some t.
  Proof.
    intros t c Hv [l [r [Ha Hc]]].
    assert (Hk : nth_error vn (N.to_nat t) = Some (VInt l r)).
    { unfold vat in Ha. rewrite <- Ha. apply nth_error_nth'. exact Hv. }
    destruct (find_parent_complete vn 0 c _ l r Hk Hc) as [p Hp]. rewrite Hp. f_equal.
    destruct (find_parent_child c p Hp) as [Vp Cp]. apply (proj1 HU p t c Vp Hv Cp). exists l, r. auto.
  Qed.

  (* one step up from a proper descendant *)
  Lemma parent_step : forall t x, desc vn x (N.of_nat t) = true -> x <> N.of_nat t ->
    exists p, find_parent vn 0 x = Some p /\ desc vn p (N.of_nat t) = true /\ x < p.
  Proof.
    induction t as [t IH] using lt_wf_ind. intros x Hd Hne.
    destruct (desc_valid_int vn x _ Hd Hne) as [Hv (l & r & Ha)].
    destruct (vt_int _ _ Hok _ l r Hv Ha) as (Hl & Hr & _).
    assert (Hstep : forall ch, (ch = l \/ ch = r) -> desc vn x ch = true ->
              exists p, find_parent vn 0 x = Some p /\ desc vn p (N.of_nat t) = true /\ x < p).
    { intros ch Hch Hdc.
      assert (Hcl : ch < N.of_nat t) by (destruct Hch as [->| ->]; assumption).
      assert (Hct : desc vn ch (N.of_nat t) = true).
      { rewrite (desc_int vn v2v Hok ch _ l r Hv Ha). destruct Hch as [->| ->]; rewrite desc_refl; now rewrite ?orb_true_r. }
      destruct (N.eq_dec x ch) as [->|Hxc].
      - exists (N.of_nat t). split; [|split; [apply desc_refl | exact Hcl]].
        apply find_parent_is; [exact Hv|]. exists l, r. split; [exact Ha|]. destruct Hch; auto.
      - rewrite <- (Nnat.N2Nat.id ch) in Hdc, Hxc.
        destruct (IH (N.to_nat ch) ltac:(lia) x Hdc Hxc) as (p & P1 & P2 & P3).
        exists p. split; [exact P1|]. split; [|exact P3]. rewrite Nnat.N2Nat.id in P2.
        eapply (desc_trans' vn v2v Hok); eauto. }
    destruct (desc_children vn v2v Hok x _ l r Ha Hd Hne) as [H|H]; [apply (Hstep l); auto | apply (Hstep r); auto].
  Qed.

  Lemma desc_le : forall a d, desc vn d (N.of_nat a) = true -> d <= N.of_nat a.
  Proof.
    induction a as [a IH] using lt_wf_ind. intros d H.
    destruct (N.eq_dec d (N.of_nat a)) as [->|Hne]; [lia|].
    destruct (desc_valid_int vn d _ H Hne) as [Hv (l & r & Ha)].
    destruct (vt_int _ _ Hok _ l r Hv Ha) as (Hl & Hr & _).
    destruct (desc_children vn v2v Hok d _ l r Ha H Hne) as [H1|H1].
    - rewrite <- (Nnat.N2Nat.id l) in H1. pose proof (IH (N.to_nat l) ltac:(lia) d H1). lia.
    - rewrite <- (Nnat.N2Nat.id r) in H1. pose proof (IH (N.to_nat r) ltac:(lia) d H1). lia.
  Qed.
  Lemma desc_le' : forall a d, desc vn d a = true -> d <= a.
  Proof. intros a d H. rewrite <- (Nnat.N2Nat.id a) in *. now apply desc_le. Qed.

  (* the ancestor chain contains every ancestor *)
  Lemma anc_complete : forall f x t, desc vn x t = true -> (N.to_nat t - N.to_nat x <= f)%nat ->
    In t (ancestors_f f vn x).
  Proof.
    induction f as [|f IH]; intros x t Hd Hf.
    - pose proof (desc_le' t x Hd). assert (x = t) by lia. subst. cbn. now left.
    - cbn [ancestors_f]. destruct (N.eq_dec x t) as [->|Hne]; [now left|]. right.
      rewrite <- (Nnat.N2Nat.id t) in Hd, Hne.
      destruct (parent_step _ x Hd Hne) as (p & P1 & P2 & P3). rewrite P1. rewrite Nnat.N2Nat.id in P2.
      apply IH; [exact P2 | lia].
  Qed.

  (* the first element of the chain of a that satisfies P lies below any ancestor t of a that satisfies P *)
  Lemma chain_first : forall (P : N -> bool) f a t, desc vn a t = true -> (N.to_nat t - N.to_nat a <= f)%nat -> P t = true ->
    exists x0, find P (ancestors_f f vn a) = Some x0 /\ desc vn x0 t = true.
  Proof.
    intros P. induction f as [|f IH]; intros a t Hd Hf Pt.
    - pose proof (desc_le' t a Hd). assert (a = t) by lia. subst. cbn. rewrite Pt. exists t. split; [reflexivity | apply desc_refl].
    - cbn [ancestors_f find]. destruct (P a) eqn:Pa; [exists a; auto|].
      assert (Hne : a <> t) by (intros ->; congruence).
      rewrite <- (Nnat.N2Nat.id t) in Hd, Hne.
      destruct (parent_step _ a Hd Hne) as (p & P1 & P2 & P3). rewrite P1. rewrite Nnat.N2Nat.id in P2.
      apply IH; [exact P2 | lia | exact Pt].
  Qed.

  Lemma lca_min : forall va vb t, vvalid vn t -> desc vn va t = true -> desc vn vb t = true ->
    exists x0,
      match find (fun x => nmem x (ancestors_f (length vn) vn vb)) (ancestors_f (length vn) vn va) with
      | Some x => Some x
      | None => root
      end = Some x0 /\ desc vn x0 t = true /\ desc vn va x0 = true /\ desc vn vb x0 = true.
  Proof.
    intros va vb t Hv Ha Hb. unfold vvalid in Hv.
    assert (Pt : nmem t (ancestors_f (length vn) vn vb) = true).
    { unfold nmem. apply existsb_exists. exists t. split; [|apply N.eqb_refl]. apply anc_complete; [exact Hb | lia]. }
    destruct (chain_first (fun x => nmem x (ancestors_f (length vn) vn vb)) (length vn) va t Ha ltac:(lia) Pt) as (x0 & F & D).
    exists x0. rewrite F. split; [reflexivity|]. split; [exact D|].
    apply find_some in F as [F1 F2]. split; [eapply anc_sound; eauto|].
    unfold nmem in F2. apply existsb_exists in F2 as [y [Hy E0]]. apply N.eqb_eq in E0. subst y. eapply anc_sound; eauto.
  Qed.
End Vt2.

(* ---- growth ---------------------------------------------------------------------------------------------------------- *)
Lemma PUniq_empty : PUniq [] None.
Proof.
  split.
  - intros i j c Hi. unfold vvalid in Hi. cbn in Hi. lia.
  - intros r i H. discriminate.
Qed.

Lemma PUniq_first : forall var, PUniq [VLeaf var] (Some 0).
Proof.
  intros var.
  assert (H1 : forall i, vvalid [VLeaf var] i -> forall c, ~ child [VLeaf var] i c).
  { intros i Hv c [l [r [Ha _]]]. unfold vvalid in Hv. cbn in Hv. assert (i = 0) by lia. subst. discriminate. }
  split.
  - intros i j c Hi _ Hc. exfalso. exact (H1 i Hi c Hc).
  - intros r i _ Hi Hc. exact (H1 i Hi r Hc).
Qed.

Lemma PUniq_more : forall vn v2v old var,
  VtOk vn v2v (Some old) -> PUniq vn (Some old) ->
  let leaf := N.of_nat (length vn) in
  PUniq (vn ++ [VLeaf var; VInt leaf old]) (Some (leaf + 1)).
Proof.
  intros vn v2v old var [Hok HR] [HU1 HU2] leaf. cbn in HR. destruct HR as [Hvold _].
  set (vn' := vn ++ [VLeaf var; VInt leaf old]).
  assert (Hlen : length vn' = S (S (length vn))) by (unfold vn'; rewrite app_length; cbn; lia).
  assert (Hcases : forall i, vvalid vn' i -> vvalid vn i \/ i = leaf \/ i = leaf + 1).
  { intros i H. unfold vvalid in *. rewrite Hlen in H. unfold leaf.
    destruct (Nat.lt_ge_cases (N.to_nat i) (length vn)); [now left|]. right.
    destruct (Nat.eq_dec (N.to_nat i) (length vn)); [left | right]; lia. }
  assert (Hatleaf : vat vn' leaf = VLeaf var).
  { unfold vat, vn', leaf. rewrite Nnat.Nat2N.id, app_nth2, Nat.sub_diag by lia. reflexivity. }
  assert (Hatroot : vat vn' (leaf + 1) = VInt leaf old).
  { unfold vat, vn', leaf. rewrite Nnat.N2Nat.inj_add, Nnat.Nat2N.id, app_nth2 by lia.
    replace (length vn + N.to_nat 1 - length vn)%nat with 1%nat by (cbn; lia). reflexivity. }
  (* children of the nodes of the new arena *)
  assert (Hch : forall i c, vvalid vn' i -> child vn' i c ->
            (vvalid vn i /\ child vn i c /\ c < leaf) \/ (i = leaf + 1 /\ (c = leaf \/ c = old))).
  { intros i c Hv [l [r [Ha Hc]]]. destruct (Hcases i Hv) as [Hi|[->| ->]].
    - left. unfold vn' in Ha. rewrite vat_app in Ha by exact Hi. split; [exact Hi|]. split; [exists l, r; auto|].
      destruct (vt_int _ _ Hok i l r Hi Ha) as (A & B & _). unfold vvalid, leaf in *. destruct Hc as [<-|<-]; lia.
    - rewrite Hatleaf in Ha. discriminate.
    - right. rewrite Hatroot in Ha. injection Ha as <- <-. split; [reflexivity|]. destruct Hc; auto. }
  assert (Holdlt : old < leaf) by (unfold vvalid, leaf in *; lia).
  split.
  - intros i j c Hi Hj Ci Cj.
    destruct (Hch i c Hi Ci) as [(Vi & Ci' & Li)|[-> Ei]]; destruct (Hch j c Hj Cj) as [(Vj & Cj' & Lj)|[-> Ej]].
    + exact (HU1 i j c Vi Vj Ci' Cj').
    + exfalso. destruct Ej as [->| ->]; [lia | exact (HU2 old i eq_refl Vi Ci')].
    + exfalso. destruct Ei as [->| ->]; [lia | exact (HU2 old j eq_refl Vj Cj')].
    + reflexivity.
  - intros r i Hr Hi Ci. injection Hr as <-.
    destruct (Hch i (leaf + 1) Hi Ci) as [(_ & _ & L)|[_ E]]; [lia|]. destruct E as [E|E]; lia.
Qed.
