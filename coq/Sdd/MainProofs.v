(* Assignment-independent statements: the manager invariant MInv, exactness of every operation
   under every budget, preservation of the invariant whatever the outcome, and exactness of whole
   histories. *)
Require Import KV.Sdd.Model KV.Sdd.Sem KV.Sdd.Spec KV.Sdd.History.
Require Import KV.Sdd.SemProofs KV.Sdd.Hoare KV.Sdd.OpsProofs KV.Sdd.TopProofs.
Require Import Lia.

Definition MInv (m : mgr) : Prop := forall sigma, MInvS sigma m.
Definition validh (m : mgr) (id : N) : Prop := (N.to_nat id < length (nodes m))%nat.

Lemma has_den : forall sigma m id, validh m id -> has sigma m id (den m id sigma).
Proof. intros. split; [assumption | reflexivity]. Qed.
Lemma has_den_eq : forall sigma m id x, has sigma m id x -> validh m id /\ den m id sigma = x.
Proof. intros sigma m id x [H1 H2]. split; assumption. Qed.

Lemma den_ext : forall m m' id sigma, validh m id -> ext m m' -> den m' id sigma = den m id sigma.
Proof.
  intros m m' id sigma Hv He.
  destruct (has_den_eq _ _ _ _ (has_ext sigma _ _ _ _ (has_den sigma m id Hv) He)) as [_ H]. exact H.
Qed.
Lemma validh_ext : forall m m' id, validh m id -> ext m m' -> validh m' id.
Proof. intros m m' id H He. eapply (valid_ext m m'); eauto. Qed.

Lemma MInv_new : MInv mgr_new.
Proof.
  intros sigma. constructor; cbn.
  - split; [exists []; reflexivity|]. intros k Hk. destruct k as [|[|k]]; cbn in *; try exact I; lia.
  - intros k id [].
  - intros a b o r [].
  - intros id r [].
Qed.

Lemma run_triple : forall sigma {A} P (c : M A) Q m b m' b' r,
  triple sigma P c Q -> MInvS sigma m -> P m -> c (m, b) = ((m', b'), r) ->
  MInvS sigma m' /\ ext m m' /\ forall a, r = Ok a -> Q a m'.
Proof.
  intros sigma A P c Q m b m' b' r H Hi Hp E. specialize (H m b Hi Hp). rewrite E in H. exact H.
Qed.

(* ---- single operations --------------------------------------------------------------------------- *)
Lemma apply_exact : forall fuel m bud a b o m' bud' r,
  MInv m -> validh m a -> validh m b ->
  apply_f fuel a b o (m, bud) = ((m', bud'), r) ->
  MInv m' /\ ext m m' /\
  forall h, r = Ok h -> validh m' h /\ forall sigma, den m' h sigma = bop_sem o (den m a sigma) (den m b sigma).
Proof.
  intros fuel m bud a b o m' bud' r Hi Ha Hb E.
  assert (H : forall sigma, MInvS sigma m' /\ ext m m' /\
              forall h, r = Ok h -> has sigma m' h (bop_sem o (den m a sigma) (den m b sigma))).
  { intros sigma.
    refine (run_triple sigma _ _ _ _ _ _ _ _ (apply_f_ok sigma fuel a b o (den m a sigma) (den m b sigma)) (Hi sigma) _ E).
    split; apply has_den; assumption. }
  split; [intros sigma; apply (H sigma)|]. split; [apply (H (fun _ => false))|].
  intros h Hr. split; [apply (has_den_eq _ _ _ _ (proj2 (proj2 (H (fun _ => false))) h Hr))|].
  intros sigma. apply (has_den_eq _ _ _ _ (proj2 (proj2 (H sigma)) h Hr)).
Qed.

Lemma negate_exact : forall fuel m bud a m' bud' r,
  MInv m -> validh m a ->
  negate_f fuel a (m, bud) = ((m', bud'), r) ->
  MInv m' /\ ext m m' /\
  forall h, r = Ok h -> validh m' h /\ forall sigma, den m' h sigma = negb (den m a sigma).
Proof.
  intros fuel m bud a m' bud' r Hi Ha E.
  assert (H : forall sigma, MInvS sigma m' /\ ext m m' /\
              forall h, r = Ok h -> has sigma m' h (negb (den m a sigma))).
  { intros sigma.
    refine (run_triple sigma _ _ _ _ _ _ _ _ (negate_f_ok sigma fuel a (den m a sigma)) (Hi sigma) _ E).
    apply has_den; assumption. }
  split; [intros sigma; apply (H sigma)|]. split; [apply (H (fun _ => false))|].
  intros h Hr. split; [apply (has_den_eq _ _ _ _ (proj2 (proj2 (H (fun _ => false))) h Hr))|].
  intros sigma. apply (has_den_eq _ _ _ _ (proj2 (proj2 (H sigma)) h Hr)).
Qed.

Lemma literal_exact : forall m bud v pol m' bud' r,
  MInv m ->
  literal v pol (m, bud) = ((m', bud'), r) ->
  MInv m' /\ ext m m' /\
  forall h, r = Ok h -> validh m' h /\ forall sigma, den m' h sigma = Bool.eqb (sigma v) pol.
Proof.
  intros m bud v pol m' bud' r Hi E.
  assert (H : forall sigma, MInvS sigma m' /\ ext m m' /\
              forall h, r = Ok h -> has sigma m' h (Bool.eqb (sigma v) pol)).
  { intros sigma. exact (run_triple sigma _ _ _ _ _ _ _ _ (literal_ok sigma v pol) (Hi sigma) I E). }
  split; [intros sigma; apply (H sigma)|]. split; [apply (H (fun _ => false))|].
  intros h Hr. split; [apply (has_den_eq _ _ _ _ (proj2 (proj2 (H (fun _ => false))) h Hr))|].
  intros sigma. apply (has_den_eq _ _ _ _ (proj2 (proj2 (H sigma)) h Hr)).
Qed.

Lemma exactly_one_exact : forall fuel m bud vars m' bud' r,
  MInv m ->
  exactly_one fuel vars (m, bud) = ((m', bud'), r) ->
  MInv m' /\ ext m m' /\
  forall h, r = Ok h -> validh m' h /\ forall sigma, den m' h sigma = feval sigma (FExactlyOne vars).
Proof.
  intros fuel m bud vars m' bud' r Hi E.
  assert (H : forall sigma, MInvS sigma m' /\ ext m m' /\
              forall h, r = Ok h -> has sigma m' h (eo_sem sigma vars)).
  { intros sigma. exact (run_triple sigma _ _ _ _ _ _ _ _ (exactly_one_ok sigma fuel vars) (Hi sigma) I E). }
  split; [intros sigma; apply (H sigma)|]. split; [apply (H (fun _ => false))|].
  intros h Hr. split; [apply (has_den_eq _ _ _ _ (proj2 (proj2 (H (fun _ => false))) h Hr))|].
  intros sigma. apply (has_den_eq _ _ _ _ (proj2 (proj2 (H sigma)) h Hr)).
Qed.

(* registering a variable touches neither the arena nor the caches *)
Lemma ensure_nodes : forall v p n k m,
  nodes (ensure_variable_weights v p n k m) = nodes m /\
  utab (ensure_variable_weights v p n k m) = utab m /\
  acache (ensure_variable_weights v p n k m) = acache m /\
  ncache (ensure_variable_weights v p n k m) = ncache m.
Proof.
  intros. unfold ensure_variable_weights.
  destruct (alookup N.eqb v (var2vt m)); [|destruct (vroot m)]; cbn; auto.
Qed.

Lemma MInv_ensure : forall v p n k m, MInv m -> MInv (ensure_variable_weights v p n k m).
Proof.
  intros v p n k m Hi sigma. destruct (ensure_nodes v p n k m) as (E1 & E2 & E3 & E4).
  specialize (Hi sigma). constructor.
  - rewrite E1. apply Hi.
  - rewrite E2. intros key id Hin. destruct (inv_utab _ _ Hi _ _ Hin) as [A B].
    unfold valid, node_at in *. rewrite E1. split; assumption.
  - rewrite E3. intros a b o r Hin. destruct (inv_acache _ _ Hi _ _ _ _ Hin) as (x & y & A & B & C).
    exists x, y. unfold has in *. rewrite E1. auto.
  - rewrite E4. intros id r Hin. destruct (inv_ncache _ _ Hi _ _ Hin) as (x & A & B).
    exists x. unfold has in *. rewrite E1. auto.
Qed.

Lemma Forall2_impl : forall {X Y} (R R' : X -> Y -> Prop) l l',
  (forall x y, R x y -> R' x y) -> Forall2 R l l' -> Forall2 R' l l'.
Proof. intros X Y R R' l l' H HF. induction HF; constructor; auto. Qed.

(* ---- histories --------------------------------------------------------------------------------------- *)
Definition slot_ok (m : mgr) (h : N) (f : form) : Prop :=
  validh m h /\ forall sigma, den m h sigma = feval sigma f.

Definition HInv (s : rstate) : Prop := MInv (rm s) /\ Forall2 (slot_ok (rm s)) (rh s) (rf s).

Lemma slot_false : forall m, MInv m -> slot_ok m 0 FFalse.
Proof.
  intros m Hi. split.
  - apply (has_den_eq _ _ _ _ (has0 (fun _ => false) m (Hi _))).
  - intros sigma. apply (has_den_eq _ _ _ _ (has0 sigma m (Hi _))).
Qed.

Lemma hnd_ok : forall s i, HInv s -> slot_ok (rm s) (hnd s i) (frm s i).
Proof.
  intros s i [Hi HF]. unfold hnd, frm. generalize (N.to_nat i). clear i.
  induction HF as [|h f hs fs H HF IH]; intros n.
  - destruct n; apply slot_false; assumption.
  - destruct n; cbn; [exact H | apply IH].
Qed.

Lemma slot_ext : forall m m' h f, slot_ok m h f -> ext m m' -> slot_ok m' h f.
Proof.
  intros m m' h f [Hv Hd] He. split; [eapply validh_ext; eauto|].
  intros sigma. rewrite (den_ext m m') by assumption. apply Hd.
Qed.

Lemma exec_inv : forall s c b f s' out,
  HInv s ->
  (forall m' b' r, c (rm s, mkbud b) = ((m', b'), r) ->
     MInv m' /\ ext (rm s) m' /\ forall h, r = Ok h -> slot_ok m' h f) ->
  exec s c b f = (s', out) -> HInv s'.
Proof.
  intros s c b f s' out [Hi HF] Hc E. unfold exec in E.
  destruct (c (rm s, mkbud b)) as [[m' b'] r] eqn:Ec.
  destruct (Hc m' b' r eq_refl) as (Hi' & He & Hr).
  injection E as <- _. split; cbn [rm rh rf]; [exact Hi'|].
  apply Forall2_app.
  - eapply Forall2_impl; [|exact HF]. intros h0 f0 H0. eapply slot_ext; eauto.
  - constructor; [|constructor]. destruct r as [h| | |]; try (apply slot_false; assumption).
    apply Hr. reflexivity.
Qed.

Lemma step_inv : forall fuel s o s' out, HInv s -> step fuel s o = (s', out) -> HInv s'.
Proof.
  intros fuel s o s' out HI E. pose proof HI as [Hi HF]. destruct o as [v p n k|v pol b|i j o b|i b|vs b]; cbn [step] in E.
  - injection E as <- _. split; cbn [rm rh rf]; [now apply MInv_ensure|].
    destruct (ensure_nodes v p n k (rm s)) as (E1 & _).
    eapply Forall2_impl; [|exact HF]. intros h f [Hv Hd]. unfold slot_ok, validh, den in *. rewrite E1. auto.
  - eapply exec_inv; [exact HI | | exact E]. intros m' b' r Ec.
    destruct (literal_exact _ _ _ _ _ _ _ Hi Ec) as (A & B & C). split; [exact A|]. split; [exact B|].
    intros h Hr. destruct (C h Hr) as [C1 C2]. split; [exact C1|]. intros sigma. rewrite C2. reflexivity.
  - pose proof (hnd_ok s i HI) as [Vi Di]. pose proof (hnd_ok s j HI) as [Vj Dj].
    eapply exec_inv; [exact HI | | exact E]. intros m' b' r Ec.
    destruct (apply_exact _ _ _ _ _ _ _ _ _ Hi Vi Vj Ec) as (A & B & C). split; [exact A|]. split; [exact B|].
    intros h Hr. destruct (C h Hr) as [C1 C2]. split; [exact C1|]. intros sigma. rewrite C2, Di, Dj.
    destruct o; reflexivity.
  - pose proof (hnd_ok s i HI) as [Vi Di].
    eapply exec_inv; [exact HI | | exact E]. intros m' b' r Ec.
    destruct (negate_exact _ _ _ _ _ _ _ Hi Vi Ec) as (A & B & C). split; [exact A|]. split; [exact B|].
    intros h Hr. destruct (C h Hr) as [C1 C2]. split; [exact C1|]. intros sigma. rewrite C2, Di. reflexivity.
  - eapply exec_inv; [exact HI | | exact E]. intros m' b' r Ec.
    destruct (exactly_one_exact _ _ _ _ _ _ _ Hi Ec) as (A & B & C). split; [exact A|]. split; [exact B|].
    intros h Hr. exact (C h Hr).
Qed.

Lemma run_inv : forall fuel ops s s' outs, HInv s -> run_from fuel s ops = (s', outs) -> HInv s'.
Proof.
  intros fuel ops. induction ops as [|o ops IH]; intros s s' outs HI E; cbn [run_from] in E.
  - now injection E as <- _.
  - destruct (step fuel s o) as [s1 r] eqn:E1. destruct (run_from fuel s1 ops) as [s2 rs] eqn:E2.
    injection E as <- _. eapply IH; [|exact E2]. eapply step_inv; eauto.
Qed.

Lemma HInv_init : HInv rinit.
Proof. split; [apply MInv_new | constructor]. Qed.

Lemma history_exact : forall fuel ops s outs,
  run_from fuel rinit ops = (s, outs) ->
  MInv (rm s) /\
  forall i sigma, den (rm s) (hnd s i) sigma = feval sigma (frm s i).
Proof.
  intros fuel ops s outs E. pose proof (run_inv _ _ _ _ _ HInv_init E) as HI.
  split; [apply HI|]. intros i sigma. apply (hnd_ok s i HI).
Qed.

(* ---- one API call, under any budget -------------------------------------------------------------------- *)
Inductive call := CLit (v : N) (pol : bool) | CApply (a b : N) (o : bop) | CNeg (a : N) | CEo (vars : list N).

Definition run_call (fuel : nat) (c : call) : M N :=
  match c with
  | CLit v pol => literal v pol
  | CApply a b o => apply_f fuel a b o
  | CNeg a => negate_f fuel a
  | CEo vars => exactly_one fuel vars
  end.
Definition call_ok (m : mgr) (c : call) : Prop :=
  match c with
  | CApply a b _ => validh m a /\ validh m b
  | CNeg a => validh m a
  | _ => True
  end.
Definition call_sem (m : mgr) (c : call) (sigma : asg) : bool :=
  match c with
  | CLit v pol => Bool.eqb (sigma v) pol
  | CApply a b o => bop_sem o (den m a sigma) (den m b sigma)
  | CNeg a => negb (den m a sigma)
  | CEo vars => feval sigma (FExactlyOne vars)
  end.

Lemma call_exact : forall fuel c m bud m' bud' r,
  MInv m -> call_ok m c -> run_call fuel c (m, bud) = ((m', bud'), r) ->
  MInv m' /\ ext m m' /\
  forall h, r = Ok h -> validh m' h /\ forall sigma, den m' h sigma = call_sem m c sigma.
Proof.
  intros fuel [v pol|a b o|a|vars] m bud m' bud' r Hi Hok E; cbn [run_call call_ok call_sem] in *.
  - eapply literal_exact; eauto.
  - destruct Hok. eapply apply_exact; eauto.
  - eapply negate_exact; eauto.
  - eapply exactly_one_exact; eauto.
Qed.

Lemma budget_safe : forall fuel fuel' c m bud m1 b1 r1 m2 b2 res2,
  MInv m -> call_ok m c ->
  run_call fuel c (m, unlimited) = ((m1, b1), Ok r1) ->
  run_call fuel' c (m, bud) = ((m2, b2), res2) ->
  MInv m2 /\ ext m m2 /\
  forall r2, res2 = Ok r2 -> validh m2 r2 /\ forall sigma, den m2 r2 sigma = den m1 r1 sigma.
Proof.
  intros fuel fuel' c m bud m1 b1 r1 m2 b2 res2 Hi Hok E1 E2.
  destruct (call_exact _ _ _ _ _ _ _ Hi Hok E1) as (_ & _ & H1).
  destruct (call_exact _ _ _ _ _ _ _ Hi Hok E2) as (A & B & H2).
  split; [exact A|]. split; [exact B|]. intros r2 Hr.
  destruct (H1 r1 eq_refl) as [_ D1]. destruct (H2 r2 Hr) as [V2 D2].
  split; [exact V2|]. intros sigma. now rewrite D1, D2.
Qed.
