Require Import KV.Sdd.Model KV.Sdd.Sem KV.Sdd.Spec.
Theorem C07_placeholder : den mgr_new 1 (fun _ => false) = true.
Proof. reflexivity. Qed.
Print Assumptions C07_placeholder.
