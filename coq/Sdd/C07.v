(* C07 - Decision-diagram operations are exact, canonical and interruption-safe.
   Only the property theorems; each is closed by `exact <lemma>` and followed by Print Assumptions.
   Model: Model.v (shared/src/sdd.rs, diff_sdd.rs); denotation: Sem.v; Spec: Spec.v; histories: History.v.

   Reading guide.  `den m id sigma` is the value of handle `id` of manager `m` under assignment sigma.
   `MInv m` is the manager invariant (arena well formed: the primes of every Decision node are pairwise
   disjoint and jointly exhaustive; unique table, apply cache and negate cache semantically correct).
   `ext m m'`: m' has the arena of m plus appended nodes, same vtree and weights (so old handles keep
   their meaning: `den_ext`).  A computation is run as `c (m, budget) = ((m', budget'), outcome)`; the
   budget is (node limit, answers of the deadline callback at the successive checkpoints) and is
   universally quantified everywhere: `unlimited` is the plain operation, anything else its try_* twin. *)
Require Import KV.Sdd.Model KV.Sdd.Sem KV.Sdd.Spec KV.Sdd.History.
Require Import KV.Sdd.Decomp KV.Sdd.Hoare KV.Sdd.MainProofs KV.Sdd.WmcProofs.
Require Import KV.Sdd.Canon3Defs KV.Sdd.Canon3 KV.Sdd.Canon3b.
Require Import QArith.

(* (1) apply is exact: whatever the budget and the fuel, IF it returns a handle, the handle denotes
   op(a, b); and whatever the outcome, the invariant holds afterwards and old handles are untouched. *)
Theorem C07_apply_exact :
  forall fuel m bud a b o m' bud' r,
    MInv m -> validh m a -> validh m b ->
    apply_f fuel a b o (m, bud) = ((m', bud'), r) ->
    MInv m' /\ ext m m' /\
    forall h, r = Ok h ->
      validh m' h /\ forall sigma, den m' h sigma = bop_sem o (den m a sigma) (den m b sigma).
Proof. exact apply_exact. Qed.
Print Assumptions C07_apply_exact.

Theorem C07_negate_exact :
  forall fuel m bud a m' bud' r,
    MInv m -> validh m a ->
    negate_f fuel a (m, bud) = ((m', bud'), r) ->
    MInv m' /\ ext m m' /\
    forall h, r = Ok h -> validh m' h /\ forall sigma, den m' h sigma = negb (den m a sigma).
Proof. exact negate_exact. Qed.
Print Assumptions C07_negate_exact.

Theorem C07_literal_exact :
  forall m bud v pol m' bud' r,
    MInv m ->
    literal v pol (m, bud) = ((m', bud'), r) ->
    MInv m' /\ ext m m' /\
    forall h, r = Ok h -> validh m' h /\ forall sigma, den m' h sigma = Bool.eqb (sigma v) pol.
Proof. exact literal_exact. Qed.
Print Assumptions C07_literal_exact.

(* exactly_one denotes "exactly one of the listed variables is true" (counted with multiplicity) *)
Theorem C07_exactly_one_exact :
  forall fuel m bud vars m' bud' r,
    MInv m ->
    exactly_one fuel vars (m, bud) = ((m', bud'), r) ->
    MInv m' /\ ext m m' /\
    forall h, r = Ok h ->
      validh m' h /\ forall sigma, den m' h sigma = Nat.eqb (count_true (map sigma vars)) 1.
Proof. exact exactly_one_exact. Qed.
Print Assumptions C07_exactly_one_exact.

(* old handles keep their denotation when the manager grows, and registering a variable (vtree
   growth, in any order, at any time) preserves the invariant and every denotation *)
Theorem C07_extension_stable :
  forall m m' id sigma, validh m id -> ext m m' -> den m' id sigma = den m id sigma.
Proof. exact den_ext. Qed.
Print Assumptions C07_extension_stable.

Theorem C07_new_variable :
  forall v p n k m, MInv m ->
    MInv (ensure_variable_weights v p n k m) /\
    forall id sigma, den (ensure_variable_weights v p n k m) id sigma = den m id sigma.
Proof.
  intros v p n k m Hi. split; [now apply MInv_ensure|].
  intros id sigma. unfold den. now rewrite (proj1 (ensure_nodes v p n k m)).
Qed.
Print Assumptions C07_new_variable.

(* (2) budget: a call (literal / apply / negate / exactly_one) run under ANY (node limit, deadline
   answers) ends in a manager satisfying the invariant and extending the old one -- whether it returned
   Ok, DeadlineExceeded, NodeBudgetExceeded (or, in the model, ran out of fuel or hit a Rust panic
   path) -- and if it returned Ok r2 then r2 denotes the same function as the result r1 of the plain
   (unlimited) call. *)
Theorem C07_budget :
  forall fuel fuel' c m bud m1 b1 r1 m2 b2 res2,
    MInv m -> call_ok m c ->
    run_call fuel c (m, unlimited) = ((m1, b1), Ok r1) ->
    run_call fuel' c (m, bud) = ((m2, b2), res2) ->
    MInv m2 /\ ext m m2 /\
    forall r2, res2 = Ok r2 -> validh m2 r2 /\ forall sigma, den m2 r2 sigma = den m1 r1 sigma.
Proof. exact budget_safe. Qed.
Print Assumptions C07_budget.

(* Exactness and interruption safety over whole histories: starting from the empty manager, for
   every sequence of variable registrations (any order, interleaved), literal, and, or, negate,
   exactly_one operations, each plain or under an arbitrary budget (so any of them may be interrupted
   at any checkpoint or by any node limit), the final manager satisfies the invariant and EVERY handle
   slot denotes exactly the Boolean function of its formula (a slot whose operation did not return
   Ok holds the FALSE handle and the formula FALSE).  In particular operations that come after an
   exhausted one are still exact. *)
Theorem C07_history_exact :
  forall fuel ops s outs,
    run_from fuel rinit ops = (s, outs) ->
    MInv (rm s) /\
    forall i sigma, den (rm s) (hnd s i) sigma = feval sigma (frm s i).
Proof. exact history_exact. Qed.
Print Assumptions C07_history_exact.

(* (3) weighted model count = truth-table weighted sum.
   `wsum pos neg vs f sigma0` is the sum over all 2^|vs| assignments of the variables vs (the other
   variables read from sigma0) of the product of the literal weights times f.  Hypotheses, all decidable
   and all evaluated by the check on every model state it reaches:
     - normalised vs m : pos v + neg v = 1 for the variables of vs (the Independent encoding; this is the
       smoothness caveat: the trimmed diagram is not smooth, a variable that does not occur on a path
       contributes the factor 1, which equals pos+neg only for normalised weights; exclusive-group
       variables (neg = 1) are outside this theorem and are checked against the truth-table sum only
       numerically, on formulas conjoined with the group's exactly-one constraint);
     - lits_in vs m : every literal of the arena is over a variable of vs;
     - decomp_ok m : every (prime, sub) element of every Decision node is decomposable (disjoint
       variable sets).  PARTIAL: that every manager reachable by a history satisfies decomp_ok is not
       proved (it needs the vtree-respecting invariant through apply); the check evaluates decomp_ok on
       the final manager of every generated history.  Full statement (not proved):
         forall fuel ops s outs, run_from fuel rinit ops = (s, outs) -> normalised vs (rm s) = true ->
           lits_in vs (rm s) = true -> forall i, wmc (rm s) (hnd s i) == wsum ... (feval . (frm s i)). *)
Theorem C07_wmc_partial :
  forall m vs id sigma0,
    MInv m -> decomp_ok m = true -> lits_in vs m = true -> normalised vs m = true -> validh m id ->
    wmc m id == wsum (pos_of m) (neg_of m) vs (fun s => b2q (den m id s)) sigma0.
Proof. exact wmc_sum. Qed.
Print Assumptions C07_wmc_partial.

(* (5, stretch) gradient of an Independent variable v: diff_sdd::wmc_gradient computes
   wmc[pos v := 1, neg v := 0] - wmc[pos v := 0, neg v := 1], which (by the theorem above, applied to the two
   re-weighted managers) is the truth-table sum with v forced true minus the one with v forced false, i.e. the
   derivative of the truth-table sum in pos v when neg v = 1 - pos v.  Same partiality as C07_wmc_partial
   (decomp_ok is a hypothesis); exclusive-group variables are only compared numerically by the check. *)
Theorem C07_gradient_indep_partial :
  forall m vs id v sigma0,
    MInv m -> decomp_ok m = true -> lits_in vs m = true -> validh m id ->
    kind_of m v = Indep ->
    normalised vs (set_weights v 1 0 m) = true -> normalised vs (set_weights v 0 1 m) = true ->
    grad_var m id v ==
      wsum (pos_of (set_weights v 1 0 m)) (neg_of (set_weights v 1 0 m)) vs (fun s => b2q (den m id s)) sigma0
    - wsum (pos_of (set_weights v 0 1 m)) (neg_of (set_weights v 0 1 m)) vs (fun s => b2q (den m id s)) sigma0.
Proof. exact grad_indep. Qed.
Print Assumptions C07_gradient_indep_partial.

(* (4) BOUNDED canonicity, three variables.  m3 order / h3 order: the model's manager after registering
   variables 0,1,2 in the given order and building all 256 functions as disjunctions of minterms, and
   the table of their handles.  Proved by evaluating the sweep (2 x 65536 applies + 256 negates) with the
   kernel's VM and lifting with forallb_forall: the 256 handles are pairwise distinct, each denotes its
   truth table, and apply / negate of ANY operands among them return exactly the handle of the result's
   truth table - so on this domain handles are equal iff truth tables are equal.
   This is a statement about a finite domain.  Unbounded canonicity,
       forall history, forall slots i j, (forall sigma, den i sigma = den j sigma) -> handle i = handle j,
   is NOT proved (Darwiche's canonicity theorem for compressed trimmed SDDs over a growing vtree); the
   check tests it on every generated handle. *)
Theorem C07_canonical_3 :
  canonical3 FUEL3 (m3 [0; 1; 2]%N) (h3 [0; 1; 2]%N) /\ canonical3 FUEL3 (m3 [2; 0; 1]%N) (h3 [2; 0; 1]%N).
Proof. exact (conj canonical3_012 canonical3_201). Qed.
Print Assumptions C07_canonical_3.

(* ---- non-vacuity ------------------------------------------------------------------------------------ *)
(* the empty manager satisfies the invariant *)
Example C07_inv_inhabited : MInv mgr_new.
Proof. exact MInv_new. Qed.

(* the hypotheses of C07_wmc_partial are met by a concrete reachable manager, and the value is 27/50 *)
Example C07_wmc_example :
  let ops := [OVar 2 (4#5) (1#5) Indep; OVar 0 (3#5) (2#5) Indep; OVar 1 (1#2) (1#2) Indep;
              OLit 0 true None; OLit 1 true None; OLit 2 true None;
              OApply 0 1 And None; OApply 0 2 And None; OApply 3 4 Or None]%N in
  let s := fst (run_from 100 rinit ops) in
  decomp_ok (rm s) = true /\ lits_in [0; 1; 2]%N (rm s) = true /\ normalised [0; 1; 2]%N (rm s) = true /\
  Qeq_bool (wmc (rm s) (hnd s 5)) (27#50) = true.
Proof. vm_compute. repeat split; reflexivity. Qed.

(* a history with three variables introduced in the order 2,0,1; (x0&x1)|(x0&x2) is built, then the
   same disjunction is requested with the deadline expiring at the 5th checkpoint (DeadlineExceeded,
   code 1), with a node budget of 9 (NodeBudgetExceeded, code 2: nine nodes exist already and the
   operation allocates), then plain, and finally negated under a generous budget.  Codes: 0 = Ok. *)
Example C07_example :
  let ops := [OVar 2 (1#2) (1#2) Indep; OVar 0 (1#2) (1#2) Indep; OVar 1 (1#2) (1#2) Indep;
              OLit 0 true None; OLit 1 true None; OLit 2 true None;
              OApply 0 1 And None; OApply 0 2 And None;
              OApply 3 4 Or (Some (None, [true; true; true; true; false]));
              OApply 3 4 Or (Some (Some 9, []));
              OApply 3 4 Or None;
              ONeg 7 (Some (Some 100, []))]%N in
  map (fun x => fst (fst (fst x))) (snd (run_from 100 rinit ops)) = [9; 9; 9; 0; 0; 0; 0; 0; 1; 2; 0; 0]%N
  /\ map (fun f => table_of 3 (fun sg => feval sg f)) (rf (fst (run_from 100 rinit ops)))
     = [170; 204; 240; 136; 160; 0; 0; 168; 87]%N.
Proof. vm_compute. split; reflexivity. Qed.
