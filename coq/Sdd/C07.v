(* C07 - Decision-diagram operations are exact, canonical and interruption-safe.
   Only the property theorems; each is closed by `exact <lemma>` and followed by Print Assumptions.
   Model: Model.v (shared/src/sdd.rs, diff_sdd.rs); denotation: Sem.v; Spec: Spec.v; histories: History.v.

   Reading guide.  `den m id sigma` is the value of handle `id` of manager `m` under assignment sigma.
   `MInv m` is the manager invariant (arena well formed: the primes of every Decision node are pairwise
   disjoint and jointly exhaustive; unique table, apply cache and negate cache semantically correct).
   `ext m m'`: m' has the arena of m plus appended nodes, same vtree and weights (so old handles keep
   their meaning: `den_ext`).  A computation is run as `c (m, budget) = ((m', budget'), outcome)`; the
   budget is (node limit, answers of the deadline callback at the successive checkpoints) and is
   universally quantified everywhere: `unlimited` is the plain operation, anything else its try_* twin. *)
Require Import KV.Sdd.Model KV.Sdd.Sem KV.Sdd.Spec KV.Sdd.History.
Require Import KV.Sdd.Decomp KV.Sdd.Hoare KV.Sdd.MainProofs KV.Sdd.WmcProofs KV.Sdd.DecompHist KV.Sdd.BudgetSim KV.Sdd.CubeProofs KV.Sdd.CubeHist KV.Sdd.SafeProofs KV.Sdd.SafeHist KV.Sdd.Reduced KV.Sdd.CanonProofs KV.Sdd.RedFinal.
Require Import QArith.

(* (1) apply is exact: whatever the budget and the fuel, IF it returns a handle, the handle denotes
   op(a, b); and whatever the outcome, the invariant holds afterwards and old handles are untouched. *)
Theorem C07_apply_exact :
  forall fuel m bud a b o m' bud' r,
    MInv m -> validh m a -> validh m b ->
    apply_f fuel a b o (m, bud) = ((m', bud'), r) ->
    MInv m' /\ ext m m' /\
    forall h, r = Ok h ->
      validh m' h /\ forall sigma, den m' h sigma = bop_sem o (den m a sigma) (den m b sigma).
Proof. exact apply_exact. Qed.
Print Assumptions C07_apply_exact.

Theorem C07_negate_exact :
  forall fuel m bud a m' bud' r,
    MInv m -> validh m a ->
    negate_f fuel a (m, bud) = ((m', bud'), r) ->
    MInv m' /\ ext m m' /\
    forall h, r = Ok h -> validh m' h /\ forall sigma, den m' h sigma = negb (den m a sigma).
Proof. exact negate_exact. Qed.
Print Assumptions C07_negate_exact.

Theorem C07_literal_exact :
  forall m bud v pol m' bud' r,
    MInv m ->
    literal v pol (m, bud) = ((m', bud'), r) ->
    MInv m' /\ ext m m' /\
    forall h, r = Ok h -> validh m' h /\ forall sigma, den m' h sigma = Bool.eqb (sigma v) pol.
Proof. exact literal_exact. Qed.
Print Assumptions C07_literal_exact.

(* exactly_one denotes "exactly one of the listed variables is true" (counted with multiplicity) *)
Theorem C07_exactly_one_exact :
  forall fuel m bud vars m' bud' r,
    MInv m ->
    exactly_one fuel vars (m, bud) = ((m', bud'), r) ->
    MInv m' /\ ext m m' /\
    forall h, r = Ok h ->
      validh m' h /\ forall sigma, den m' h sigma = Nat.eqb (count_true (map sigma vars)) 1.
Proof. exact exactly_one_exact. Qed.
Print Assumptions C07_exactly_one_exact.

(* old handles keep their denotation when the manager grows, and registering a variable (vtree
   growth, in any order, at any time) preserves the invariant and every denotation *)
Theorem C07_extension_stable :
  forall m m' id sigma, validh m id -> ext m m' -> den m' id sigma = den m id sigma.
Proof. exact den_ext. Qed.
Print Assumptions C07_extension_stable.

Theorem C07_new_variable :
  forall v p n k m, MInv m ->
    MInv (ensure_variable_weights v p n k m) /\
    forall id sigma, den (ensure_variable_weights v p n k m) id sigma = den m id sigma.
Proof.
  intros v p n k m Hi. split; [now apply MInv_ensure|].
  intros id sigma. unfold den. now rewrite (proj1 (ensure_nodes v p n k m)).
Qed.
Print Assumptions C07_new_variable.

(* (2) budget: a call (literal / apply / negate / exactly_one) run under ANY (node limit, deadline
   answers) ends in a manager satisfying the invariant and extending the old one -- whether it returned
   Ok, DeadlineExceeded, NodeBudgetExceeded (or, in the model, ran out of fuel or hit a Rust panic
   path) -- and if it returned Ok r2 then r2 denotes the same function as the result r1 of the plain
   (unlimited) call. *)
Theorem C07_budget :
  forall fuel fuel' c m bud m1 b1 r1 m2 b2 res2,
    MInv m -> call_ok m c ->
    run_call fuel c (m, unlimited) = ((m1, b1), Ok r1) ->
    run_call fuel' c (m, bud) = ((m2, b2), res2) ->
    MInv m2 /\ ext m m2 /\
    forall r2, res2 = Ok r2 -> validh m2 r2 /\ forall sigma, den m2 r2 sigma = den m1 r1 sigma.
Proof. exact budget_safe. Qed.
Print Assumptions C07_budget.

(* ... and the literal reading of "a budgeted operation either returns the same result as the unbudgeted
   one or reports exhaustion": whenever the call under ANY budget returns Ok r (ending in manager m'), the
   plain call with the same fuel returns the same handle r and ends in the same manager m'.  (No invariant is
   needed: the budget is only consulted by checkpoint / before_allocation, which never touch the manager.) *)
Theorem C07_budget_same_result :
  forall fuel c m bud m' bud' r,
    run_call fuel c (m, bud) = ((m', bud'), Ok r) ->
    exists b1, run_call fuel c (m, unlimited) = ((m', b1), Ok r).
Proof. exact budget_same_result. Qed.
Print Assumptions C07_budget_same_result.

(* Exactness and interruption safety over whole histories: starting from the empty manager, for
   every sequence of variable registrations (any order, interleaved), literal, and, or, negate,
   exactly_one operations, each plain or under an arbitrary budget (so any of them may be interrupted
   at any checkpoint or by any node limit), the final manager satisfies the invariant and EVERY handle
   slot denotes exactly the Boolean function of its formula (a slot whose operation did not return
   Ok holds the FALSE handle and the formula FALSE).  In particular operations that come after an
   exhausted one are still exact. *)
Theorem C07_history_exact :
  forall fuel ops s outs,
    run_from fuel rinit ops = (s, outs) ->
    MInv (rm s) /\
    forall i sigma, den (rm s) (hnd s i) sigma = feval sigma (frm s i).
Proof. exact history_exact. Qed.
Print Assumptions C07_history_exact.

(* (3) weighted model count = truth-table weighted sum.
   `wsum pos neg vs f sigma0` is the sum over all 2^|vs| assignments of the variables vs (the other
   variables read from sigma0) of the product of the literal weights times f.
   Hypotheses (both decidable):
     - run_ok: literals / exactly_one are only requested over variables registered before (the API's
       documented precondition; `literal` on an unregistered variable makes later applies panic);
     - normalised: pos v + neg v = 1 for every registered variable (the Independent encoding).  This is the
       smoothness caveat made explicit: the trimmed diagram is not smooth, a variable that does not occur on
       a path contributes the factor 1, which equals pos+neg only for normalised weights.  Exclusive-group
       variables (neg = 1) are therefore OUTSIDE this theorem; for them the check compares wmc numerically with
       the truth-table sum on formulas conjoined with the group's exactly-one constraint.
   For every history (any order of registration, any budgets, any interruptions) and every handle slot:
   wmc = sum over the truth table of the slot's formula. *)
Theorem C07_wmc :
  forall fuel ops s outs i sigma0,
    run_from fuel rinit ops = (s, outs) -> run_ok fuel rinit ops = true ->
    normalised (map fst (var2vt (rm s))) (rm s) = true ->
    wmc (rm s) (hnd s i) ==
    wsum (pos_of (rm s)) (neg_of (rm s)) (map fst (var2vt (rm s))) (fun sg => b2q (feval sg (frm s i))) sigma0.
Proof. exact history_wmc. Qed.
Print Assumptions C07_wmc.

(* the structural fact behind it: every reachable manager is decomposable (every Decision element's prime
   and sub have disjoint variable sets: the Decision nodes respect the dynamically grown vtree) *)
Theorem C07_decomposable :
  forall fuel ops s outs,
    run_from fuel rinit ops = (s, outs) -> run_ok fuel rinit ops = true ->
    decomp_ok (rm s) = true /\ lits_in (map fst (var2vt (rm s))) (rm s) = true.
Proof. exact history_decomp. Qed.
Print Assumptions C07_decomposable.

(* the same for an arbitrary manager satisfying the invariant and the (decidable) decomposability check *)
Theorem C07_wmc_manager :
  forall m vs id sigma0,
    MInv m -> decomp_ok m = true -> lits_in vs m = true -> normalised vs m = true -> validh m id ->
    wmc m id == wsum (pos_of m) (neg_of m) vs (fun s => b2q (den m id s)) sigma0.
Proof. exact wmc_sum. Qed.
Print Assumptions C07_wmc_manager.

(* (3b) exclusive groups: the smoothness caveat made explicit.  A variable u is harmless for the formula f
   (`var_ok`) when its weights are normalised OR it belongs to a group G of pairwise distinct variables such that
   f entails "exactly one variable of G is true" (annotated-disjunction encoding: pos = p_i, neg = 1, formulas
   conjoined with the group's exactly_one).  Then - for arbitrary weights of the group variables - wmc equals the
   truth-table weighted sum over the registered variables.  Proof: wmc is the sum of the weights of the cubes
   (paths) of the diagram; the value of the node is the number of satisfied cubes (determinism); the expectation
   of "sigma satisfies c" is W(c) times prod over the variables NOT in c of (pos+neg); and a function entailing
   exactly-one(G) mentions every variable of G in every cube (flip the variable: both assignments would satisfy
   the cube, but the counts differ).  C07_wmc is the special case "all normalised". *)
Theorem C07_wmc_groups :
  forall fuel ops s outs i sigma0,
    run_from fuel rinit ops = (s, outs) -> run_ok fuel rinit ops = true ->
    (forall u, In u (regvars (rm s)) ->
       var_ok (pos_of (rm s)) (neg_of (rm s)) (fun sg => feval sg (frm s i)) u) ->
    wmc (rm s) (hnd s i) ==
    wsum (pos_of (rm s)) (neg_of (rm s)) (regvars (rm s)) (fun sg => b2q (feval sg (frm s i))) sigma0.
Proof. exact history_wmc_groups. Qed.
Print Assumptions C07_wmc_groups.

(* (5) gradient, both variable kinds.  diff_sdd::wmc_gradient computes, for variable v,
     Independent:     wmc[pos v := 1, neg v := 0] - wmc[pos v := 0, neg v := 1]
     ExclusiveGroup:  wmc[pos v := 1, neg v := 0]
   and each of these is the truth-table weighted sum under the re-weighted manager (hypothesis: every registered
   variable is harmless, `var_ok`, under the re-weighting: v itself becomes normalised, the other members of its
   group keep neg = 1 and are covered by the exactly-one entailment).  By C07_wsum_linear the truth-table sum T is
   T = pos v * T[1,0] + neg v * T[0,1], so T[1,0] - T[0,1] is dT/d(pos v) when neg v = 1 - pos v (Independent) and
   T[1,0] is dT/d(pos v) when neg v is the constant 1 (ExclusiveGroup): the gradient equals the truth-table
   derivative for both kinds. *)
Theorem C07_gradient :
  forall fuel ops s outs i v sigma0,
    run_from fuel rinit ops = (s, outs) -> run_ok fuel rinit ops = true ->
    let m := rm s in let m1 := set_weights v 1 0 m in let m0 := set_weights v 0 1 m in
    let f := fun sg => feval sg (frm s i) in
    (forall u, In u (regvars m) -> var_ok (pos_of m1) (neg_of m1) f u) ->
    (kind_of m v = Indep -> forall u, In u (regvars m) -> var_ok (pos_of m0) (neg_of m0) f u) ->
    grad_var m (hnd s i) v ==
    match kind_of m v with
    | Indep => wsum (pos_of m1) (neg_of m1) (regvars m) (fun sg => b2q (f sg)) sigma0
               - wsum (pos_of m0) (neg_of m0) (regvars m) (fun sg => b2q (f sg)) sigma0
    | Excl _ => wsum (pos_of m1) (neg_of m1) (regvars m) (fun sg => b2q (f sg)) sigma0
    end.
Proof. exact history_grad. Qed.
Print Assumptions C07_gradient.

Theorem C07_wsum_linear :
  forall pos neg vs v f s, NoDup vs -> In v vs ->
    wsum pos neg vs f s ==
    pos v * wsum (fupd pos v 1) (fupd neg v 0) vs f s + neg v * wsum (fupd pos v 0) (fupd neg v 1) vs f s.
Proof. exact wsum_linear. Qed.
Print Assumptions C07_wsum_linear.

(* manager-level forms (any manager with the invariants; decomp_ok holds for reachable managers by C07_decomposable) *)
Theorem C07_wmc_groups_manager :
  forall m vs id sigma0,
    MInv m -> decomp_ok m = true -> NoDup vs -> lits_in vs m = true -> validh m id ->
    (forall u, In u vs -> var_ok (pos_of m) (neg_of m) (fun s => den m id s) u) ->
    wmc m id == wsum (pos_of m) (neg_of m) vs (fun s => b2q (den m id s)) sigma0.
Proof. exact wmc_sum_groups. Qed.
Print Assumptions C07_wmc_groups_manager.

(* (6) totality / fuel sufficiency.  The model's recursion (apply <-> negate through expand, normalize_to,
   unique_d, compress) is a fixpoint on fuel and its Rust panic paths are explicit `Panic` outcomes.  With fuel above
   4 * (length of the history) + 3 - the vtree has at most two nodes per registered variable and the nesting depth of
   apply/negate is at most twice the vtree position of the lowest common ancestor of the operands - NO step of a history
   whose literals are over registered variables ever reports out-of-fuel (code 3) or a panic path (code 4): every
   step is Ok (0), DeadlineExceeded (1), NodeBudgetExceeded (2) or a registration (9).  Together with
   C07_history_exact the exactness statements are total.  Proof: third Hoare pass (`SHoare.v`, `SafeProofs.v`) with a
   positional invariant (Decision nodes at internal vtree nodes, primes below the left child, subs below the right
   child; unique table sound and complete; only nodes 0/1 are constants), parent uniqueness in the vtree and
   minimality of `find_lca` (`Vtree2.v`). *)
Theorem C07_total :
  forall fuel ops s outs,
    run_from fuel rinit ops = (s, outs) -> run_ok fuel rinit ops = true ->
    (4 * length ops + 3 < fuel)%nat ->
    Forall okcode outs.
Proof. exact history_total. Qed.
Print Assumptions C07_total.

(* single call on any manager with the positional invariant (every reachable manager has it: C07_reachable_positional):
   fuel above 2 * |vtree| + 3 suffices; the call returns Ok with a valid handle or a budget error, and the invariant
   is kept *)
Theorem C07_call_total :
  forall fuel c m bud m' bud' r,
    SInvP m -> call_okS m c -> (2 * length (vnodes m) + 3 < fuel)%nat ->
    run_call fuel c (m, bud) = ((m', bud'), r) ->
    SInvP m' /\ ext m m' /\ (exists h, r = Ok h /\ validh m' h) \/ SInvP m' /\ ext m m' /\ exists e, r = Err e.
Proof. exact call_total. Qed.
Print Assumptions C07_call_total.

Theorem C07_reachable_positional :
  forall fuel ops s outs,
    run_from fuel rinit ops = (s, outs) -> run_ok fuel rinit ops = true -> (4 * length ops + 3 < fuel)%nat ->
    SInvP (rm s) /\ (length (vnodes (rm s)) <= 2 * length ops)%nat.
Proof. exact history_SInvP. Qed.
Print Assumptions C07_reachable_positional.

(* (7) canonicity, the part that is proved for every number of variables:
     - the unique table is complete: two handles whose arena nodes are equal are the same handle;
     - constants and literals are canonical: two handles that are not Decision nodes and denote the same function
       are equal.
   General canonicity (two Decision handles with the same denotation are equal) is NOT proved; see notes/C07.md for
   the lemma that blocks it (uniqueness of compressed partitions w.r.t. a vtree split). *)
Theorem C07_unique_nodes :
  forall m i j, SInvP m -> validh m i -> validh m j -> i <> 0%N -> i <> 1%N -> j <> 0%N -> j <> 1%N ->
    node_at m i = node_at m j -> i = j.
Proof. exact unique_nodes. Qed.
Print Assumptions C07_unique_nodes.

Theorem C07_canonical_simple_partial :
  forall m i j, MInv m -> SInvP m -> validh m i -> validh m j ->
    simple_node m i -> simple_node m j ->
    (forall sigma, den m i sigma = den m j sigma) -> i = j.
Proof. exact canonical_simple. Qed.
Print Assumptions C07_canonical_simple_partial.

(* (8) canonicity for every number of variables, relative to the decidable reducedness check `reduced_ok` (Reduced.v:
   the vtree is right-linear - every internal node has a leaf as left child, which is how ensure_variable_weights grows
   it - and every Decision node is {(literal x, s1), (literal not-x, s2)} sorted, compressed (s1 <> s2), not trimmable).
   For such a manager two handles with the same denotation are EQUAL: Darwiche's canonicity argument specialised to
   right-linear vtrees, by induction on the handles (CanonProofs.v).
   Every reachable manager passes `reduced_ok`: C07_reduced_reachable below; the unconditional theorem is C07_canonical. *)
Theorem C07_canonical_reduced :
  forall m a b,
    MInv m -> SInv m -> SInvP m -> reduced_ok m = true ->
    validh m a -> validh m b -> (forall s, den m a s = den m b s) -> a = b.
Proof. exact canonical_reduced. Qed.
Print Assumptions C07_canonical_reduced.

(* (9) CANONICITY, unconditional for reachable managers.  Every manager reachable by a history (any number of
   variables, registered in any order and at any time; literal / and / or / negate / exactly_one, each plain or under an
   arbitrary budget, interrupted anywhere; literals over registered variables; fuel above 4|history|+3 so that the model
   never runs out of fuel) passes the reducedness check, and therefore equal functions get equal handles:
     - any two valid handles of the final manager with the same denotation are equal;
     - any two slots whose formulas denote the same Boolean function hold the same handle.
   Proof of the missing lemma (fourth Hoare pass, RedProofs.v / RedHist.v: the positional invariant strengthened by
   "no FALSE prime, not trimmable, pairwise distinct subs, stored sorted; the negate cache maps literals to literals";
   in compress the Or of two non-FALSE handles living at a leaf is decided by the terminal cases and is never FALSE;
   in normalize_to the negation of a literal is a literal, so the one-element partition is never allocated) and of the
   static step (RedFinal.v: positional + partition invariants force the shape {(literal x, s1), (literal not-x, s2)}). *)
Theorem C07_reduced_reachable :
  forall fuel ops s outs,
    run_from fuel rinit ops = (s, outs) -> run_ok fuel rinit ops = true -> (4 * length ops + 3 < fuel)%nat ->
    reduced_ok (rm s) = true.
Proof. exact history_reduced. Qed.
Print Assumptions C07_reduced_reachable.

Theorem C07_canonical :
  forall fuel ops s outs,
    run_from fuel rinit ops = (s, outs) -> run_ok fuel rinit ops = true -> (4 * length ops + 3 < fuel)%nat ->
    (forall a b, validh (rm s) a -> validh (rm s) b -> (forall sg, den (rm s) a sg = den (rm s) b sg) -> a = b) /\
    (forall i j, (forall sg, feval sg (frm s i) = feval sg (frm s j)) -> hnd s i = hnd s j).
Proof. exact history_canonical_full. Qed.
Print Assumptions C07_canonical.

(* the earlier conditional form is now a corollary (its hypothesis reduced_ok is redundant) *)
Theorem C07_canonical_history_partial :
  forall fuel ops s outs i j,
    run_from fuel rinit ops = (s, outs) -> run_ok fuel rinit ops = true -> (4 * length ops + 3 < fuel)%nat ->
    reduced_ok (rm s) = true ->
    (forall sg, feval sg (frm s i) = feval sg (frm s j)) -> hnd s i = hnd s j.
Proof. intros fuel ops s outs i j E Hok Hf _ H. exact (proj2 (history_canonical_full fuel ops s outs E Hok Hf) i j H). Qed.
Print Assumptions C07_canonical_history_partial.

(* ---- non-vacuity ------------------------------------------------------------------------------------ *)
(* the empty manager satisfies the invariant *)
Example C07_inv_inhabited : MInv mgr_new.
Proof. exact MInv_new. Qed.

(* reduced_ok holds of a concrete reachable manager with shared sub-diagrams (so C07_canonical_* are not vacuous) *)
Example C07_reduced_example :
  let ops := [OVar 2 (1#2) (1#2) Indep; OVar 0 (1#2) (1#2) Indep; OVar 1 (1#2) (1#2) Indep;
              OLit 0 true None; OLit 1 true None; OLit 2 true None;
              OApply 0 1 And None; OApply 0 2 And None; OApply 3 4 Or None; ONeg 5 None; OEo [0; 1; 2] None]%N in
  reduced_ok (rm (fst (run_from 100 rinit ops))) = true.
Proof. vm_compute. reflexivity. Qed.

(* the hypotheses of C07_wmc are met by a concrete reachable manager, and the value is 27/50 *)
Example C07_wmc_example :
  let ops := [OVar 2 (4#5) (1#5) Indep; OVar 0 (3#5) (2#5) Indep; OVar 1 (1#2) (1#2) Indep;
              OLit 0 true None; OLit 1 true None; OLit 2 true None;
              OApply 0 1 And None; OApply 0 2 And None; OApply 3 4 Or None]%N in
  let s := fst (run_from 100 rinit ops) in
  run_ok 100 rinit ops = true /\ normalised (map fst (var2vt (rm s))) (rm s) = true /\
  Qeq_bool (wmc (rm s) (hnd s 5)) (27#50) = true.
Proof. vm_compute. repeat split; reflexivity. Qed.

(* annotated disjunction: group {0,1,2} with weights 2/16, 5/16, 9/16 (neg = 1) and an Independent x3 (4/16);
   f = (x0 | (x1 & x3)) & exactly_one{0,1,2}: wmc = 2/16 + 5/16 * 4/16 = 13/64, and every variable is var_ok-able:
   the hypotheses of C07_wmc_groups are satisfiable (the entailment is checked on all 16 assignments). *)
Example C07_wmc_groups_example :
  let ops := [OVar 1 (5#16) 1 (Excl 0); OVar 3 (4#16) (12#16) Indep; OVar 0 (2#16) 1 (Excl 0); OVar 2 (9#16) 1 (Excl 0);
              OEo [0; 1; 2] None; OLit 0 true None; OLit 1 true None; OLit 3 true None;
              OApply 2 3 And None; OApply 1 4 Or None; OApply 5 0 And None]%N in
  let s := fst (run_from 100 rinit ops) in
  run_ok 100 rinit ops = true /\
  Qeq_bool (wmc (rm s) (hnd s 6)) (13#64) = true /\
  forallb (fun k => implb (feval (sigma_of k) (frm s 6)) (Nat.eqb (count_true (map (sigma_of k) [0; 1; 2]%N)) 1))
          (indices 4) = true.
Proof. vm_compute. repeat split; reflexivity. Qed.

(* boundary weights are inside C07_gradient: its hypotheses only ask the OTHER variables to be
   normalised in the two re-weighted managers, so an Independent variable registered with probability exactly 1
   (pos = 1, neg = 0) or 0 is covered.  Here x0 has probability 1, f = (x0 & x1) | ~x2 with p1 = 10/16, p2 = 1/2:
   the hypotheses hold and the gradient in x0 is P(x1 | ~x2) - P(~x2) = 5/16 (not 0). *)
Example C07_gradient_boundary_example :
  let ops := [OVar 0 1 0 Indep; OVar 1 (10#16) (6#16) Indep; OVar 2 (1#2) (1#2) Indep;
              OLit 0 true None; OLit 1 true None; OLit 2 false None;
              OApply 0 1 And None; OApply 3 2 Or None]%N in
  let s := fst (run_from 100 rinit ops) in
  kind_of (rm s) 0 = Indep /\
  normalised [0; 1; 2]%N (set_weights 0 1 0 (rm s)) = true /\ normalised [0; 1; 2]%N (set_weights 0 0 1 (rm s)) = true /\
  Qeq_bool (grad_var (rm s) (hnd s 4) 0) (5#16) = true.
Proof. vm_compute. repeat split; reflexivity. Qed.

(* a history with three variables introduced in the order 2,0,1; (x0&x1)|(x0&x2) is built, then the
   same disjunction is requested with the deadline expiring at the 5th checkpoint (DeadlineExceeded,
   code 1), with a node budget of 9 (NodeBudgetExceeded, code 2: nine nodes exist already and the
   operation allocates), then plain, and finally negated under a generous budget.  Codes: 0 = Ok. *)
Example C07_example :
  let ops := [OVar 2 (1#2) (1#2) Indep; OVar 0 (1#2) (1#2) Indep; OVar 1 (1#2) (1#2) Indep;
              OLit 0 true None; OLit 1 true None; OLit 2 true None;
              OApply 0 1 And None; OApply 0 2 And None;
              OApply 3 4 Or (Some (None, [true; true; true; true; false]));
              OApply 3 4 Or (Some (Some 9, []));
              OApply 3 4 Or None;
              ONeg 7 (Some (Some 100, []))]%N in
  map (fun x => fst (fst (fst x))) (snd (run_from 100 rinit ops)) = [9; 9; 9; 0; 0; 0; 0; 0; 1; 2; 0; 0]%N
  /\ map (fun f => table_of 3 (fun sg => feval sg f)) (rf (fst (run_from 100 rinit ops)))
     = [170; 204; 240; 136; 160; 0; 0; 168; 87]%N.
Proof. vm_compute. split; reflexivity. Qed.
