(* The manager invariant (for one fixed assignment sigma), the extension order between managers,
   and a small Hoare logic for the state+error monad in which every operation is written.
   A triple `triple P c Q` says: started in any manager satisfying the invariant and P, under ANY
   budget, the computation c ends in a manager that satisfies the invariant and extends the old
   one -- whatever the outcome (Ok, budget error, out of fuel, panic) -- and if the outcome is
   `Ok a` then `Q a` holds of the final manager. *)
Require Import KV.Sdd.Model KV.Sdd.Sem KV.Sdd.Spec KV.Sdd.SemProofs.
Require Import Lia Permutation.

(* ---- decidable equalities used by the lookups -------------------------------------------------- *)
Lemma els_eqb_eq : forall a b, els_eqb a b = true -> a = b.
Proof.
  induction a as [|[p s] a IH]; destruct b as [|[q t] b]; cbn; intros H; try discriminate; auto.
  unfold elem_eqb in H; cbn in H.
  apply andb_prop in H as [H1 H2]. apply andb_prop in H1 as [Hp Hs].
  apply N.eqb_eq in Hp, Hs. subst. f_equal. now apply IH.
Qed.
Lemma ukey_eqb_eq : forall a b, ukey_eqb a b = true -> a = b.
Proof.
  intros [v p|v e] [w q|w f]; cbn; intros H; try discriminate;
    apply andb_prop in H as [H1 H2]; apply N.eqb_eq in H1; subst.
  - apply Bool.eqb_prop in H2. now subst.
  - apply els_eqb_eq in H2. now subst.
Qed.
Lemma akey_eqb_eq : forall a b, akey_eqb a b = true -> a = b.
Proof.
  intros [[a1 a2] o1] [[b1 b2] o2]; unfold akey_eqb; cbn; intros H.
  apply andb_prop in H as [H1 H3]. apply andb_prop in H1 as [H1 H2].
  apply N.eqb_eq in H1, H2. subst. destruct o1, o2; try discriminate; reflexivity.
Qed.

Lemma alookup_in : forall {K V} (eqb : K -> K -> bool) (Heq : forall a b, eqb a b = true -> a = b) k (l : list (K * V)) v,
  alookup eqb k l = Some v -> In (k, v) l.
Proof.
  intros K V eqb Heq k l v. induction l as [|[k' v'] l IH]; cbn; [discriminate|].
  destruct (eqb k k') eqn:E.
  - intros [= <-]. left. apply Heq in E. now subst.
  - intros H. right. now apply IH.
Qed.

Definition node_of_key (k : ukey) : node :=
  match k with KLit v p => NLit v p | KDec vt els => NDec vt els end.

Definition ext (m m' : mgr) : Prop :=
  (exists l, nodes m' = nodes m ++ l) /\
  vnodes m' = vnodes m /\ vroot m' = vroot m /\ var2vt m' = var2vt m /\
  posw m' = posw m /\ negw m' = negw m /\ kinds m' = kinds m.

Lemma ext_refl : forall m, ext m m.
Proof. intros m. split; [exists []; now rewrite app_nil_r | repeat split]. Qed.
Lemma ext_trans : forall a b c, ext a b -> ext b c -> ext a c.
Proof.
  intros a b c [[l1 H1] (A1 & A2 & A3 & A4 & A5 & A6)] [[l2 H2] (B1 & B2 & B3 & B4 & B5 & B6)].
  split; [exists (l1 ++ l2); rewrite H2, H1; now rewrite app_assoc | repeat split; congruence].
Qed.

Section Sigma.
  Variable sigma : asg.

  Definition has (m : mgr) (id : N) (x : bool) : Prop := hasL sigma (nodes m) id x.
  Definition valid (m : mgr) (id : N) : Prop := validL (nodes m) id.
  Definition els_has (m : mgr) (els : list elem) (bs : bvals) : Prop := els_hasL sigma (nodes m) els bs.

  Record MInvS (m : mgr) : Prop := {
    inv_arena : arena_ok sigma (nodes m);
    inv_utab : forall k id, In (k, id) (utab m) -> valid m id /\ node_at m id = node_of_key k;
    inv_acache : forall a b o r, In ((a, b, o), r) (acache m) ->
                   exists x y, has m a x /\ has m b y /\ has m r (bop_sem o x y);
    inv_ncache : forall id r, In (id, r) (ncache m) -> exists x, has m id x /\ has m r (negb x)
  }.

  Lemma has_ext : forall m m' id x, has m id x -> ext m m' -> has m' id x.
  Proof. unfold has. intros m m' id x H [[l Hl] _]. rewrite Hl. now apply hasL_app. Qed.
  Lemma els_has_ext : forall m m' els bs, els_has m els bs -> ext m m' -> els_has m' els bs.
  Proof. unfold els_has. intros m m' els bs H [[l Hl] _]. rewrite Hl. now apply els_hasL_app. Qed.
  Lemma valid_ext : forall m m' id, valid m id -> ext m m' -> valid m' id.
  Proof. unfold valid, validL. intros m m' id H [[l Hl] _]. rewrite Hl, app_length. lia. Qed.
  Lemma node_at_ext : forall m m' id, valid m id -> ext m m' -> node_at m' id = node_at m id.
  Proof. unfold valid, validL, node_at. intros m m' id H [[l Hl] _]. rewrite Hl. now apply app_nth1. Qed.
  Lemma has_valid : forall m id x, has m id x -> valid m id.
  Proof. intros m id x [H _]. exact H. Qed.
  Lemma has_fun : forall m id x y, has m id x -> has m id y -> x = y.
  Proof. intros. eapply hasL_fun; eauto. Qed.

  Lemma has0 : forall m, MInvS m -> has m 0 false.
  Proof. intros m H. apply has_false. apply H. Qed.
  Lemma has1 : forall m, MInvS m -> has m 1 true.
  Proof. intros m H. apply has_true. apply H. Qed.

  Lemma has_lit : forall m id v pol, valid m id -> node_at m id = NLit v pol -> has m id (Bool.eqb (sigma v) pol).
  Proof. intros m id v pol Hv Hn. split; [exact Hv|]. eapply val_lit; eauto. Qed.

  Lemma has_dec : forall m id vt els,
    MInvS m -> valid m id -> node_at m id = NDec vt els ->
    exists bs, els_has m els bs /\ part bs /\ has m id (evalE bs).
  Proof.
    intros m id vt els Hi Hv Hn.
    destruct (dec_parts sigma _ _ _ _ (inv_arena _ Hi) Hv Hn) as [bs (H1 & H2 & H3)].
    exists bs. repeat split; auto.
  Qed.

  (* ---- triples ----------------------------------------------------------------------------------- *)
  Definition triple {A} (P : mgr -> Prop) (c : M A) (Q : A -> mgr -> Prop) : Prop :=
    forall m b, MInvS m -> P m ->
      MInvS (fst (fst (c (m, b)))) /\ ext m (fst (fst (c (m, b)))) /\
      forall a, snd (c (m, b)) = Ok a -> Q a (fst (fst (c (m, b)))).

  Definition stable (P : mgr -> Prop) : Prop := forall m m', P m -> ext m m' -> P m'.

  Lemma t_ret : forall {A} (P : mgr -> Prop) (a : A) (Q : A -> mgr -> Prop),
    (forall m, MInvS m -> P m -> Q a m) -> triple P (ret a) Q.
  Proof.
    intros A P a Q H m b Hi Hp. cbn. split; [exact Hi|]. split; [apply ext_refl|].
    intros a' [= <-]. now apply H.
  Qed.

  Lemma t_fail : forall {A} (P : mgr -> Prop) (r : res A) (Q : A -> mgr -> Prop),
    (forall a, r <> Ok a) -> triple P (fail r) Q.
  Proof.
    intros A P r Q H m b Hi Hp. cbn. split; [exact Hi|]. split; [apply ext_refl|].
    intros a Ha. exfalso. eapply H; eauto.
  Qed.

  Lemma t_bind : forall {A B} (P : mgr -> Prop) (c : M A) (Q : A -> mgr -> Prop) (f : A -> M B) (R : B -> mgr -> Prop),
    triple P c Q -> (forall a, triple (Q a) (f a) R) -> triple P (bind c f) R.
  Proof.
    intros A B P c Q f R Hc Hf m b Hi Hp. unfold bind.
    destruct (Hc m b Hi Hp) as (Hi1 & He1 & Hq).
    destruct (c (m, b)) as [[m1 b1] r] eqn:E. cbn [fst snd] in *.
    destruct r as [a| | |]; try (split; [exact Hi1|]; split; [exact He1|]; cbn; intros; discriminate).
    specialize (Hq a eq_refl).
    destruct (Hf a m1 b1 Hi1 Hq) as (Hi2 & He2 & Hr).
    split; [exact Hi2|]. split; [eapply ext_trans; eauto|]. exact Hr.
  Qed.

  Lemma t_conseq : forall {A} (P P' : mgr -> Prop) (c : M A) (Q Q' : A -> mgr -> Prop),
    triple P' c Q' ->
    (forall m, MInvS m -> P m -> P' m) ->
    (forall a m, MInvS m -> Q' a m -> Q a m) ->
    triple P c Q.
  Proof.
    intros A P P' c Q Q' H HP HQ m b Hi Hp.
    destruct (H m b Hi (HP m Hi Hp)) as (Hi1 & He1 & Hq).
    split; [exact Hi1|]. split; [exact He1|]. intros a Ha. apply HQ; auto.
  Qed.

  Lemma t_pre : forall {A} (P P' : mgr -> Prop) (c : M A) (Q : A -> mgr -> Prop),
    triple P' c Q -> (forall m, MInvS m -> P m -> P' m) -> triple P c Q.
  Proof. intros. eapply t_conseq; eauto. Qed.

  Lemma t_post : forall {A} (P : mgr -> Prop) (c : M A) (Q Q' : A -> mgr -> Prop),
    triple P c Q' -> (forall a m, MInvS m -> Q' a m -> Q a m) -> triple P c Q.
  Proof. intros. eapply t_conseq; eauto. Qed.

  Lemma t_frame : forall {A} (P F : mgr -> Prop) (c : M A) (Q : A -> mgr -> Prop),
    triple P c Q -> stable F -> triple (fun m => P m /\ F m) c (fun a m => Q a m /\ F m).
  Proof.
    intros A P F c Q H HF m b Hi [Hp Hf].
    destruct (H m b Hi Hp) as (Hi1 & He1 & Hq).
    split; [exact Hi1|]. split; [exact He1|]. intros a Ha. split; [now apply Hq | eapply HF; eauto].
  Qed.

  (* call a procedure whose precondition follows from the (stable) context, keeping the context *)
  Lemma t_call : forall {A} (P P1 : mgr -> Prop) (c : M A) (Q : A -> mgr -> Prop),
    triple P1 c Q -> stable P -> (forall m, MInvS m -> P m -> P1 m) ->
    triple P c (fun a m => Q a m /\ P m).
  Proof.
    intros A P P1 c Q H HS HP.
    eapply t_pre; [apply (t_frame P1 P c Q H HS)|]. intros m Hi Hp. split; auto.
  Qed.

  (* bind keeping a stable precondition *)
  Lemma t_bindk : forall {A B} (P P1 : mgr -> Prop) (c : M A) (Q : A -> mgr -> Prop) (f : A -> M B) (R : B -> mgr -> Prop),
    triple P1 c Q -> stable P -> (forall m, MInvS m -> P m -> P1 m) ->
    (forall a, triple (fun m => Q a m /\ P m) (f a) R) -> triple P (bind c f) R.
  Proof. intros. eapply t_bind; [eapply t_call; eauto|]. auto. Qed.

  Lemma t_checkpoint : forall (P : mgr -> Prop), triple P checkpoint (fun _ m => P m).
  Proof.
    intros P m b Hi Hp. unfold checkpoint. cbn [fst snd].
    destruct (orc b) as [|[|] t]; cbn; (split; [exact Hi|]; split; [apply ext_refl|]; intros; auto).
  Qed.

  Lemma t_before_alloc : forall (P : mgr -> Prop), triple P before_alloc (fun _ m => P m).
  Proof.
    intros P. unfold before_alloc. eapply t_bind; [apply t_checkpoint|]. intros _ m b Hi Hp.
    destruct (lim (snd (m, b))) as [L|]; [destruct (L <=? node_count (fst (m, b)))|]; cbn;
      (split; [exact Hi|]; split; [apply ext_refl|]; intros; auto; discriminate).
  Qed.

  Lemma t_seq : forall {A B} (P : mgr -> Prop) (c : M A) (d : M B) (R : B -> mgr -> Prop),
    triple P c (fun _ m => P m) -> triple P d R -> triple P (bind c (fun _ => d)) R.
  Proof. intros. eapply t_bind; eauto. Qed.

  (* `m0 <- getm ;; f m0`: the continuation may use that the manager it starts in is m0 *)
  Lemma t_getm : forall {B} (P : mgr -> Prop) (f : mgr -> M B) (R : B -> mgr -> Prop),
    (forall m0, triple (fun m => m = m0 /\ P m) (f m0) R) -> triple P (bind getm f) R.
  Proof.
    intros B P f R H m b Hi Hp. unfold bind, getm. cbn [fst].
    apply (H m m b Hi). split; auto.
  Qed.

  (* fix the initial manager (to compute ghost values from it) *)
  Lemma t_init : forall {A} (P : mgr -> Prop) (c : M A) (Q : A -> mgr -> Prop),
    (forall m0, MInvS m0 -> P m0 -> triple (fun m => m = m0) c Q) -> triple P c Q.
  Proof. intros A P c Q H m b Hi Hp. exact (H m Hi Hp m b Hi eq_refl). Qed.

  Lemma t_modm : forall (P : mgr -> Prop) (f : mgr -> mgr) (Q : unit -> mgr -> Prop),
    (forall m, MInvS m -> P m -> MInvS (f m) /\ ext m (f m) /\ Q tt (f m)) -> triple P (modm f) Q.
  Proof.
    intros P f Q H m b Hi Hp. unfold modm. cbn [fst snd].
    destruct (H m Hi Hp) as (H1 & H2 & H3). split; [exact H1|]. split; [exact H2|].
    intros [] _. exact H3.
  Qed.

  (* loops: ghost list gl runs in parallel with the list being folded *)
  Lemma t_mfoldl : forall {A B G} (f : A -> B -> M A) (Pall : mgr -> Prop) (I : A -> list G -> mgr -> Prop)
      (l : list B) (gl : list G),
    stable Pall ->
    length l = length gl ->
    (forall acc dG x g, In (x, g) (combine l gl) ->
        triple (fun m => I acc dG m /\ Pall m) (f acc x) (fun acc' m => I acc' (dG ++ [g]) m /\ Pall m)) ->
    forall a dG, triple (fun m => I a dG m /\ Pall m) (mfoldl f l a) (fun a' m => I a' (dG ++ gl) m /\ Pall m).
  Proof.
    intros A B G f Pall I l. induction l as [|x l IH]; intros gl HS Hlen Hstep a dG.
    - destruct gl; [|discriminate]. cbn [mfoldl]. apply t_ret. intros m _ H. now rewrite app_nil_r.
    - destruct gl as [|g gl]; [discriminate|]. cbn [mfoldl].
      eapply t_bind.
      + apply Hstep. left. reflexivity.
      + intros a'. eapply t_post.
        * apply (IH gl HS); [cbn in Hlen; lia|]. intros. apply Hstep. right. assumption.
        * intros a'' m _ H. rewrite <- app_assoc in H. exact H.
  Qed.

  (* ---- stability of the usual facts -------------------------------------------------------------- *)
  Lemma stable_true : stable (fun _ => True).
  Proof. intros m m' _ _. exact I. Qed.
  Lemma stable_and : forall P Q, stable P -> stable Q -> stable (fun m => P m /\ Q m).
  Proof. intros P Q HP HQ m m' [H1 H2] He. split; eauto. Qed.
  Lemma stable_has : forall id x, stable (fun m => has m id x).
  Proof. intros id x m m' H He. eapply has_ext; eauto. Qed.
  Lemma stable_els_has : forall els bs, stable (fun m => els_has m els bs).
  Proof. intros els bs m m' H He. eapply els_has_ext; eauto. Qed.
  Lemma stable_const : forall (P : Prop), stable (fun _ => P).
  Proof. intros P m m' H _. exact H. Qed.
  Lemma stable_ex : forall {T} (P : T -> mgr -> Prop), (forall t, stable (P t)) -> stable (fun m => exists t, P t m).
  Proof. intros T P H m m' [t Ht] He. exists t. eapply H; eauto. Qed.
  Lemma stable_forall2 : forall {X Y} (R : X -> Y -> mgr -> Prop) l1 l2,
    (forall x y, stable (R x y)) -> stable (fun m => Forall2 (fun x y => R x y m) l1 l2).
  Proof.
    intros X Y R l1 l2 H m m' HF He. induction HF; constructor; auto. eapply H; eauto.
  Qed.

  (* ---- allocation ---------------------------------------------------------------------------------- *)
  Lemma alloc_inv : forall m k n,
    MInvS m -> n = node_of_key k -> node_okL sigma (nodes m) n ->
    MInvS (alloc_m k n m) /\ ext m (alloc_m k n m) /\ valid (alloc_m k n m) (node_count m) /\
    node_at (alloc_m k n m) (node_count m) = n.
  Proof.
    intros m k n Hi Hn Hok.
    assert (He : ext m (alloc_m k n m)) by (split; [exists [n]; reflexivity | repeat split]).
    assert (Hv : valid (alloc_m k n m) (node_count m)).
    { unfold valid, validL, node_count. cbn. rewrite Nnat.Nat2N.id, app_length. cbn. lia. }
    assert (Hat : node_at (alloc_m k n m) (node_count m) = n).
    { unfold node_at, node_count. cbn. rewrite Nnat.Nat2N.id, app_nth2, Nat.sub_diag by lia. reflexivity. }
    split; [|auto].
    constructor.
    - cbn. apply arena_ok_snoc; [apply Hi | exact Hok].
    - cbn [utab alloc_m]. intros k' id [[= <- <-]|Hin].
      + split; [exact Hv | now rewrite Hat].
      + destruct (inv_utab _ Hi _ _ Hin) as [H1 H2]. split; [eapply valid_ext; eauto|].
        rewrite (node_at_ext m) by auto. exact H2.
    - cbn [acache alloc_m]. intros a b o r Hin. destruct (inv_acache _ Hi _ _ _ _ Hin) as (x & y & H1 & H2 & H3).
      exists x, y. repeat split; eapply has_ext; eauto.
    - cbn [ncache alloc_m]. intros id r Hin. destruct (inv_ncache _ Hi _ _ Hin) as (x & H1 & H2).
      exists x. split; eapply has_ext; eauto.
  Qed.

  Lemma t_alloc : forall (P : mgr -> Prop) k n (Q : N -> mgr -> Prop),
    n = node_of_key k ->
    (forall m, MInvS m -> P m -> node_okL sigma (nodes m) n) ->
    (forall m m' id, MInvS m -> P m -> MInvS m' -> ext m m' -> valid m' id -> node_at m' id = n -> Q id m') ->
    triple P (alloc k n) Q.
  Proof.
    intros P k n Q Hn Hok HQ m b Hi Hp. unfold alloc. cbn [fst snd].
    destruct (alloc_inv m k n Hi Hn (Hok m Hi Hp)) as (H1 & H2 & H3 & H4).
    split; [exact H1|]. split; [exact H2|]. intros a [= <-]. exact (HQ m _ _ Hi Hp H1 H2 H3 H4).
  Qed.
End Sigma.
