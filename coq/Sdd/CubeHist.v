(* History-level wmc theorem with exclusive groups, gradients for both variable kinds, and the reading of the
   gradient as a partial derivative (multilinearity of the truth-table sum). *)
Require Import KV.Sdd.Model KV.Sdd.Sem KV.Sdd.Spec KV.Sdd.Decomp KV.Sdd.History.
Require Import KV.Sdd.SemProofs KV.Sdd.Hoare KV.Sdd.MainProofs KV.Sdd.WmcProofs KV.Sdd.Vtree KV.Sdd.DecompProofs KV.Sdd.DecompHist.
Require Import KV.Sdd.CubeProofs.
Require Import Lia QArith Setoid.

Definition regvars (m : mgr) : list N := nodup N.eq_dec (map fst (var2vt m)).

Lemma lits_in_regvars : forall m, lits_in (map fst (var2vt m)) m = true -> lits_in (regvars m) m = true.
Proof.
  intros m H. unfold lits_in in *. rewrite forallb_forall in *. intros n Hn. specialize (H n Hn).
  destruct n as [| |v p|vt els]; auto. unfold nmem in *. apply existsb_exists in H as [y [Hy E0]].
  apply existsb_exists. exists y. split; [|exact E0]. unfold regvars. now apply nodup_In.
Qed.

(* a variable is harmless for wmc of formula f if it is normalised or belongs to a group of pairwise distinct
   variables whose exactly-one constraint f entails *)
Definition var_ok (pos neg : N -> Q) (f : asg -> bool) (u : N) : Prop :=
  pos u + neg u == 1 \/
  exists G, In u G /\ NoDup G /\ forall s, f s = true -> count_true (map s G) = 1%nat.

Lemma history_wmc_groups : forall fuel ops s outs i sigma0,
  run_from fuel rinit ops = (s, outs) -> run_ok fuel rinit ops = true ->
  (forall u, In u (regvars (rm s)) -> var_ok (pos_of (rm s)) (neg_of (rm s)) (fun sg => feval sg (frm s i)) u) ->
  wmc (rm s) (hnd s i) ==
  wsum (pos_of (rm s)) (neg_of (rm s)) (regvars (rm s)) (fun sg => b2q (feval sg (frm s i))) sigma0.
Proof.
  intros fuel ops s outs i s0 E Hok Hg.
  destruct (history_decomp _ _ _ _ E Hok) as [Hd Hl].
  destruct (history_exact _ _ _ _ E) as [Hi Hden].
  pose proof (runD _ _ _ _ _ HInvD_init Hok E) as HI.
  rewrite (wmc_sum_groups (rm s) (regvars (rm s)) (hnd s i) s0 Hi Hd (NoDup_nodup _ _) (lits_in_regvars _ Hl) (hnd_valid s i HI)).
  - apply E_ext. intros sg. now rewrite Hden.
  - intros u Hu. destruct (Hg u Hu) as [H|[G (A & B & C)]]; [now left | right]. exists G. repeat split; auto.
    intros sg Hsg. apply C. now rewrite <- Hden.
Qed.

(* ---- gradients ------------------------------------------------------------------------------------------------------ *)
Lemma den_set_weights : forall v p n m id s, den (set_weights v p n m) id s = den m id s.
Proof. reflexivity. Qed.

Lemma grad_gen : forall m vs id v sigma0,
  MInv m -> decomp_ok m = true -> NoDup vs -> lits_in vs m = true -> validh m id ->
  let m1 := set_weights v 1 0 m in let m0 := set_weights v 0 1 m in
  (forall u, In u vs -> var_ok (pos_of m1) (neg_of m1) (fun s => den m id s) u) ->
  (kind_of m v = Indep -> forall u, In u vs -> var_ok (pos_of m0) (neg_of m0) (fun s => den m id s) u) ->
  grad_var m id v ==
  match kind_of m v with
  | Indep => wsum (pos_of m1) (neg_of m1) vs (fun s => b2q (den m id s)) sigma0
             - wsum (pos_of m0) (neg_of m0) vs (fun s => b2q (den m id s)) sigma0
  | Excl _ => wsum (pos_of m1) (neg_of m1) vs (fun s => b2q (den m id s)) sigma0
  end.
Proof.
  intros m vs id v s0 Hi Hd Hvs Hl Hv m1 m0 H1 H0. unfold grad_var.
  assert (W1 : wmc m1 id == wsum (pos_of m1) (neg_of m1) vs (fun s => b2q (den m id s)) s0).
  { apply (wmc_sum_groups m1 vs id s0); try assumption. apply MInv_set_weights; assumption. }
  fold m1 m0. destruct (kind_of m v) as [|g].
  - assert (W0 : wmc m0 id == wsum (pos_of m0) (neg_of m0) vs (fun s => b2q (den m id s)) s0).
    { apply (wmc_sum_groups m0 vs id s0); try assumption; [apply MInv_set_weights; assumption | apply H0; reflexivity]. }
    now rewrite W1, W0.
  - exact W1.
Qed.

(* ---- the truth-table sum is linear in the weight pair of each variable ---------------------------------------------- *)
Definition fupd (w : N -> Q) (v : N) (x : Q) : N -> Q := fun u => if u =? v then x else w u.

Lemma fupd_same : forall w v x, fupd w v x v = x.
Proof. intros. unfold fupd. now rewrite N.eqb_refl. Qed.
Lemma fupd_other : forall w v x u, u <> v -> fupd w v x u = w u.
Proof. intros w v x u H. unfold fupd. apply N.eqb_neq in H. now rewrite H. Qed.

Lemma wsum_weights_ext : forall pos neg pos' neg' vs f s,
  (forall u, In u vs -> pos u == pos' u /\ neg u == neg' u) -> wsum pos neg vs f s == wsum pos' neg' vs f s.
Proof.
  intros pos neg pos' neg' vs. induction vs as [|u vs IH]; intros f s H; cbn [wsum]; [reflexivity|].
  destruct (H u (or_introl eq_refl)) as [A B]. rewrite A, B.
  rewrite !(IH f) by (intros x Hx; apply H; now right). reflexivity.
Qed.

Lemma wsum_linear : forall pos neg vs v f s, NoDup vs -> In v vs ->
  wsum pos neg vs f s ==
  pos v * wsum (fupd pos v 1) (fupd neg v 0) vs f s + neg v * wsum (fupd pos v 0) (fupd neg v 1) vs f s.
Proof.
  intros pos neg vs v. induction vs as [|u vs IH]; intros f s Hn Hin; [destruct Hin|].
  inversion Hn as [|? ? Hu Hn']; subst. cbn [wsum]. destruct (N.eq_dec u v) as [->|Hne].
  - rewrite !fupd_same.
    assert (G : forall x y t, wsum (fupd pos v x) (fupd neg v y) vs f t == wsum pos neg vs f t).
    { intros x y t. apply wsum_weights_ext. intros w Hw. unfold fupd.
      destruct (w =? v) eqn:E0; [apply N.eqb_eq in E0; subst; contradiction | split; reflexivity]. }
    rewrite !G. ring.
  - destruct Hin as [->|Hin]; [contradiction|].
    rewrite !(fupd_other _ v _ u Hne).
    rewrite (IH f (fun x => if x =? u then true else s x) Hn' Hin), (IH f (fun x => if x =? u then false else s x) Hn' Hin). ring.
Qed.

Lemma var_ok_ext : forall pos neg f g u, (forall s, f s = g s) -> var_ok pos neg f u -> var_ok pos neg g u.
Proof.
  intros pos neg f g u H [A|[G (A & B & C)]]; [now left | right]. exists G. repeat split; auto.
  intros s Hs. apply C. now rewrite H.
Qed.

Lemma history_grad : forall fuel ops s outs i v sigma0,
  run_from fuel rinit ops = (s, outs) -> run_ok fuel rinit ops = true ->
  let m := rm s in let m1 := set_weights v 1 0 m in let m0 := set_weights v 0 1 m in
  let f := fun sg => feval sg (frm s i) in
  (forall u, In u (regvars m) -> var_ok (pos_of m1) (neg_of m1) f u) ->
  (kind_of m v = Indep -> forall u, In u (regvars m) -> var_ok (pos_of m0) (neg_of m0) f u) ->
  grad_var m (hnd s i) v ==
  match kind_of m v with
  | Indep => wsum (pos_of m1) (neg_of m1) (regvars m) (fun sg => b2q (f sg)) sigma0
             - wsum (pos_of m0) (neg_of m0) (regvars m) (fun sg => b2q (f sg)) sigma0
  | Excl _ => wsum (pos_of m1) (neg_of m1) (regvars m) (fun sg => b2q (f sg)) sigma0
  end.
Proof.
  intros fuel ops s outs i v s0 E Hok m m1 m0 f H1 H0.
  destruct (history_decomp _ _ _ _ E Hok) as [Hd Hl].
  destruct (history_exact _ _ _ _ E) as [Hi Hden].
  pose proof (runD _ _ _ _ _ HInvD_init Hok E) as HI.
  assert (Hf : forall sg, f sg = den m (hnd s i) sg) by (intros sg; unfold f, m; now rewrite Hden).
  rewrite (grad_gen m (regvars m) (hnd s i) v s0 Hi Hd (NoDup_nodup _ _) (lits_in_regvars _ Hl) (hnd_valid s i HI)).
  - destruct (kind_of m v); [|apply E_ext; intros sg; now rewrite Hf].
    rewrite (E_ext (pos_of (set_weights v 1 0 m)) _ _ _ (fun sg => b2q (f sg))) by (intros sg; now rewrite Hf).
    rewrite (E_ext (pos_of (set_weights v 0 1 m)) _ _ _ (fun sg => b2q (f sg))) by (intros sg; now rewrite Hf).
    reflexivity.
  - intros u Hu. eapply var_ok_ext; [exact Hf | apply H1; exact Hu].
  - intros Hk u Hu. eapply var_ok_ext; [exact Hf | apply H0; assumption].
Qed.
