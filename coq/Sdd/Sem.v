(* Denotation of the nodes of a manager: `den m id sigma`.
   The arena is evaluated bottom-up; a Decision node reads the values of earlier nodes, so the value
   of node i only depends on nodes 0..i (append-only growth never changes an existing denotation). *)
Require Export KV.Sdd.Model.

Definition asg := N -> bool.

Definition eval_els (vals : list bool) (els : list elem) : bool :=
  existsb (fun e => nth (N.to_nat (fst e)) vals false && nth (N.to_nat (snd e)) vals false) els.

Definition eval_node (sigma : asg) (vals : list bool) (n : node) : bool :=
  match n with
  | NFalse => false
  | NTrue => true
  | NLit v pol => Bool.eqb (sigma v) pol
  | NDec _ els => eval_els vals els
  end.

Definition eval_arena (sigma : asg) (l : list node) : list bool :=
  fold_left (fun vals n => vals ++ [eval_node sigma vals n]) l [].

Definition den (m : mgr) (id : N) (sigma : asg) : bool :=
  nth (N.to_nat id) (eval_arena sigma (nodes m)) false.

Definition bop_sem (o : bop) (x y : bool) : bool := match o with And => x && y | Or => x || y end.
