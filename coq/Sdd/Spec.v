(* Specification: plain Boolean functions.  A formula is what the user asked the manager to build;
   its meaning is `feval`; a truth table over variables 0..nv-1 is a bit mask (bit k = value under
   the assignment sigma_k with sigma_k v = bit v of k). *)
Require Export KV.Sdd.Sem.

Inductive form :=
| FFalse | FTrue
| FLit (v : N) (pol : bool)
| FAnd (a b : form) | FOr (a b : form) | FNot (a : form)
| FExactlyOne (vs : list N).

Definition count_true (l : list bool) : nat := length (filter (fun b => b) l).

Fixpoint feval (sigma : asg) (f : form) : bool :=
  match f with
  | FFalse => false
  | FTrue => true
  | FLit v pol => Bool.eqb (sigma v) pol
  | FAnd a b => feval sigma a && feval sigma b
  | FOr a b => feval sigma a || feval sigma b
  | FNot a => negb (feval sigma a)
  | FExactlyOne vs => Nat.eqb (count_true (map sigma vs)) 1
  end.

Definition sigma_of (k : N) : asg := fun v => N.testbit k v.

(* all assignment indices 0 .. 2^nv - 1 *)
Definition indices (nv : N) : list N := map N.of_nat (seq 0 (N.to_nat (2 ^ nv))).

Definition table_of (nv : N) (f : asg -> bool) : N :=
  fold_left (fun acc k => if f (sigma_of k) then N.lor acc (N.shiftl 1 k) else acc) (indices nv) 0.

(* weight of an assignment and the truth-table weighted sum (the specification of wmc) *)
Definition weight (pos neg : N -> Q) (vars : list N) (sigma : asg) : Q :=
  fold_left (fun acc v => (acc * (if sigma v then pos v else neg v))%Q) vars 1%Q.

(* expectation over the variables `vars`, one variable at a time *)
Fixpoint wsum (pos neg : N -> Q) (vars : list N) (f : asg -> Q) (sigma : asg) : Q :=
  match vars with
  | [] => f sigma
  | v :: vs =>
      (pos v * wsum pos neg vs f (fun x => if x =? v then true else sigma x)
       + neg v * wsum pos neg vs f (fun x => if x =? v then false else sigma x))%Q
  end.
Definition b2q (b : bool) : Q := if b then 1%Q else 0%Q.
