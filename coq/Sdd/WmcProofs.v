(* wmc = truth-table weighted sum, for decomposable arenas and normalised weights. *)
Require Import KV.Sdd.Model KV.Sdd.Sem KV.Sdd.Spec KV.Sdd.Decomp KV.Sdd.SemProofs KV.Sdd.Hoare KV.Sdd.MainProofs.
Require Import Lia QArith Setoid.

(* ---- generic bottom-up tables ------------------------------------------------------------------- *)
Section BTable.
  Variable T : Type.
  Variable F : list T -> node -> T.
  Variable d : T.
  Definition btab (l : list node) : list T := fold_left (fun tab n => tab ++ [F tab n]) l [].

  Lemma btab_snoc : forall l n, btab (l ++ [n]) = btab l ++ [F (btab l) n].
  Proof. intros. unfold btab. now rewrite fold_left_app. Qed.
  Lemma btab_length : forall l, length (btab l) = length l.
  Proof.
    intros l. induction l as [|n l IH] using rev_ind; [reflexivity|].
    rewrite btab_snoc, !app_length, IH. reflexivity.
  Qed.
  Lemma btab_nth_snoc : forall l n i, (i < length l)%nat -> nth i (btab (l ++ [n])) d = nth i (btab l) d.
  Proof. intros. rewrite btab_snoc. apply app_nth1. now rewrite btab_length. Qed.
  Lemma btab_nth_last : forall l n, nth (length l) (btab (l ++ [n])) d = F (btab l) n.
  Proof. intros. rewrite btab_snoc. rewrite app_nth2; rewrite btab_length; [|lia]. now rewrite Nat.sub_diag. Qed.
End BTable.

Lemma vars_tab_eq : forall l, vars_tab l = btab (list N) vars_node l.
Proof. reflexivity. Qed.

Lemma decomp_tab_fst : forall l, fst (decomp_tab l) = vars_tab l.
Proof.
  intros l. induction l as [|n l IH] using rev_ind; [reflexivity|].
  unfold decomp_tab, vars_tab in *. rewrite !fold_left_app. cbn [fold_left fst]. now rewrite IH.
Qed.
Lemma decomp_tab_snoc : forall l n,
  snd (decomp_tab (l ++ [n])) = snd (decomp_tab l) && decomp_node (vars_tab l) n.
Proof.
  intros l n. unfold decomp_tab. rewrite fold_left_app. cbn [fold_left snd].
  fold (decomp_tab l). now rewrite decomp_tab_fst.
Qed.

(* ---- expectation --------------------------------------------------------------------------------- *)
Section Expect.
  Variables pos neg : N -> Q.
  Notation E := (wsum pos neg).

  Definition dep_only (f : asg -> Q) (A : list N) : Prop :=
    forall s s', (forall x, In x A -> s x = s' x) -> f s = f s'.
  Definition normP (vs : list N) : Prop := forall v, In v vs -> pos v + neg v == 1.

  Lemma E_agree : forall vs f A s s',
    dep_only f A -> (forall x, In x A -> s x = s' x) -> E vs f s = E vs f s'.
  Proof.
    induction vs as [|v vs IH]; intros f A s s' Hd Hs; cbn [wsum]; [now apply Hd|].
    f_equal; f_equal; apply (IH f A); auto; intros x Hx; destruct (x =? v); auto.
  Qed.

  Lemma E_ext : forall vs f g s, (forall s', f s' == g s') -> E vs f s == E vs g s.
  Proof.
    induction vs as [|v vs IH]; intros f g s H; cbn [wsum]; [apply H|].
    rewrite (IH f g _ H), (IH f g (fun x => if x =? v then false else s x) H). reflexivity.
  Qed.

  Lemma E_const : forall vs f c s, normP vs -> (forall s', f s' == c) -> E vs f s == c.
  Proof.
    induction vs as [|v vs IH]; intros f c s Hn H; cbn [wsum]; [apply H|].
    assert (Hn' : normP vs) by (intros x Hx; apply Hn; now right).
    rewrite (IH f c _ Hn' H), (IH f c (fun x => if x =? v then false else s x) Hn' H).
    rewrite <- Qmult_plus_distr_l, (Hn v (or_introl eq_refl)). ring.
  Qed.

  Lemma E_plus : forall vs f g s, E vs (fun t => f t + g t) s == E vs f s + E vs g s.
  Proof.
    induction vs as [|v vs IH]; intros f g s; cbn [wsum]; [reflexivity|].
    rewrite !IH. ring.
  Qed.

  Lemma E_notin : forall vs f A s, normP vs -> dep_only f A -> (forall x, In x A -> ~ In x vs) -> E vs f s == f s.
  Proof.
    induction vs as [|v vs IH]; intros f A s Hn Hd Hni; cbn [wsum]; [reflexivity|].
    assert (Hn' : normP vs) by (intros x Hx; apply Hn; now right).
    assert (Hni' : forall x, In x A -> ~ In x vs) by (intros x Hx Hc; apply (Hni x Hx); now right).
    rewrite !(IH f A) by assumption.
    assert (H1 : forall b, f (fun x => if x =? v then b else s x) = f s).
    { intros b. apply Hd. intros x Hx. destruct (x =? v) eqn:E; [|reflexivity].
      apply N.eqb_eq in E. subst x. exfalso. apply (Hni v Hx). now left. }
    rewrite !H1. rewrite <- Qmult_plus_distr_l, (Hn v (or_introl eq_refl)). ring.
  Qed.

  Lemma E_indep : forall vs f g A B s,
    normP vs -> dep_only f A -> dep_only g B -> (forall x, In x A -> ~ In x B) ->
    E vs (fun t => f t * g t) s == E vs f s * E vs g s.
  Proof.
    induction vs as [|v vs IH]; intros f g A B s Hn Hf Hg Hdis; cbn [wsum]; [reflexivity|].
    assert (Hn' : normP vs) by (intros x Hx; apply Hn; now right).
    rewrite !(IH f g A B) by assumption.
    set (sT := fun x => if x =? v then true else s x). set (sF := fun x => if x =? v then false else s x).
    pose proof (Hn v (or_introl eq_refl)) as Hv.
    destruct (in_dec N.eq_dec v A) as [HA|HA].
    - assert (HB : ~ In v B) by (apply Hdis; assumption).
      assert (G : E vs g sT = E vs g sF).
      { apply (E_agree vs g B); [assumption|]. intros x Hx. unfold sT, sF. destruct (x =? v) eqn:E0; [|reflexivity].
        apply N.eqb_eq in E0. subst x. contradiction. }
      rewrite G.
      transitivity ((pos v * E vs f sT + neg v * E vs f sF) * ((pos v + neg v) * E vs g sF)); [rewrite Hv; ring | ring].
    - assert (G : E vs f sT = E vs f sF).
      { apply (E_agree vs f A); [assumption|]. intros x Hx. unfold sT, sF. destruct (x =? v) eqn:E0; [|reflexivity].
        apply N.eqb_eq in E0. subst x. contradiction. }
      rewrite G.
      transitivity (((pos v + neg v) * E vs f sF) * (pos v * E vs g sT + neg v * E vs g sF)); [rewrite Hv; ring | ring].
  Qed.

  Lemma E_lit : forall vs v pol s, normP vs -> In v vs ->
    E vs (fun t => b2q (Bool.eqb (t v) pol)) s == if pol then pos v else neg v.
  Proof.
    induction vs as [|u vs IH]; intros v pol s Hn Hin; [destruct Hin|]. cbn [wsum].
    assert (Hn' : normP vs) by (intros x Hx; apply Hn; now right).
    pose proof (Hn u (or_introl eq_refl)) as Hu.
    destruct (in_dec N.eq_dec v vs) as [Hv|Hv].
    - rewrite !(IH v pol) by assumption. rewrite <- Qmult_plus_distr_l, Hu. ring.
    - destruct Hin as [->|Hin]; [|contradiction].
      assert (Hd : dep_only (fun t => b2q (Bool.eqb (t v) pol)) [v]).
      { intros a b H. now rewrite (H v (or_introl eq_refl)). }
      rewrite !(E_notin vs _ [v]); try assumption;
        try (intros x [<-|[]]; assumption).
      rewrite N.eqb_refl. destruct pol; cbn; ring.
  Qed.
End Expect.

(* ---- the arena ------------------------------------------------------------------------------------- *)
Section Arena.
  Variable m : mgr.
  Variable vs : list N.
  Notation pos := (pos_of m).
  Notation neg := (neg_of m).
  Notation E := (wsum pos neg).
  Hypothesis Hnorm : normP pos neg vs.

  Definition wtab (l : list node) : list Q := btab Q (wmc_node m) l.
  Definition arena_ok2 (l : list node) : Prop :=
    forall sigma k, (k < length l)%nat -> node_okL sigma (firstn k l) (nth k l NFalse).
  Definition lits_inL (l : list node) : Prop := forall k v pol, nth k l NFalse = NLit v pol -> (k < length l)%nat -> In v vs.
  Definition denL (l : list node) (i : nat) (sigma : asg) : bool := nth i (eval_arena sigma l) false.

  Lemma denL_snoc : forall l n i sigma, (i < length l)%nat -> denL (l ++ [n]) i sigma = denL l i sigma.
  Proof. intros. unfold denL. now apply eval_arena_nth_app. Qed.
  Lemma denL_last : forall l n sigma, denL (l ++ [n]) (length l) sigma = eval_node sigma (eval_arena sigma l) n.
  Proof.
    intros. unfold denL. rewrite eval_arena_snoc. rewrite app_nth2; rewrite eval_arena_length; [|lia].
    now rewrite Nat.sub_diag.
  Qed.

  Lemma arena_ok2_snoc_inv : forall l n, arena_ok2 (l ++ [n]) -> arena_ok2 l /\ forall sigma, node_okL sigma l n.
  Proof.
    intros l n H. split.
    - intros sigma k Hk. specialize (H sigma k). rewrite app_length in H. cbn in H.
      rewrite firstn_app in H. replace (k - length l)%nat with 0%nat in H by lia. cbn [firstn] in H.
      rewrite app_nil_r, app_nth1 in H by lia. apply H. lia.
    - intros sigma. specialize (H sigma (length l)). rewrite app_length in H. cbn in H.
      rewrite firstn_app, firstn_all, Nat.sub_diag, app_nil_r in H. cbn [firstn] in H.
      rewrite app_nth2, Nat.sub_diag in H by lia. apply H. lia.
  Qed.

  Definition claim (l : list node) (i : nat) : Prop :=
    (forall s s', (forall x, In x (nth i (vars_tab l) []) -> s x = s' x) -> denL l i s = denL l i s') /\
    incl (nth i (vars_tab l) []) vs /\
    forall s0, nth i (wtab l) 0 == E vs (fun s => b2q (denL l i s)) s0.

  (* sum over the elements of a Decision node *)
  Lemma sum_els : forall (els : list elem) (P S : N -> asg -> bool) tab,
    (forall e, In e els -> forall s0, nth (N.to_nat (fst e)) tab 0 == E vs (fun s => b2q (P (fst e) s)) s0) ->
    (forall e, In e els -> forall s0, nth (N.to_nat (snd e)) tab 0 == E vs (fun s => b2q (S (snd e) s)) s0) ->
    (forall e, In e els -> exists A B, dep_only (fun s => b2q (P (fst e) s)) A /\ dep_only (fun s => b2q (S (snd e) s)) B /\
                                       forall x, In x A -> ~ In x B) ->
    forall acc (facc : asg -> Q) s0,
      (forall s0, acc == E vs facc s0) ->
      fold_left (fun a e => a + nth (N.to_nat (fst e)) tab 0 * nth (N.to_nat (snd e)) tab 0) els acc ==
      E vs (fun s => fold_left (fun a e => a + b2q (P (fst e) s) * b2q (S (snd e) s)) els (facc s)) s0.
  Proof.
    induction els as [|e els IH]; intros P S tab HP HS HD acc facc s0 Hacc; cbn [fold_left]; [apply Hacc|].
    apply (IH P S tab).
    - intros; apply HP; now right.
    - intros; apply HS; now right.
    - intros; apply HD; now right.
    - intros s1. rewrite E_plus. rewrite <- (Hacc s1).
      destruct (HD e (or_introl eq_refl)) as (A & B & HA & HB & Hdis).
      rewrite (E_indep pos neg vs _ _ A B) by assumption.
      rewrite <- (HP e (or_introl eq_refl) s1), <- (HS e (or_introl eq_refl) s1). reflexivity.
  Qed.

  (* when at most one prime holds, the value of the node is the sum of the element products *)
  Lemma b2q_exists : forall (bs : bvals) , (cnt bs <= 1)%nat ->
    b2q (evalE bs) == fold_left (fun a b => a + b2q (fst b) * b2q (snd b)) bs 0.
  Proof.
    assert (G : forall bs acc, fold_left (fun a b => a + b2q (fst b) * b2q (snd b)) bs acc ==
                               acc + fold_left (fun a (b : bool * bool) => a + b2q (fst b) * b2q (snd b)) bs 0).
    { induction bs as [|b bs IH]; intros acc; cbn [fold_left]; [ring|]. rewrite IH, (IH (0 + _)). ring. }
    assert (Z : forall bs, cnt bs = 0%nat -> fold_left (fun a (b : bool * bool) => a + b2q (fst b) * b2q (snd b)) bs 0 == 0 /\ evalE bs = false).
    { induction bs as [|[x y] bs IH]; intros H; [split; reflexivity|].
      rewrite cnt_cons in H. destruct x; [lia|]. cbn [fold_left fst snd]. rewrite G.
      destruct (IH H) as [I1 I2]. rewrite I1. split; [cbn; ring|]. unfold evalE in *. cbn. exact I2. }
    induction bs as [|[x y] bs IH]; intros H; [reflexivity|].
    rewrite cnt_cons in H. cbn [fold_left fst snd]. rewrite G. destruct x.
    - destruct (Z bs ltac:(lia)) as [Z1 Z2]. rewrite Z1. unfold evalE in *. cbn [existsb fst snd]. rewrite Z2.
      destruct y; cbn; ring.
    - rewrite <- IH by lia. unfold evalE. cbn. ring.
  Qed.

  Lemma fold_map_els : forall (els : list elem) (f : elem -> Q) acc,
    fold_left (fun a e => a + f e) els acc = fold_left (fun a q => a + q) (map f els) acc.
  Proof. induction els as [|e els IH]; intros; cbn; [reflexivity | apply IH]. Qed.

  Lemma prefix_claim : forall l,
    arena_ok2 l -> snd (decomp_tab l) = true -> lits_inL l ->
    forall i, (i < length l)%nat -> claim l i.
  Proof.
    induction l as [|n l IH] using rev_ind; intros Hok Hdec Hlit i Hi; [cbn in Hi; lia|].
    destruct (arena_ok2_snoc_inv _ _ Hok) as [Hok' Hn].
    rewrite decomp_tab_snoc in Hdec. apply andb_prop in Hdec as [Hdec' Hdn].
    assert (Hlit' : lits_inL l).
    { intros k v pol Hk Hlt. apply (Hlit k v pol); [rewrite app_nth1 by lia; exact Hk | rewrite app_length; lia]. }
    specialize (IH Hok' Hdec' Hlit').
    rewrite app_length in Hi. cbn in Hi.
    destruct (Nat.eq_dec i (length l)) as [->|Hne].
    2:{ assert (Hlt : (i < length l)%nat) by lia. destruct (IH i Hlt) as (C1 & C2 & C3).
        unfold claim, wtab. rewrite !vars_tab_eq.
        rewrite (btab_nth_snoc _ vars_node []) by assumption. rewrite (btab_nth_snoc _ (wmc_node m) 0) by assumption.
        split; [|split].
        - intros s s' H. rewrite !denL_snoc by assumption. apply C1. exact H.
        - exact C2.
        - intros s0. rewrite (C3 s0). apply E_ext. intros s'. now rewrite denL_snoc. }
    unfold claim, wtab. rewrite !vars_tab_eq.
    rewrite (btab_nth_last _ vars_node []), (btab_nth_last _ (wmc_node m) 0).
    rewrite <- !vars_tab_eq. fold (wtab l).
    destruct n as [| |v pol|vt els].
    - (* FALSE *) split; [|split].
      + intros s s' _. now rewrite !denL_last.
      + intros x [].
      + intros s0. cbn [wmc_node]. symmetry. apply E_const; [assumption|]. intros s'. now rewrite denL_last.
    - split; [|split].
      + intros s s' _. now rewrite !denL_last.
      + intros x [].
      + intros s0. cbn [wmc_node]. symmetry. apply E_const; [assumption|]. intros s'. now rewrite denL_last.
    - (* literal *)
      assert (Hv : In v vs).
      { apply (Hlit (length l) v pol); [rewrite app_nth2, Nat.sub_diag by lia; reflexivity | rewrite app_length; cbn; lia]. }
      split; [|split].
      + intros s s' H. rewrite !denL_last. cbn [eval_node]. now rewrite (H v (or_introl eq_refl)).
      + intros x [<-|[]]. exact Hv.
      + intros s0. cbn [wmc_node].
        rewrite (E_ext pos neg vs _ (fun t => b2q (Bool.eqb (t v) pol))) by (intros s'; now rewrite denL_last).
        symmetry. apply E_lit; assumption.
    - (* decision *)
      assert (Hval : forall e, In e els -> (N.to_nat (fst e) < length l)%nat /\ (N.to_nat (snd e) < length l)%nat).
      { intros e He. destruct (Hn (fun _ => false)) as [bs [Hh _]]. clear - Hh He.
        induction Hh as [|e' b els bs [[H1 _] [H2 _]] Hh IH]; [destruct He|].
        destruct He as [<-|He]; [split; assumption | now apply IH]. }
      assert (Hden : forall s, denL (l ++ [NDec vt els]) (length l) s =
                               existsb (fun e => denL l (N.to_nat (fst e)) s && denL l (N.to_nat (snd e)) s) els).
      { intros s. rewrite denL_last. reflexivity. }
      split; [|split].
      + intros s s' H. rewrite !Hden. cbn [vars_node] in H.
        clear - H Hval IH. induction els as [|e els IHe]; [reflexivity|]. cbn [existsb].
        destruct (Hval e (or_introl eq_refl)) as [V1 V2].
        destruct (IH _ V1) as (D1 & _ & _). destruct (IH _ V2) as (D2 & _ & _).
        cbn [flat_map] in H.
        rewrite (D1 s s'), (D2 s s'), IHe; auto.
        * intros; apply Hval; now right.
        * intros x Hx. apply H. apply in_or_app. now right.
        * intros x Hx. apply H. apply in_or_app. left. apply in_or_app. now right.
        * intros x Hx. apply H. apply in_or_app. left. apply in_or_app. now left.
      + cbn [vars_node]. intros x Hx. apply in_flat_map in Hx as [e [He Hx]].
        destruct (Hval e He) as [V1 V2]. destruct (IH _ V1) as (_ & I1 & _). destruct (IH _ V2) as (_ & I2 & _).
        apply in_app_or in Hx as [Hx|Hx]; auto.
      + intros s0. cbn [wmc_node].
        transitivity (E vs (fun s => fold_left (fun a e => a + b2q (denL l (N.to_nat (fst e)) s) * b2q (denL l (N.to_nat (snd e)) s)) els 0) s0).
        2:{ apply E_ext. intros s'. rewrite Hden.
          (* pointwise: value = sum of element products, by disjointness of the primes *)
          destruct (Hn s') as [bs [Hh Hp]].
          assert (Hb : bs = map (fun e => (denL l (N.to_nat (fst e)) s', denL l (N.to_nat (snd e)) s')) els).
          { clear - Hh. induction Hh as [|e [x y] els bs [[_ H1] [_ H2]] Hh IH]; [reflexivity|].
            cbn [map]. rewrite <- IH. unfold val in H1, H2. cbn [fst snd] in *. unfold denL. now rewrite H1, H2. }
          transitivity (b2q (evalE bs)).
          { rewrite (b2q_exists bs) by (unfold part in Hp; lia). rewrite Hb. clear.
            generalize 0. induction els as [|e els IHe]; intros acc; cbn [fold_left map]; [reflexivity|].
            cbn [fst snd]. apply IHe. }
          { rewrite Hb. unfold evalE.
            assert (Hx : forall (g : elem -> bool * bool) (es : list elem),
                      existsb (fun b : bool * bool => fst b && snd b) (map g es) = existsb (fun e => fst (g e) && snd (g e)) es).
            { intros g es. induction es as [|e es IHe]; [reflexivity|]. cbn [map existsb]. now rewrite IHe. }
            rewrite Hx. reflexivity. } }
        apply (sum_els els (fun p s => denL l (N.to_nat p) s) (fun q s => denL l (N.to_nat q) s) (wtab l)) with (facc := fun _ => 0).
        * intros e He s1. destruct (Hval e He) as [V1 _]. apply (IH _ V1).
        * intros e He s1. destruct (Hval e He) as [_ V2]. apply (IH _ V2).
        * intros e He. destruct (Hval e He) as [V1 V2].
          destruct (IH _ V1) as (D1 & _ & _). destruct (IH _ V2) as (D2 & _ & _).
          exists (nth (N.to_nat (fst e)) (vars_tab l) []), (nth (N.to_nat (snd e)) (vars_tab l) []).
          split; [intros s s' H; now rewrite (D1 s s' H)|]. split; [intros s s' H; now rewrite (D2 s s' H)|].
          cbn [decomp_node] in Hdn. rewrite forallb_forall in Hdn. specialize (Hdn e He).
          unfold disjointb in Hdn. rewrite forallb_forall in Hdn. intros x Hx Hc. specialize (Hdn x Hx).
          apply negb_true_iff in Hdn. unfold nmem in Hdn.
          assert (existsb (N.eqb x) (nth (N.to_nat (snd e)) (vars_tab l) []) = true).
          { apply existsb_exists. exists x. split; [assumption | apply N.eqb_refl]. }
          congruence.
        * intros s1. symmetry. apply E_const; [assumption | reflexivity].
  Qed.
End Arena.

Lemma wmc_sum : forall m vs id sigma0,
  MInv m -> decomp_ok m = true -> lits_in vs m = true -> normalised vs m = true ->
  validh m id ->
  wmc m id == wsum (pos_of m) (neg_of m) vs (fun s => b2q (den m id s)) sigma0.
Proof.
  intros m vs id s0 Hi Hd Hl Hn Hv.
  assert (Hnorm : normP (pos_of m) (neg_of m) vs).
  { intros v Hin. unfold normalised in Hn. rewrite forallb_forall in Hn. apply Qeq_bool_iff. now apply Hn. }
  assert (Hok : arena_ok2 (nodes m)) by (intros sigma k Hk; apply (inv_arena _ _ (Hi sigma)); assumption).
  assert (Hlit : lits_inL vs (nodes m)).
  { intros k v pol Hk Hlt. unfold lits_in in Hl. rewrite forallb_forall in Hl.
    specialize (Hl (nth k (nodes m) NFalse) (nth_In _ _ Hlt)). rewrite Hk in Hl.
    unfold nmem in Hl. apply existsb_exists in Hl as [x [Hx Hxe]]. apply N.eqb_eq in Hxe. now subst. }
  destruct (prefix_claim m vs Hnorm (nodes m) Hok Hd Hlit (N.to_nat id) Hv) as (_ & _ & H).
  exact (H s0).
Qed.

(* ---- gradient (Independent variables) -------------------------------------------------------------- *)
Lemma MInv_set_weights : forall v p n m, MInv m -> MInv (set_weights v p n m).
Proof.
  intros v p n m Hi sigma. specialize (Hi sigma). constructor; cbn; apply Hi.
Qed.

Lemma grad_indep : forall m vs id v sigma0,
  MInv m -> decomp_ok m = true -> lits_in vs m = true -> validh m id ->
  kind_of m v = Indep ->
  normalised vs (set_weights v 1 0 m) = true -> normalised vs (set_weights v 0 1 m) = true ->
  grad_var m id v ==
    wsum (pos_of (set_weights v 1 0 m)) (neg_of (set_weights v 1 0 m)) vs (fun s => b2q (den m id s)) sigma0
  - wsum (pos_of (set_weights v 0 1 m)) (neg_of (set_weights v 0 1 m)) vs (fun s => b2q (den m id s)) sigma0.
Proof.
  intros m vs id v s0 Hi Hd Hl Hv Hk N1 N0. unfold grad_var. rewrite Hk.
  rewrite (wmc_sum (set_weights v 1 0 m) vs id s0); try assumption; try (apply MInv_set_weights; assumption).
  rewrite (wmc_sum (set_weights v 0 1 m) vs id s0); try assumption; try (apply MInv_set_weights; assumption).
  reflexivity.
Qed.
