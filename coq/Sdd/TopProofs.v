(* Fuel induction for apply/negate, exactly_one, and the assignment-independent statements. *)
Require Import KV.Sdd.Model KV.Sdd.Sem KV.Sdd.Spec KV.Sdd.SemProofs KV.Sdd.Hoare KV.Sdd.OpsProofs.
Require Import Lia Permutation.

Section Sigma.
  Variable sigma : asg.
  Notation has := (has sigma).
  Notation MInvS := (MInvS sigma).
  Notation triple := (triple sigma).

  Lemma fuel_ok : forall fuel,
    (forall a b o x y, triple (fun m => has m a x /\ has m b y) (apply_f fuel a b o) (fun r m => has m r (bop_sem o x y))) /\
    (forall id x, triple (fun m => has m id x) (negate_f fuel id) (fun r m => has m r (negb x))).
  Proof.
    induction fuel as [|f [IHa IHn]].
    - split; intros; cbn [apply_f negate_f]; apply t_fail; intros; discriminate.
    - split; intros; cbn [apply_f negate_f].
      + apply apply_body_ok; assumption.
      + apply negate_body_ok; assumption.
  Qed.

  Lemma apply_f_ok : forall fuel a b o x y,
    triple (fun m => has m a x /\ has m b y) (apply_f fuel a b o) (fun r m => has m r (bop_sem o x y)).
  Proof. intros fuel. apply (fuel_ok fuel). Qed.
  Lemma negate_f_ok : forall fuel id x,
    triple (fun m => has m id x) (negate_f fuel id) (fun r m => has m r (negb x)).
  Proof. intros fuel. apply (fuel_ok fuel). Qed.

  (* ---- exactly_one ------------------------------------------------------------------------------- *)
  Definition eo_sem (vars : list N) : bool := Nat.eqb (count_true (map sigma vars)) 1.
  Definition none_sem (vars : list N) : bool := forallb (fun r => negb (sigma r)) vars.

  Lemma none_sem_count : forall vars, none_sem vars = Nat.eqb (count_true (map sigma vars)) 0.
  Proof.
    induction vars as [|v vars IH]; [reflexivity|]. unfold none_sem in *. cbn [forallb map].
    unfold count_true in *. cbn [filter]. destruct (sigma v); cbn; [reflexivity | exact IH].
  Qed.
  Lemma eo_sem_cons : forall v vars,
    eo_sem (v :: vars) = (Bool.eqb (sigma v) true && none_sem vars) || (Bool.eqb (sigma v) false && eo_sem vars).
  Proof.
    intros v vars. rewrite none_sem_count. unfold eo_sem, count_true. cbn [map filter].
    destruct (sigma v); cbn; [now rewrite orb_false_r | reflexivity].
  Qed.

  Lemma in_combine_same : forall {X} (l : list X) x y, In (x, y) (combine l l) -> x = y.
  Proof.
    intros X l. induction l as [|a l IH]; cbn; intros x y H; [destruct H|].
    destruct H as [H|H]; [injection H as <- <-; reflexivity | auto].
  Qed.

  Lemma exactly_one_ok : forall fuel vars,
    triple (fun _ => True) (exactly_one fuel vars) (fun r m => has m r (eo_sem vars)).
  Proof.
    intros fuel vars. induction vars as [|v rest IH]; cbn [exactly_one].
    - eapply t_seq; [apply t_checkpoint|]. apply t_ret. intros m Hi _. apply has0; auto.
    - eapply t_seq; [apply t_checkpoint|]. destruct rest as [|w rest'].
      + eapply t_post; [apply literal_ok|]. intros r m Hi H.
        replace (eo_sem [v]) with (Bool.eqb (sigma v) true); [exact H|].
        unfold eo_sem, count_true. cbn. destruct (sigma v); reflexivity.
      + set (rest := w :: rest') in *.
        eapply t_bindk with (P1 := fun _ => True) (Q := fun r m => has m r (Bool.eqb (sigma v) true)).
        { apply literal_ok. } { apply stable_true. } { auto. }
        intros ft.
        eapply t_bindk with (P1 := fun _ => True) (Q := fun r m => has m r (Bool.eqb (sigma v) false)).
        { apply literal_ok. } { auto using stable_and, stable_has, stable_true. } { auto. }
        intros ff.
        set (P2 := fun m : mgr => has m ff (Bool.eqb (sigma v) false) /\ has m ft (Bool.eqb (sigma v) true) /\ True).
        assert (SP2 : Hoare.stable P2) by (unfold P2; auto using stable_and, stable_has, stable_true).
        set (I := fun (acc : N) (dG : list N) (m : mgr) => has m acc (none_sem dG)).
        eapply t_bind with (Q := fun allf m => I allf rest m /\ P2 m).
        * eapply t_conseq.
          -- refine (t_mfoldl sigma _ P2 I rest rest SP2 eq_refl _ ID_TRUE []).
             intros acc dG r g Hin. apply in_combine_same in Hin. subst g.
             eapply t_bindk with (P1 := fun _ => True) (Q := fun lf m => has m lf (Bool.eqb (sigma r) false)).
             { apply literal_ok. } { unfold I. auto using stable_and, stable_has. } { auto. }
             intros lf. eapply t_conseq.
             ++ apply (t_call sigma (fun m => has m lf (Bool.eqb (sigma r) false) /\ I acc dG m /\ P2 m) _ _ _
                        (apply_f_ok fuel acc lf And (none_sem dG) (Bool.eqb (sigma r) false))).
                ** unfold I. auto using stable_and, stable_has.
                ** intros m Hi [H1 [H2 _]]. split; assumption.
             ++ auto.
             ++ intros r0 m Hi [Hr [_ [_ HP]]]. split; [|exact HP]. unfold I, none_sem. rewrite forallb_app. cbn [forallb].
                replace (negb (sigma r) && true) with (Bool.eqb (sigma r) false) by (destruct (sigma r); reflexivity). exact Hr.
          -- intros m Hi HP. split; [|exact HP]. unfold I. cbn. apply has1; auto.
          -- intros allf m Hi H. exact H.
        * intros allf.
          eapply t_bindk with (P1 := fun m => has m ft (Bool.eqb (sigma v) true) /\ has m allf (none_sem rest))
                              (Q := fun r m => has m r (Bool.eqb (sigma v) true && none_sem rest)).
          { apply (apply_f_ok fuel ft allf And). } { unfold I. auto using stable_and, stable_has. }
          { intros m Hi [H1 [_ [H2 _]]]. split; assumption. }
          intros lb.
          eapply t_bindk with (P1 := fun _ => True) (Q := fun r m => has m r (eo_sem rest)).
          { apply IH. } { unfold I. auto using stable_and, stable_has. } { auto. }
          intros rc.
          eapply t_bindk with (P1 := fun m => has m ff (Bool.eqb (sigma v) false) /\ has m rc (eo_sem rest))
                              (Q := fun r m => has m r (Bool.eqb (sigma v) false && eo_sem rest)).
          { apply (apply_f_ok fuel ff rc And). } { unfold I. auto using stable_and, stable_has. }
          { intros m Hi [H1 [_ [_ [H2 _]]]]. split; assumption. }
          intros rb.
          eapply t_conseq.
          -- apply (apply_f_ok fuel lb rb Or (Bool.eqb (sigma v) true && none_sem rest) (Bool.eqb (sigma v) false && eo_sem rest)).
          -- intros m Hi [H1 [_ [H2 _]]]. split; assumption.
          -- intros r m Hi H. rewrite eo_sem_cons. exact H.
  Qed.
End Sigma.
