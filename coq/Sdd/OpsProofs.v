(* Specifications (triples) of the manager operations, for one fixed assignment sigma. *)
Require Import KV.Sdd.Model KV.Sdd.Sem KV.Sdd.Spec KV.Sdd.SemProofs KV.Sdd.Hoare.
Require Import Lia Permutation.

Lemma alookup_utab : forall k m id, alookup ukey_eqb k (utab m) = Some id -> In (k, id) (utab m).
Proof. intros. eapply alookup_in; eauto. apply ukey_eqb_eq. Qed.

Lemma ins_sorted_perm : forall x l, Permutation (x :: l) (ins_sorted x l).
Proof.
  intros x l. induction l as [|y l IH]; cbn; [apply Permutation_refl|].
  destruct (elem_leb x y); [apply Permutation_refl|].
  eapply perm_trans; [apply perm_swap|]. now apply perm_skip.
Qed.
Lemma sort_els_perm : forall l, Permutation l (sort_els l).
Proof.
  induction l as [|x l IH]; cbn; [constructor|].
  eapply perm_trans; [apply perm_skip, IH | apply ins_sorted_perm].
Qed.

Section Sigma.
  Variable sigma : asg.
  Notation has := (has sigma).
  Notation els_has := (els_has sigma).
  Notation MInvS := (MInvS sigma).
  Notation triple := (triple sigma).
  Notation stable := Hoare.stable.
  Notation evalE := SemProofs.evalE.
  Notation part := SemProofs.part.
  Notation cnt := SemProofs.cnt.

  Hint Resolve stable_true stable_and stable_has stable_els_has stable_const : stab.

  (* ---- literal ------------------------------------------------------------------------------- *)
  Lemma literal_ok : forall v pol,
    triple (fun _ => True) (literal v pol) (fun r m => has m r (Bool.eqb (sigma v) pol)).
  Proof.
    intros v pol. unfold literal.
    eapply t_seq; [apply t_checkpoint|].
    apply t_getm. intros m0.
    destruct (alookup ukey_eqb (KLit v pol) (utab m0)) as [id|] eqn:E.
    - apply t_ret. intros m Hi [-> _].
      apply alookup_utab in E. destruct (inv_utab _ _ Hi _ _ E) as [Hv Hn].
      now apply has_lit.
    - eapply t_seq; [apply t_before_alloc|].
      apply t_alloc; [reflexivity | intros; exact I |].
      intros m m' id _ _ _ _ Hv Hn. now apply has_lit.
  Qed.

  (* ---- trimming, dropping false primes ---------------------------------------------------------- *)
  Lemma els_has_perm : forall m els els' bs,
    els_has m els bs -> Permutation els els' ->
    exists bs', els_has m els' bs' /\ Permutation bs bs'.
  Proof.
    intros m els els' bs H HP.
    destruct (Permutation_Forall2 HP H) as [bs' [H1 H2]]. exists bs'. split; auto.
  Qed.

  Lemma trim_ok : forall m els bs r,
    MInvS m -> els_has m els bs -> trim els = Some r -> has m r (evalE bs).
  Proof.
    intros m els bs r Hi H Ht.
    pose proof (has0 _ _ Hi) as H0. pose proof (has1 _ _ Hi) as H1.
    destruct els as [|[p1 s1] [|[p2 s2] [|? ?]]]; cbn in Ht; try discriminate.
    - injection Ht as <-. inversion H; subst. exact H0.
    - destruct (p1 =? ID_TRUE) eqn:E; [|discriminate]. injection Ht as <-. apply N.eqb_eq in E. subst p1.
      inversion H as [|? [x y] ? ? [Hp Hs] HT]; subst. inversion HT; subst. cbn in *.
      rewrite (has_fun _ _ _ _ _ Hp H1). cbn. now rewrite orb_false_r.
    - inversion H as [|? [x1 y1] ? ? [Hp1 Hs1] HT]; subst.
      inversion HT as [|? [x2 y2] ? ? [Hp2 Hs2] HT2]; subst. inversion HT2; subst. cbn in *.
      destruct ((s1 =? ID_TRUE) && (s2 =? ID_FALSE)) eqn:E1.
      + injection Ht as <-. apply andb_prop in E1 as [Ea Eb]. apply N.eqb_eq in Ea, Eb. subst.
        rewrite (has_fun _ _ _ _ _ Hs1 H1), (has_fun _ _ _ _ _ Hs2 H0).
        replace (x1 && true || (x2 && false || false)) with x1 by (destruct x1, x2; reflexivity). exact Hp1.
      + destruct ((s2 =? ID_TRUE) && (s1 =? ID_FALSE)) eqn:E2; [|discriminate].
        injection Ht as <-. apply andb_prop in E2 as [Ea Eb]. apply N.eqb_eq in Ea, Eb. subst.
        rewrite (has_fun _ _ _ _ _ Hs1 H0), (has_fun _ _ _ _ _ Hs2 H1).
        replace (x1 && false || (x2 && true || false)) with x2 by (destruct x1, x2; reflexivity). exact Hp2.
  Qed.

  Lemma drop_false_ok : forall m els bs,
    MInvS m -> els_has m els bs ->
    exists bs', els_has m (drop_false_primes els) bs' /\ evalE bs' = evalE bs /\ cnt bs' = cnt bs.
  Proof.
    intros m els bs Hi H. pose proof (has0 _ _ Hi) as H0.
    induction H as [|[p s] [x y] els bs [Hp Hs] HT IH].
    - exists []. repeat split. constructor.
    - destruct IH as [bs' (A & B & C)]. cbn [drop_false_primes filter fst].
      destruct (p =? ID_FALSE) eqn:E; cbn [negb].
      + apply N.eqb_eq in E. subst p. cbn in Hp. rewrite (has_fun _ _ _ _ _ Hp H0).
        exists bs'. split; [exact A|]. rewrite cnt_cons. cbn. auto.
      + exists ((x, y) :: bs'). split; [constructor; auto|]. rewrite !cnt_cons.
        unfold evalE in *. cbn [existsb]. rewrite B, C. auto.
  Qed.

  (* ---- unique-table lookup or allocation ---------------------------------------------------------- *)
  Definition elsP (els : list elem) (x : bool) (m : mgr) : Prop :=
    exists bs, els_has m els bs /\ part bs /\ evalE bs = x.

  Lemma stable_elsP : forall els x, stable (elsP els x).
  Proof.
    intros els x m m' [bs (A & B & C)] He. exists bs. repeat split; auto. eapply els_has_ext; eauto.
  Qed.
  Hint Resolve stable_elsP : stab.

  Lemma elsP_perm : forall m els els' x, elsP els x m -> Permutation els els' -> elsP els' x m.
  Proof.
    intros m els els' x [bs (A & B & C)] HP.
    destruct (els_has_perm _ _ _ _ A HP) as [bs' [A' HP']].
    exists bs'. split; [exact A'|]. split.
    - unfold part in *. now rewrite <- (cnt_perm _ _ HP').
    - now rewrite <- (evalE_perm _ _ HP').
  Qed.

  Lemma elsP_dec : forall m id vt els x,
    MInvS m -> valid m id -> node_at m id = NDec vt els -> elsP els x m -> has m id x.
  Proof.
    intros m id vt els x Hi Hv Hn [bs (A & B & C)].
    destruct (has_dec _ _ _ _ _ Hi Hv Hn) as [bs' (A' & B' & C')].
    rewrite <- (els_hasL_fun _ _ _ _ _ A A') in C'. now rewrite C in C'.
  Qed.

  Lemma find_or_alloc_ok : forall vt els x,
    triple (elsP els x) (find_or_alloc vt els) (fun r m => has m r x).
  Proof.
    intros vt els x. unfold find_or_alloc.
    apply t_getm. intros m0.
    destruct (alookup ukey_eqb (KDec vt (sort_els els)) (utab m0)) as [id|] eqn:E.
    - apply t_ret. intros m Hi [-> HP].
      apply alookup_utab in E. destruct (inv_utab _ _ Hi _ _ E) as [Hv Hn]. cbn in Hn.
      eapply elsP_dec; eauto. eapply elsP_perm; eauto. apply sort_els_perm.
    - eapply t_seq; [apply t_before_alloc|].
      apply t_alloc; [reflexivity | |].
      + intros m Hi [-> HP]. cbn.
        destruct (elsP_perm _ _ _ _ HP (sort_els_perm els)) as [bs (A & B & C)]. exists bs. auto.
      + intros m m' id Hi [-> HP] Hi' He Hv Hn.
        eapply elsP_dec; eauto. eapply stable_elsP; [|exact He]. eapply elsP_perm; eauto. apply sort_els_perm.
  Qed.

  Lemma elsP_trim : forall m els x r, MInvS m -> elsP els x m -> trim els = Some r -> has m r x.
  Proof. intros m els x r Hi [bs (A & B & C)] Ht. rewrite <- C. eapply trim_ok; eauto. Qed.

  Lemma elsP_drop : forall m els x, MInvS m -> elsP els x m -> elsP (drop_false_primes els) x m.
  Proof.
    intros m els x Hi [bs (A & B & C)]. destruct (drop_false_ok _ _ _ Hi A) as [bs' (A' & B' & C')].
    exists bs'. split; [exact A'|]. split; [unfold part in *; congruence | congruence].
  Qed.

  Lemma make_decision_raw_ok : forall vt els x,
    triple (elsP els x) (make_decision_raw vt els) (fun r m => has m r x).
  Proof.
    intros vt els x. unfold make_decision_raw.
    eapply t_seq; [apply t_checkpoint|].
    destruct (trim (drop_false_primes els)) as [r|] eqn:E.
    - apply t_ret. intros m Hi HP. eapply elsP_trim; eauto. now apply elsP_drop.
    - eapply t_pre; [apply find_or_alloc_ok|]. intros m Hi HP. now apply elsP_drop.
  Qed.
End Sigma.
