(* Specifications (triples) of the manager operations, for one fixed assignment sigma. *)
Require Import KV.Sdd.Model KV.Sdd.Sem KV.Sdd.Spec KV.Sdd.SemProofs KV.Sdd.Hoare.
Require Import Lia Permutation.

Lemma alookup_utab : forall k m id, alookup ukey_eqb k (utab m) = Some id -> In (k, id) (utab m).
Proof. intros. eapply alookup_in; eauto. apply ukey_eqb_eq. Qed.

Lemma ins_sorted_perm : forall x l, Permutation (x :: l) (ins_sorted x l).
Proof.
  intros x l. induction l as [|y l IH]; cbn; [apply Permutation_refl|].
  destruct (elem_leb x y); [apply Permutation_refl|].
  eapply perm_trans; [apply perm_swap|]. now apply perm_skip.
Qed.
Lemma sort_els_perm : forall l, Permutation l (sort_els l).
Proof.
  induction l as [|x l IH]; cbn; [constructor|].
  eapply perm_trans; [apply perm_skip, IH | apply ins_sorted_perm].
Qed.

Section Sigma.
  Variable sigma : asg.
  Notation has := (has sigma).
  Notation els_has := (els_has sigma).
  Notation MInvS := (MInvS sigma).
  Notation triple := (triple sigma).
  Notation stable := Hoare.stable.
  Notation evalE := SemProofs.evalE.
  Notation part := SemProofs.part.
  Notation cnt := SemProofs.cnt.

  Hint Resolve stable_true stable_and stable_has stable_els_has stable_const : stab.

  (* ---- literal ------------------------------------------------------------------------------- *)
  Lemma literal_ok : forall v pol,
    triple (fun _ => True) (literal v pol) (fun r m => has m r (Bool.eqb (sigma v) pol)).
  Proof.
    intros v pol. unfold literal.
    eapply t_seq; [apply t_checkpoint|].
    apply t_getm. intros m0.
    destruct (alookup ukey_eqb (KLit v pol) (utab m0)) as [id|] eqn:E.
    - apply t_ret. intros m Hi [-> _].
      apply alookup_utab in E. destruct (inv_utab _ _ Hi _ _ E) as [Hv Hn].
      now apply has_lit.
    - eapply t_seq; [apply t_before_alloc|].
      apply t_alloc; [reflexivity | intros; exact I |].
      intros m m' id _ _ _ _ Hv Hn. now apply has_lit.
  Qed.

  (* ---- trimming, dropping false primes ---------------------------------------------------------- *)
  Lemma els_has_perm : forall m els els' bs,
    els_has m els bs -> Permutation els els' ->
    exists bs', els_has m els' bs' /\ Permutation bs bs'.
  Proof.
    intros m els els' bs H HP.
    destruct (Permutation_Forall2 HP H) as [bs' [H1 H2]]. exists bs'. split; auto.
  Qed.

  Lemma trim_ok : forall m els bs r,
    MInvS m -> els_has m els bs -> trim els = Some r -> has m r (evalE bs).
  Proof.
    intros m els bs r Hi H Ht.
    pose proof (has0 _ _ Hi) as H0. pose proof (has1 _ _ Hi) as H1.
    destruct els as [|[p1 s1] [|[p2 s2] [|? ?]]]; cbn in Ht; try discriminate.
    - injection Ht as <-. inversion H; subst. exact H0.
    - destruct (p1 =? ID_TRUE) eqn:E; [|discriminate]. injection Ht as <-. apply N.eqb_eq in E. subst p1.
      inversion H as [|? [x y] ? ? [Hp Hs] HT]; subst. inversion HT; subst. cbn in *.
      rewrite (has_fun _ _ _ _ _ Hp H1). cbn. now rewrite orb_false_r.
    - inversion H as [|? [x1 y1] ? ? [Hp1 Hs1] HT]; subst.
      inversion HT as [|? [x2 y2] ? ? [Hp2 Hs2] HT2]; subst. inversion HT2; subst. cbn in *.
      destruct ((s1 =? ID_TRUE) && (s2 =? ID_FALSE)) eqn:E1.
      + injection Ht as <-. apply andb_prop in E1 as [Ea Eb]. apply N.eqb_eq in Ea, Eb. subst.
        rewrite (has_fun _ _ _ _ _ Hs1 H1), (has_fun _ _ _ _ _ Hs2 H0).
        replace (x1 && true || (x2 && false || false)) with x1 by (destruct x1, x2; reflexivity). exact Hp1.
      + destruct ((s2 =? ID_TRUE) && (s1 =? ID_FALSE)) eqn:E2; [|discriminate].
        injection Ht as <-. apply andb_prop in E2 as [Ea Eb]. apply N.eqb_eq in Ea, Eb. subst.
        rewrite (has_fun _ _ _ _ _ Hs1 H0), (has_fun _ _ _ _ _ Hs2 H1).
        replace (x1 && false || (x2 && true || false)) with x2 by (destruct x1, x2; reflexivity). exact Hp2.
  Qed.

  Lemma drop_false_ok : forall m els bs,
    MInvS m -> els_has m els bs ->
    exists bs', els_has m (drop_false_primes els) bs' /\ evalE bs' = evalE bs /\ cnt bs' = cnt bs.
  Proof.
    intros m els bs Hi H. pose proof (has0 _ _ Hi) as H0.
    induction H as [|[p s] [x y] els bs [Hp Hs] HT IH].
    - exists []. repeat split. constructor.
    - destruct IH as [bs' (A & B & C)]. cbn [drop_false_primes filter fst].
      destruct (p =? ID_FALSE) eqn:E; cbn [negb].
      + apply N.eqb_eq in E. subst p. cbn in Hp. rewrite (has_fun _ _ _ _ _ Hp H0).
        exists bs'. split; [exact A|]. rewrite cnt_cons. cbn. auto.
      + exists ((x, y) :: bs'). split; [constructor; auto|]. rewrite !cnt_cons.
        unfold evalE in *. cbn [existsb]. rewrite B, C. auto.
  Qed.

  (* ---- unique-table lookup or allocation ---------------------------------------------------------- *)
  Definition elsP (els : list elem) (x : bool) (m : mgr) : Prop :=
    exists bs, els_has m els bs /\ part bs /\ evalE bs = x.

  Lemma stable_elsP : forall els x, stable (elsP els x).
  Proof.
    intros els x m m' [bs (A & B & C)] He. exists bs. repeat split; auto. eapply els_has_ext; eauto.
  Qed.
  Hint Resolve stable_elsP : stab.

  Lemma elsP_perm : forall m els els' x, elsP els x m -> Permutation els els' -> elsP els' x m.
  Proof.
    intros m els els' x [bs (A & B & C)] HP.
    destruct (els_has_perm _ _ _ _ A HP) as [bs' [A' HP']].
    exists bs'. split; [exact A'|]. split.
    - unfold part in *. now rewrite <- (cnt_perm _ _ HP').
    - now rewrite <- (evalE_perm _ _ HP').
  Qed.

  Lemma elsP_dec : forall m id vt els x,
    MInvS m -> valid m id -> node_at m id = NDec vt els -> elsP els x m -> has m id x.
  Proof.
    intros m id vt els x Hi Hv Hn [bs (A & B & C)].
    destruct (has_dec _ _ _ _ _ Hi Hv Hn) as [bs' (A' & B' & C')].
    rewrite <- (els_hasL_fun _ _ _ _ _ A A') in C'. now rewrite C in C'.
  Qed.

  Lemma find_or_alloc_ok : forall vt els x,
    triple (elsP els x) (find_or_alloc vt els) (fun r m => has m r x).
  Proof.
    intros vt els x. unfold find_or_alloc.
    apply t_getm. intros m0.
    destruct (alookup ukey_eqb (KDec vt (sort_els els)) (utab m0)) as [id|] eqn:E.
    - apply t_ret. intros m Hi [-> HP].
      apply alookup_utab in E. destruct (inv_utab _ _ Hi _ _ E) as [Hv Hn]. cbn in Hn.
      eapply elsP_dec; eauto. eapply elsP_perm; eauto. apply sort_els_perm.
    - eapply t_seq; [apply t_before_alloc|].
      apply t_alloc; [reflexivity | |].
      + intros m Hi [-> HP]. cbn.
        destruct (elsP_perm _ _ _ _ HP (sort_els_perm els)) as [bs (A & B & C)]. exists bs. auto.
      + intros m m' id Hi [-> HP] Hi' He Hv Hn.
        eapply elsP_dec; eauto. eapply stable_elsP; [|exact He]. eapply elsP_perm; eauto. apply sort_els_perm.
  Qed.

  Lemma elsP_trim : forall m els x r, MInvS m -> elsP els x m -> trim els = Some r -> has m r x.
  Proof. intros m els x r Hi [bs (A & B & C)] Ht. rewrite <- C. eapply trim_ok; eauto. Qed.

  Lemma elsP_drop : forall m els x, MInvS m -> elsP els x m -> elsP (drop_false_primes els) x m.
  Proof.
    intros m els x Hi [bs (A & B & C)]. destruct (drop_false_ok _ _ _ Hi A) as [bs' (A' & B' & C')].
    exists bs'. split; [exact A'|]. split; [unfold part in *; congruence | congruence].
  Qed.

  Lemma make_decision_raw_ok : forall vt els x,
    triple (elsP els x) (make_decision_raw vt els) (fun r m => has m r x).
  Proof.
    intros vt els x. unfold make_decision_raw.
    eapply t_seq; [apply t_checkpoint|].
    destruct (trim (drop_false_primes els)) as [r|] eqn:E.
    - apply t_ret. intros m Hi HP. eapply elsP_trim; [exact Hi | apply elsP_drop; eauto | exact E].
    - eapply t_pre; [apply find_or_alloc_ok|]. intros m Hi HP. now apply elsP_drop.
  Qed.

  (* ================================================================================================ *)
  (* the bodies, relative to recursive callees that meet their specification *)
  Section Bodies.
    Variable rapply : N -> N -> bop -> M N.
    Variable rnegate : N -> M N.
    Hypothesis Happly : forall a b o x y,
      triple (fun m => has m a x /\ has m b y) (rapply a b o) (fun r m => has m r (bop_sem o x y)).
    Hypothesis Hnegate : forall id x,
      triple (fun m => has m id x) (rnegate id) (fun r m => has m r (negb x)).

    (* ---- compress ------------------------------------------------------------------------------ *)
    Definition ungroup (g : list (N * list N)) : list elem :=
      flat_map (fun grp => map (fun p => (p, fst grp)) (snd grp)) g.

    Lemma group_add_perm : forall s p g, Permutation (ungroup (group_add s p g)) ((p, s) :: ungroup g).
    Proof.
      intros s p g. induction g as [|[s' ps] g IH]; cbn [group_add ungroup flat_map].
      - cbn. apply Permutation_refl.
      - destruct (s' =? s) eqn:E.
        + apply N.eqb_eq in E. subst s'. cbn [ungroup flat_map fst snd].
          rewrite map_app. cbn [map]. rewrite <- app_assoc. cbn [app].
          apply Permutation_sym, Permutation_middle.
        + cbn [ungroup flat_map fst snd]. fold (ungroup (group_add s p g)). fold (ungroup g).
          eapply perm_trans; [apply Permutation_app_head, IH|].
          apply Permutation_sym, Permutation_middle.
    Qed.

    Lemma group_by_sub_perm : forall els, Permutation (ungroup (group_by_sub els)) els.
    Proof.
      intros els. unfold group_by_sub.
      assert (H : forall g, Permutation (ungroup (fold_left (fun g e => group_add (snd e) (fst e) g) els g)) (ungroup g ++ els)).
      { induction els as [|[p s] els IH]; intros g; cbn [fold_left].
        - rewrite app_nil_r. apply Permutation_refl.
        - eapply perm_trans; [apply IH|]. cbn [fst snd].
          eapply perm_trans; [apply Permutation_app_tail, group_add_perm|].
          cbn [app]. apply Permutation_middle. }
      apply (H []).
    Qed.

    Definition ungroupB (gbs : list (list bool * bool)) : bvals :=
      flat_map (fun gb => map (fun x => (x, snd gb)) (fst gb)) gbs.
    Definition anyb (l : list bool) : bool := existsb (fun b => b) l.
    Definition cntG (gbs : list (list bool * bool)) : nat := length (filter (fun gb => anyb (fst gb)) gbs).

    Lemma evalE_group : forall xs y, evalE (map (fun x => (x, y)) xs) = anyb xs && y.
    Proof.
      induction xs as [|x xs IH]; intros y; [reflexivity|].
      cbn [map]. unfold evalE in *. cbn [existsb fst snd]. rewrite IH.
      change (anyb (x :: xs)) with (x || anyb xs).
      destruct x, y, (anyb xs); reflexivity.
    Qed.
    Lemma cnt_group : forall xs (y : bool), cnt (map (fun x => (x, y)) xs) = count_true xs.
    Proof. intros. unfold cnt. rewrite map_map. cbn. now rewrite map_id. Qed.

    Lemma cntG_one : forall gbs, cnt (ungroupB gbs) = 1%nat -> cntG gbs = 1%nat.
    Proof.
      assert (Hz : forall xs, count_true xs = 0%nat -> anyb xs = false).
      { induction xs as [|[|] xs IH]; cbn; intros H; auto; discriminate. }
      assert (Hp : forall xs, (0 < count_true xs)%nat -> anyb xs = true).
      { induction xs as [|[|] xs IH]; cbn; intros H; auto; lia. }
      assert (H0 : forall gbs, cnt (ungroupB gbs) = 0%nat -> cntG gbs = 0%nat).
      { induction gbs as [|[xs y] gbs IH]; intros H; [reflexivity|].
        unfold ungroupB in H. cbn [flat_map fst snd] in H. rewrite cnt_app, cnt_group in H.
        unfold cntG. cbn [filter fst]. rewrite Hz by lia. apply IH. unfold ungroupB. lia. }
      induction gbs as [|[xs y] gbs IH]; intros H; [discriminate|].
      unfold ungroupB in H. cbn [flat_map fst snd] in H. rewrite cnt_app, cnt_group in H.
      unfold cntG. cbn [filter fst].
      destruct (count_true xs) as [|k] eqn:E.
      - rewrite Hz by exact E. apply IH. unfold ungroupB. lia.
      - rewrite Hp by lia. cbn [length]. f_equal. apply H0. unfold ungroupB. lia.
    Qed.

    Lemma in_combine_map : forall {X Y} (f : X -> Y) l x y, In (x, y) (combine l (map f l)) -> y = f x /\ In x l.
    Proof.
      intros X Y f l. induction l as [|a l IH]; intros x y H; [destruct H|].
      cbn in H. destruct H as [[= <- <-]|H]; [split; [reflexivity | now left]|].
      destruct (IH _ _ H). split; [assumption | now right].
    Qed.

    Lemma compress_ok : forall els x,
      triple (elsP els x) (compress rapply els) (fun els' m => elsP els' x m).
    Proof.
      intros els x. unfold compress.
      eapply t_seq; [apply t_checkpoint|].
      destruct (N.of_nat (length (group_by_sub els)) =? N.of_nat (length els)).
      { apply t_ret. auto. }
      apply t_init. intros m0 Hi0 HP0.
      set (g := group_by_sub els).
      pose proof (elsP_perm _ _ _ _ HP0 (Permutation_sym (group_by_sub_perm els))) as [bsg (A & B & C)].
      fold g in A.
      set (V := SemProofs.val sigma (nodes m0)).
      set (gb := fun grp : N * list N => (map V (snd grp), V (fst grp))).
      set (Pall := fun m : mgr => Forall (fun grp => Forall (fun p => has m p (V p) /\ has m (fst grp) (V (fst grp))) (snd grp)) g).
      assert (HPall0 : Pall m0 /\ bsg = ungroupB (map gb g)).
      { unfold Pall. clear - A. revert bsg A. induction g as [|[s ps] g IH]; intros bsg A.
        - inversion A. split; [constructor | reflexivity].
        - unfold ungroup in A. cbn [flat_map fst snd] in A. fold (ungroup g) in A.
          apply Forall2_app_inv_l in A as (b1 & b2 & A1 & A2 & ->).
          destruct (IH _ A2) as [I1 I2]. subst b2.
          assert (Hg : Forall (fun p => has m0 p (V p) /\ has m0 s (V s)) ps /\ b1 = map (fun x => (x, V s)) (map V ps)).
          { clear - A1. revert b1 A1. induction ps as [|p ps IHp]; intros b1 A1.
            - inversion A1. split; constructor.
            - inversion A1 as [|? [x y] ? b1' [Hp Hs] A1']; subst. cbn [fst snd] in *.
              destruct (IHp _ A1') as [J1 J2].
              assert (x = V p) by (destruct Hp; auto). assert (y = V s) by (destruct Hs; auto). subst x y.
              split; [constructor; auto | cbn; now rewrite J2]. }
          destruct Hg as [G1 G2]. split; [constructor; auto|].
          cbn [map]. unfold ungroupB. cbn [flat_map fst snd gb]. now rewrite G2. }
      destruct HPall0 as [HPall0 Hbsg].
      assert (SPall : stable Pall).
      { unfold Pall. intros m m' H He. eapply Forall_impl; [|exact H]. intros grp Hg.
        eapply Forall_impl; [|exact Hg]. intros p [H1 H2]. split; eapply has_ext; eauto. }
      set (I := fun (acc : list elem) (dG : list (list bool * bool)) (m : mgr) =>
                  exists bacc, els_has m acc bacc /\ evalE bacc = evalE (ungroupB dG) /\ cnt bacc = cntG dG).
      eapply t_conseq.
      - refine (t_mfoldl sigma _ Pall I g (map gb g) SPall _ _ [] []).
        + now rewrite map_length.
        + intros acc dG grp gbv Hin. apply in_combine_map in Hin as [-> Hing].
          destruct grp as [s [|p0 rest]]; cbn [snd fst].
          { apply t_fail. intros a; discriminate. }
          (* the inner fold over the remaining primes of the group *)
          set (P2 := fun m : mgr => I acc dG m /\ Pall m).
          assert (SP2 : stable P2).
          { apply stable_and; [|exact SPall]. unfold I. intros m m' [bacc (X & Y & Z)] He. exists bacc.
            repeat split; auto. eapply els_has_ext; eauto. }
          set (I2 := fun (a : N) (dx : list bool) (m : mgr) => has m a (fold_left orb dx (V p0))).
          eapply t_bind.
          * eapply t_pre.
            -- refine (t_mfoldl sigma (fun a p => rapply a p Or) P2 I2 rest (map V rest) SP2 _ _ p0 []).
               ++ now rewrite map_length.
               ++ intros a dx p vx Hin2. apply in_combine_map in Hin2 as [-> Hinp].
                  eapply t_conseq.
                  ** apply (t_call sigma (fun m => I2 a dx m /\ P2 m) _ _ _ (Happly a p Or (fold_left orb dx (V p0)) (V p))).
                     --- apply stable_and; [unfold I2; auto with stab | exact SP2].
                     --- intros m Hi [H1 [_ HPa]]. split; [exact H1|].
                         unfold Pall in HPa. rewrite Forall_forall in HPa. specialize (HPa _ Hing).
                         cbn [snd] in HPa. rewrite Forall_forall in HPa. exact (proj1 (HPa p (or_intror Hinp))).
                  ** intros m Hi H; exact H.
                  ** intros r m Hi [H1 [_ H2]]. split; [|exact H2]. unfold I2. rewrite fold_left_app. exact H1.
            -- intros m Hi [HI HPa]. split; [|split; assumption]. unfold I2. cbn [fold_left app].
               unfold Pall in HPa. rewrite Forall_forall in HPa. specialize (HPa _ Hing).
               cbn [snd] in HPa. rewrite Forall_forall in HPa. exact (proj1 (HPa p0 (or_introl eq_refl))).
          * intros merged. apply t_ret. intros m Hi [Hm [[bacc (X & Y & Z)] HPa]].
            split; [|exact HPa]. unfold I2 in Hm. cbn [app] in Hm.
            assert (Hs : has m s (V s)).
            { unfold Pall in HPa. rewrite Forall_forall in HPa. specialize (HPa _ Hing).
              cbn [snd fst] in HPa. rewrite Forall_forall in HPa. exact (proj2 (HPa p0 (or_introl eq_refl))). }
            assert (Hor : fold_left orb (map V rest) (V p0) = anyb (V p0 :: map V rest)).
            { clear. cbn [anyb existsb]. generalize (V p0). induction (map V rest) as [|b l IH]; intros c; cbn.
              - now rewrite orb_false_r.
              - rewrite IH. destruct c, b; reflexivity. }
            exists (bacc ++ [(anyb (V p0 :: map V rest), V s)]). split; [|split].
            -- apply Forall2_app; [exact X|]. constructor; [|constructor]. cbn [fst snd]. rewrite <- Hor. split; assumption.
            -- rewrite evalE_app, Y. unfold ungroupB. rewrite flat_map_app, evalE_app. f_equal.
               cbn [flat_map gb fst snd map]. rewrite app_nil_r.
               change ((V p0, V s) :: map (fun x0 : bool => (x0, V s)) (map V rest))
                 with (map (fun x0 : bool => (x0, V s)) (V p0 :: map V rest)).
               rewrite (evalE_group (V p0 :: map V rest) (V s)). unfold evalE. cbn [existsb fst snd]. now rewrite orb_false_r.
            -- rewrite cnt_app, Z. unfold cntG. rewrite filter_app, app_length. f_equal.
               cbn [filter gb fst snd map]. rewrite cnt_cons. cbn [cnt map count_true filter length].
               destruct (anyb (V p0 :: map V rest)); reflexivity.
      - intros m Hi ->. split; [|exact HPall0]. exists []. repeat split. constructor.
      - intros els' m Hi [[bacc (X & Y & Z)] _]. cbn [app] in *. exists bacc. split; [exact X|].
        rewrite <- Hbsg in Y. split; [|congruence].
        unfold part in *. rewrite Z. apply cntG_one. now rewrite <- Hbsg.
    Qed.

    (* ---- unique_d ------------------------------------------------------------------------------ *)
    Lemma unique_d_ok : forall vt els x,
      triple (elsP els x) (unique_d rapply vt els) (fun r m => has m r x).
    Proof.
      intros vt els x. unfold unique_d.
      eapply t_seq; [apply t_checkpoint|].
      destruct (trim (drop_false_primes els)) as [r|] eqn:E.
      - apply t_ret. intros m Hi HP. eapply elsP_trim; [exact Hi | apply elsP_drop; eauto | exact E].
      - eapply t_bind.
        + eapply t_pre; [apply compress_ok|]. intros m Hi HP. apply elsP_drop; eauto.
        + intros els2. cbn beta. destruct (trim els2) as [r|] eqn:E2.
          * apply t_ret. intros m Hi HP. eapply elsP_trim; eauto.
          * apply find_or_alloc_ok.
    Qed.

    (* ---- expand ---------------------------------------------------------------------------------- *)
    Lemma elsP_single : forall m id x, MInvS m -> has m id x -> elsP [(ID_TRUE, id)] x m.
    Proof.
      intros m id x Hi H. exists [(true, x)]. split; [|split; [reflexivity | cbn; now rewrite orb_false_r]].
      constructor; [|constructor]. split; [apply has1; auto | exact H].
    Qed.
    Lemma elsP_pair : forall m id neg x, MInvS m -> has m id x -> has m neg (negb x) ->
      elsP [(id, ID_TRUE); (neg, ID_FALSE)] x m.
    Proof.
      intros m id neg x Hi H Hn. exists [(x, true); (negb x, false)]. split; [|split].
      - constructor; [|constructor; [|constructor]]; (split; [assumption | try apply has1; try apply has0; auto]).
      - unfold part. rewrite !cnt_cons. destruct x; reflexivity.
      - cbn. destruct x; reflexivity.
    Qed.

    Lemma expand_ok : forall id vt x,
      triple (fun m => has m id x) (expand rnegate id vt) (fun els m => elsP els x m).
    Proof.
      intros id vt x. unfold expand.
      eapply t_seq; [apply t_checkpoint|].
      destruct (id =? ID_TRUE) eqn:E1.
      { apply N.eqb_eq in E1. subst id. apply t_ret. intros m Hi H. now apply elsP_single. }
      destruct (id =? ID_FALSE) eqn:E0.
      { apply N.eqb_eq in E0. subst id. apply t_ret. intros m Hi H. now apply elsP_single. }
      apply t_getm. intros m0.
      assert (Hother : triple (fun m => m = m0 /\ has m id x)
                (match vtree_children m0 vt, vtree_of m0 id with
                 | Some (lft, _), Some nv =>
                     if (nv =? lft) || is_desc m0 nv lft
                     then neg <- rnegate id ;; ret [(id, ID_TRUE); (neg, ID_FALSE)]
                     else ret [(ID_TRUE, id)]
                 | _, _ => fail Panic
                 end) (fun els m => elsP els x m)).
      { destruct (vtree_children m0 vt) as [[lft rgt]|]; [|apply t_fail; intros; discriminate].
        destruct (vtree_of m0 id) as [nv|]; [|apply t_fail; intros; discriminate].
        destruct ((nv =? lft) || is_desc m0 nv lft).
        - apply t_pre with (P' := fun m => has m id x); [|intros m Hi [_ H]; exact H].
          eapply t_bindk with (P1 := fun m => has m id x) (Q := fun r m => has m r (negb x)).
          + apply Hnegate.
          + apply stable_has.
          + auto.
          + intros neg. apply t_ret. intros m Hi [Hn H]. now apply elsP_pair.
        - apply t_ret. intros m Hi [_ H]. now apply elsP_single. }
      destruct (node_at m0 id) as [| |v pol|dv els] eqn:En; try exact Hother.
      destruct (dv =? vt); [|exact Hother].
      apply t_ret. intros m Hi [-> H].
      destruct (has_dec _ _ _ _ _ Hi (has_valid _ _ _ _ H) En) as [bs (A & B & C)].
      exists bs. repeat split; auto. eapply has_fun; eauto.
    Qed.

    (* ---- normalize_to ------------------------------------------------------------------------------ *)
    Lemma normalize_ok : forall id target x,
      triple (fun m => has m id x) (normalize_to rapply rnegate id target) (fun r m => has m r x).
    Proof.
      intros id target x. unfold normalize_to.
      eapply t_seq; [apply t_checkpoint|].
      destruct ((id =? ID_TRUE) || (id =? ID_FALSE)); [apply t_ret; auto|].
      apply t_getm. intros m0.
      apply t_pre with (P' := fun m => has m id x); [|intros m Hi [_ H]; exact H].
      destruct (vtree_of m0 id) as [v|]; [|apply t_ret; auto].
      destruct (v =? target); [apply t_ret; auto|].
      destruct (vtree_children m0 target) as [[lft rgt]|]; [|apply t_fail; intros; discriminate].
      destruct (is_desc m0 v lft).
      - eapply t_bindk with (P1 := fun m => has m id x) (Q := fun r m => has m r (negb x)).
        + apply Hnegate.
        + apply stable_has.
        + auto.
        + intros neg. eapply t_pre; [apply make_decision_raw_ok|].
          intros m Hi [Hn H]. now apply elsP_pair.
      - destruct (is_desc m0 v rgt); [|apply t_ret; auto].
        eapply t_pre; [apply unique_d_ok|]. intros m Hi H. now apply elsP_single.
    Qed.

    (* ---- apply_same_vtree ---------------------------------------------------------------------------- *)
    Lemma forall2_prod : forall {X Y} (R : X -> Y -> Prop) la la' lb lb',
      Forall2 R la la' -> Forall2 R lb lb' ->
      Forall2 (fun p q => R (fst p) (fst q) /\ R (snd p) (snd q)) (list_prod la lb) (list_prod la' lb').
    Proof.
      intros X Y R la la' lb lb' Ha Hb. induction Ha as [|a a' la la' Hr Ha IH]; [constructor|].
      cbn [list_prod]. apply Forall2_app; [|exact IH].
      clear - Hr Hb. induction Hb; cbn; constructor; auto.
    Qed.
    Lemma forall2_len : forall {X Y} (R : X -> Y -> Prop) l l', Forall2 R l l' -> length l = length l'.
    Proof. intros X Y R l l' H. induction H; cbn; auto. Qed.
    Lemma forall2_combine_in : forall {X Y} (R : X -> Y -> Prop) l l' x y,
      Forall2 R l l' -> In (x, y) (combine l l') -> R x y.
    Proof.
      intros X Y R l l' x y H. induction H; cbn; intros Hin; [destruct Hin|].
      destruct Hin as [[= <- <-]|Hin]; auto.
    Qed.

    Lemma same_vtree_ok : forall a b o vt x y,
      triple (fun m => has m a x /\ has m b y) (apply_same_vtree rapply rnegate a b o vt)
             (fun r m => has m r (bop_sem o x y)).
    Proof.
      intros a b o vt x y. unfold apply_same_vtree.
      eapply t_bindk with (P1 := fun m => has m a x) (Q := fun ea m => elsP ea x m).
      { apply expand_ok. } { auto with stab. } { intros m Hi [H _]; exact H. }
      intros ea.
      eapply t_bindk with (P1 := fun m => has m b y) (Q := fun eb m => elsP eb y m).
      { apply expand_ok. } { auto with stab. } { intros m Hi [_ [_ H]]; exact H. }
      intros eb.
      apply t_init. intros m0 Hi0 [[bsb (B1 & B2 & B3)] [[bsa (A1 & A2 & A3)] _]].
      set (Pall := fun m : mgr => Forall2 (fun (p : elem * elem) (q : gpair) =>
                     (has m (fst (fst p)) (fst (fst q)) /\ has m (snd (fst p)) (snd (fst q))) /\
                     (has m (fst (snd p)) (fst (snd q)) /\ has m (snd (snd p)) (snd (snd q))))
                     (list_prod ea eb) (list_prod bsa bsb)).
      assert (SPall : stable Pall).
      { unfold Pall. apply (stable_forall2 (fun (p : elem * elem) (q : gpair) m =>
           (has m (fst (fst p)) (fst (fst q)) /\ has m (snd (fst p)) (snd (fst q))) /\
           (has m (fst (snd p)) (fst (snd q)) /\ has m (snd (snd p)) (snd (snd q))))).
        intros p q. auto with stab. }
      assert (HPall0 : Pall m0).
      { unfold Pall. apply (forall2_prod (fun (e : elem) (bv : bool * bool) => has m0 (fst e) (fst bv) /\ has m0 (snd e) (snd bv))); assumption. }
      set (I := fun (acc : list elem) (dG : list gpair) (m : mgr) =>
                  exists bacc, els_has m acc bacc /\ evalE bacc = evP o dG /\ cnt bacc = cntP dG).
      assert (Hlen : length (list_prod ea eb) = length (list_prod bsa bsb)).
      { rewrite (prod_length ea eb). etransitivity; [|symmetry; apply (prod_length bsa bsb)].
        f_equal; [exact (forall2_len _ _ _ A1) | exact (forall2_len _ _ _ B1)]. }
      eapply t_bind.
      - eapply t_conseq.
        + refine (t_mfoldl sigma _ Pall I (list_prod ea eb) (list_prod bsa bsb) SPall Hlen _ [] []).
          intros acc dG [[pa sa] [pb sb]] [[xa ya] [xb yb]] Hin. cbn [fst snd].
            set (P2 := fun m : mgr => I acc dG m /\ Pall m).
            assert (SP2 : stable P2).
            { apply stable_and; [|exact SPall]. unfold I. intros m m' [bacc (X & Y & Z)] He. exists bacc.
              repeat split; auto. eapply els_has_ext; eauto. }
            assert (Hrel : forall m, P2 m -> (has m pa xa /\ has m sa ya) /\ (has m pb xb /\ has m sb yb)).
            { intros m [_ HPa]. exact (forall2_combine_in _ _ _ _ _ HPa Hin). }
            eapply t_seq; [apply t_checkpoint|].
            eapply t_bindk with (P1 := fun m => has m pa xa /\ has m pb xb) (Q := fun r m => has m r (xa && xb)).
            { apply (Happly pa pb And). } { exact SP2. } { intros m Hi H. destruct (Hrel m H) as [[? ?] [? ?]]. auto. }
            intros prime. destruct (prime =? ID_FALSE) eqn:E0.
            -- apply N.eqb_eq in E0. subst prime. apply t_ret. intros m Hi [Hp [[bacc (X & Y & Z)] HPa]].
               split; [|exact HPa]. pose proof (has_fun _ _ _ _ _ Hp (has0 _ _ Hi)) as Hxx.
               exists bacc. split; [exact X|]. rewrite evP_app, cntP_app. unfold evP, cntP. cbn [existsb filter fst snd].
               rewrite Hxx. cbn. rewrite orb_false_r, Nat.add_0_r. auto.
            -- eapply t_bindk with (P1 := fun m => has m sa ya /\ has m sb yb) (Q := fun r m => has m r (bop_sem o ya yb)).
               { apply (Happly sa sb o). } { apply stable_and; [apply stable_has | exact SP2]. }
               { intros m Hi [_ H]. destruct (Hrel m H) as [[? ?] [? ?]]. auto. }
               intros sub. apply t_ret. intros m Hi [Hs [Hp [[bacc (X & Y & Z)] HPa]]].
               split; [|exact HPa].
               exists (bacc ++ [(xa && xb, bop_sem o ya yb)]). split; [|split].
               ++ apply Forall2_app; [exact X|]. constructor; [|constructor]. cbn [fst snd]. auto.
               ++ rewrite evalE_app, evP_app, Y. unfold evP, evalE. cbn [existsb fst snd]. reflexivity.
               ++ rewrite cnt_app, cntP_app, Z. rewrite cnt_cons. unfold cntP, cnt. cbn [filter fst snd map count_true length].
                  destruct (xa && xb); reflexivity.
        + intros m Hi ->. split; [|exact HPall0]. exists []. repeat split. constructor.
        + intros els m Hi [[bacc (X & Y & Z)] _]. cbn [app] in *.
          assert (HP : elsP els (bop_sem o x y) m).
          { exists bacc. split; [exact X|]. split.
            - unfold part in *. rewrite Z, cntP_prod, A2, B2. reflexivity.
            - rewrite Y, evP_prod by assumption. now rewrite A3, B3. }
          exact HP.
      - intros els. apply unique_d_ok.
    Qed.

    Lemma apply_norm_ok : forall a b o t x y,
      triple (fun m => has m a x /\ has m b y) (apply_norm rapply rnegate a b o t) (fun r m => has m r (bop_sem o x y)).
    Proof.
      intros a b o t x y. unfold apply_norm.
      eapply t_bindk with (P1 := fun m => has m a x) (Q := fun l m => has m l x).
      { apply normalize_ok. } { auto with stab. } { intros m Hi [H _]; exact H. }
      intros l.
      eapply t_bindk with (P1 := fun m => has m b y) (Q := fun r m => has m r y).
      { apply normalize_ok. } { auto with stab. } { intros m Hi [_ [_ H]]; exact H. }
      intros r. eapply t_pre; [apply same_vtree_ok|]. intros m Hi [H1 [H2 _]]. split; eauto.
    Qed.

    Lemma apply_inner_ok : forall a b o x y,
      triple (fun m => has m a x /\ has m b y) (apply_inner rapply rnegate a b o) (fun r m => has m r (bop_sem o x y)).
    Proof.
      intros a b o x y. unfold apply_inner.
      eapply t_seq; [apply t_checkpoint|].
      apply t_getm. intros m0.
      apply t_pre with (P' := fun m => has m a x /\ has m b y); [|intros m Hi [_ H]; exact H].
      destruct (vtree_of m0 a) as [va|], (vtree_of m0 b) as [vb|]; try apply apply_norm_ok.
      - destruct (va =? vb); [apply same_vtree_ok|].
        destruct (if is_desc m0 va vb then Some vb else if is_desc m0 vb va then Some va else find_lca m0 va vb) as [t|];
          [apply apply_norm_ok | apply t_fail; intros; discriminate].
      - apply t_fail; intros; discriminate.
    Qed.

    (* ---- apply (body) ---------------------------------------------------------------------------------- *)
    Lemma bop_comm : forall o x y, bop_sem o x y = bop_sem o y x.
    Proof. intros [] [] []; reflexivity. Qed.

    Lemma terminal_ok : forall m a b o x y r,
      MInvS m -> has m a x -> has m b y -> terminal a b o = Some r -> has m r (bop_sem o x y).
    Proof.
      intros m a b o x y r Hi Ha Hb Ht.
      pose proof (has0 _ _ Hi) as H0. pose proof (has1 _ _ Hi) as H1.
      unfold terminal, ID_FALSE, ID_TRUE in Ht. destruct o.
      - destruct ((a =? 0) || (b =? 0)) eqn:E.
        { injection Ht as <-. apply orb_prop in E as [E|E]; apply N.eqb_eq in E; subst.
          - rewrite (has_fun _ _ _ _ _ Ha H0). exact H0.
          - rewrite (has_fun _ _ _ _ _ Hb H0). cbn. now rewrite andb_false_r. }
        destruct (a =? 1) eqn:E1.
        { injection Ht as <-. apply N.eqb_eq in E1. subst. now rewrite (has_fun _ _ _ _ _ Ha H1). }
        destruct (b =? 1) eqn:E2.
        { injection Ht as <-. apply N.eqb_eq in E2. subst. rewrite (has_fun _ _ _ _ _ Hb H1). cbn. now rewrite andb_true_r. }
        destruct (a =? b) eqn:E3; [|discriminate].
        injection Ht as <-. apply N.eqb_eq in E3. subst. rewrite (has_fun _ _ _ _ _ Hb Ha). cbn. now rewrite andb_diag.
      - destruct ((a =? 1) || (b =? 1)) eqn:E.
        { injection Ht as <-. apply orb_prop in E as [E|E]; apply N.eqb_eq in E; subst.
          - rewrite (has_fun _ _ _ _ _ Ha H1). exact H1.
          - rewrite (has_fun _ _ _ _ _ Hb H1). cbn. now rewrite orb_true_r. }
        destruct (a =? 0) eqn:E1.
        { injection Ht as <-. apply N.eqb_eq in E1. subst. now rewrite (has_fun _ _ _ _ _ Ha H0). }
        destruct (b =? 0) eqn:E2.
        { injection Ht as <-. apply N.eqb_eq in E2. subst. rewrite (has_fun _ _ _ _ _ Hb H0). cbn. now rewrite orb_false_r. }
        destruct (a =? b) eqn:E3; [|discriminate].
        injection Ht as <-. apply N.eqb_eq in E3. subst. rewrite (has_fun _ _ _ _ _ Hb Ha). cbn. now rewrite orb_diag.
    Qed.

    Lemma compl_ok : forall m a b o x y r,
      MInvS m -> has m a x -> has m b y -> compl_lits (node_at m a) (node_at m b) o = Some r -> has m r (bop_sem o x y).
    Proof.
      intros m a b o x y r Hi Ha Hb Hc. unfold compl_lits in Hc.
      destruct (node_at m a) as [| |va pa|] eqn:Ea; try discriminate.
      destruct (node_at m b) as [| |vb pb|] eqn:Eb; try discriminate.
      destruct ((va =? vb) && negb (Bool.eqb pa pb)) eqn:E; [|discriminate].
      apply andb_prop in E as [E1 E2]. apply N.eqb_eq in E1. subst vb.
      pose proof (has_fun _ _ _ _ _ Ha (has_lit _ _ _ _ _ (has_valid _ _ _ _ Ha) Ea)) as Hx.
      pose proof (has_fun _ _ _ _ _ Hb (has_lit _ _ _ _ _ (has_valid _ _ _ _ Hb) Eb)) as Hy.
      injection Hc as <-. subst x y.
      destruct o, (sigma va), pa, pb; cbn in *; try discriminate; try apply has0; try apply has1; auto.
    Qed.

    Lemma cache_hit_ok : forall m a b o x y r,
      MInvS m -> has m a x -> has m b y -> alookup akey_eqb (cache_key a b o) (acache m) = Some r ->
      has m r (bop_sem o x y).
    Proof.
      intros m a b o x y r Hi Ha Hb Hl.
      apply (alookup_in akey_eqb akey_eqb_eq) in Hl. unfold cache_key in Hl.
      destruct (a <=? b).
      - destruct (inv_acache _ _ Hi _ _ _ _ Hl) as (x' & y' & A & B & C).
        now rewrite (has_fun _ _ _ _ _ Ha A), (has_fun _ _ _ _ _ Hb B).
      - destruct (inv_acache _ _ Hi _ _ _ _ Hl) as (x' & y' & A & B & C).
        rewrite (has_fun _ _ _ _ _ Ha B), (has_fun _ _ _ _ _ Hb A). now rewrite bop_comm.
    Qed.

    Lemma acache_ins_inv : forall m a b o x y r,
      MInvS m -> has m a x -> has m b y -> has m r (bop_sem o x y) ->
      MInvS (acache_ins (cache_key a b o) r m) /\ ext m (acache_ins (cache_key a b o) r m).
    Proof.
      intros m a b o x y r Hi Ha Hb Hr. split.
      - constructor; try apply Hi.
        cbn [acache acache_ins]. intros a' b' o' r' [Heq|Hin]; [|exact (inv_acache _ _ Hi _ _ _ _ Hin)].
        unfold cache_key in Heq. destruct (a <=? b); injection Heq as E1 E2 E3 E4; subst a' b' o' r'.
        + exists x, y. auto.
        + exists y, x. rewrite bop_comm. auto.
      - split; [exists []; cbn; now rewrite app_nil_r | repeat split].
    Qed.

    Lemma apply_body_ok : forall a b o x y,
      triple (fun m => has m a x /\ has m b y) (apply_body rapply rnegate a b o) (fun r m => has m r (bop_sem o x y)).
    Proof.
      intros a b o x y. unfold apply_body.
      eapply t_seq; [apply t_checkpoint|].
      destruct (terminal a b o) as [r|] eqn:Et.
      { apply t_ret. intros m Hi [Ha Hb]. eapply terminal_ok; eauto. }
      apply t_getm. intros m0.
      destruct (compl_lits (node_at m0 a) (node_at m0 b) o) as [r|] eqn:Ec.
      { apply t_ret. intros m Hi [-> [Ha Hb]]. eapply compl_ok; eauto. }
      destruct (alookup akey_eqb (cache_key a b o) (acache m0)) as [r|] eqn:El.
      { apply t_ret. intros m Hi [-> [Ha Hb]]. eapply cache_hit_ok; eauto. }
      apply t_pre with (P' := fun m => has m a x /\ has m b y); [|intros m Hi [_ H]; exact H].
      eapply t_bindk with (P1 := fun m => has m a x /\ has m b y) (Q := fun r m => has m r (bop_sem o x y)).
      { apply apply_inner_ok. } { auto with stab. } { auto. }
      intros r. eapply t_bind.
      - apply t_modm with (Q := fun _ m => has m r (bop_sem o x y)).
        intros m Hi [Hr [Ha Hb]]. destruct (acache_ins_inv m a b o x y r Hi Ha Hb Hr) as [H1 H2].
        split; [exact H1|]. split; [exact H2|]. eapply has_ext; eauto.
      - intros u. apply t_ret. auto.
    Qed.

    (* ---- negate (body) --------------------------------------------------------------------------------- *)
    Lemma ncache_ins_inv : forall m id x r,
      MInvS m -> has m id x -> has m r (negb x) -> MInvS (ncache_ins id r m) /\ ext m (ncache_ins id r m).
    Proof.
      intros m id x r Hi Ha Hr. split.
      - constructor; try apply Hi.
        cbn [ncache ncache_ins]. intros id' r' [Heq|Hin]; [|exact (inv_ncache _ _ Hi _ _ Hin)].
        injection Heq as E1 E2; subst id' r'. exists x. auto.
      - split; [exists []; cbn; now rewrite app_nil_r | repeat split].
    Qed.

    Lemma negate_body_ok : forall id x,
      triple (fun m => has m id x) (negate_body rapply rnegate id) (fun r m => has m r (negb x)).
    Proof.
      intros id x. unfold negate_body.
      eapply t_seq; [apply t_checkpoint|].
      destruct (id =? ID_FALSE) eqn:E0.
      { apply N.eqb_eq in E0. subst id. apply t_ret. intros m Hi H.
        rewrite (has_fun _ _ _ _ _ H (has0 _ _ Hi)). apply has1; auto. }
      destruct (id =? ID_TRUE) eqn:E1.
      { apply N.eqb_eq in E1. subst id. apply t_ret. intros m Hi H.
        rewrite (has_fun _ _ _ _ _ H (has1 _ _ Hi)). apply has0; auto. }
      apply t_getm. intros m0.
      destruct (alookup N.eqb id (ncache m0)) as [r|] eqn:El.
      { apply t_ret. intros m Hi [-> H].
        apply (alookup_in N.eqb) in El; [|intros ? ? HH; now apply N.eqb_eq in HH].
        destruct (inv_ncache _ _ Hi _ _ El) as (x' & A & B). now rewrite (has_fun _ _ _ _ _ H A). }
      eapply t_bind with (Q := fun r m => has m r (negb x) /\ has m id x).
      - destruct (node_at m0 id) as [| |v pol|vt els] eqn:En; try (apply t_fail; intros; discriminate).
        + (* literal *)
          eapply t_conseq.
          * apply (t_call sigma (fun m => has m id x /\ node_at m id = NLit v pol /\ valid m id) (fun _ => True) _ _ (literal_ok v (negb pol))).
            -- intros m m' (A & B & C) He. split; [eapply has_ext; eauto|]. split; [|eapply valid_ext; eauto].
               rewrite (node_at_ext m) by auto. exact B.
            -- auto.
          * intros m Hi [-> H]. split; [exact H|]. split; [exact En | eapply has_valid; eauto].
          * intros r m Hi [Hr (A & B & C)]. split; [|exact A].
            rewrite (has_fun _ _ _ _ _ A (has_lit _ _ _ _ _ C B)).
            replace (negb (Bool.eqb (sigma v) pol)) with (Bool.eqb (sigma v) (negb pol)) by (destruct (sigma v), pol; reflexivity).
            exact Hr.
        + (* decision: negate every sub, keep the primes *)
          apply t_init. intros m1 Hi1 [-> H].
          destruct (has_dec _ _ _ _ _ Hi1 (has_valid _ _ _ _ H) En) as [bs (A & B & C)].
          pose proof (has_fun _ _ _ _ _ H C) as Hx.
          set (Pall := fun m : mgr => els_has m els bs /\ has m id x).
          assert (SPall : stable Pall) by (unfold Pall; auto with stab).
          set (I := fun (acc : list elem) (dG : bvals) (m : mgr) =>
                      els_has m acc (map (fun bv => (fst bv, negb (snd bv))) dG)).
          eapply t_bind.
          * eapply t_conseq.
            -- refine (t_mfoldl sigma _ Pall I els bs SPall (forall2_len _ _ _ A) _ [] []).
               intros acc dG [p s] [xp xs] Hin. cbn [fst snd].
               eapply t_bindk with (P1 := fun m => has m s xs) (Q := fun r m => has m r (negb xs)).
               { apply Hnegate. }
               { apply stable_and; [unfold I; auto with stab | exact SPall]. }
               { intros m Hi [_ [HA _]]. exact (proj2 (forall2_combine_in _ _ _ _ _ HA Hin)). }
               intros ns. apply t_ret. intros m Hi [Hns [HI [HA Hid]]].
               split; [|split; assumption]. unfold I in *. rewrite map_app. apply Forall2_app; [exact HI|].
               constructor; [|constructor]. cbn [fst snd map]. split; [|exact Hns].
               exact (proj1 (forall2_combine_in _ _ _ _ _ HA Hin)).
            -- intros m Hi ->. split; [constructor | split; assumption].
            -- intros negs m Hi [HI [HA Hid]]. cbn [app] in HI.
               assert (HP : elsP negs (negb x) m /\ has m id x).
               { split; [|exact Hid]. exists (map (fun bv => (fst bv, negb (snd bv))) bs). split; [exact HI|]. split.
                 - unfold part, cnt in *. rewrite map_map. cbn [fst]. exact B.
                 - rewrite evalE_neg by exact B. now rewrite Hx. }
               exact HP.
          * intros negs. eapply t_conseq.
            -- apply (t_call sigma (fun m => elsP negs (negb x) m /\ has m id x) (elsP negs (negb x)) _ _ (unique_d_ok vt negs (negb x))).
               ++ auto with stab.
               ++ intros m Hi [HH _]; exact HH.
            -- intros m Hi HH. exact HH.
            -- intros r m Hi [Hr [_ Hid]]. split; assumption.
      - intros r. eapply t_bind.
        + apply t_modm with (Q := fun _ m => has m r (negb x)).
          intros m Hi [Hr Ha]. destruct (ncache_ins_inv m id x r Hi Ha Hr) as [H1 H2].
          split; [exact H1|]. split; [exact H2|]. eapply has_ext; eauto.
        + intros u. apply t_ret. auto.
    Qed.
  End Bodies.
End Sigma.
