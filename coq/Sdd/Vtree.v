(* The vtree: variable sets of vtree nodes, well-formedness, and what `is_descendant_of`, `find_lca` and
   the growth of `ensure_variable_weights` guarantee. *)
Require Import KV.Sdd.Model KV.Sdd.Sem KV.Sdd.Decomp.
Require Import Lia.

(* ---- generic bottom-up tables over any list ------------------------------------------------------ *)
Section GTab.
  Variables X T : Type.
  Variable F : list T -> X -> T.
  Variable d : T.
  Definition gtab (l : list X) : list T := fold_left (fun tab n => tab ++ [F tab n]) l [].
  Lemma gtab_snoc : forall l n, gtab (l ++ [n]) = gtab l ++ [F (gtab l) n].
  Proof. intros. unfold gtab. now rewrite fold_left_app. Qed.
  Lemma gtab_length : forall l, length (gtab l) = length l.
  Proof.
    intros l. induction l as [|n l IH] using rev_ind; [reflexivity|].
    rewrite gtab_snoc, !app_length, IH. reflexivity.
  Qed.
  Lemma gtab_app : forall l l', exists t, gtab (l ++ l') = gtab l ++ t.
  Proof.
    intros l l'. induction l' as [|n l' IH] using rev_ind.
    - exists []. now rewrite !app_nil_r.
    - destruct IH as [t Ht]. rewrite app_assoc, gtab_snoc, Ht. eexists. rewrite <- app_assoc. reflexivity.
  Qed.
  Lemma gtab_nth_app : forall l l' i, (i < length l)%nat -> nth i (gtab (l ++ l')) d = nth i (gtab l) d.
  Proof.
    intros l l' i Hi. destruct (gtab_app l l') as [t Ht]. rewrite Ht. apply app_nth1. now rewrite gtab_length.
  Qed.
  Lemma gtab_nth : forall l i dx, (i < length l)%nat -> nth i (gtab l) d = F (gtab (firstn i l)) (nth i l dx).
  Proof.
    intros l i dx Hi. rewrite <- (firstn_skipn i l) at 1.
    destruct (skipn i l) as [|n t] eqn:Hs.
    - exfalso. assert (length (skipn i l) = 0%nat) by now rewrite Hs. rewrite skipn_length in H. lia.
    - assert (Hn : nth i l dx = n).
      { rewrite <- (firstn_skipn i l) at 1. rewrite Hs.
        rewrite app_nth2; rewrite firstn_length_le by lia; [|lia]. now rewrite Nat.sub_diag. }
      rewrite Hn. change (n :: t) with ([n] ++ t). rewrite app_assoc.
      rewrite gtab_nth_app by (rewrite app_length, firstn_length_le by lia; cbn; lia).
      rewrite gtab_snoc. rewrite app_nth2; rewrite gtab_length, firstn_length_le by lia; [|lia].
      now rewrite Nat.sub_diag.
  Qed.
  Lemma gtab_firstn : forall l i, gtab (firstn i l) = firstn i (gtab l).
  Proof.
    intros l i. destruct (Nat.le_gt_cases (length l) i) as [H|H].
    - rewrite (firstn_all2 l) by exact H. rewrite firstn_all2; [reflexivity|]. now rewrite gtab_length.
    - destruct (gtab_app (firstn i l) (skipn i l)) as [t Ht]. rewrite firstn_skipn in Ht.
      assert (Hl : length (gtab (firstn i l)) = i) by (rewrite gtab_length, firstn_length_le; lia).
      rewrite Ht. rewrite firstn_app, Hl, Nat.sub_diag. cbn [firstn]. rewrite app_nil_r.
      symmetry. apply firstn_all2. lia.
  Qed.
End GTab.

Lemma nth_firstn_lt : forall {A} (l : list A) n i d, (i < n)%nat -> nth i (firstn n l) d = nth i l d.
Proof.
  intros A l. induction l as [|x l IH]; intros n i d H; [now rewrite firstn_nil|].
  destruct n; [lia|]. destruct i; cbn; [reflexivity|]. apply IH. lia.
Qed.

Definition vset_node (tab : list (list N)) (vn : vnode) : list N :=
  match vn with
  | VLeaf v => [v]
  | VInt l r => nth (N.to_nat l) tab [] ++ nth (N.to_nat r) tab []
  end.
Definition vset_tab (vn : list vnode) : list (list N) := gtab vnode (list N) vset_node vn.

Definition disjoint (a b : list N) : Prop := forall x, In x a -> ~ In x b.

Section Vt.
  Variable vn : list vnode.
  Variable v2v : list (N * N).
  Variable root : option N.

  Definition vs (i : N) : list N := nth (N.to_nat i) (vset_tab vn) [].
  Definition vat (i : N) : vnode := nth (N.to_nat i) vn (VLeaf 0).
  Definition vvalid (i : N) : Prop := (N.to_nat i < length vn)%nat.
  Definition desc (d a : N) : bool := is_desc_f (length vn) vn d a.

  Record VtOk0 : Prop := {
    vt_int : forall i l r, vvalid i -> vat i = VInt l r -> l < i /\ r < i /\ disjoint (vs l) (vs r);
    vt_map : forall v i, In (v, i) v2v -> vvalid i /\ vat i = VLeaf v;
    vt_reg : forall i v, vvalid i -> In v (vs i) -> exists j, In (v, j) v2v
  }.
  Definition RootOk : Prop :=
    match root with
    | Some r => vvalid r /\ forall i, vvalid i -> desc i r = true
    | None => vn = [] /\ v2v = []
    end.
  Definition VtOk : Prop := VtOk0 /\ RootOk.

  Hypothesis Hok : VtOk0.

  Lemma vs_leaf : forall i v, vvalid i -> vat i = VLeaf v -> vs i = [v].
  Proof.
    intros i v Hv Ha. unfold vs, vset_tab. rewrite (gtab_nth _ _ vset_node [] vn _ (VLeaf 0)) by exact Hv.
    unfold vat in Ha. rewrite Ha. reflexivity.
  Qed.
  Lemma vs_int : forall i l r, vvalid i -> vat i = VInt l r -> vs i = vs l ++ vs r.
  Proof.
    intros i l r Hv Ha. destruct (vt_int Hok i l r Hv Ha) as (Hl & Hr & _).
    unfold vs, vset_tab. rewrite (gtab_nth _ _ vset_node [] vn _ (VLeaf 0)) by exact Hv.
    unfold vat in Ha. rewrite Ha. cbn [vset_node]. rewrite gtab_firstn.
    unfold vvalid in Hv.
    rewrite !nth_firstn_lt by lia. reflexivity.
  Qed.

  (* children have smaller indices, so the fuel of is_desc_f is irrelevant once it exceeds the node *)
  Lemma desc_fuel : forall a f f' d, (a < f)%nat -> (a < f')%nat ->
    is_desc_f f vn d (N.of_nat a) = is_desc_f f' vn d (N.of_nat a).
  Proof.
    induction a as [a IH] using lt_wf_ind. intros f f' d Hf Hf'.
    destruct f as [|f]; [lia|]. destruct f' as [|f']; [lia|]. cbn [is_desc_f].
    destruct (d =? N.of_nat a); [reflexivity|].
    rewrite Nnat.Nat2N.id.
    destruct (nth a vn (VLeaf 0)) as [v|l r] eqn:E; [reflexivity|].
    destruct (Nat.lt_ge_cases a (length vn)) as [Hlt|Hge].
    2:{ rewrite nth_overflow in E by lia. discriminate. }
    assert (Hv : vvalid (N.of_nat a)) by (unfold vvalid; now rewrite Nnat.Nat2N.id).
    assert (Ha : vat (N.of_nat a) = VInt l r) by (unfold vat; now rewrite Nnat.Nat2N.id).
    destruct (vt_int Hok _ l r Hv Ha) as (Hl & Hr & _).
    rewrite <- (Nnat.N2Nat.id l), <- (Nnat.N2Nat.id r).
    rewrite (IH (N.to_nat l) ltac:(lia) f f'), (IH (N.to_nat r) ltac:(lia) f f'); try lia. reflexivity.
  Qed.

  Lemma desc_refl : forall a, desc a a = true.
  Proof. intros a. unfold desc. destruct (length vn); cbn; now rewrite N.eqb_refl. Qed.

  Lemma desc_int : forall d a l r, vvalid a -> vat a = VInt l r ->
    desc d a = (d =? a) || desc d l || desc d r.
  Proof.
    intros d a l r Hv Ha. unfold desc. unfold vvalid in Hv.
    destruct (length vn) as [|n] eqn:En; [lia|]. cbn [is_desc_f].
    destruct (d =? a); [reflexivity|]. unfold vat in Ha. rewrite Ha. cbn [orb].
    destruct (vt_int Hok a l r ltac:(unfold vvalid; lia) ltac:(unfold vat; exact Ha)) as (Hl & Hr & _).
    rewrite <- (Nnat.N2Nat.id l), <- (Nnat.N2Nat.id r).
    rewrite (desc_fuel (N.to_nat l) n (S n)), (desc_fuel (N.to_nat r) n (S n)); try lia. reflexivity.
  Qed.

  Lemma desc_nonint : forall d a, (forall l r, vat a <> VInt l r) -> desc d a = (d =? a).
  Proof.
    intros d a H. unfold desc. destruct (length vn) as [|n]; cbn [is_desc_f]; destruct (d =? a); try reflexivity.
    fold (vat a). destruct (vat a) as [v|l r] eqn:E; [reflexivity|]. exfalso. eapply H; eauto.
  Qed.

  Lemma desc_valid_int : forall d a, desc d a = true -> d <> a -> vvalid a /\ exists l r, vat a = VInt l r.
  Proof.
    intros d a H Hne. destruct (vat a) as [v|l r] eqn:E.
    - rewrite desc_nonint in H by (intros l r; congruence). apply N.eqb_eq in H. contradiction.
    - split; [|eauto]. unfold vvalid. destruct (Nat.lt_ge_cases (N.to_nat a) (length vn)); [assumption|].
      unfold vat in E. rewrite nth_overflow in E by lia. discriminate.
  Qed.

  Lemma desc_incl : forall a d, desc d (N.of_nat a) = true -> incl (vs d) (vs (N.of_nat a)).
  Proof.
    induction a as [a IH] using lt_wf_ind. intros d H.
    destruct (N.eq_dec d (N.of_nat a)) as [->|Hne]; [apply incl_refl|].
    destruct (desc_valid_int _ _ H Hne) as [Hv (l & r & Ha)].
    rewrite (desc_int d _ l r Hv Ha) in H. rewrite (vs_int _ l r Hv Ha).
    destruct (vt_int Hok _ l r Hv Ha) as (Hl & Hr & _).
    apply orb_prop in H as [H|H]; [apply orb_prop in H as [H|H]|].
    - apply N.eqb_eq in H. contradiction.
    - rewrite <- (Nnat.N2Nat.id l) in H |- *. apply incl_appl. apply IH; [lia | exact H].
    - rewrite <- (Nnat.N2Nat.id r) in H |- *. apply incl_appr. apply IH; [lia | exact H].
  Qed.

  Lemma desc_incl' : forall a d, desc d a = true -> incl (vs d) (vs a).
  Proof. intros a d H. rewrite <- (Nnat.N2Nat.id a) in H |- *. now apply desc_incl. Qed.

  Lemma desc_trans : forall c a b, desc a b = true -> desc b (N.of_nat c) = true -> desc a (N.of_nat c) = true.
  Proof.
    induction c as [c IH] using lt_wf_ind. intros a b Hab Hbc.
    destruct (N.eq_dec b (N.of_nat c)) as [->|Hne]; [exact Hab|].
    destruct (desc_valid_int _ _ Hbc Hne) as [Hv (l & r & Ha)].
    rewrite (desc_int b _ l r Hv Ha) in Hbc. rewrite (desc_int a _ l r Hv Ha).
    destruct (vt_int Hok _ l r Hv Ha) as (Hl & Hr & _).
    apply orb_prop in Hbc as [H|H]; [apply orb_prop in H as [H|H]|].
    - apply N.eqb_eq in H. contradiction.
    - rewrite <- (Nnat.N2Nat.id l) in H |- *. rewrite (IH (N.to_nat l) ltac:(lia) a b Hab H). now rewrite orb_true_r.
    - rewrite <- (Nnat.N2Nat.id r) in H |- *. rewrite (IH (N.to_nat r) ltac:(lia) a b Hab H). now rewrite orb_true_r.
  Qed.
  Lemma desc_trans' : forall a b c, desc a b = true -> desc b c = true -> desc a c = true.
  Proof. intros a b c H1 H2. rewrite <- (Nnat.N2Nat.id c) in H2 |- *. eapply desc_trans; eauto. Qed.

  (* a proper descendant of an internal node lies under one of the children *)
  Lemma desc_children : forall d a l r, vat a = VInt l r -> desc d a = true -> d <> a ->
    desc d l = true \/ desc d r = true.
  Proof.
    intros d a l r Ha H Hne. destruct (desc_valid_int _ _ H Hne) as [Hv _].
    rewrite (desc_int d a l r Hv Ha) in H.
    apply orb_prop in H as [H|H]; [apply orb_prop in H as [H|H]|]; auto.
    apply N.eqb_eq in H. contradiction.
  Qed.

  (* ---- find_parent / ancestors / find_lca ------------------------------------------------------- *)
  Lemma find_parent_sound : forall (l : list vnode) idx node p,
    find_parent l idx node = Some p ->
    exists k x y, p = idx + N.of_nat k /\ nth_error l k = Some (VInt x y) /\ (x = node \/ y = node).
  Proof.
    induction l as [|[v|x y] l IH]; intros idx node p H; cbn in H; [discriminate| |].
    - destruct (IH _ _ _ H) as (k & x & y & -> & Hk & Hxy). exists (S k), x, y. split; [lia|]. split; assumption.
    - destruct ((x =? node) || (y =? node)) eqn:E.
      + injection H as <-. exists 0%nat, x, y. split; [lia|]. split; [reflexivity|].
        apply orb_prop in E as [E|E]; apply N.eqb_eq in E; auto.
      + destruct (IH _ _ _ H) as (k & x' & y' & -> & Hk & Hxy). exists (S k), x', y'. split; [lia|]. split; assumption.
  Qed.

  Lemma parent_desc : forall node p, find_parent vn 0 node = Some p -> desc node p = true.
  Proof.
    intros node p H. destruct (find_parent_sound _ _ _ _ H) as (k & x & y & -> & Hk & Hxy).
    assert (Hlt : (k < length vn)%nat) by (apply nth_error_Some; congruence).
    assert (Hv : vvalid (0 + N.of_nat k)) by (unfold vvalid; rewrite N.add_0_l, Nnat.Nat2N.id; exact Hlt).
    assert (Ha : vat (0 + N.of_nat k) = VInt x y).
    { unfold vat. rewrite N.add_0_l, Nnat.Nat2N.id. now apply nth_error_nth. }
    rewrite (desc_int node _ x y Hv Ha). destruct Hxy as [<-|<-]; rewrite desc_refl; now rewrite ?orb_true_r.
  Qed.

  Lemma anc_sound : forall f node x, In x (ancestors_f f vn node) -> desc node x = true.
  Proof.
    induction f as [|f IH]; intros node x H; cbn in H.
    - destruct H as [<-|[]]. apply desc_refl.
    - destruct H as [<-|H]; [apply desc_refl|].
      destruct (find_parent vn 0 node) as [p|] eqn:E; [|destruct H].
      eapply desc_trans'; [apply parent_desc; exact E | apply IH; exact H].
  Qed.

  Lemma lca_sound : forall va vb t,
    RootOk -> vvalid va -> vvalid vb ->
    match find (fun x => nmem x (ancestors_f (length vn) vn vb)) (ancestors_f (length vn) vn va) with
    | Some x => Some x
    | None => root
    end = Some t ->
    desc va t = true /\ desc vb t = true.
  Proof.
    intros va vb t HR Hva Hvb H.
    destruct (find _ _) as [x|] eqn:E.
    - injection H as <-. apply find_some in E as [E1 E2]. split; [eapply anc_sound; eauto|].
      unfold nmem in E2. apply existsb_exists in E2 as [y [Hy Hxy]]. apply N.eqb_eq in Hxy. subst y.
      eapply anc_sound; eauto.
    - unfold RootOk in HR. rewrite H in HR. destruct HR as [_ Hr]. split; apply Hr; assumption.
  Qed.
End Vt.

(* ---- growth: ensure_variable_weights ----------------------------------------------------------------- *)
Lemma alookupN_in : forall v (l : list (N * N)) i, alookup N.eqb v l = Some i -> In (v, i) l.
Proof.
  intros v l i. induction l as [|[k x] l IH]; cbn; [discriminate|].
  destruct (v =? k) eqn:E; [intros [= <-]; apply N.eqb_eq in E; subst; now left | intros H; right; auto].
Qed.
Lemma alookupN_none : forall v (l : list (N * N)), alookup N.eqb v l = None -> forall j, ~ In (v, j) l.
Proof.
  intros v l. induction l as [|[k x] l IH]; cbn; intros H j; [tauto|].
  destruct (v =? k) eqn:E; [discriminate|]. intros [[= -> ->]|Hin]; [rewrite N.eqb_refl in E; discriminate | eapply IH; eauto].
Qed.
Lemma alookupN_in_some : forall v (l : list (N * N)) i, In (v, i) l -> exists j, alookup N.eqb v l = Some j.
Proof.
  intros v l i. induction l as [|[k x] l IH]; cbn; [tauto|].
  destruct (v =? k) eqn:E; [eauto|]. intros [[= -> ->]|Hin]; [rewrite N.eqb_refl in E; discriminate | auto].
Qed.

Lemma vs_app : forall vn e i, vvalid vn i -> vs (vn ++ e) i = vs vn i.
Proof. intros vn e i H. unfold vs, vset_tab. now apply gtab_nth_app. Qed.
Lemma vat_app : forall vn e i, vvalid vn i -> vat (vn ++ e) i = vat vn i.
Proof. intros vn e i H. unfold vat. now apply app_nth1. Qed.

Lemma desc_app : forall vn v2v e, VtOk0 vn v2v -> forall a f d, (a < length vn)%nat -> (a < f)%nat ->
  is_desc_f f (vn ++ e) d (N.of_nat a) = is_desc_f f vn d (N.of_nat a).
Proof.
  intros vn v2v e Hok. induction a as [a IH] using lt_wf_ind. intros f d Ha Hf.
  destruct f as [|f]; [lia|]. cbn [is_desc_f]. destruct (d =? N.of_nat a); [reflexivity|].
  rewrite Nnat.Nat2N.id. rewrite app_nth1 by lia.
  destruct (nth a vn (VLeaf 0)) as [v|l r] eqn:E; [reflexivity|].
  assert (Hv : vvalid vn (N.of_nat a)) by (unfold vvalid; now rewrite Nnat.Nat2N.id).
  assert (Hat : vat vn (N.of_nat a) = VInt l r) by (unfold vat; now rewrite Nnat.Nat2N.id).
  destruct (vt_int _ _ Hok _ l r Hv Hat) as (Hl & Hr & _).
  rewrite <- (Nnat.N2Nat.id l), <- (Nnat.N2Nat.id r).
  rewrite (IH (N.to_nat l)), (IH (N.to_nat r)); try lia. reflexivity.
Qed.

Lemma desc_grow : forall vn v2v e d a, VtOk0 vn v2v -> vvalid vn a -> desc (vn ++ e) d a = desc vn d a.
Proof.
  intros vn v2v e d a Hok Hv. unfold desc. unfold vvalid in Hv.
  rewrite <- (Nnat.N2Nat.id a).
  rewrite (desc_app vn v2v e Hok) by (rewrite ?app_length; lia).
  apply (desc_fuel vn v2v Hok); rewrite ?app_length; lia.
Qed.

Lemma vtok_unchanged : forall vn v2v root, VtOk vn v2v root -> VtOk vn v2v root.
Proof. auto. Qed.

Lemma grow_first : forall var, VtOk [VLeaf var] [(var, 0)] (Some 0).
Proof.
  intros var.
  assert (H1 : forall i, vvalid [VLeaf var] i -> i = 0).
  { intros i H. unfold vvalid in H. cbn in H. lia. }
  split; [constructor|].
  - intros i l r Hv Ha. rewrite (H1 i Hv) in Ha. discriminate.
  - intros v i [[= <- <-]|[]]. split; [unfold vvalid; cbn; lia | reflexivity].
  - intros i v Hv Hin. rewrite (H1 i Hv) in Hin. cbn in Hin. destruct Hin as [<-|[]]. exists 0. now left.
  - cbn. split; [unfold vvalid; cbn; lia|]. intros i Hv. rewrite (H1 i Hv). reflexivity.
Qed.

Lemma grow_more : forall vn v2v old var,
  VtOk vn v2v (Some old) -> alookup N.eqb var v2v = None ->
  let leaf := N.of_nat (length vn) in
  VtOk (vn ++ [VLeaf var; VInt leaf old]) ((var, leaf) :: v2v) (Some (leaf + 1)).
Proof.
  intros vn v2v old var [Hok HR] Hnone leaf. cbn in HR. destruct HR as [Hvold Hall].
  set (vn' := vn ++ [VLeaf var; VInt leaf old]).
  assert (Hlen : length vn' = S (S (length vn))) by (unfold vn'; rewrite app_length; cbn; lia).
  assert (Hold : forall i, vvalid vn i -> vvalid vn' i) by (unfold vvalid; intros; lia).
  assert (Hleafv : vvalid vn' leaf) by (unfold vvalid, leaf; rewrite Nnat.Nat2N.id; lia).
  assert (Hrootv : vvalid vn' (leaf + 1)) by (unfold vvalid, leaf; rewrite Nnat.N2Nat.inj_add, Nnat.Nat2N.id; cbn; lia).
  assert (Hcases : forall i, vvalid vn' i -> vvalid vn i \/ i = leaf \/ i = leaf + 1).
  { intros i H. unfold vvalid in *. rewrite Hlen in H. unfold leaf.
    destruct (Nat.lt_ge_cases (N.to_nat i) (length vn)); [now left|]. right.
    destruct (Nat.eq_dec (N.to_nat i) (length vn)); [left | right]; lia. }
  assert (Hatleaf : vat vn' leaf = VLeaf var).
  { unfold vat, vn', leaf. rewrite Nnat.Nat2N.id, app_nth2, Nat.sub_diag by lia. reflexivity. }
  assert (Hatroot : vat vn' (leaf + 1) = VInt leaf old).
  { unfold vat, vn', leaf. rewrite Nnat.N2Nat.inj_add, Nnat.Nat2N.id, app_nth2 by lia.
    replace (length vn + N.to_nat 1 - length vn)%nat with 1%nat by (cbn; lia). reflexivity. }
  assert (Hvsleaf : vs vn' leaf = [var]).
  { unfold vs, vset_tab. rewrite (gtab_nth _ _ vset_node [] vn' _ (VLeaf 0)) by exact Hleafv.
    fold (vat vn' leaf). now rewrite Hatleaf. }
  assert (Hvsroot : vs vn' (leaf + 1) = [var] ++ vs vn old).
  { unfold vs at 1. unfold vset_tab. rewrite (gtab_nth _ _ vset_node [] vn' _ (VLeaf 0)) by exact Hrootv.
    fold (vat vn' (leaf + 1)). rewrite Hatroot. cbn [vset_node]. rewrite gtab_firstn.
    unfold vvalid in *. rewrite !nth_firstn_lt by (unfold leaf; rewrite Nnat.N2Nat.inj_add, ?Nnat.Nat2N.id; cbn; lia).
    fold (vset_tab vn'). fold (vs vn' leaf). fold (vs vn' old). rewrite Hvsleaf.
    unfold vn'. now rewrite vs_app by exact Hvold. }
  assert (Hok' : VtOk0 vn' ((var, leaf) :: v2v)).
  { constructor.
    - intros i l r Hv Ha. destruct (Hcases i Hv) as [Hi|[->| ->]].
      + unfold vn' in Ha. rewrite vat_app in Ha by exact Hi.
        destruct (vt_int _ _ Hok i l r Hi Ha) as (A & B & C). split; [exact A|]. split; [exact B|].
        unfold vn'. rewrite !vs_app; [exact C | unfold vvalid in *; lia | unfold vvalid in *; lia].
      + rewrite Hatleaf in Ha. discriminate.
      + rewrite Hatroot in Ha. injection Ha as <- <-.
        split; [lia|]. split; [unfold vvalid, leaf in *; lia|].
        rewrite Hvsleaf. unfold vn'. rewrite vs_app by exact Hvold.
        intros x Hx Hin. destruct Hx as [Hx|[]]. subst x. destruct (vt_reg _ _ Hok old var Hvold Hin) as [j Hj].
        exact (alookupN_none _ _ Hnone j Hj).
    - intros v i [[= <- <-]|Hin]; [split; assumption|].
      destruct (vt_map _ _ Hok v i Hin) as [A B]. split; [auto|]. unfold vn'. now rewrite vat_app.
    - intros i v Hv Hin. destruct (Hcases i Hv) as [Hi|[->| ->]].
      + unfold vn' in Hin. rewrite vs_app in Hin by exact Hi.
        destruct (vt_reg _ _ Hok i v Hi Hin) as [j Hj]. exists j. now right.
      + rewrite Hvsleaf in Hin. destruct Hin as [<-|[]]. exists leaf. now left.
      + rewrite Hvsroot in Hin. destruct Hin as [<-|Hin]; [exists leaf; now left|].
        destruct (vt_reg _ _ Hok old v Hvold Hin) as [j Hj]. exists j. now right. }
  split; [exact Hok'|]. cbn. split; [exact Hrootv|].
  intros i Hv. rewrite (desc_int vn' _ Hok' i (leaf + 1) leaf old Hrootv Hatroot).
  destruct (Hcases i Hv) as [Hi|[->| ->]].
  - unfold vn'. rewrite (desc_grow vn v2v _ i old Hok Hvold). rewrite (Hall i Hi). now rewrite orb_true_r.
  - rewrite (desc_refl vn'). now rewrite orb_true_r.
  - now rewrite N.eqb_refl.
Qed.
