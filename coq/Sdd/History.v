(* Histories of manager operations: what a user of the API does.  Every operation is either the
   plain one (budget None = `unlimited`) or its budgeted twin with an arbitrary node limit and an
   arbitrary sequence of answers of the deadline callback.  Each history has a specification: the
   formula of every handle slot (FALSE for a slot whose operation reported exhaustion). *)
Require Import KV.Sdd.Model KV.Sdd.Sem KV.Sdd.Spec.

Definition budspec := option (option N * list bool).   (* None = the unbudgeted twin *)

Inductive op :=
| OVar (v : N) (pos neg : Q) (k : vkind)            (* ensure_variable_weights *)
| OLit (v : N) (pol : bool) (b : budspec)
| OApply (i j : N) (o : bop) (b : budspec)          (* operands are slots of earlier handles *)
| ONeg (i : N) (b : budspec)
| OEo (vs : list N) (b : budspec).

Definition mkbud (b : budspec) : budget :=
  match b with None => unlimited | Some (l, o) => Bud l o 0 end.

Definition rcode {A} (r : res A) : N :=
  match r with Ok _ => 0 | Err Deadline => 1 | Err NodeBudget => 2 | Fuel => 3 | Panic => 4 end.

(* state of a run: manager, handles produced so far (0 = FALSE for a failed operation),
   spec formula of every handle *)
Record rstate := RS { rm : mgr; rh : list N; rf : list form }.
Definition rinit := RS mgr_new [] [].

Definition hnd (s : rstate) (i : N) : N := nth (N.to_nat i) (rh s) 0.
Definition frm (s : rstate) (i : N) : form := nth (N.to_nat i) (rf s) FFalse.

Definition exec (s : rstate) (c : M N) (b : budspec) (f : form) : rstate * (N * N * N * N) :=
  match c (rm s, mkbud b) with
  | ((m', b'), r) =>
      let h := match r with Ok h => h | _ => 0 end in
      let f' := match r with Ok _ => f | _ => FFalse end in
      (RS m' (rh s ++ [h]) (rf s ++ [f']), (rcode r, h, ticks b', node_count m'))
  end.

Definition step (fuel : nat) (s : rstate) (o : op) : rstate * (N * N * N * N) :=
  match o with
  | OVar v p n k => (RS (ensure_variable_weights v p n k (rm s)) (rh s) (rf s), (9, 0, 0, node_count (rm s)))
  | OLit v pol b => exec s (literal v pol) b (FLit v pol)
  | OApply i j o b => exec s (apply_f fuel (hnd s i) (hnd s j) o) b
                        (match o with And => FAnd (frm s i) (frm s j) | Or => FOr (frm s i) (frm s j) end)
  | ONeg i b => exec s (negate_f fuel (hnd s i)) b (FNot (frm s i))
  | OEo vs b => exec s (exactly_one fuel vs) b (FExactlyOne vs)
  end.

Fixpoint run_from (fuel : nat) (s : rstate) (ops : list op) : rstate * list (N * N * N * N) :=
  match ops with
  | [] => (s, [])
  | o :: t => let (s1, r) := step fuel s o in let (s2, rs) := run_from fuel s1 t in (s2, r :: rs)
  end.
