(* Lemmas about the denotation: bottom-up evaluation is stable under appending nodes; values of
   handles (`hasL`), of element lists (`els_hasL`); pure Boolean facts about partitions. *)
Require Import KV.Sdd.Model KV.Sdd.Sem KV.Sdd.Spec.
Require Import Lia Permutation.

(* ---- eval_arena ------------------------------------------------------------------------------ *)
Lemma fold_eval_app : forall sigma l acc,
  fold_left (fun vals n => vals ++ [eval_node sigma vals n]) l acc =
  acc ++ skipn (length acc) (fold_left (fun vals n => vals ++ [eval_node sigma vals n]) l acc).
Proof.
  intros sigma l; induction l as [|n l IH]; intros acc; cbn [fold_left].
  - rewrite skipn_all. now rewrite app_nil_r.
  - rewrite IH at 1. rewrite IH.
    set (r := fold_left _ l _).
    rewrite app_length; cbn [length].
    rewrite <- app_assoc. f_equal.
    replace (length acc + 1)%nat with (length (acc ++ [eval_node sigma acc n])) by (rewrite app_length; reflexivity).
    assert (H : forall (a : list bool) b, skipn (length a) (a ++ b) = b).
    { intros a b. rewrite skipn_app, skipn_all, Nat.sub_diag. reflexivity. }
    rewrite !H. rewrite <- app_assoc. rewrite H. reflexivity.
Qed.

Lemma eval_arena_snoc : forall sigma l n,
  eval_arena sigma (l ++ [n]) = eval_arena sigma l ++ [eval_node sigma (eval_arena sigma l) n].
Proof. intros. unfold eval_arena. rewrite fold_left_app. reflexivity. Qed.

Lemma eval_arena_length : forall sigma l, length (eval_arena sigma l) = length l.
Proof.
  intros sigma l. induction l as [|n l IH] using rev_ind; [reflexivity|].
  rewrite eval_arena_snoc, !app_length, IH. reflexivity.
Qed.

Lemma eval_arena_app : forall sigma l l',
  exists t, eval_arena sigma (l ++ l') = eval_arena sigma l ++ t.
Proof.
  intros sigma l l'. induction l' as [|n l' IH] using rev_ind.
  - exists []. now rewrite !app_nil_r.
  - destruct IH as [t Ht]. rewrite app_assoc, eval_arena_snoc, Ht.
    eexists. rewrite <- app_assoc. reflexivity.
Qed.

Lemma eval_arena_nth_app : forall sigma l l' i,
  (i < length l)%nat -> nth i (eval_arena sigma (l ++ l')) false = nth i (eval_arena sigma l) false.
Proof.
  intros sigma l l' i Hi. destruct (eval_arena_app sigma l l') as [t Ht]. rewrite Ht.
  apply app_nth1. now rewrite eval_arena_length.
Qed.

Lemma eval_arena_nth : forall sigma l i,
  (i < length l)%nat ->
  nth i (eval_arena sigma l) false = eval_node sigma (eval_arena sigma (firstn i l)) (nth i l NFalse).
Proof.
  intros sigma l i Hi.
  rewrite <- (firstn_skipn i l) at 1.
  destruct (skipn i l) as [|n t] eqn:Hs.
  - exfalso. assert (length (skipn i l) = 0%nat) by now rewrite Hs. rewrite skipn_length in H. lia.
  - assert (Hn : nth i l NFalse = n).
    { rewrite <- (firstn_skipn i l) at 1. rewrite Hs.
      rewrite app_nth2; rewrite firstn_length_le by lia; [|lia]. now rewrite Nat.sub_diag. }
    rewrite Hn.
    change (n :: t) with ([n] ++ t). rewrite app_assoc.
    rewrite eval_arena_nth_app by (rewrite app_length, firstn_length_le by lia; cbn; lia).
    rewrite eval_arena_snoc. rewrite app_nth2; rewrite eval_arena_length, firstn_length_le by lia; [|lia].
    now rewrite Nat.sub_diag.
Qed.

(* ---- values under a fixed assignment ----------------------------------------------------------- *)
Section Sigma.
  Variable sigma : asg.

  Definition val (l : list node) (id : N) : bool := nth (N.to_nat id) (eval_arena sigma l) false.
  Definition validL (l : list node) (id : N) : Prop := (N.to_nat id < length l)%nat.
  Definition hasL (l : list node) (id : N) (x : bool) : Prop := validL l id /\ val l id = x.

  Lemma hasL_app : forall l l' id x, hasL l id x -> hasL (l ++ l') id x.
  Proof.
    unfold hasL, validL, val. intros l l' id x [Hv Hx]. split.
    - rewrite app_length. lia.
    - now rewrite eval_arena_nth_app.
  Qed.

  Lemma hasL_fun : forall l id x y, hasL l id x -> hasL l id y -> x = y.
  Proof. unfold hasL. intros l id x y [_ H1] [_ H2]. congruence. Qed.

  Definition bvals := list (bool * bool).
  Definition els_hasL (l : list node) (els : list elem) (bs : bvals) : Prop :=
    Forall2 (fun e b => hasL l (fst e) (fst b) /\ hasL l (snd e) (snd b)) els bs.

  Lemma els_hasL_app : forall l l' els bs, els_hasL l els bs -> els_hasL (l ++ l') els bs.
  Proof.
    unfold els_hasL. intros l l' els bs H. induction H; constructor; auto.
    destruct H as [H1 H2]. split; now apply hasL_app.
  Qed.

  Lemma els_hasL_fun : forall l els bs bs', els_hasL l els bs -> els_hasL l els bs' -> bs = bs'.
  Proof.
    unfold els_hasL. intros l els bs bs' H. revert bs'. induction H as [|e b els bs [H1 H2] H IH]; intros bs' H'.
    - now inversion H'.
    - inversion H' as [|? b' ? bs'' [H1' H2'] H'']; subst. f_equal; [|now apply IH].
      destruct b, b'; cbn in *. f_equal; eapply hasL_fun; eauto.
  Qed.

  Definition evalE (bs : bvals) : bool := existsb (fun b => fst b && snd b) bs.
  Definition cnt (bs : bvals) : nat := count_true (map fst bs).
  Definition part (bs : bvals) : Prop := cnt bs = 1%nat.

  Lemma eval_els_has : forall l els bs, els_hasL l els bs -> eval_els (eval_arena sigma l) els = evalE bs.
  Proof.
    unfold els_hasL, eval_els, evalE. intros l els bs H. induction H as [|e b els bs [[_ H1] [_ H2]] H IH]; [reflexivity|].
    cbn [existsb]. rewrite IH. unfold val in H1, H2. now rewrite H1, H2.
  Qed.

  (* ---- well-formed arenas -------------------------------------------------------------------- *)
  Definition node_okL (l : list node) (n : node) : Prop :=
    match n with
    | NDec _ els => exists bs, els_hasL l els bs /\ part bs
    | _ => True
    end.

  Definition arena_ok (l : list node) : Prop :=
    (exists t, l = NFalse :: NTrue :: t) /\
    forall k, (k < length l)%nat -> node_okL (firstn k l) (nth k l NFalse).

  Lemma arena_ok_snoc : forall l n, arena_ok l -> node_okL l n -> arena_ok (l ++ [n]).
  Proof.
    intros l n [[t Ht] Hk] Hn. split.
    - exists (t ++ [n]). now rewrite Ht.
    - intros k Hlt. rewrite app_length in Hlt; cbn in Hlt.
      destruct (Nat.eq_dec k (length l)) as [->|Hne].
      + rewrite firstn_app, firstn_all, Nat.sub_diag, app_nil_r. cbn [firstn].
        rewrite app_nth2, Nat.sub_diag by lia. exact Hn.
      + rewrite firstn_app. replace (k - length l)%nat with 0%nat by lia. cbn [firstn]. rewrite app_nil_r.
        rewrite app_nth1 by lia. apply Hk. lia.
  Qed.

  Lemma has_false : forall l, arena_ok l -> hasL l 0 false.
  Proof.
    intros l [[t ->] _]. split; [unfold validL; cbn; lia |].
    unfold val. rewrite eval_arena_nth by (cbn; lia). reflexivity.
  Qed.
  Lemma has_true : forall l, arena_ok l -> hasL l 1 true.
  Proof.
    intros l [[t ->] _]. split; [unfold validL; cbn; lia |].
    unfold val. rewrite eval_arena_nth by (cbn; lia). reflexivity.
  Qed.

  Lemma firstn_app_skip : forall (l : list node) k, exists t, l = firstn k l ++ t.
  Proof. intros l k. exists (skipn k l). now rewrite firstn_skipn. Qed.

  Lemma val_dec : forall l id vt els bs,
    arena_ok l -> validL l id -> nth (N.to_nat id) l NFalse = NDec vt els -> els_hasL l els bs ->
    val l id = evalE bs.
  Proof.
    intros l id vt els bs [_ Hk] Hv Hn Hh. unfold val.
    rewrite eval_arena_nth by exact Hv. rewrite Hn. cbn [eval_node].
    specialize (Hk _ Hv). rewrite Hn in Hk. destruct Hk as [bs' [Hh' _]].
    rewrite (eval_els_has _ _ _ Hh').
    destruct (firstn_app_skip l (N.to_nat id)) as [t Ht].
    assert (Hh'' : els_hasL l els bs') by (rewrite Ht; now apply els_hasL_app).
    now rewrite (els_hasL_fun _ _ _ _ Hh Hh'').
  Qed.

  Lemma dec_parts : forall l id vt els,
    arena_ok l -> validL l id -> nth (N.to_nat id) l NFalse = NDec vt els ->
    exists bs, els_hasL l els bs /\ part bs /\ val l id = evalE bs.
  Proof.
    intros l id vt els Hok Hv Hn. destruct Hok as [Hh Hk].
    pose proof (Hk _ Hv) as H. rewrite Hn in H. destruct H as [bs [Hb Hp]].
    destruct (firstn_app_skip l (N.to_nat id)) as [t Ht].
    assert (Hb' : els_hasL l els bs) by (rewrite Ht; now apply els_hasL_app).
    exists bs. repeat split; auto. eapply val_dec; eauto. split; auto.
  Qed.

  Lemma val_lit : forall l id v pol,
    validL l id -> nth (N.to_nat id) l NFalse = NLit v pol -> val l id = Bool.eqb (sigma v) pol.
  Proof. intros l id v pol Hv Hn. unfold val. rewrite eval_arena_nth by exact Hv. now rewrite Hn. Qed.

  (* ---- pure facts about value lists ------------------------------------------------------------ *)
  Lemma cnt_app : forall a b, cnt (a ++ b) = (cnt a + cnt b)%nat.
  Proof. unfold cnt, count_true. intros. now rewrite map_app, filter_app, app_length. Qed.
  Lemma evalE_app : forall a b, evalE (a ++ b) = evalE a || evalE b.
  Proof. unfold evalE. intros. now rewrite existsb_app. Qed.
  Lemma cnt_cons : forall x y bs, cnt ((x, y) :: bs) = ((if x then 1 else 0) + cnt bs)%nat.
  Proof. unfold cnt, count_true. intros. cbn. destruct x; reflexivity. Qed.

  Lemma cnt_perm : forall a b, Permutation a b -> cnt a = cnt b.
  Proof.
    intros a b H. induction H.
    - reflexivity.
    - destruct x. rewrite !cnt_cons. lia.
    - destruct x, y. rewrite !cnt_cons. lia.
    - congruence.
  Qed.
  Lemma evalE_perm : forall a b, Permutation a b -> evalE a = evalE b.
  Proof.
    unfold evalE. intros a b H. induction H; cbn; auto.
    - now rewrite IHPermutation.
    - destruct (fst x && snd x), (fst y && snd y); reflexivity.
    - congruence.
  Qed.

  (* negating the subs of a partition negates the node *)
  Lemma evalE_neg : forall bs, part bs ->
    evalE (map (fun b => (fst b, negb (snd b))) bs) = negb (evalE bs).
  Proof.
    unfold part. intros bs. induction bs as [|[x y] bs IH]; intros H.
    - discriminate.
    - rewrite cnt_cons in H. cbn [map evalE existsb fst snd]. destruct x.
      + assert (H0 : cnt bs = 0%nat) by lia.
        assert (Hz : forall f, existsb (fun b : bool * bool => fst b && f (snd b)) bs = false).
        { clear - H0. induction bs as [|[x y] bs IH]; intros f; [reflexivity|].
          rewrite cnt_cons in H0. destruct x; [lia|]. cbn. apply IH. lia. }
        unfold evalE. rewrite (Hz (fun s => s)).
        assert (Hm : existsb (fun b : bool * bool => fst b && snd b) (map (fun b => (fst b, negb (snd b))) bs) = false).
        { rewrite <- (Hz negb). clear. induction bs as [|[x y] bs IH]; [reflexivity|]. cbn. now rewrite IH. }
        rewrite Hm. cbn. destruct y; reflexivity.
      + cbn. apply IH. lia.
  Qed.

  (* ---- cross products of partitions (apply_same_vtree) -------------------------------------------- *)
  Definition gpair := ((bool * bool) * (bool * bool))%type.
  Definition cntP (dG : list gpair) : nat := length (filter (fun g => fst (fst g) && fst (snd g)) dG).
  Definition evP (o : bop) (dG : list gpair) : bool :=
    existsb (fun g => fst (fst g) && fst (snd g) && bop_sem o (snd (fst g)) (snd (snd g))) dG.
  Definition anyp (bs : bvals) : bool := existsb (fun b => fst b) bs.

  Lemma cntP_app : forall a b, cntP (a ++ b) = (cntP a + cntP b)%nat.
  Proof. intros. unfold cntP. now rewrite filter_app, app_length. Qed.
  Lemma evP_app : forall o a b, evP o (a ++ b) = evP o a || evP o b.
  Proof. intros. unfold evP. now rewrite existsb_app. Qed.

  Lemma anyp_pos : forall bs, (0 < cnt bs)%nat -> anyp bs = true.
  Proof.
    induction bs as [|[x y] bs IH]; intros H; [cbn in H; lia|]. rewrite cnt_cons in H.
    cbn. destruct x; [reflexivity|]. apply IH. lia.
  Qed.

  Lemma cntP_row : forall a B, cntP (map (fun y => (a, y)) B) = if fst a then cnt B else 0%nat.
  Proof.
    intros [xa ya] B. induction B as [|[xb yb] B IH]; [destruct xa; reflexivity|].
    cbn [map]. unfold cntP in *. cbn [filter fst snd]. rewrite cnt_cons.
    destruct xa, xb; cbn [andb length]; rewrite IH; reflexivity.
  Qed.
  Lemma evP_row : forall o a B,
    evP o (map (fun y => (a, y)) B) =
    fst a && match o with And => snd a && evalE B | Or => (snd a && anyp B) || evalE B end.
  Proof.
    intros o [xa ya] B. induction B as [|[xb yb] B IH].
    - cbn. destruct o, xa, ya; reflexivity.
    - cbn [map]. unfold evP, evalE, anyp in *. cbn [existsb fst snd]. rewrite IH.
      destruct o, xa, ya, xb, yb; cbn; try reflexivity;
        repeat (rewrite ?orb_true_r, ?orb_false_r, ?andb_true_r, ?andb_false_r; cbn); try reflexivity;
        destruct (existsb (fun b : bool * bool => fst b && snd b) B), (existsb (fun b : bool * bool => fst b) B); reflexivity.
  Qed.

  Lemma cntP_prod : forall A B, cntP (list_prod A B) = (cnt A * cnt B)%nat.
  Proof.
    induction A as [|[xa ya] A IH]; intros B; [reflexivity|].
    cbn [list_prod]. rewrite cntP_app, cntP_row, IH, cnt_cons. cbn [fst]. destruct xa; lia.
  Qed.
  Lemma evP_prod : forall o A B, part A -> part B ->
    evP o (list_prod A B) = bop_sem o (evalE A) (evalE B).
  Proof.
    intros o A B HA HB.
    assert (HaB : anyp B = true) by (apply anyp_pos; unfold part in HB; lia).
    assert (G : evP o (list_prod A B) =
                match o with And => evalE A && evalE B | Or => evalE A || (anyp A && evalE B) end).
    { clear HA. induction A as [|[xa ya] A IH]; [destruct o; reflexivity|].
      cbn [list_prod]. rewrite evP_app, evP_row, IH, HaB. unfold evalE, anyp. cbn [existsb fst snd].
      destruct o, xa, ya; cbn; try reflexivity;
        repeat (rewrite ?orb_true_r, ?orb_false_r, ?andb_true_r, ?andb_false_r; cbn); try reflexivity;
        destruct (existsb (fun b : bool * bool => fst b && snd b) B), (existsb (fun b : bool * bool => fst b && snd b) A),
                 (existsb (fun b : bool * bool => fst b) A); reflexivity. }
    rewrite G. destruct o; [reflexivity|]. rewrite anyp_pos by (unfold part in HA; lia). reflexivity.
  Qed.
End Sigma.
