(* Canonicity for managers that pass the decidable reducedness check (Reduced.v): Darwiche's argument specialised to
   the right-linear vtrees the manager builds.  Two handles with the same denotation are equal.  The induction is on the
   handles; a Decision node at vtree node vt (left leaf x) denotes  if x then sT else sF  with sT <> sF, so by induction
   its function depends on x, which separates it from everything that lives strictly below vt, from constants, and -
   by the non-trimmability - from the literals of x; two Decision nodes at the same vtree node with the same function
   have the same cofactors, hence (induction) the same elements, hence (unique table) the same handle. *)
Require Import KV.Sdd.Model KV.Sdd.Sem KV.Sdd.Spec KV.Sdd.Decomp KV.Sdd.Reduced KV.Sdd.History.
Require Import KV.Sdd.SemProofs KV.Sdd.Hoare KV.Sdd.MainProofs KV.Sdd.WmcProofs KV.Sdd.Vtree KV.Sdd.Vtree2.
Require Import KV.Sdd.DecompProofs KV.Sdd.DecompHist KV.Sdd.CubeProofs KV.Sdd.SafeProofs KV.Sdd.SafeHist.
Require Import Lia.

(* the denotation only depends on the syntactic variables *)
Lemma den_dep : forall m, MInv m -> forall id, validh m id ->
  forall s s', (forall x, In x (vars m id) -> s x = s' x) -> den m id s = den m id s'.
Proof.
  intros m Hi. apply (handle_ind m (fun id => forall s s', (forall x, In x (vars m id) -> s x = s' x) -> den m id s = den m id s')).
  intros id Hv IH s s' H. rewrite !(den_unfold m id _ Hi Hv). rewrite (vars_node_at m id Hv) in H.
  destruct (node_at m id) as [| |v p|vt els] eqn:En; try reflexivity.
  - cbn in H. now rewrite (H v (or_introl eq_refl)).
  - pose proof (refs_lt m id vt els Hi Hv En) as Hr. cbn [vars_node] in H. unfold validh in Hv.
    clear En. induction Hr as [|e els [A B] Hr IHe]; [reflexivity|]. cbn [existsb]. cbn [flat_map] in H.
    rewrite !(vars_prefix m) in H by lia.
    rewrite (IH _ A s s'), (IH _ B s s'), IHe; auto.
    + intros x Hx. apply H. apply in_or_app. now right.
    + intros x Hx. apply H. apply in_or_app. left. apply in_or_app. now right.
    + intros x Hx. apply H. apply in_or_app. left. apply in_or_app. now left.
Qed.

Definition updv (s : asg) (x : N) (b : bool) : asg := fun y => if y =? x then b else s y.

(* the shape of a Decision node in a reduced arena *)
Record dshape (m : mgr) (id vt x hT sT hF sF : N) : Prop := {
  ds_lt : node_at m hT = NLit x true;
  ds_lf : node_at m hF = NLit x false;
  ds_els : node_at m id = NDec vt (if hT <? hF then [(hT, sT); (hF, sF)] else [(hF, sF); (hT, sT)]);
  ds_ne : sT <> sF;
  ds_nt : ~ (sT = 1 /\ sF = 0);
  ds_nf : ~ (sT = 0 /\ sF = 1);
  ds_hne : hT <> hF
}.

Lemma is_lit_spec : forall m id x pol, is_lit m id x pol = true -> node_at m id = NLit x pol.
Proof.
  intros m id x pol H. unfold is_lit in H. destruct (node_at m id) as [| |v p|]; try discriminate.
  apply andb_prop in H as [A B]. apply N.eqb_eq in A. apply Bool.eqb_prop in B. now subst.
Qed.

Lemma reduced_dec : forall m id vt els, reduced_ok m = true -> validh m id -> node_at m id = NDec vt els ->
  exists l r x hT sT hF sF, vnode_at m vt = VInt l r /\ vnode_at m l = VLeaf x /\ dshape m id vt x hT sT hF sF.
Proof.
  intros m id vt els Hr Hv Hn. unfold reduced_ok in Hr. apply andb_prop in Hr as [_ Hr]. rewrite forallb_forall in Hr.
  assert (Hin : In (NDec vt els) (nodes m)) by (unfold node_at in Hn; rewrite <- Hn; apply nth_In; exact Hv).
  specialize (Hr _ Hin). cbn [reduced_node] in Hr.
  destruct (vnode_at m vt) as [?|l r] eqn:Evt; [discriminate|].
  destruct (vnode_at m l) as [x|? ?] eqn:El; [|discriminate].
  destruct els as [|[p1 s1] [|[p2 s2] [|? ?]]]; try discriminate.
  apply andb_prop in Hr as [Hr H5]. apply andb_prop in Hr as [Hr H4]. apply andb_prop in Hr as [Hr H3].
  apply andb_prop in Hr as [H1 H2]. apply N.ltb_lt in H1.
  apply negb_true_iff, N.eqb_neq in H3.
  apply negb_true_iff in H4, H5.
  assert (N4 : ~ (s1 = 1 /\ s2 = 0)) by (intros [-> ->]; cbn in H4; discriminate).
  assert (N5 : ~ (s2 = 1 /\ s1 = 0)) by (intros [-> ->]; cbn in H5; discriminate).
  exists l, r, x. apply orb_prop in H2 as [H2|H2]; apply andb_prop in H2 as [A B]; apply is_lit_spec in A, B.
  - exists p1, s1, p2, s2. split; [reflexivity|]. split; [exact El|].
    assert (E : (p1 <? p2) = true) by now apply N.ltb_lt.
    constructor; [exact A | exact B | now rewrite E | exact H3 | exact N4 | | lia].
    intros [-> ->]. apply N5. auto.
  - exists p2, s2, p1, s1. split; [reflexivity|]. split; [exact El|].
    assert (E : (p2 <? p1) = false) by (apply N.ltb_ge; lia).
    constructor; [exact B | exact A | now rewrite E | congruence | exact N5 | | lia].
    intros [-> ->]. apply N4. auto.
Qed.

Section Canon.
  Variable m : mgr.
  Variable vn : list vnode.
  Variable v2v : list (N * N).
  Variable root : option N.
  Hypothesis Hi : MInv m.
  Hypothesis HVt : VtOk vn v2v root.
  Hypothesis HU : PUniq vn root.
  Hypothesis Hd : DInv vn v2v root m.
  Hypothesis Hp : PInv vn v2v root m.
  Hypothesis Hr : reduced_ok m = true.
  Let H0 : VtOk0 vn v2v := proj1 HVt.

  Lemma vat_vnode : forall t, vnode_at m t = vat vn t.
  Proof. intros t. unfold vnode_at, vat. now rewrite (p_vn _ _ _ _ Hp). Qed.

  Lemma den_const0 : forall s, den m 0 s = false.
  Proof. intros s. apply (has_den_eq _ _ _ _ (has0 s m (Hi s))). Qed.
  Lemma den_const1 : forall s, den m 1 s = true.
  Proof. intros s. apply (has_den_eq _ _ _ _ (has1 s m (Hi s))). Qed.
  Lemma den_litn : forall id x p, validh m id -> node_at m id = NLit x p -> forall s, den m id s = Bool.eqb (s x) p.
  Proof. intros id x p V Nn s. apply (has_den_eq _ _ _ _ (has_lit s m id x p V Nn)). Qed.

  (* facts about a shaped Decision node *)
  Section Shape.
    Variables id vt l r x hT sT hF sF : N.
    Hypothesis Vid : validh m id.
    Hypothesis Hvt : vat vn vt = VInt l r.
    Hypothesis Hl : vat vn l = VLeaf x.
    Hypothesis Hs : dshape m id vt x hT sT hF sF.

    Lemma shape_refs : (N.to_nat hT < N.to_nat id)%nat /\ (N.to_nat sT < N.to_nat id)%nat /\
                       (N.to_nat hF < N.to_nat id)%nat /\ (N.to_nat sF < N.to_nat id)%nat.
    Proof.
      pose proof (refs_lt m id vt _ Hi Vid (ds_els _ _ _ _ _ _ _ _ Hs)) as H.
      destruct (hT <? hF); inversion H as [|? ? [A B] H']; subst; inversion H' as [|? ? [C D] _]; subst; cbn in *; lia.
    Qed.

    Lemma shape_valid : validh m hT /\ validh m sT /\ validh m hF /\ validh m sF.
    Proof. destruct shape_refs as (A & B & C & D). unfold validh in *. repeat split; lia. Qed.

    Lemma shape_den : forall s, den m id s = if s x then den m sT s else den m sF s.
    Proof.
      intros s. destruct shape_valid as (V1 & V2 & V3 & V4).
      rewrite (den_unfold m id s Hi Vid), (ds_els _ _ _ _ _ _ _ _ Hs).
      pose proof (den_litn hT x true V1 (ds_lt _ _ _ _ _ _ _ _ Hs) s) as E1.
      pose proof (den_litn hF x false V3 (ds_lf _ _ _ _ _ _ _ _ Hs) s) as E2.
      destruct (hT <? hF); cbn [existsb fst snd]; rewrite E1, E2; destruct (s x); cbn;
        rewrite ?orb_false_r, ?orb_false_l; reflexivity.
    Qed.

    Lemma shape_x_not_in_subs : ~ In x (vars m sT) /\ ~ In x (vars m sF).
    Proof.
      destruct shape_valid as (V1 & V2 & V3 & V4).
      destruct (vars_dec vn v2v root m id vt _ Hd Vid (ds_els _ _ _ _ _ _ _ _ Hs)) as (_ & Hresp & Vvt).
      assert (Hx : In x (lset vn vt)).
      { unfold lset. rewrite Hvt. assert (Vl : vvalid vn l).
        { destruct (vt_int _ _ H0 vt l r Vvt Hvt) as (A & _ & _). unfold vvalid in *. lia. }
        rewrite (vs_leaf vn l x Vl Hl). now left. }
      pose proof (lrset_disjoint vn v2v root HVt vt x Hx) as Hnr.
      assert (HsT : incl (vars m sT) (rset vn vt) /\ incl (vars m sF) (rset vn vt)).
      { unfold respects in Hresp. rewrite Forall_forall in Hresp. destruct (hT <? hF).
        - destruct (Hresp (hT, sT) (or_introl eq_refl)) as (_ & _ & _ & A).
          destruct (Hresp (hF, sF) (or_intror (or_introl eq_refl))) as (_ & _ & _ & B). auto.
        - destruct (Hresp (hF, sF) (or_introl eq_refl)) as (_ & _ & _ & B).
          destruct (Hresp (hT, sT) (or_intror (or_introl eq_refl))) as (_ & _ & _ & A). auto. }
      destruct HsT as [A B]. split; intros Hc; apply Hnr; [now apply A | now apply B].
    Qed.

    Lemma shape_cof : forall s b, den m id (updv s x b) = if b then den m sT s else den m sF s.
    Proof.
      intros s b. destruct shape_valid as (V1 & V2 & V3 & V4). destruct shape_x_not_in_subs as [NT NF].
      rewrite shape_den. unfold updv at 1. rewrite N.eqb_refl. destruct b.
      - apply (den_dep m Hi sT V2). intros y Hy. unfold updv. destruct (y =? x) eqn:E; [apply N.eqb_eq in E; subst; contradiction | reflexivity].
      - apply (den_dep m Hi sF V4). intros y Hy. unfold updv. destruct (y =? x) eqn:E; [apply N.eqb_eq in E; subst; contradiction | reflexivity].
    Qed.

    (* given canonicity below id, the node's function depends on x *)
    Lemma shape_depends : (forall a b, (N.to_nat a < N.to_nat id)%nat -> (N.to_nat b < N.to_nat id)%nat ->
                              (forall s, den m a s = den m b s) -> a = b) ->
      ~ (forall s, den m id (updv s x true) = den m id (updv s x false)).
    Proof.
      intros IH H. destruct shape_refs as (_ & B & _ & D). apply (ds_ne _ _ _ _ _ _ _ _ Hs).
      apply (IH sT sF B D). intros s. specialize (H s). now rewrite !shape_cof in H.
    Qed.
  End Shape.

  (* right-linear vtree: two distinct internal nodes are on the right spine, one strictly below the other's right child *)
  Lemma rl_left_leaf : forall t l r, vvalid vn t -> vat vn t = VInt l r -> exists x, vat vn l = VLeaf x.
  Proof.
    intros t l r Vt Ht. unfold reduced_ok in Hr. apply andb_prop in Hr as [Hrl _]. unfold rl_vtree in Hrl.
    rewrite forallb_forall in Hrl. rewrite (p_vn _ _ _ _ Hp) in Hrl.
    assert (Hin : In (VInt l r) vn) by (unfold vat in Ht; rewrite <- Ht; apply nth_In; exact Vt).
    specialize (Hrl _ Hin). cbn in Hrl. rewrite vat_vnode in Hrl. destruct (vat vn l) as [x|]; [eauto | discriminate].
  Qed.

  Lemma spine : forall S t t' l r l' r', desc vn t (N.of_nat S) = true -> desc vn t' (N.of_nat S) = true ->
    vat vn t = VInt l r -> vat vn t' = VInt l' r' -> t <> t' ->
    desc vn t' r = true \/ desc vn t r' = true.
  Proof.
    induction S as [S IH] using lt_wf_ind. intros t t' l r l' r' D D' Ht Ht' Hne.
    assert (Hunder : forall u lu ru, vat vn u = VInt lu ru -> desc vn u (N.of_nat S) = true -> u <> N.of_nat S ->
              exists lS rS, vat vn (N.of_nat S) = VInt lS rS /\ rS < N.of_nat S /\ desc vn u rS = true).
    { intros u lu ru Hu Du Hn. destruct (desc_valid_int vn u _ Du Hn) as [VS (lS & rS & HS)].
      destruct (vt_int _ _ H0 _ lS rS VS HS) as (_ & Hrs & _).
      exists lS, rS. split; [exact HS|]. split; [exact Hrs|].
      destruct (desc_children vn v2v H0 u _ lS rS HS Du Hn) as [Hl|Hr']; [|exact Hr'].
      exfalso. destruct (rl_left_leaf _ lS rS VS HS) as [x Hx].
      rewrite (desc_nonint vn u lS) in Hl by (intros a b; rewrite Hx; discriminate).
      apply N.eqb_eq in Hl. subst u. rewrite Hx in Hu. discriminate. }
    destruct (N.eq_dec t (N.of_nat S)) as [Et|Et].
    - subst t. destruct (Hunder t' l' r' Ht' D' (fun e => Hne (eq_sym e))) as (lS & rS & HS & _ & Du).
      rewrite Ht in HS. injection HS as <- <-. now left.
    - destruct (N.eq_dec t' (N.of_nat S)) as [Et'|Et'].
      + subst t'. destruct (Hunder t l r Ht D Et) as (lS & rS & HS & _ & Du).
        rewrite Ht' in HS. injection HS as <- <-. now right.
      + destruct (Hunder t l r Ht D Et) as (lS & rS & HS & Hlt & Du).
        destruct (Hunder t' l' r' Ht' D' Et') as (lS' & rS' & HS' & _ & Du').
        rewrite HS in HS'. injection HS' as <- <-.
        rewrite <- (Nnat.N2Nat.id rS) in Du, Du'.
        apply (IH (N.to_nat rS) ltac:(lia) t t' l r l' r' Du Du' Ht Ht' Hne).
  Qed.

  Definition sameden (a b : N) : Prop := forall s, den m a s = den m b s.

  Lemma canon_bound : forall n a b, (N.to_nat a <= n)%nat -> (N.to_nat b <= n)%nat ->
    validh m a -> validh m b -> sameden a b -> a = b.
  Proof.
    induction n as [n IH] using lt_wf_ind. intros a b La Lb Va Vb Hden.
    (* canonicity strictly below a bound *)
    assert (IHlt : forall k, (k <= n)%nat -> (k <= length (nodes m))%nat -> forall a' b', (N.to_nat a' < k)%nat -> (N.to_nat b' < k)%nat ->
              sameden a' b' -> a' = b').
    { intros k Hk Hkl a' b' A B Hs. destruct k as [|k]; [lia|].
      apply (IH k ltac:(lia) a' b'); try lia; try exact Hs; unfold validh; lia. }
    destruct (pvalid01 vn v2v root m Hp) as (V0 & V1 & N0 & N1).
    (* a Decision node is different from everything that does not have the same shape *)
    assert (Hdec : forall a b, (N.to_nat a <= n)%nat -> (N.to_nat b <= n)%nat -> validh m a -> validh m b -> sameden a b ->
              forall vt els, node_at m a = NDec vt els -> a = b).
    { clear a b La Lb Va Vb Hden. intros a b La Lb Va Vb Hden vt els Ea.
      destruct (reduced_dec m a vt els Hr Va Ea) as (l & r & x & hT & sT & hF & sF & Hvt & Hl & Hs).
      rewrite vat_vnode in Hvt, Hl.
      assert (Hdep : ~ (forall s, den m a (updv s x true) = den m a (updv s x false))).
      { apply (shape_depends a vt l r x hT sT hF sF Va Hvt Hl Hs). intros a' b' A B. apply (IHlt (N.to_nat a) La ltac:(unfold validh in Va; lia) a' b' A B). }
      destruct (shape_refs a vt x hT sT hF sF Va Hs) as (R1 & R2 & R3 & R4).
      assert (Ga : (2 <= N.to_nat a)%nat).
      { destruct (N.eq_dec a 0) as [->|]; [rewrite N0 in Ea; discriminate|].
        destruct (N.eq_dec a 1) as [->|]; [rewrite N1 in Ea; discriminate | lia]. }
      destruct (N.eq_dec b 0) as [->|B0].
      { exfalso. apply Hdep. intros s. now rewrite !Hden, !den_const0. }
      destruct (N.eq_dec b 1) as [->|B1].
      { exfalso. apply Hdep. intros s. now rewrite !Hden, !den_const1. }
      destruct (node_ge2 vn v2v root m b Hp Vb B0 B1) as [[Gb [y [q Eb]]]|[Gb [vt' [els' Eb]]]].
      - (* b is a literal *)
        destruct (N.eq_dec y x) as [->|Hyx].
        + exfalso.
          assert (HT : sameden sT (if q then 1 else 0)).
          { intros s. pose proof (Hden (updv s x true)) as H. rewrite (shape_cof a vt l r x hT sT hF sF Va Hvt Hl Hs) in H.
            rewrite (den_litn b x q Vb Eb) in H. unfold updv in H. rewrite N.eqb_refl in H. rewrite H.
            destruct q; [now rewrite den_const1 | now rewrite den_const0]. }
          assert (HF : sameden sF (if q then 0 else 1)).
          { intros s. pose proof (Hden (updv s x false)) as H. rewrite (shape_cof a vt l r x hT sT hF sF Va Hvt Hl Hs) in H.
            rewrite (den_litn b x q Vb Eb) in H. unfold updv in H. rewrite N.eqb_refl in H. rewrite H.
            destruct q; [now rewrite den_const0 | now rewrite den_const1]. }
          assert (ET : sT = if q then 1 else 0) by (apply (IHlt (N.to_nat a) La ltac:(unfold validh in Va; lia)); [exact R2 | destruct q; cbn; lia | exact HT]).
          assert (EF : sF = if q then 0 else 1) by (apply (IHlt (N.to_nat a) La ltac:(unfold validh in Va; lia)); [exact R4 | destruct q; cbn; lia | exact HF]).
          destruct q; [apply (ds_nt _ _ _ _ _ _ _ _ Hs) | apply (ds_nf _ _ _ _ _ _ _ _ Hs)]; auto.
        + exfalso. apply Hdep. intros s. rewrite !Hden, !(den_litn b y q Vb Eb). unfold updv.
          assert (E0 : (y =? x) = false) by now apply N.eqb_neq. now rewrite E0.
      - (* b is a Decision node *)
        destruct (reduced_dec m b vt' els' Hr Vb Eb) as (l' & r' & x' & hT' & sT' & hF' & sF' & Hvt' & Hl' & Hs').
        rewrite vat_vnode in Hvt', Hl'.
        destruct (N.eq_dec vt vt') as [<-|Hvne].
        + (* same vtree node: same cofactors, same elements, same node *)
          rewrite Hvt in Hvt'. injection Hvt' as <- <-. rewrite Hl in Hl'. injection Hl' as <-.
          destruct (shape_refs b vt x hT' sT' hF' sF' Vb Hs') as (R1' & R2' & R3' & R4').
          assert (ET : sT = sT').
          { apply (IHlt (Nat.max (N.to_nat a) (N.to_nat b)) ltac:(lia) ltac:(unfold validh in Va, Vb; lia)); [lia | lia|]. intros s. pose proof (Hden (updv s x true)) as H.
            now rewrite (shape_cof a vt l r x hT sT hF sF Va Hvt Hl Hs), (shape_cof b vt l r x hT' sT' hF' sF' Vb Hvt Hl Hs') in H. }
          assert (EF : sF = sF').
          { apply (IHlt (Nat.max (N.to_nat a) (N.to_nat b)) ltac:(lia) ltac:(unfold validh in Va, Vb; lia)); [lia | lia|]. intros s. pose proof (Hden (updv s x false)) as H.
            now rewrite (shape_cof a vt l r x hT sT hF sF Va Hvt Hl Hs), (shape_cof b vt l r x hT' sT' hF' sF' Vb Hvt Hl Hs') in H. }
          destruct (shape_valid a vt x hT sT hF sF Va Hs) as (W1 & _ & W3 & _).
          destruct (shape_valid b vt x hT' sT' hF' sF' Vb Hs') as (W1' & _ & W3' & _).
          assert (Hlit2 : forall h p, validh m h -> node_at m h = NLit x p -> (2 <= N.to_nat h)%nat).
          { intros h p Vh Nh. destruct (N.eq_dec h 0) as [->|]; [rewrite N0 in Nh; discriminate|].
            destruct (N.eq_dec h 1) as [->|]; [rewrite N1 in Nh; discriminate | lia]. }
          assert (EhT : hT = hT').
          { apply (node_unique vn v2v root m hT hT' Hp W1 W1'); eauto using ds_lt.
            rewrite (ds_lt _ _ _ _ _ _ _ _ Hs), (ds_lt _ _ _ _ _ _ _ _ Hs'). reflexivity. }
          assert (EhF : hF = hF').
          { apply (node_unique vn v2v root m hF hF' Hp W3 W3'); eauto using ds_lf.
            rewrite (ds_lf _ _ _ _ _ _ _ _ Hs), (ds_lf _ _ _ _ _ _ _ _ Hs'). reflexivity. }
          subst sT' sF' hT' hF'.
          apply (node_unique vn v2v root m a b Hp Va Vb); [lia | lia|].
          rewrite (ds_els _ _ _ _ _ _ _ _ Hs), (ds_els _ _ _ _ _ _ _ _ Hs'). reflexivity.
        + (* different vtree nodes: one lives strictly below the other's right child and ignores its variable *)
          exfalso.
          destruct (dec_position vn v2v root m a vt els Hp Va Ea) as (_ & _ & _ & Vvt & Eva & _).
          destruct (dec_position vn v2v root m b vt' els' Hp Vb Eb) as (_ & _ & _ & Vvt' & Evb & _).
          destruct (opt_case root) as [[r0 Er]|Er].
          2:{ pose proof (proj2 HVt) as HR. unfold RootOk in HR. rewrite Er in HR. destruct HR as [Evn _].
              unfold vvalid in Vvt. rewrite Evn in Vvt. cbn in Vvt. lia. }
          pose proof (proj2 HVt) as HR. unfold RootOk in HR. rewrite Er in HR. destruct HR as [_ HR].
          pose proof (HR vt Vvt) as D1. pose proof (HR vt' Vvt') as D2.
          rewrite <- (Nnat.N2Nat.id r0) in D1, D2.
          assert (Hindep : forall vc lc rc xc d vd, validh m d -> vat vn vc = VInt lc rc -> vat vn lc = VLeaf xc -> vvalid vn vc ->
                    vtree_of m d = Some vd -> desc vn vd rc = true ->
                    forall s t, den m d (updv s xc t) = den m d s).
          { intros vc lc rc xc d vd Vd Hvc Hlc Vvc Evd Dd s t. apply (den_dep m Hi d Vd). intros y Hy.
            unfold updv. destruct (y =? xc) eqn:E0; [|reflexivity]. apply N.eqb_eq in E0. subst y. exfalso.
            destruct (vtree_of_vars vn v2v root HVt m d vd Hd Vd Evd) as [_ Hincl].
            pose proof (desc_incl' vn v2v H0 rc vd Dd xc (Hincl xc Hy)) as Hin.
            destruct (vt_int _ _ H0 vc lc rc Vvc Hvc) as (Hlt & _ & Hdis).
            assert (Vl : vvalid vn lc) by (unfold vvalid in *; lia).
            apply (Hdis xc); [rewrite (vs_leaf vn lc xc Vl Hlc); now left | exact Hin]. }
          destruct (spine (N.to_nat r0) vt vt' l r l' r' D1 D2 Hvt Hvt' Hvne) as [Hb|Hb'].
          * apply Hdep. intros s. rewrite !Hden.
            rewrite !(Hindep vt l r x b vt' Vb Hvt Hl Vvt Evb Hb). reflexivity.
          * assert (Hdep' : ~ (forall s, den m b (updv s x' true) = den m b (updv s x' false))).
            { apply (shape_depends b vt' l' r' x' hT' sT' hF' sF' Vb Hvt' Hl' Hs'). intros a' b' A B. apply (IHlt (N.to_nat b) Lb ltac:(unfold validh in Vb; lia) a' b' A B). }
            apply Hdep'. intros s. rewrite <- !Hden.
            rewrite !(Hindep vt' l' r' x' a vt Va Hvt' Hl' Vvt' Eva Hb'). reflexivity. }
    destruct (N.eq_dec a 0) as [A0|A0]; [|destruct (N.eq_dec a 1) as [A1|A1]].
    3:{ destruct (node_ge2 vn v2v root m a Hp Va A0 A1) as [[_ [v [p Ea]]]|[_ [vt [els Ea]]]]; [|exact (Hdec a b La Lb Va Vb Hden vt els Ea)].
        destruct (N.eq_dec b 0) as [B0|B0]; [|destruct (N.eq_dec b 1) as [B1|B1]].
        3:{ destruct (node_ge2 vn v2v root m b Hp Vb B0 B1) as [[_ [w [q Eb]]]|[_ [vt [els Eb]]]].
            - apply (canonical_simple m a b Hi); try assumption; [exists vn, v2v, root; auto | | ]; unfold simple_node; [now rewrite Ea | now rewrite Eb].
            - symmetry. apply (Hdec b a Lb La Vb Va (fun s => eq_sym (Hden s)) vt els Eb). }
        all: apply (canonical_simple m a b Hi); try assumption; [exists vn, v2v, root; auto | | ]; unfold simple_node; subst; rewrite ?Ea, ?N0, ?N1; exact I. }
    all: destruct (N.eq_dec b 0) as [B0|B0]; [|destruct (N.eq_dec b 1) as [B1|B1]].
    all: try (apply (canonical_simple m a b Hi); try assumption; [exists vn, v2v, root; auto | | ]; unfold simple_node; subst; rewrite ?N0, ?N1; exact I).
    all: destruct (node_ge2 vn v2v root m b Hp Vb B0 B1) as [[_ [w [q Eb]]]|[_ [vt [els Eb]]]].
    all: try (apply (canonical_simple m a b Hi); try assumption; [exists vn, v2v, root; auto | | ]; unfold simple_node; subst; rewrite ?Eb, ?N0, ?N1; exact I).
    all: symmetry; apply (Hdec b a Lb La Vb Va (fun s => eq_sym (Hden s)) vt els Eb).
  Qed.
End Canon.

Lemma canonical_reduced : forall m a b,
  MInv m -> SInv m -> SInvP m -> reduced_ok m = true ->
  validh m a -> validh m b -> (forall s, den m a s = den m b s) -> a = b.
Proof.
  intros m a b Hi (vn & v2v & root & HVt & Hd) (vn' & v2v' & root' & HVt' & HU' & Hp') Hr Va Vb Hden.
  assert (E1 : vn' = vn) by (rewrite <- (d_vn _ _ _ _ Hd); apply (eq_sym (p_vn _ _ _ _ Hp'))).
  assert (E2 : v2v' = v2v) by (rewrite <- (d_v2v _ _ _ _ Hd); apply (eq_sym (p_v2v _ _ _ _ Hp'))).
  assert (E3 : root' = root) by (rewrite <- (d_root _ _ _ _ Hd); apply (eq_sym (p_root _ _ _ _ Hp'))).
  subst vn' v2v' root'.
  apply (canon_bound m vn v2v root Hi HVt HU' Hd Hp' Hr (Nat.max (N.to_nat a) (N.to_nat b)) a b); try lia; assumption.
Qed.

(* history level: every reachable manager that passes the reducedness check is canonical: slots with equal formulas
   (as Boolean functions) hold equal handles *)
Lemma history_canonical : forall fuel ops s outs i j,
  run_from fuel rinit ops = (s, outs) -> run_ok fuel rinit ops = true -> (4 * length ops + 3 < fuel)%nat ->
  reduced_ok (rm s) = true ->
  (forall sg, feval sg (frm s i) = feval sg (frm s j)) -> hnd s i = hnd s j.
Proof.
  intros fuel ops s outs i j E Hok Hf Hr Hsame.
  destruct (history_exact _ _ _ _ E) as [Hi Hden].
  pose proof (runD _ _ _ _ _ HInvD_init Hok E) as [HS HF].
  destruct (history_SInvP _ _ _ _ E Hok Hf) as [HP _].
  pose proof (runD _ _ _ _ _ HInvD_init Hok E) as HI.
  apply (canonical_reduced (rm s) (hnd s i) (hnd s j) Hi HS HP Hr (hnd_valid s i HI) (hnd_valid s j HI)).
  intros sg. now rewrite !Hden.
Qed.
