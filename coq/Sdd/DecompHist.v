(* The structural invariant over histories: every manager reachable by a history whose literals are over
   registered variables satisfies DInv for some well-formed vtree, hence the decomposability check, hence
   wmc = truth-table weighted sum for every handle of the history. *)
Require Import KV.Sdd.Model KV.Sdd.Sem KV.Sdd.Spec KV.Sdd.Decomp KV.Sdd.History.
Require Import KV.Sdd.SemProofs KV.Sdd.Hoare KV.Sdd.GHoare KV.Sdd.OpsProofs KV.Sdd.TopProofs KV.Sdd.MainProofs.
Require Import KV.Sdd.Vtree KV.Sdd.DecompProofs KV.Sdd.WmcProofs.
Require Import Lia QArith.

(* ---- the empty manager --------------------------------------------------------------------------------- *)
Lemma VtOk_empty : VtOk [] [] None.
Proof.
  split; [constructor|].
  - intros i l r H. unfold vvalid in H. cbn in H. lia.
  - intros v i [].
  - intros i v H. unfold vvalid in H. cbn in H. lia.
  - cbn. auto.
Qed.

Lemma DInv_new : DInv [] [] None mgr_new.
Proof.
  constructor; cbn; try reflexivity.
  - exists []. reflexivity.
  - intros k Hk. destruct k as [|[|k]]; cbn; try exact I; lia.
  - intros key id [].
  - intros a b o r [].
  - intros id r [].
Qed.

(* ---- registering a variable ------------------------------------------------------------------------------ *)
Lemma lset_app : forall vn v2v e vt, VtOk0 vn v2v -> vvalid vn vt -> lset (vn ++ e) vt = lset vn vt.
Proof.
  intros vn v2v e vt H0 Hv. unfold lset. rewrite vat_app by exact Hv.
  destruct (vat vn vt) as [v|l r] eqn:E; [reflexivity|].
  destruct (vt_int _ _ H0 vt l r Hv E) as (Hl & _ & _). apply vs_app. unfold vvalid in *. lia.
Qed.
Lemma rset_app : forall vn v2v e vt, VtOk0 vn v2v -> vvalid vn vt -> rset (vn ++ e) vt = rset vn vt.
Proof.
  intros vn v2v e vt H0 Hv. unfold rset. rewrite vat_app by exact Hv.
  destruct (vat vn vt) as [v|l r] eqn:E; [reflexivity|].
  destruct (vt_int _ _ H0 vt l r Hv E) as (_ & Hr & _). apply vs_app. unfold vvalid in *. lia.
Qed.

Lemma DInv_regrow : forall vn v2v root e v2v' root' m m',
  VtOk0 vn v2v ->
  DInv vn v2v root m ->
  nodes m' = nodes m -> utab m' = utab m -> acache m' = acache m -> ncache m' = ncache m ->
  vnodes m' = vn ++ e -> var2vt m' = v2v' -> vroot m' = root' ->
  (forall v i, In (v, i) v2v -> In (v, i) v2v') ->
  DInv (vn ++ e) v2v' root' m'.
Proof.
  intros vn v2v root e v2v' root' m m' H0 Hd En Eu Ea Ec Ev E2 Er Hsub.
  assert (Hvars : forall id, vars m' id = vars m id) by (intros id; unfold vars, vars_of; now rewrite En).
  constructor; try assumption.
  - rewrite En. apply (d_head _ _ _ _ Hd).
  - rewrite En. intros k Hk. pose proof (d_nodes _ _ _ _ Hd k Hk) as H.
    destruct (nth k (nodes m) NFalse) as [| |v pol|vt els]; cbn in *; auto.
    + destruct H as [i Hi]. exists i. auto.
    + destruct H as [Hv H]. split; [unfold vvalid in *; rewrite app_length; lia|].
      eapply Forall_impl; [|exact H]. intros x (A & B & C & D).
      rewrite !Hvars, (lset_app vn v2v e vt H0 Hv), (rset_app vn v2v e vt H0 Hv). auto.
  - rewrite Eu. intros key id Hin. destruct (d_utab _ _ _ _ Hd key id Hin) as [A B].
    unfold validh, node_at in *. rewrite En. auto.
  - rewrite Ea. intros a b o r Hin. destruct (d_acache _ _ _ _ Hd a b o r Hin) as (A & B & C & D).
    unfold validh in *. rewrite En, !Hvars. auto.
  - rewrite Ec. intros id r Hin. destruct (d_ncache _ _ _ _ Hd id r Hin) as (A & B & C).
    unfold validh in *. rewrite En, !Hvars. auto.
Qed.

Definition SInv (m : mgr) : Prop := exists vn v2v root, VtOk vn v2v root /\ DInv vn v2v root m.

Lemma SInv_ensure : forall v p n k m, SInv m -> SInv (ensure_variable_weights v p n k m).
Proof.
  intros v p n k m (vn & v2v & root & HVt & Hd).
  pose proof (d_vn _ _ _ _ Hd) as Evn. pose proof (d_v2v _ _ _ _ Hd) as Ev2. pose proof (d_root _ _ _ _ Hd) as Ert.
  unfold ensure_variable_weights.
  destruct (alookup N.eqb v (var2vt m)) as [i|] eqn:El.
  - exists vn, v2v, root. split; [exact HVt|].
    rewrite <- (app_nil_r vn). eapply (DInv_regrow vn v2v root [] v2v root m); eauto; try reflexivity; try apply HVt.
    cbn. now rewrite app_nil_r.
  - rewrite Ev2 in El. rewrite Ert. destruct root as [old|].
    + pose proof (grow_more vn v2v old v HVt El) as HVt'. cbn zeta in HVt'.
      eexists _, _, _. split; [exact HVt'|].
      eapply (DInv_regrow vn v2v (Some old) _ _ _ m); eauto; try reflexivity; try apply HVt.
      * cbn. now rewrite Evn.
      * cbn. now rewrite Ev2, Evn.
      * cbn. now rewrite Evn.
      * intros x i Hin. now right.
    + destruct HVt as [H0 HR]. cbn in HR. destruct HR as [-> ->].
      exists [VLeaf v], [(v, 0%N)], (Some 0%N). split; [apply grow_first|].
      change [VLeaf v] with ([] ++ [VLeaf v]).
      eapply (DInv_regrow [] [] None _ _ _ m); eauto; try reflexivity.
      * cbn. now rewrite Evn.
      * cbn. now rewrite Ev2, Evn.
      * cbn. now rewrite Evn.
      * intros x i [].
Qed.

(* ---- decomposability from the invariant ------------------------------------------------------------------ *)
Lemma decomp_tab_all : forall l,
  (forall k, (k < length l)%nat -> decomp_node (vars_tab (firstn k l)) (nth k l NFalse) = true) ->
  snd (decomp_tab l) = true.
Proof.
  induction l as [|n l IH] using rev_ind; intros H; [reflexivity|].
  rewrite decomp_tab_snoc. apply andb_true_intro. split.
  - apply IH. intros k Hk. specialize (H k). rewrite app_length in H. cbn in H.
    rewrite firstn_app in H. replace (k - length l)%nat with 0%nat in H by lia. cbn [firstn] in H.
    rewrite app_nil_r, app_nth1 in H by lia. apply H. lia.
  - specialize (H (length l)). rewrite app_length in H. cbn in H.
    rewrite firstn_app, firstn_all, Nat.sub_diag, app_nil_r in H. cbn [firstn] in H.
    rewrite app_nth2, Nat.sub_diag in H by lia. apply H. lia.
Qed.

Lemma SInv_decomp : forall m, SInv m -> decomp_ok m = true.
Proof.
  intros m (vn & v2v & root & HVt & Hd). unfold decomp_ok. apply decomp_tab_all.
  intros k Hk. pose proof (d_nodes _ _ _ _ Hd k Hk) as H.
  destruct (nth k (nodes m) NFalse) as [| |v pol|vt els]; try reflexivity.
  cbn in H. destruct H as [Hv H]. cbn [decomp_node]. apply forallb_forall. intros e He.
  rewrite Forall_forall in H. destruct (H e He) as (A & B & C & D).
  rewrite !(vars_prefix m) by lia.
  unfold disjointb. apply forallb_forall. intros x Hx. apply negb_true_iff.
  destruct (nmem x (vars m (snd e))) eqn:E; [|reflexivity]. exfalso.
  unfold nmem in E. apply existsb_exists in E as [y [Hy Exy]]. apply N.eqb_eq in Exy. subst y.
  exact (lrset_disjoint vn v2v root HVt vt x (C x Hx) (D x Hy)).
Qed.

Lemma SInv_lits : forall m, SInv m -> lits_in (map fst (var2vt m)) m = true.
Proof.
  intros m (vn & v2v & root & HVt & Hd). unfold lits_in. apply forallb_forall. intros n Hn.
  destruct n as [| |v pol|vt els]; try reflexivity.
  apply In_nth with (d := NFalse) in Hn as [k [Hk Ek]].
  pose proof (d_nodes _ _ _ _ Hd k Hk) as H. rewrite Ek in H. cbn in H. destruct H as [i Hi].
  rewrite (d_v2v _ _ _ _ Hd). unfold nmem. apply existsb_exists. exists v. split; [|apply N.eqb_refl].
  apply in_map_iff. exists (v, i). auto.
Qed.

(* ---- histories ----------------------------------------------------------------------------------------------- *)
Definition reg (m : mgr) (v : N) : bool :=
  match alookup N.eqb v (var2vt m) with Some _ => true | None => false end.
(* literals (and exactly_one) are only requested over registered variables, as the API documents *)
Definition step_ok (s : rstate) (o : op) : bool :=
  match o with
  | OLit v _ _ => reg (rm s) v
  | OEo vs _ => forallb (reg (rm s)) vs
  | _ => true
  end.
Fixpoint run_ok (fuel : nat) (s : rstate) (ops : list op) : bool :=
  match ops with
  | [] => true
  | o :: t => step_ok s o && run_ok fuel (fst (step fuel s o)) t
  end.

Definition HInvD (s : rstate) : Prop := SInv (rm s) /\ Forall (validh (rm s)) (rh s).

Lemma run_gtriple : forall Inv {A} P (c : M A) Q m b m' b' r,
  gtriple Inv P c Q -> Inv m -> P m -> c (m, b) = ((m', b'), r) ->
  Inv m' /\ ext m m' /\ forall a, r = Ok a -> Q a m'.
Proof.
  intros Inv A P c Q m b m' b' r H Hi Hp E. specialize (H m b Hi Hp). rewrite E in H. exact H.
Qed.

Lemma reg_regd : forall vn v2v root m v, DInv vn v2v root m -> reg m v = true -> regd v2v v.
Proof.
  intros vn v2v root m v Hd H. unfold reg in H. rewrite (d_v2v _ _ _ _ Hd) in H.
  destruct (alookup N.eqb v v2v) as [i|] eqn:E; [|discriminate]. exists i. now apply alookupN_in.
Qed.

Lemma execD : forall s c b f s' out,
  HInvD s ->
  (forall vn v2v root, VtOk vn v2v root -> DInv vn v2v root (rm s) ->
     gtriple (DInv vn v2v root) (fun m => m = rm s) c (fun r m => validh m r)) ->
  exec s c b f = (s', out) -> HInvD s'.
Proof.
  intros s c b f s' out [(vn & v2v & root & HVt & Hd) HF] Hc E. unfold exec in E.
  destruct (c (rm s, mkbud b)) as [[m' b'] r] eqn:Ec.
  destruct (run_gtriple _ _ _ _ _ _ _ _ _ (Hc vn v2v root HVt Hd) Hd eq_refl Ec) as (Hd' & He & Hr).
  injection E as <- _. split; cbn [rm rh].
  - exists vn, v2v, root. split; assumption.
  - apply Forall_app. split.
    + eapply Forall_impl; [|exact HF]. intros h Hh. eapply validh_ext; eauto.
    + constructor; [|constructor]. destruct r as [h| | |]; try (apply (valid0 vn v2v root m' Hd')).
      apply Hr. reflexivity.
Qed.

Lemma hnd_valid : forall s i, HInvD s -> validh (rm s) (hnd s i).
Proof.
  intros s i [(vn & v2v & root & HVt & Hd) HF]. unfold hnd. generalize (N.to_nat i). clear i.
  induction HF as [|h hs H HF IH]; intros n.
  - destruct n; apply (valid0 vn v2v root _ Hd).
  - destruct n; cbn; [exact H | apply IH].
Qed.

Lemma stepD : forall fuel s o s' out, HInvD s -> step_ok s o = true -> step fuel s o = (s', out) -> HInvD s'.
Proof.
  intros fuel s o s' out HI Hok E. pose proof HI as [HS HF].
  destruct o as [v p n k|v pol b|i j o b|i b|vs b]; cbn [step step_ok] in *.
  - injection E as <- _. split; cbn [rm rh]; [now apply SInv_ensure|].
    destruct (ensure_nodes v p n k (rm s)) as (E1 & _).
    eapply Forall_impl; [|exact HF]. intros h Hh. unfold validh in *. now rewrite E1.
  - eapply execD; [exact HI | | exact E]. intros vn v2v root HVt Hd.
    eapply gt_conseq; [apply (literal_D vn v2v root v pol); eapply reg_regd; eauto | intros; exact I |].
    intros r m _ [A _]. exact A.
  - pose proof (hnd_valid s i HI) as Vi. pose proof (hnd_valid s j HI) as Vj.
    eapply execD; [exact HI | | exact E]. intros vn v2v root HVt Hd.
    eapply gt_conseq; [apply (apply_f_D vn v2v root HVt fuel (hnd s i) (hnd s j) o (vars (rm s) (hnd s i)) (vars (rm s) (hnd s j))) | |].
    + intros m _ ->. split; apply VI_self; assumption.
    + intros r m _ [A _]. exact A.
  - pose proof (hnd_valid s i HI) as Vi.
    eapply execD; [exact HI | | exact E]. intros vn v2v root HVt Hd.
    eapply gt_conseq; [apply (negate_f_D vn v2v root HVt fuel (hnd s i) (vars (rm s) (hnd s i))) | |].
    + intros m _ ->. apply VI_self; assumption.
    + intros r m _ [A _]. exact A.
  - eapply execD; [exact HI | | exact E]. intros vn v2v root HVt Hd.
    eapply gt_conseq; [apply (exactly_one_D vn v2v root HVt fuel vs) | intros; exact I |].
    + rewrite forallb_forall in Hok. apply Forall_forall. intros x Hx. eapply reg_regd; eauto.
    + intros r m _ [A _]. exact A.
Qed.

Lemma runD : forall fuel ops s s' outs, HInvD s -> run_ok fuel s ops = true -> run_from fuel s ops = (s', outs) -> HInvD s'.
Proof.
  intros fuel ops. induction ops as [|o ops IH]; intros s s' outs HI Hok E; cbn [run_from run_ok] in *.
  - now injection E as <- _.
  - apply andb_prop in Hok as [Ho Hr].
    destruct (step fuel s o) as [s1 r] eqn:E1. destruct (run_from fuel s1 ops) as [s2 rs] eqn:E2.
    injection E as <- _. cbn [fst] in Hr. eapply IH; [|exact Hr | exact E2]. eapply stepD; eauto.
Qed.

Lemma HInvD_init : HInvD rinit.
Proof. split; [exists [], [], None; split; [apply VtOk_empty | apply DInv_new] | constructor]. Qed.

(* every reachable manager passes the decomposability check, and wmc of every handle of the history is the
   truth-table weighted sum of its formula *)
Lemma history_decomp : forall fuel ops s outs,
  run_from fuel rinit ops = (s, outs) -> run_ok fuel rinit ops = true ->
  decomp_ok (rm s) = true /\ lits_in (map fst (var2vt (rm s))) (rm s) = true.
Proof.
  intros fuel ops s outs E Hok. destruct (runD _ _ _ _ _ HInvD_init Hok E) as [HS _].
  split; [now apply SInv_decomp | now apply SInv_lits].
Qed.

Lemma history_wmc : forall fuel ops s outs i sigma0,
  run_from fuel rinit ops = (s, outs) -> run_ok fuel rinit ops = true ->
  normalised (map fst (var2vt (rm s))) (rm s) = true ->
  wmc (rm s) (hnd s i) ==
  wsum (pos_of (rm s)) (neg_of (rm s)) (map fst (var2vt (rm s))) (fun sg => b2q (feval sg (frm s i))) sigma0.
Proof.
  intros fuel ops s outs i s0 E Hok Hn.
  destruct (history_decomp _ _ _ _ E Hok) as [Hd Hl].
  destruct (history_exact _ _ _ _ E) as [Hi Hden].
  pose proof (runD _ _ _ _ _ HInvD_init Hok E) as HI.
  rewrite (wmc_sum (rm s) _ (hnd s i) s0 Hi Hd Hl Hn (hnd_valid s i HI)).
  apply E_ext. intros sg. now rewrite Hden.
Qed.
