(* Lemmas for C15: invariants of the dictionary + quoted store, stability, bijection, the
   denotation of identifiers, and the correctness of reencode / union. *)
Require Import KV.Dict.Model KV.Dict.Spec KV.Dict.BimapProofs.
Require Import Lia.

(* ------------------------------------------------------------------------------------------ *)
(* instances of the generic store                                                               *)
Lemma key3_eqb_spec : forall a b : key3, key3_eqb a b = true <-> a = b.
Proof.
  intros [[a b] c] [[a' b'] c']. unfold key3_eqb. split.
  - intros H. apply andb_true_iff in H. destruct H as [H Hc].
    apply andb_true_iff in H. destruct H as [Ha Hb].
    apply N.eqb_eq in Ha. apply N.eqb_eq in Hb. apply N.eqb_eq in Hc. congruence.
  - intros H. injection H as -> -> ->. rewrite !N.eqb_refl. reflexivity.
Qed.

Definition DMInv (d : dict) : Prop := BMInv lex N.eqb 0 d.
Definition DInv (d : dict) : Prop := DMInv d /\ nxt d <= QBIT.
Definition QInv (q : qts) : Prop := BMInv key3 key3_eqb QBIT q.
Definition dext (d d' : dict) : Prop := bm_ext lex N.eqb d d'.
Definition qext (q q' : qts) : Prop := bm_ext key3 key3_eqb q q'.

Lemma is_quoted_true : forall i, is_quoted i = true <-> QBIT <= i.
Proof. intros i. unfold is_quoted. apply N.leb_le. Qed.
Lemma is_quoted_false : forall i, is_quoted i = false <-> i < QBIT.
Proof. intros i. unfold is_quoted. apply N.leb_gt. Qed.

(* the model's test `QBIT <= i` is the code's `id & 0x8000_0000 != 0` on every u32 *)
Lemma is_quoted_bit31 : forall i, i < 4294967296 -> is_quoted i = N.testbit i 31.
Proof.
  intros i Hi. unfold is_quoted, QBIT.
  rewrite N.testbit_eqb. change (2 ^ 31) with 2147483648.
  assert (i / 2147483648 < 2) as Hq by (apply N.div_lt_upper_bound; lia).
  destruct (N.leb_spec 2147483648 i) as [Hle|Hlt].
  - assert (1 <= i / 2147483648) by (apply N.div_le_lower_bound; lia).
    assert (i / 2147483648 = 1) as -> by lia. reflexivity.
  - rewrite N.div_small by lia. reflexivity.
Qed.

Lemma DInv_new : DInv d_new.
Proof. split; [apply BMInv_new|cbn; unfold QBIT; lia]. Qed.
Lemma QInv_new : QInv q_new.
Proof. apply BMInv_new. Qed.

(* ---- Dictionary::encode ---- *)
Lemma d_encode_cases : forall d x d' i,
  d_encode d x = Ok (d', i) ->
  (d_get d x = Some i /\ d' = d) \/
  (d_get d x = None /\ nxt d < QBIT /\ d' = fst (bm_alloc d x) /\ i = nxt d).
Proof.
  intros d x d' i H. unfold d_encode in H.
  destruct (d_get d x) as [j|] eqn:Eg.
  - injection H as <- <-. left. auto.
  - destruct (N.ltb_spec (nxt d) QBIT) as [Hlt|Hge]; [|discriminate].
    unfold bm_alloc in H. injection H as <- <-. right. auto.
Qed.

Lemma d_encode_total : forall d x, (exists r, d_encode d x = Ok r) \/ d_encode d x = Err Exhausted.
Proof.
  intros d x. unfold d_encode. destruct (d_get d x); [left; eauto|].
  destruct (nxt d <? QBIT); [left; eauto|right; reflexivity].
Qed.

Lemma d_encode_known : forall d x i, d_get d x = Some i -> d_encode d x = Ok (d, i).
Proof. intros d x i H. unfold d_encode. rewrite H. reflexivity. Qed.

Lemma d_encode_spec : forall d x d' i,
  DInv d -> d_encode d x = Ok (d', i) ->
  DInv d' /\ dext d d' /\ d_get d' x = Some i /\ d_decode d' i = Some x /\ i < QBIT.
Proof.
  intros d x d' i [Hm Hle] H. apply d_encode_cases in H.
  destruct H as [[Hg ->]|(Hg & Hlt & -> & ->)].
  - split; [split; assumption|]. split; [apply bm_ext_refl|]. split; [exact Hg|].
    split; [apply Hm; exact Hg|].
    pose proof (BMInv_get_range _ _ _ _ _ _ Hm Hg). lia.
  - split; [split|].
    + apply (alloc_inv _ _ N.eqb_eq); assumption.
    + cbn. lia.
    + split; [apply (alloc_ext _ _ N.eqb_eq 0); assumption|].
      split; [unfold d_get; rewrite alloc_get, N.eqb_refl; reflexivity|].
      split; [unfold d_decode; rewrite alloc_rev, N.eqb_refl; reflexivity|exact Hlt].
Qed.

(* ---- QuotedTripleStore::encode ---- *)
Lemma q_encode_cases : forall q k q' i,
  q_encode q k = (q', i) ->
  (q_get q k = Some i /\ q' = q) \/ (q_get q k = None /\ q' = fst (bm_alloc q k) /\ i = nxt q).
Proof.
  intros q k q' i H. unfold q_encode in H.
  destruct (q_get q k) as [j|] eqn:Eg.
  - injection H as <- <-. left. auto.
  - unfold bm_alloc in H. injection H as <- <-. right. auto.
Qed.

Lemma q_encode_known : forall q k i, q_get q k = Some i -> q_encode q k = (q, i).
Proof. intros q k i H. unfold q_encode. rewrite H. reflexivity. Qed.

Lemma q_encode_spec : forall q k q' i,
  QInv q -> q_encode q k = (q', i) ->
  QInv q' /\ qext q q' /\ q_get q' k = Some i /\ q_decode q' i = Some k /\ QBIT <= i < nxt q' /\
  (q_get q k = None -> i = nxt q).
Proof.
  intros q k q' i Hm H. apply q_encode_cases in H.
  destruct H as [[Hg ->]|(Hg & -> & ->)].
  - split; [assumption|]. split; [apply bm_ext_refl|]. split; [exact Hg|].
    split; [apply Hm; exact Hg|].
    split; [exact (BMInv_get_range _ _ _ _ _ _ Hm Hg)|].
    intros Hn. congruence.
  - pose proof (BMInv_base_le _ _ _ _ Hm) as Hb.
    split; [apply (alloc_inv _ _ key3_eqb_spec); assumption|].
    split; [apply (alloc_ext _ _ key3_eqb_spec QBIT); assumption|].
    split; [unfold q_get; rewrite alloc_get, (keqb_refl _ _ key3_eqb_spec); reflexivity|].
    split; [unfold q_decode; rewrite alloc_rev, N.eqb_refl; reflexivity|].
    split; [cbn; lia|reflexivity].
Qed.

(* ------------------------------------------------------------------------------------------ *)
(* dictionary + quoted store                                                                    *)
Definition ext (s s' : st) : Prop := dext (sd s) (sd s') /\ qext (sq s) (sq s').

Lemma ext_refl : forall s, ext s s.
Proof. intros s. split; apply bm_ext_refl. Qed.
Lemma ext_trans : forall a b c, ext a b -> ext b c -> ext a c.
Proof. intros a b c [H1 H2] [G1 G2]. split; eapply bm_ext_trans; eauto. Qed.

(* an id is defined: it was handed out by the dictionary or by the quoted store *)
Definition defined (s : st) (i : N) : Prop := i < nxt (sd s) \/ QBIT <= i < nxt (sq s).
(* x may be a component of quoted id i: a dictionary id, or a quoted id handed out before i *)
Definition below (s : st) (i x : N) : Prop := x < nxt (sd s) \/ QBIT <= x < i.
Definition Closed (s : st) : Prop :=
  forall i a b c, q_decode (sq s) i = Some (a, b, c) -> below s i a /\ below s i b /\ below s i c.

Definition BInv (s : st) : Prop := DInv (sd s) /\ QInv (sq s).
Definition SInv (s : st) : Prop := BInv s /\ Closed s.

Lemma BInv_new : BInv st_new.
Proof. split; [apply DInv_new|apply QInv_new]. Qed.
Lemma SInv_new : SInv st_new.
Proof. split; [apply BInv_new|]. intros i a b c H. discriminate. Qed.

Lemma ext_defined : forall s s' i, ext s s' -> defined s i -> defined s' i.
Proof.
  intros s s' i [(_ & _ & Hd) (_ & _ & Hq)] [H|H]; [left|right]; lia.
Qed.

Lemma below_defined : forall s i x, QInv (sq s) -> below s i x -> i < nxt (sq s) -> defined s x.
Proof. intros s i x _ [H|H] Hi; [left|right]; lia. Qed.

(* what an id denotes: the lexical term it stands for *)
Inductive denotes (s : st) : N -> term -> Prop :=
| den_leaf : forall i x, i < QBIT -> d_decode (sd s) i = Some x -> denotes s i (TLeaf x)
| den_quote : forall i a b c ta tb tc,
    QBIT <= i -> q_decode (sq s) i = Some (a, b, c) ->
    denotes s a ta -> denotes s b tb -> denotes s c tc -> denotes s i (TQuote ta tb tc).

Lemma denotes_ext : forall s s' i t, ext s s' -> denotes s i t -> denotes s' i t.
Proof.
  intros s s' i t [(_ & Hd & _) (_ & Hq & _)] H. induction H.
  - apply den_leaf; auto.
  - eapply den_quote; eauto.
Qed.

Lemma denotes_fun : forall s i t t', denotes s i t -> denotes s i t' -> t = t'.
Proof.
  intros s i t t' H. revert t'. induction H; intros t' H'; inversion H'; subst; try lia.
  - congruence.
  - match goal with
    | [ H1 : q_decode _ i = Some (a, b, c), H2 : q_decode _ i = Some _ |- _ ] =>
        rewrite H1 in H2; injection H2 as <- <- <-
    end.
    f_equal; auto.
Qed.

Lemma denotes_inj : forall s i j t, BInv s -> denotes s i t -> denotes s j t -> i = j.
Proof.
  intros s i j t [[Hd _] Hq] H. revert j. induction H; intros j H'; inversion H'; subst.
  - eapply (BMInv_rev_inj _ _ _ _ _ _ _ Hd); eauto.
  - match goal with
    | [ Ha : denotes s ?a' ta, Hb : denotes s ?b' tb, Hc : denotes s ?c' tc, Hk : q_decode _ j = Some (?a', ?b', ?c') |- _ ] =>
        apply IHdenotes1 in Ha; apply IHdenotes2 in Hb; apply IHdenotes3 in Hc; subst a' b' c';
        eapply (BMInv_rev_inj _ _ _ _ _ _ _ Hq); eauto
    end.
Qed.

Lemma denotes_defined : forall s i t, BInv s -> denotes s i t -> defined s i.
Proof.
  intros s i t [[Hd _] Hq] H. inversion H; subst.
  - left. pose proof (BMInv_rev_range _ _ _ _ _ _ Hd H1). lia.
  - right. exact (BMInv_rev_range _ _ _ _ _ _ Hq H1).
Qed.

Lemma denotes_range : forall s i t, denotes s i t ->
  match t with TLeaf _ => i < QBIT | TQuote _ _ _ => QBIT <= i end.
Proof. intros s i t H. inversion H; subst; assumption. Qed.

(* ---- decode_term is sound for every fuel, and complete with the fuel of decode_any ---- *)
Lemma decode_term_sound : forall f s i t, decode_term f s i = Ok t -> denotes s i t.
Proof.
  induction f as [|f IH]; intros s i t H; cbn [decode_term] in H; [discriminate|].
  destruct (is_quoted i) eqn:Eq.
  - apply is_quoted_true in Eq.
    destruct (q_decode (sq s) i) as [[[a b] c]|] eqn:Ek; [|discriminate].
    destruct (decode_term f s a) as [ta|] eqn:Ea; [|discriminate].
    destruct (decode_term f s b) as [tb|] eqn:Eb; [|discriminate].
    destruct (decode_term f s c) as [tc|] eqn:Ec; [|discriminate].
    injection H as <-. eapply den_quote; eauto.
  - apply is_quoted_false in Eq.
    destruct (d_decode (sd s) i) as [x|] eqn:Ex; [|discriminate].
    injection H as <-. apply den_leaf; assumption.
Qed.

Lemma decode_term_complete_n : forall s, SInv s -> forall n i t,
  denotes s i t -> (i < QBIT \/ i - QBIT < N.of_nat n) -> decode_term (S n) s i = Ok t.
Proof.
  intros s [[[Hd Hle] Hq] Hcl]. induction n as [|n IH]; intros i t H Hr.
  - destruct Hr as [Hr|Hr]; [|lia]. inversion H; subst; [|lia].
    cbn [decode_term]. apply is_quoted_false in Hr. rewrite Hr.
    match goal with [ Hx : d_decode _ i = Some _ |- _ ] => rewrite Hx end. reflexivity.
  - inversion H; subst.
    + cbn [decode_term]. match goal with [ Hx : i < QBIT |- _ ] => apply is_quoted_false in Hx; rewrite Hx end.
      match goal with [ Hx : d_decode _ i = Some _ |- _ ] => rewrite Hx end. reflexivity.
    + destruct Hr as [Hr|Hr]; [lia|].
      match goal with [ Hk : q_decode _ i = Some (a, b, c) |- _ ] => pose proof (Hcl _ _ _ _ Hk) as (Ba & Bb & Bc) end.
      assert (forall x tx, below s i x -> denotes s x tx -> decode_term (S n) s x = Ok tx) as Hsub.
      { intros x tx Bx Dx. apply IH; [exact Dx|]. destruct Bx as [Bx|Bx]; [left; lia|right; lia]. }
      remember (S n) as m. cbn [decode_term].
      match goal with [ Hx : QBIT <= i |- _ ] => apply is_quoted_true in Hx; rewrite Hx end.
      match goal with [ Hk : q_decode _ i = Some (a, b, c) |- _ ] => rewrite Hk end.
      rewrite (Hsub a ta), (Hsub b tb), (Hsub c tc) by assumption. reflexivity.
Qed.

Lemma decode_any_complete : forall s i t, SInv s -> denotes s i t -> decode_any s i = Ok t.
Proof.
  intros s i t Hs H. unfold decode_any, fuel_of.
  apply decode_term_complete_n; [exact Hs|exact H|].
  destruct Hs as [[_ Hq] _].
  destruct (N.ltb_spec i QBIT) as [Hlt|Hge]; [left; exact Hlt|right].
  pose proof (denotes_defined s i t) as Hdef.
  destruct Hq as (Hb & Hdom & Hlen).
  inversion H; subst; [lia|].
  match goal with [ Hk : q_decode _ i = Some _ |- _ ] =>
    assert (QBIT <= i < nxt (sq s)) as Hr by (apply Hdom; eexists; exact Hk) end.
  rewrite Hlen in Hr. lia.
Qed.

Lemma decode_any_iff : forall s i t, SInv s -> (decode_any s i = Ok t <-> denotes s i t).
Proof.
  intros s i t Hs. split; [apply decode_term_sound|apply decode_any_complete; exact Hs].
Qed.

(* an id of a well-formed state always decodes *)
Lemma defined_denotes : forall s, SInv s -> forall n i,
  defined s i -> (i < QBIT \/ i - QBIT < N.of_nat n) -> exists t, denotes s i t.
Proof.
  intros s [[[Hd Hle] Hq] Hcl]. induction n as [|n IH]; intros i Hdef Hr.
  - destruct Hr as [Hr|Hr]; [|lia]. destruct Hdef as [Hdef|Hdef]; [|lia].
    destruct (BMInv_defined _ _ 0 (sd s) i Hd) as [x Hx]; [lia|].
    exists (TLeaf x). apply den_leaf; assumption.
  - destruct Hdef as [Hdef|Hdef].
    + destruct (BMInv_defined _ _ 0 (sd s) i Hd) as [x Hx]; [lia|].
      exists (TLeaf x). apply den_leaf; [lia|assumption].
    + destruct (BMInv_defined _ _ QBIT (sq s) i Hq Hdef) as [[[a b] c] Hk].
      destruct (Hcl _ _ _ _ Hk) as (Ba & Bb & Bc).
      assert (forall x, below s i x -> exists tx, denotes s x tx) as Hsub.
      { intros x Bx. apply IH.
        - destruct Bx as [Bx|Bx]; [left; exact Bx|right; lia].
        - destruct Hr as [Hr|Hr]; [lia|]. destruct Bx as [Bx|Bx]; [left; lia|right; lia]. }
      destruct (Hsub a Ba) as [ta Ha]. destruct (Hsub b Bb) as [tb Hb]. destruct (Hsub c Bc) as [tc Hc].
      exists (TQuote ta tb tc). eapply den_quote; eauto. lia.
Qed.

Lemma defined_decodes : forall s i, SInv s -> defined s i -> exists t, denotes s i t.
Proof.
  intros s i Hs Hdef.
  apply (defined_denotes s Hs (S (N.to_nat (i - QBIT))) i Hdef).
  right. lia.
Qed.

(* ------------------------------------------------------------------------------------------ *)
(* the two allocating calls, at the level of the state                                          *)
Lemma st_eta : forall s, mkSt (sd s) (sq s) = s.
Proof. intros [d q]. reflexivity. Qed.

Lemma d_encode_state_B : forall s x d' i,
  BInv s -> d_encode (sd s) x = Ok (d', i) ->
  BInv (mkSt d' (sq s)) /\ ext s (mkSt d' (sq s)) /\
  d_get d' x = Some i /\ d_decode d' i = Some x /\ i < QBIT.
Proof.
  intros s x d' i [Hd Hq] H. destruct (d_encode_spec _ _ _ _ Hd H) as (Hd' & He & Hg & Hr & Hi).
  split; [split; assumption|]. split; [split; [exact He|apply bm_ext_refl]|]. auto.
Qed.

Lemma closed_dext : forall d d' q, Closed (mkSt d q) -> dext d d' -> Closed (mkSt d' q).
Proof.
  intros d d' q Hcl (_ & _ & Hn) i a b c Hk.
  destruct (Hcl i a b c Hk) as (Ba & Bb & Bc). unfold below in *. cbn [sd sq] in *.
  repeat split; lia.
Qed.

Lemma d_encode_state : forall s x d' i,
  SInv s -> d_encode (sd s) x = Ok (d', i) ->
  SInv (mkSt d' (sq s)) /\ ext s (mkSt d' (sq s)) /\
  d_get d' x = Some i /\ d_decode d' i = Some x /\ i < QBIT.
Proof.
  intros s x d' i [Hb Hcl] H.
  destruct (d_encode_state_B _ _ _ _ Hb H) as (Hb' & He & Hrest).
  split; [split; [exact Hb'|]|split; [exact He|exact Hrest]].
  destruct s as [d q]. eapply closed_dext; [exact Hcl|]. destruct He as [He _]. exact He.
Qed.

Lemma q_encode_state_B : forall s k q' i,
  BInv s -> q_encode (sq s) k = (q', i) ->
  BInv (mkSt (sd s) q') /\ ext s (mkSt (sd s) q') /\
  q_get q' k = Some i /\ q_decode q' i = Some k /\ QBIT <= i < nxt q'.
Proof.
  intros s k q' i [Hd Hq] H. destruct (q_encode_spec _ _ _ _ Hq H) as (Hq' & He & Hg & Hr & Hi & _).
  split; [split; assumption|]. split; [split; [apply bm_ext_refl|exact He]|]. auto.
Qed.

Lemma q_encode_state : forall s a b c q' i,
  SInv s -> defined s a -> defined s b -> defined s c ->
  q_encode (sq s) (a, b, c) = (q', i) ->
  SInv (mkSt (sd s) q') /\ ext s (mkSt (sd s) q') /\
  q_get q' (a, b, c) = Some i /\ q_decode q' i = Some (a, b, c) /\ QBIT <= i < nxt q'.
Proof.
  intros s a b c q' i [Hb Hcl] Da Db Dc H.
  destruct (q_encode_state_B _ _ _ _ Hb H) as (Hb' & He & Hrest).
  split; [split; [exact Hb'|]|split; [exact He|exact Hrest]].
  destruct Hb as [Hd Hq].
  apply q_encode_cases in H. destruct H as [[Hg ->]|(Hg & -> & ->)].
  - rewrite st_eta. exact Hcl.
  - intros i' a' b' c' Hk. unfold q_decode in Hk. cbn [sq] in Hk. rewrite alloc_rev in Hk.
    destruct (N.eqb_spec i' (nxt (sq s))) as [->|Hne].
    + injection Hk as <- <- <-. unfold below, defined in *. cbn [sd sq].
      repeat split; lia.
    + apply (Hcl i' a' b' c') in Hk. exact Hk.
Qed.

(* ---- encode_term (encode_term_star on a parsed term) ---- *)
Lemma encode_term_spec : forall t s s' i,
  SInv s -> encode_term s t = Ok (s', i) -> SInv s' /\ ext s s' /\ denotes s' i t.
Proof.
  induction t as [x|a IHa b IHb c IHc]; intros s s' i Hs H; cbn [encode_term] in H.
  - destruct (d_encode (sd s) x) as [[d' j]|] eqn:Ed; [|discriminate].
    injection H as <- <-.
    destruct (d_encode_state _ _ _ _ Hs Ed) as (Hs' & He & Hg & Hr & Hi).
    split; [exact Hs'|]. split; [exact He|]. apply den_leaf; assumption.
  - destruct (encode_term s a) as [[s1 ia]|] eqn:Ea; [|discriminate].
    destruct (encode_term s1 b) as [[s2 ib]|] eqn:Eb; [|discriminate].
    destruct (encode_term s2 c) as [[s3 ic]|] eqn:Ec; [|discriminate].
    destruct (q_encode (sq s3) (ia, ib, ic)) as [q' j] eqn:Eq.
    injection H as <- <-.
    destruct (IHa _ _ _ Hs Ea) as (Hs1 & He1 & Da).
    destruct (IHb _ _ _ Hs1 Eb) as (Hs2 & He2 & Db).
    destruct (IHc _ _ _ Hs2 Ec) as (Hs3 & He3 & Dc).
    assert (denotes s3 ia a) as Da3 by (eapply denotes_ext; [exact (ext_trans _ _ _ He2 He3)|exact Da]).
    assert (denotes s3 ib b) as Db3 by (eapply denotes_ext; [exact He3|exact Db]).
    pose proof Hs3 as [Hb3 _].
    destruct (q_encode_state s3 ia ib ic q' j Hs3) as (Hs' & He' & Hg & Hr & Hi); try assumption;
      try (eapply denotes_defined; eassumption).
    split; [exact Hs'|]. split; [exact (ext_trans _ _ _ (ext_trans _ _ _ (ext_trans _ _ _ He1 He2) He3) He')|].
    eapply den_quote; [lia|exact Hr| | | ]; (eapply denotes_ext; [exact He'|assumption]).
Qed.

Lemma encode_term_known : forall t s i, BInv s -> denotes s i t -> encode_term s t = Ok (s, i).
Proof.
  induction t as [x|a IHa b IHb c IHc]; intros s i Hb H; inversion H; subst; cbn [encode_term].
  - destruct Hb as [[Hd _] _].
    match goal with [ Hx : d_decode _ i = Some x |- _ ] => apply Hd in Hx; rewrite (d_encode_known _ _ _ Hx) end.
    rewrite st_eta. reflexivity.
  - match goal with
    | [ Ha : denotes s ?a0 a, Hb' : denotes s ?b0 b, Hc : denotes s ?c0 c |- _ ] =>
        rewrite (IHa _ _ Hb Ha), (IHb _ _ Hb Hb'), (IHc _ _ Hb Hc)
    end.
    destruct Hb as [_ Hq].
    match goal with [ Hk : q_decode _ i = Some _ |- _ ] => apply Hq in Hk; rewrite (q_encode_known _ _ _ Hk) end.
    rewrite st_eta. reflexivity.
Qed.

Lemma encode_term_total : forall t s, (exists r, encode_term s t = Ok r) \/ encode_term s t = Err Exhausted.
Proof.
  induction t as [x|a IHa b IHb c IHc]; intros s; cbn [encode_term].
  - destruct (d_encode_total (sd s) x) as [[[d' i] ->]| ->]; [left; eauto|right; reflexivity].
  - destruct (IHa s) as [[[s1 ia] ->]| ->]; [|right; reflexivity].
    destruct (IHb s1) as [[[s2 ib] ->]| ->]; [|right; reflexivity].
    destruct (IHc s2) as [[[s3 ic] ->]| ->]; [|right; reflexivity].
    destruct (q_encode (sq s3) (ia, ib, ic)). left. eauto.
Qed.

(* ------------------------------------------------------------------------------------------ *)
(* call sequences                                                                              *)
(* QuotedTripleStore::encode is meant to be applied to ids handed out earlier *)
Definition op_valid (s : st) (o : op) : Prop :=
  match o with
  | EncQ a b c => defined s a /\ defined s b /\ defined s c
  | _ => True
  end.

Fixpoint valid (s : st) (ops : list op) : Prop :=
  match ops with
  | [] => True
  | o :: r => op_valid s o /\ match step s o with Ok (s1, _) => valid s1 r | Err _ => True end
  end.

Lemma encode_term_B : forall t s s' i, BInv s -> encode_term s t = Ok (s', i) -> BInv s' /\ ext s s'.
Proof.
  induction t as [y|a IHa b IHb c IHc]; intros s s' j Hb Et; cbn [encode_term] in Et.
  - destruct (d_encode (sd s) y) as [[d' k]|] eqn:Ed; [|discriminate]. injection Et as <- <-.
    destruct (d_encode_state_B _ _ _ _ Hb Ed) as (H1 & H2 & _). auto.
  - destruct (encode_term s a) as [[s1 ia]|] eqn:Ea; [|discriminate].
    destruct (encode_term s1 b) as [[s2 ib]|] eqn:Eb; [|discriminate].
    destruct (encode_term s2 c) as [[s3 ic]|] eqn:Ec; [|discriminate].
    destruct (q_encode (sq s3) (ia, ib, ic)) as [q' k] eqn:Eq. injection Et as <- <-.
    destruct (IHa _ _ _ Hb Ea) as (B1 & E1). destruct (IHb _ _ _ B1 Eb) as (B2 & E2).
    destruct (IHc _ _ _ B2 Ec) as (B3 & E3).
    destruct (q_encode_state_B _ _ _ _ B3 Eq) as (H1 & H2 & _).
    split; [exact H1|]. exact (ext_trans _ _ _ (ext_trans _ _ _ (ext_trans _ _ _ E1 E2) E3) H2).
Qed.

Lemma step_B : forall s o s' x, BInv s -> step s o = Ok (s', x) -> BInv s' /\ ext s s'.
Proof.
  intros s o s' x Hb H. destruct o; cbn [step] in H.
  - destruct (d_encode (sd s) s0) as [[d' j]|] eqn:Ed; [|discriminate]. injection H as <- <-.
    destruct (d_encode_state_B _ _ _ _ Hb Ed) as (H1 & H2 & _). auto.
  - injection H as <- <-. split; [exact Hb|apply ext_refl].
  - destruct (q_encode (sq s) (a, b, c)) as [q' j] eqn:Eq. injection H as <- <-.
    destruct (q_encode_state_B _ _ _ _ Hb Eq) as (H1 & H2 & _). auto.
  - injection H as <- <-. split; [exact Hb|apply ext_refl].
  - destruct (encode_term s t) as [[s1 j]|] eqn:Et; [|discriminate]. injection H as <- <-.
    exact (encode_term_B _ _ _ _ Hb Et).
  - injection H as <- <-. split; [exact Hb|apply ext_refl].
Qed.

Lemma step_S : forall s o s' x, SInv s -> op_valid s o -> step s o = Ok (s', x) -> SInv s' /\ ext s s'.
Proof.
  intros s o s' x Hs Hv H. destruct o; cbn [step] in H.
  - destruct (d_encode (sd s) s0) as [[d' j]|] eqn:Ed; [|discriminate]. injection H as <- <-.
    destruct (d_encode_state _ _ _ _ Hs Ed) as (H1 & H2 & _). auto.
  - injection H as <- <-. split; [exact Hs|apply ext_refl].
  - destruct (q_encode (sq s) (a, b, c)) as [q' j] eqn:Eq. injection H as <- <-.
    destruct Hv as (Da & Db & Dc).
    destruct (q_encode_state _ _ _ _ _ _ Hs Da Db Dc Eq) as (H1 & H2 & _). auto.
  - injection H as <- <-. split; [exact Hs|apply ext_refl].
  - destruct (encode_term s t) as [[s1 j]|] eqn:Et; [|discriminate]. injection H as <- <-.
    destruct (encode_term_spec _ _ _ _ Hs Et) as (H1 & H2 & _). auto.
  - injection H as <- <-. split; [exact Hs|apply ext_refl].
Qed.

Lemma run_B : forall ops s s' outs, BInv s -> run s ops = Ok (s', outs) -> BInv s' /\ ext s s'.
Proof.
  induction ops as [|o r IH]; intros s s' outs Hb H; cbn [run] in H.
  - injection H as <- <-. split; [exact Hb|apply ext_refl].
  - destruct (step s o) as [[s1 x]|] eqn:Es; [|discriminate].
    destruct (run s1 r) as [[s2 xs]|] eqn:Er; [|discriminate]. injection H as <- <-.
    destruct (step_B _ _ _ _ Hb Es) as (B1 & E1). destruct (IH _ _ _ B1 Er) as (B2 & E2).
    split; [exact B2|eapply ext_trans; eassumption].
Qed.

Lemma run_S : forall ops s s' outs, SInv s -> valid s ops -> run s ops = Ok (s', outs) -> SInv s' /\ ext s s'.
Proof.
  induction ops as [|o r IH]; intros s s' outs Hs Hv H; cbn [run] in H.
  - injection H as <- <-. split; [exact Hs|apply ext_refl].
  - destruct (step s o) as [[s1 x]|] eqn:Es; [|discriminate].
    destruct (run s1 r) as [[s2 xs]|] eqn:Er; [|discriminate]. injection H as <- <-.
    cbn [valid] in Hv. destruct Hv as (Hv1 & Hv2). rewrite Es in Hv2.
    destruct (step_S _ _ _ _ Hs Hv1 Es) as (B1 & E1). destruct (IH _ _ _ B1 Hv2 Er) as (B2 & E2).
    split; [exact B2|eapply ext_trans; eassumption].
Qed.

(* ------------------------------------------------------------------------------------------ *)
(* histories: the k-th call of a run and what it returned                                       *)
Definition called (ops : list op) (outs : list out) (k : nat) (o : op) (x : out) : Prop :=
  nth_error ops k = Some o /\ nth_error outs k = Some x.

Lemma nth_error_firstn_lt : forall {A} (l : list A) n k, (k < n)%nat -> nth_error (firstn n l) k = nth_error l k.
Proof.
  intros A l. induction l as [|a l IH]; intros n k Hlt.
  - rewrite firstn_nil. reflexivity.
  - destruct n as [|n]; [lia|]. destruct k as [|k]; [reflexivity|]. cbn. apply IH. lia.
Qed.

Lemma run_at : forall ops s s' outs k o,
  run s ops = Ok (s', outs) -> nth_error ops k = Some o ->
  exists s1 s2 x outs1 outs2,
    run s (firstn k ops) = Ok (s1, outs1) /\ step s1 o = Ok (s2, x) /\
    run s2 (skipn (S k) ops) = Ok (s', outs2) /\ nth_error outs k = Some x /\
    (valid s ops -> valid s (firstn k ops) /\ op_valid s1 o /\ valid s2 (skipn (S k) ops)).
Proof.
  induction ops as [|o0 r IH]; intros s s' outs k o H Hn.
  - destruct k; discriminate.
  - cbn [run] in H.
    destruct (step s o0) as [[sa x0]|] eqn:Es; [|discriminate].
    destruct (run sa r) as [[sb xs]|] eqn:Er; [|discriminate]. injection H as <- <-.
    destruct k as [|k].
    + injection Hn as <-. exists s, sa, x0, [], xs. cbn [firstn skipn run nth_error].
      repeat split; auto.
      * cbn [valid] in H. rewrite Es in H. apply H.
      * cbn [valid] in H. rewrite Es in H. apply H.
    + cbn [nth_error] in Hn.
      destruct (IH _ _ _ _ _ Er Hn) as (s1 & s2 & x & o1 & o2 & R1 & St & R2 & Nx & Hv).
      exists s1, s2, x, (x0 :: o1), o2. cbn [firstn skipn run nth_error]. rewrite Es, R1.
      repeat split; auto.
      * cbn [valid] in H. apply H.
      * rewrite Es. cbn [valid] in H. rewrite Es in H. apply Hv. apply H.
      * cbn [valid] in H. rewrite Es in H. apply Hv. apply H.
      * cbn [valid] in H. rewrite Es in H. apply Hv. apply H.
Qed.

(* two calls, the first strictly before the second *)
Lemma run_at2 : forall ops s s' outs k k' o o',
  run s ops = Ok (s', outs) -> (k < k')%nat -> nth_error ops k = Some o -> nth_error ops k' = Some o' ->
  exists s1 s2 x m outs1 outsm s1' s2' x' outs2,
    run s (firstn k ops) = Ok (s1, outs1) /\ step s1 o = Ok (s2, x) /\ nth_error outs k = Some x /\
    run s2 m = Ok (s1', outsm) /\ step s1' o' = Ok (s2', x') /\ nth_error outs k' = Some x' /\
    run s2' (skipn (S k') ops) = Ok (s', outs2) /\
    (valid s ops -> valid s (firstn k ops) /\ op_valid s1 o /\ valid s2 m /\ op_valid s1' o' /\ valid s2' (skipn (S k') ops)).
Proof.
  intros ops s s' outs k k' o o' H Hlt Hn Hn'.
  destruct (run_at _ _ _ _ _ _ H Hn') as (s1' & s2' & x' & o1' & o2' & R1' & St' & R2' & Nx' & Hv').
  assert (nth_error (firstn k' ops) k = Some o) as Hnk by (rewrite nth_error_firstn_lt; assumption).
  destruct (run_at _ _ _ _ _ _ R1' Hnk) as (s1 & s2 & x & o1 & o2 & R1 & St & R2 & Nx & Hv).
  assert (firstn k (firstn k' ops) = firstn k ops) as Hff.
  { rewrite firstn_firstn. f_equal. lia. }
  rewrite Hff in R1.
  assert (nth_error outs k = Some x) as Nxk.
  { (* outs agrees with the prefix run's outputs below k' *)
    clear - H R1' Nx Hlt. revert s s' outs k k' o1' s1' H R1' Nx Hlt.
    induction ops as [|o0 r IH]; intros s s' outs k k' o1' s1' H R1' Nx Hlt.
    - rewrite firstn_nil in R1'. cbn in R1'. injection R1' as <- <-. destruct k; discriminate.
    - destruct k' as [|k']; [lia|]. cbn [firstn run] in R1'. cbn [run] in H.
      destruct (step s o0) as [[sa x0]|] eqn:Es; [|discriminate].
      destruct (run sa r) as [[sb xs]|] eqn:Er; [|discriminate]. injection H as <- <-.
      destruct (run sa (firstn k' r)) as [[sc ys]|] eqn:Er'; [|discriminate]. injection R1' as <- <-.
      destruct k as [|k]; [exact Nx|]. cbn [nth_error] in *.
      eapply IH; eauto. lia. }
  exists s1, s2, x, (skipn (S k) (firstn k' ops)), o1, o2, s1', s2', x', o2'.
  split; [exact R1|]. split; [exact St|]. split; [exact Nxk|]. split; [exact R2|].
  split; [exact St'|]. split; [exact Nx'|]. split; [exact R2'|].
  intros Hval. destruct (Hv' Hval) as (V1 & V2 & V3). destruct (Hv V1) as (W1 & W2 & W3).
  rewrite Hff in W1. auto.
Qed.

(* what the allocating steps establish *)
Lemma step_enc_fact : forall s x s2 o, BInv s -> step s (Enc x) = Ok (s2, o) ->
  exists i, o = OId i /\ d_get (sd s2) x = Some i /\ d_decode (sd s2) i = Some x /\ i < QBIT.
Proof.
  intros s x s2 o Hb H. cbn [step] in H.
  destruct (d_encode (sd s) x) as [[d' j]|] eqn:Ed; [|discriminate]. injection H as <- <-.
  destruct (d_encode_state_B _ _ _ _ Hb Ed) as (_ & _ & Hg & Hr & Hi). exists j. auto.
Qed.

Lemma step_encq_fact : forall s a b c s2 o, BInv s -> step s (EncQ a b c) = Ok (s2, o) ->
  exists i, o = OId i /\ q_get (sq s2) (a, b, c) = Some i /\ q_decode (sq s2) i = Some (a, b, c) /\ QBIT <= i.
Proof.
  intros s a b c s2 o Hb H. cbn [step] in H.
  destruct (q_encode (sq s) (a, b, c)) as [q' j] eqn:Eq. injection H as <- <-.
  destruct (q_encode_state_B _ _ _ _ Hb Eq) as (_ & _ & Hg & Hr & Hi). exists j. cbn [sq]. repeat split; auto. lia.
Qed.

Lemma step_enct_fact : forall s t s2 o, SInv s -> step s (EncT t) = Ok (s2, o) ->
  exists i, o = OId i /\ denotes s2 i t.
Proof.
  intros s t s2 o Hs H. cbn [step] in H.
  destruct (encode_term s t) as [[s1 j]|] eqn:Et; [|discriminate]. injection H as <- <-.
  destruct (encode_term_spec _ _ _ _ Hs Et) as (_ & _ & Hd). exists j. auto.
Qed.

(* facts about the k-th call that still hold in the final state *)
Lemma hist_enc : forall ops s s' outs k x i,
  BInv s -> run s ops = Ok (s', outs) -> called ops outs k (Enc x) (OId i) ->
  d_get (sd s') x = Some i /\ d_decode (sd s') i = Some x /\ i < QBIT.
Proof.
  intros ops s s' outs k x i Hb H [Hn Ho].
  destruct (run_at _ _ _ _ _ _ H Hn) as (s1 & s2 & y & o1 & o2 & R1 & St & R2 & Ny & _).
  destruct (run_B _ _ _ _ Hb R1) as (B1 & _).
  destruct (step_B _ _ _ _ B1 St) as (B2 & _).
  destruct (run_B _ _ _ _ B2 R2) as (_ & [(Eg & Er & _) _]).
  destruct (step_enc_fact _ _ _ _ B1 St) as (j & -> & Hg & Hr & Hj).
  rewrite Ho in Ny. injection Ny as ->. auto.
Qed.

Lemma hist_encq : forall ops s s' outs k a b c i,
  BInv s -> run s ops = Ok (s', outs) -> called ops outs k (EncQ a b c) (OId i) ->
  q_get (sq s') (a, b, c) = Some i /\ q_decode (sq s') i = Some (a, b, c) /\ QBIT <= i.
Proof.
  intros ops s s' outs k a b c i Hb H [Hn Ho].
  destruct (run_at _ _ _ _ _ _ H Hn) as (s1 & s2 & y & o1 & o2 & R1 & St & R2 & Ny & _).
  destruct (run_B _ _ _ _ Hb R1) as (B1 & _).
  destruct (step_B _ _ _ _ B1 St) as (B2 & _).
  destruct (run_B _ _ _ _ B2 R2) as (_ & [_ (Eg & Er & _)]).
  destruct (step_encq_fact _ _ _ _ _ _ B1 St) as (j & -> & Hg & Hr & Hj).
  rewrite Ho in Ny. injection Ny as ->. auto.
Qed.

Lemma hist_enct : forall ops s s' outs k t i,
  SInv s -> valid s ops -> run s ops = Ok (s', outs) -> called ops outs k (EncT t) (OId i) ->
  denotes s' i t.
Proof.
  intros ops s s' outs k t i Hs Hv H [Hn Ho].
  destruct (run_at _ _ _ _ _ _ H Hn) as (s1 & s2 & y & o1 & o2 & R1 & St & R2 & Ny & Hval).
  destruct (Hval Hv) as (V1 & V2 & V3).
  destruct (run_S _ _ _ _ Hs V1 R1) as (S1 & _).
  destruct (step_S _ _ _ _ S1 V2 St) as (S2 & _).
  destruct (run_S _ _ _ _ S2 V3 R2) as (_ & E2).
  destruct (step_enct_fact _ _ _ _ S1 St) as (j & -> & Hd).
  rewrite Ho in Ny. injection Ny as ->. eapply denotes_ext; eassumption.
Qed.

Ltac splits := repeat match goal with |- _ /\ _ => split end.

Lemma run_at2_B : forall ops s s' outs k k' o o',
  BInv s -> run s ops = Ok (s', outs) -> (k < k')%nat -> nth_error ops k = Some o -> nth_error ops k' = Some o' ->
  exists s1 s2 x s1' s2' x',
    BInv s1 /\ step s1 o = Ok (s2, x) /\ nth_error outs k = Some x /\ BInv s2 /\ ext s2 s1' /\
    BInv s1' /\ step s1' o' = Ok (s2', x') /\ nth_error outs k' = Some x' /\ ext s2' s'.
Proof.
  intros ops s s' outs k k' o o' Hb H Hlt Hn Hn'.
  destruct (run_at2 _ _ _ _ _ _ _ _ H Hlt Hn Hn') as (s1 & s2 & x & m & o1 & om & s1' & s2' & x' & o2 & R1 & St & Nx & Rm & St' & Nx' & R2 & _).
  destruct (run_B _ _ _ _ Hb R1) as (B1 & _).
  destruct (step_B _ _ _ _ B1 St) as (B2 & _).
  destruct (run_B _ _ _ _ B2 Rm) as (B1' & E).
  destruct (step_B _ _ _ _ B1' St') as (B2' & _).
  destruct (run_B _ _ _ _ B2' R2) as (_ & E').
  exists s1, s2, x, s1', s2', x'. splits; assumption.
Qed.

Lemma run_at2_S : forall ops s s' outs k k' o o',
  SInv s -> valid s ops -> run s ops = Ok (s', outs) -> (k < k')%nat -> nth_error ops k = Some o -> nth_error ops k' = Some o' ->
  exists s1 s2 x s1' s2' x',
    SInv s1 /\ step s1 o = Ok (s2, x) /\ nth_error outs k = Some x /\ SInv s2 /\ ext s2 s1' /\
    SInv s1' /\ step s1' o' = Ok (s2', x') /\ nth_error outs k' = Some x' /\ ext s2' s'.
Proof.
  intros ops s s' outs k k' o o' Hs Hv H Hlt Hn Hn'.
  destruct (run_at2 _ _ _ _ _ _ _ _ H Hlt Hn Hn') as (s1 & s2 & x & m & o1 & om & s1' & s2' & x' & o2 & R1 & St & Nx & Rm & St' & Nx' & R2 & Hval).
  destruct (Hval Hv) as (V1 & V2 & V3 & V4 & V5).
  destruct (run_S _ _ _ _ Hs V1 R1) as (B1 & _).
  destruct (step_S _ _ _ _ B1 V2 St) as (B2 & _).
  destruct (run_S _ _ _ _ B2 V3 Rm) as (B1' & E).
  destruct (step_S _ _ _ _ B1' V4 St') as (B2' & _).
  destruct (run_S _ _ _ _ B2' V5 R2) as (_ & E').
  exists s1, s2, x, s1', s2', x'. splits; assumption.
Qed.

(* ---- the history-level statements of the property ---- *)
Lemma hist_encode_bijective : forall ops s outs k k' x x' i i',
  run st_new ops = Ok (s, outs) ->
  called ops outs k (Enc x) (OId i) -> called ops outs k' (Enc x') (OId i') ->
  (i = i' <-> x = x').
Proof.
  intros ops s outs k k' x x' i i' H C C'.
  destruct (hist_enc _ _ _ _ _ _ _ BInv_new H C) as (G & _).
  destruct (hist_enc _ _ _ _ _ _ _ BInv_new H C') as (G' & _).
  destruct (run_B _ _ _ _ BInv_new H) as ([[Hd _] _] & _).
  split.
  - intros <-. exact (BMInv_get_inj _ _ _ _ _ _ _ Hd G G').
  - intros <-. unfold d_get in *. congruence.
Qed.

Lemma hist_decode_encode : forall ops s outs k k' x i r,
  run st_new ops = Ok (s, outs) -> (k < k')%nat ->
  called ops outs k (Enc x) (OId i) -> called ops outs k' (Dec i) (OLex r) -> r = Some x.
Proof.
  intros ops s outs k k' x i r H Hlt [Hn Ho] [Hn' Ho'].
  destruct (run_at2_B _ _ _ _ _ _ _ _ BInv_new H Hlt Hn Hn') as (s1 & s2 & y & s1' & s2' & y' & B1 & St & Ny & B2 & E & B1' & St' & Ny' & _).
  destruct (step_enc_fact _ _ _ _ B1 St) as (j & -> & _ & Hr & _).
  rewrite Ho in Ny. injection Ny as ->.
  cbn [step] in St'. injection St' as <- <-. rewrite Ho' in Ny'. injection Ny' as ->.
  destruct E as [(_ & Er & _) _]. apply Er. exact Hr.
Qed.

Lemma hist_encode_decode : forall ops s outs k k' x i j,
  run st_new ops = Ok (s, outs) -> (k < k')%nat ->
  called ops outs k (Dec i) (OLex (Some x)) -> called ops outs k' (Enc x) (OId j) -> j = i.
Proof.
  intros ops s outs k k' x i j H Hlt [Hn Ho] [Hn' Ho'].
  destruct (run_at2_B _ _ _ _ _ _ _ _ BInv_new H Hlt Hn Hn') as (s1 & s2 & y & s1' & s2' & y' & B1 & St & Ny & B2 & E & B1' & St' & Ny' & _).
  cbn [step] in St. injection St as <- <-. rewrite Ho in Ny. injection Ny as Hdec.
  destruct E as [(_ & Er & _) _]. symmetry in Hdec. apply Er in Hdec.
  destruct B1' as [[Hd _] _]. apply Hd in Hdec.
  cbn [step] in St'. unfold d_get in *. rewrite (d_encode_known _ _ _ Hdec) in St'. injection St' as <- <-.
  rewrite Ho' in Ny'. injection Ny' as ->. reflexivity.
Qed.

Lemma hist_range_plain : forall ops s outs k x i,
  run st_new ops = Ok (s, outs) -> called ops outs k (Enc x) (OId i) -> is_quoted i = false.
Proof.
  intros ops s outs k x i H C. destruct (hist_enc _ _ _ _ _ _ _ BInv_new H C) as (_ & _ & Hi).
  apply is_quoted_false. exact Hi.
Qed.

Lemma hist_range_quoted : forall ops s outs k a b c i,
  run st_new ops = Ok (s, outs) -> called ops outs k (EncQ a b c) (OId i) -> is_quoted i = true.
Proof.
  intros ops s outs k a b c i H C. destruct (hist_encq _ _ _ _ _ _ _ _ _ BInv_new H C) as (_ & _ & Hi).
  apply is_quoted_true. exact Hi.
Qed.

Lemma hist_range_term : forall ops s outs k t i,
  valid st_new ops -> run st_new ops = Ok (s, outs) -> called ops outs k (EncT t) (OId i) ->
  is_quoted i = match t with TLeaf _ => false | TQuote _ _ _ => true end.
Proof.
  intros ops s outs k t i Hv H C. pose proof (hist_enct _ _ _ _ _ _ _ SInv_new Hv H C) as Hd.
  apply denotes_range in Hd. destruct t; [apply is_quoted_false|apply is_quoted_true]; exact Hd.
Qed.

Lemma hist_qt_structural_ids : forall ops s outs k k' a b c a' b' c' i i',
  run st_new ops = Ok (s, outs) ->
  called ops outs k (EncQ a b c) (OId i) -> called ops outs k' (EncQ a' b' c') (OId i') ->
  (i = i' <-> (a, b, c) = (a', b', c')).
Proof.
  intros ops s outs k k' a b c a' b' c' i i' H C C'.
  destruct (hist_encq _ _ _ _ _ _ _ _ _ BInv_new H C) as (G & _).
  destruct (hist_encq _ _ _ _ _ _ _ _ _ BInv_new H C') as (G' & _).
  destruct (run_B _ _ _ _ BInv_new H) as ([_ Hq] & _).
  split.
  - intros <-. exact (BMInv_get_inj _ _ _ _ _ _ _ Hq G G').
  - intros E. rewrite <- E in G'. unfold q_get in *. congruence.
Qed.

Lemma hist_qt_structural_terms : forall ops s outs k k' t t' i i',
  valid st_new ops -> run st_new ops = Ok (s, outs) ->
  called ops outs k (EncT t) (OId i) -> called ops outs k' (EncT t') (OId i') ->
  (i = i' <-> t = t').
Proof.
  intros ops s outs k k' t t' i i' Hv H C C'.
  pose proof (hist_enct _ _ _ _ _ _ _ SInv_new Hv H C) as D.
  pose proof (hist_enct _ _ _ _ _ _ _ SInv_new Hv H C') as D'.
  destruct (run_S _ _ _ _ SInv_new Hv H) as ([Hb _] & _).
  split.
  - intros <-. eapply denotes_fun; eassumption.
  - intros <-. eapply denotes_inj; eassumption.
Qed.

Lemma hist_term_vs_plain : forall ops s outs k k' x i i',
  valid st_new ops -> run st_new ops = Ok (s, outs) ->
  called ops outs k (Enc x) (OId i) -> called ops outs k' (EncT (TLeaf x)) (OId i') -> i = i'.
Proof.
  intros ops s outs k k' x i i' Hv H C C'.
  destruct (hist_enc _ _ _ _ _ _ _ BInv_new H C) as (G & _).
  pose proof (hist_enct _ _ _ _ _ _ _ SInv_new Hv H C') as D'.
  destruct (run_B _ _ _ _ BInv_new H) as ([[Hd _] _] & _).
  inversion D'; subst.
  match goal with [ Hx : d_decode _ i' = Some _ |- _ ] => apply Hd in Hx; change (d_get (sd s) x = Some i') in Hx; congruence end.
Qed.

Lemma hist_decode_term : forall ops s outs k k' t i r,
  valid st_new ops -> run st_new ops = Ok (s, outs) -> (k < k')%nat ->
  called ops outs k (EncT t) (OId i) -> called ops outs k' (DecT i) (OTerm r) -> r = Ok t.
Proof.
  intros ops s outs k k' t i r Hv H Hlt [Hn Ho] [Hn' Ho'].
  destruct (run_at2_S _ _ _ _ _ _ _ _ SInv_new Hv H Hlt Hn Hn') as (s1 & s2 & y & s1' & s2' & y' & B1 & St & Ny & B2 & E & B1' & St' & Ny' & _).
  destruct (step_enct_fact _ _ _ _ B1 St) as (j & -> & Hd).
  rewrite Ho in Ny. injection Ny as ->.
  cbn [step] in St'. injection St' as <- <-. rewrite Ho' in Ny'. injection Ny' as ->.
  apply decode_any_complete; [exact B1'|]. eapply denotes_ext; eassumption.
Qed.

Lemma hist_decode_quoted : forall ops s outs k k' a b c i r,
  run st_new ops = Ok (s, outs) -> (k < k')%nat ->
  called ops outs k (EncQ a b c) (OId i) -> called ops outs k' (DecQ i) (OKey r) -> r = Some (a, b, c).
Proof.
  intros ops s outs k k' a b c i r H Hlt [Hn Ho] [Hn' Ho'].
  destruct (run_at2_B _ _ _ _ _ _ _ _ BInv_new H Hlt Hn Hn') as (s1 & s2 & y & s1' & s2' & y' & B1 & St & Ny & B2 & E & B1' & St' & Ny' & _).
  destruct (step_encq_fact _ _ _ _ _ _ B1 St) as (j & -> & _ & Hr & _).
  rewrite Ho in Ny. injection Ny as ->.
  cbn [step] in St'. injection St' as <- <-. rewrite Ho' in Ny'. injection Ny' as ->.
  destruct E as [_ (_ & Er & _)]. apply Er. exact Hr.
Qed.

(* ids handed out earlier never change: every binding of both stores, and every denotation, survives
   any later call sequence; re-encoding a known term returns the old id and changes nothing *)
Lemma stable_bindings : forall ops1 ops2 s1 o1 s2 o2,
  run st_new ops1 = Ok (s1, o1) -> run s1 ops2 = Ok (s2, o2) ->
  (forall x i, d_get (sd s1) x = Some i -> d_get (sd s2) x = Some i) /\
  (forall i x, d_decode (sd s1) i = Some x -> d_decode (sd s2) i = Some x) /\
  (forall k i, q_get (sq s1) k = Some i -> q_get (sq s2) k = Some i) /\
  (forall i k, q_decode (sq s1) i = Some k -> q_decode (sq s2) i = Some k) /\
  (forall x i, d_get (sd s1) x = Some i -> step s2 (Enc x) = Ok (s2, OId i)) /\
  (forall a b c i, q_get (sq s1) (a, b, c) = Some i -> step s2 (EncQ a b c) = Ok (s2, OId i)).
Proof.
  intros ops1 ops2 s1 o1 s2 o2 H1 H2.
  destruct (run_B _ _ _ _ BInv_new H1) as (B1 & _).
  destruct (run_B _ _ _ _ B1 H2) as (B2 & [(Dg & Dr & _) (Qg & Qr & _)]).
  splits; auto.
  - intros x i Hg. cbn [step]. rewrite (d_encode_known _ _ _ (Dg _ _ Hg)). rewrite st_eta. reflexivity.
  - intros a b c i Hg. cbn [step]. rewrite (q_encode_known _ _ _ (Qg _ _ Hg)). rewrite st_eta. reflexivity.
Qed.

Lemma stable_terms : forall ops1 ops2 s1 o1 s2 o2,
  valid st_new ops1 -> run st_new ops1 = Ok (s1, o1) -> valid s1 ops2 -> run s1 ops2 = Ok (s2, o2) ->
  forall i t, decode_any s1 i = Ok t ->
    decode_any s2 i = Ok t /\ step s2 (EncT t) = Ok (s2, OId i).
Proof.
  intros ops1 ops2 s1 o1 s2 o2 V1 H1 V2 H2 i t Hd.
  destruct (run_S _ _ _ _ SInv_new V1 H1) as (S1 & _).
  destruct (run_S _ _ _ _ S1 V2 H2) as (S2 & E).
  apply decode_term_sound in Hd. pose proof (denotes_ext _ _ _ _ E Hd) as Hd2.
  split; [apply decode_any_complete; assumption|].
  cbn [step]. destruct S2 as [B2 _]. rewrite (encode_term_known _ _ _ B2 Hd2). reflexivity.
Qed.

(* a boolean form of `valid`, for concrete histories *)
Definition definedb (s : st) (i : N) : bool := (i <? nxt (sd s)) || ((QBIT <=? i) && (i <? nxt (sq s))).
Definition op_validb (s : st) (o : op) : bool :=
  match o with
  | EncQ a b c => definedb s a && definedb s b && definedb s c
  | _ => true
  end.
Fixpoint validb (s : st) (ops : list op) : bool :=
  match ops with
  | [] => true
  | o :: r => op_validb s o && match step s o with Ok (s1, _) => validb s1 r | Err _ => true end
  end.

Lemma definedb_sound : forall s i, definedb s i = true -> defined s i.
Proof.
  intros s i H. unfold definedb in H. apply orb_true_iff in H. destruct H as [H|H].
  - left. apply N.ltb_lt. exact H.
  - apply andb_true_iff in H. destruct H as [H1 H2]. right. split; [apply N.leb_le; exact H1|apply N.ltb_lt; exact H2].
Qed.

Lemma validb_sound : forall ops s, validb s ops = true -> valid s ops.
Proof.
  induction ops as [|o r IH]; intros s H; cbn [validb valid] in *; [exact I|].
  apply andb_true_iff in H. destruct H as [H1 H2]. split.
  - destruct o; cbn [op_validb op_valid] in *; try exact I.
    apply andb_true_iff in H1. destruct H1 as [H1 Hc]. apply andb_true_iff in H1. destruct H1 as [Ha Hb].
    splits; apply definedb_sound; assumption.
  - destruct (step s o) as [[s1 x]|]; [apply IH; exact H2|exact I].
Qed.

(* histories that never call QuotedTripleStore::encode on raw ids (everything the loaders do) are valid *)
Definition no_raw (o : op) : Prop := match o with EncQ _ _ _ => False | _ => True end.

Lemma valid_no_raw : forall ops s, Forall no_raw ops -> valid s ops.
Proof.
  induction ops as [|o r IH]; intros s H; cbn [valid]; [exact I|].
  inversion H as [|o' r' Ho Hr]; subst. split.
  - destruct o; cbn [op_valid no_raw] in *; try exact I. contradiction.
  - destruct (step s o) as [[s1 x]|]; [apply IH; exact Hr|exact I].
Qed.

(* run_upto (used by the correspondence check, which also exercises the exhaustion boundary) agrees with run *)
Lemma run_upto_ok : forall ops s s' outs, run s ops = Ok (s', outs) <-> run_upto s ops = (outs, None, s').
Proof.
  induction ops as [|o r IH]; intros s s' outs; cbn [run run_upto].
  - split; intros H; injection H as <- <-; reflexivity.
  - destruct (step s o) as [[s1 x]|e]; [|split; discriminate].
    specialize (IH s1). destruct (run s1 r) as [[s2 xs]|e2]; destruct (run_upto s1 r) as [[ys e] s3].
    + split.
      * intros H. injection H as <- <-. pose proof (proj1 (IH s2 xs) eq_refl) as E. injection E as -> -> ->. reflexivity.
      * intros H. injection H as <- -> <-. pose proof (proj2 (IH s3 ys) eq_refl) as E. injection E as -> ->. reflexivity.
    + split; [discriminate|].
      intros H. injection H as <- -> <-. pose proof (proj2 (IH s3 ys) eq_refl) as E. discriminate.
Qed.

(* the exhaustion guard: a fresh term is either refused or gets an id below 2^31, whatever next_id is *)
Lemma d_encode_guard : forall d x,
  d_get d x = None ->
  (d_encode d x = Err Exhausted <-> QBIT <= nxt d) /\
  (forall d' i, d_encode d x = Ok (d', i) -> i = nxt d /\ i < QBIT /\ nxt d' <= QBIT).
Proof.
  intros d x Hn. unfold d_encode. rewrite Hn. destruct (N.ltb_spec (nxt d) QBIT) as [Hlt|Hge].
  - split; [split; [discriminate|lia]|]. intros d' i H. unfold bm_alloc in H. injection H as <- <-. cbn. splits; lia.
  - split; [split; [lia|reflexivity]|]. intros d' i H. discriminate.
Qed.
