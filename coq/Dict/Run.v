(* Entry points used by the correspondence check (checks/c15.py): run the model on a case and
   return plain data that `Eval vm_compute` prints (numbers, lists, tuples, constructors). *)
Require Import KV.Dict.Model KV.Dict.Spec.

Definition dump (s : st) :=
  (k2i (sd s), i2k (sd s), nxt (sd s), (k2i (sq s), i2k (sq s), nxt (sq s))).

(* a call sequence on a fresh dictionary + quoted store: every output, then the final maps *)
Definition seq_run (ops : list op) :=
  match run st_new ops with
  | Ok (s, outs) => Ok (outs, dump s)
  | Err e => Err e
  end.

Definition render (l : ldata) := (lquads l, lgraphs l, lterms l, lquoted l, lseeds l).

(* raw additions that bypass the dictionary (SparqlDatabase::add_quad, create_graph and the public
   `probability_seeds` field): used for the malformed stream (dangling ids) *)
Definition add_raw (d : db) (qs : list quad) (gs : list N) (sds : list seed) : db :=
  mkDb (dst d) (fold_left create_graph gs (fold_left insert_quad qs (dix d))) (rev sds ++ dseeds d).

(* two independently populated databases and their union *)
Definition pair_run (opsA : list bop) (opsB : list bop) (qsB : list quad) (gsB : list N) (sdsB : list seed) :=
  match build db_new opsA, build db_new opsB with
  | Ok a, Ok b0 =>
      let b := add_raw b0 qsB gsB sdsB in
      Ok (render (den a), render (den b),
          match union a b with
          | Ok u => Ok (render (den u), dump (dst u))
          | Err e => Err e
          end)
  | Err e, _ => Err e
  | _, Err e => Err e
  end.
