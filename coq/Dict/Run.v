(* Entry points used by the correspondence check (checks/c15.py): run the model on a case and
   return plain data that `Eval vm_compute` prints (numbers, lists, tuples, constructors).
   Identifiers are printed as Z: a plain id i as i, a quoted id 2^31 + k as -(k+1) (printing the
   31-bit numerals is what dominates the time of a check run otherwise). *)
Require Import KV.Dict.Model KV.Dict.Spec.
Require Import ZArith.

Definition rz (i : N) : Z :=
  if QBIT <=? i then (Z.opp (Z.of_N (i - QBIT)) - 1)%Z else Z.of_N i.
Definition rk (k : key3) : Z * Z * Z := match k with (a, b, c) => (rz a, rz b, rz c) end.

Inductive rout :=
| RId (i : Z)
| RLex (x : option lex)
| RKey (k : option (Z * Z * Z))
| RTerm (t : res term).

Definition render_out (o : out) : rout :=
  match o with
  | OId i => RId (rz i)
  | OLex x => RLex x
  | OKey k => RKey (option_map rk k)
  | OTerm t => RTerm t
  end.

Definition dump (s : st) :=
  (map (fun p => (fst p, rz (snd p))) (k2i (sd s)),
   map (fun p => (rz (fst p), snd p)) (i2k (sd s)),
   rz (nxt (sd s)),
   (map (fun p => (rk (fst p), rz (snd p))) (k2i (sq s)),
    map (fun p => (rz (fst p), rk (snd p))) (i2k (sq s)),
    rz (nxt (sq s)))).

(* a call sequence on a fresh dictionary + quoted store whose public counters `next_id` / `next_qt_id` were
   set to dn / qn beforehand (dn = 0, qn = 2^31 is `new()`): the outputs up to the first call that
   panicked, the error if any, and the maps in which that call was made *)
Definition seq_run_from (dn qn : N) (ops : list op) :=
  match run_upto (mkSt (mkBimap [] [] dn) (mkBimap [] [] qn)) ops with
  | (outs, e, s) => (map render_out outs, e, dump s)
  end.

Definition seq_run (ops : list op) := seq_run_from 0 QBIT ops.

(* quads, graph identities and seeds of the lexical dataset; the dictionary terms and quoted terms
   are not printed as trees (quadratic in the nesting): the check rebuilds them from `dump` *)
Definition render (l : ldata) := (lquads l, lgraphs l, lseeds l).

(* raw additions that bypass the dictionary (SparqlDatabase::add_quad, create_graph and the public
   `probability_seeds` field): used for the malformed stream (dangling ids) *)
Definition add_raw (d : db) (qs : list quad) (gs : list N) (sds : list seed) : db :=
  mkDb (dst d) (fold_left create_graph gs (fold_left insert_quad qs (dix d))) (rev sds ++ dseeds d).

(* two independently populated databases and their union *)
Definition pair_run (opsA : list bop) (opsB : list bop) (qsB : list quad) (gsB : list N) (sdsB : list seed) :=
  match build db_new opsA, build db_new opsB with
  | Ok a, Ok b0 =>
      let b := add_raw b0 qsB gsB sdsB in
      Ok (render (den a), render (den b),
          match union a b with
          | Ok u => Ok (render (den u), dump (dst u))
          | Err e => Err e
          end)
  | Err e, _ => Err e
  | _, Err e => Err e
  end.
