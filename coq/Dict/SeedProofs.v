(* C15, probability seeds: the union binds a lexical triple to the right operand's seed if it has
   one, otherwise to the left operand's (HashMap::insert of `other`'s entries last). *)
Require Import KV.Dict.Model KV.Dict.Spec KV.Dict.BimapProofs KV.Dict.Proofs KV.Dict.UnionProofs.
Require Import Lia.

(* HashMap::get on the seed map *)
Fixpoint lookup_s (l : list seed) (k : key3) : option N :=
  match l with
  | [] => None
  | (k', p) :: r => if key3_eqb k k' then Some p else lookup_s r k
  end.

Lemma key3_eqb_refl : forall k, key3_eqb k k = true.
Proof. intros k. apply key3_eqb_spec. reflexivity. Qed.
Lemma key3_eqb_neq : forall k k', k <> k' -> key3_eqb k k' = false.
Proof. intros k k' H. destruct (key3_eqb k k') eqn:E; [|reflexivity]. apply key3_eqb_spec in E. contradiction. Qed.

Lemma lookup_s_in : forall l k p, lookup_s l k = Some p -> In (k, p) l.
Proof.
  induction l as [|[k0 p0] r IH]; intros k p H; cbn [lookup_s] in H; [discriminate|].
  destruct (key3_eqb k k0) eqn:E.
  - apply key3_eqb_spec in E. injection H as <-. left. congruence.
  - right. apply IH. exact H.
Qed.

Lemma lookup_s_none : forall l k, lookup_s l k = None -> forall p, ~ In (k, p) l.
Proof.
  induction l as [|[k0 p0] r IH]; intros k H p Hin; cbn [lookup_s] in H; [contradiction|].
  destruct (key3_eqb k k0) eqn:E; [discriminate|].
  destruct Hin as [Heq|Hin]; [|exact (IH _ H _ Hin)].
  injection Heq as -> ->. rewrite key3_eqb_refl in E. discriminate.
Qed.

Lemma lookup_s_unique : forall l k p, In (k, p) l -> (forall p', In (k, p') l -> p' = p) -> lookup_s l k = Some p.
Proof.
  intros l k p Hin Hu. destruct (lookup_s l k) as [p'|] eqn:E.
  - apply lookup_s_in in E. rewrite (Hu _ E). reflexivity.
  - exfalso. exact (lookup_s_none _ _ E _ Hin).
Qed.

Lemma lookup_s_app : forall l1 l2 k,
  lookup_s (l1 ++ l2) k = match lookup_s l1 k with Some p => Some p | None => lookup_s l2 k end.
Proof.
  induction l1 as [|[k0 p0] r IH]; intros l2 k; cbn [app lookup_s]; [reflexivity|].
  destruct (key3_eqb k k0); [reflexivity|apply IH].
Qed.

(* the visible bindings are exactly what `get` returns *)
Lemma live_lookup : forall l k p, In (k, p) (live l) <-> lookup_s l k = Some p.
Proof.
  induction l as [|[k0 p0] r IH]; intros k p; cbn [live lookup_s].
  - split; [contradiction|discriminate].
  - cbn [In]. rewrite filter_In, IH. cbn [fst]. destruct (key3_eqb k k0) eqn:E.
    + apply key3_eqb_spec in E. subst k0. rewrite key3_eqb_refl. cbn [negb]. split.
      * intros [Heq|[_ Hf]]; [congruence|discriminate].
      * intros Heq. left. congruence.
    + assert (k0 <> k) as Hne by (intros ->; rewrite key3_eqb_refl in E; discriminate).
      rewrite (key3_eqb_neq _ _ Hne). cbn [negb]. split.
      * intros [Heq|[H _]]; [congruence|exact H].
      * intros H. right. auto.
Qed.

Lemma den_seeds_in : forall d t p, SInv (dst d) ->
  (In (t, p) (den_seeds d) <-> exists k, lookup_s (dseeds d) k = Some p /\ den3 (dst d) k t).
Proof.
  intros d t p Hs. unfold den_seeds. rewrite okmap_in. split.
  - intros ([k p0] & Hin & H). cbn [fst snd] in H.
    destruct (decode3 (dst d) k) as [t0|] eqn:E3; [|discriminate]. injection H as <- <-.
    exists k. split; [apply live_lookup; exact Hin|apply (decode3_iff _ _ _ Hs); exact E3].
  - intros (k & Hl & H3). exists (k, p). split; [apply live_lookup; exact Hl|].
    cbn [fst snd]. apply (decode3_iff _ _ _ Hs) in H3. rewrite H3. reflexivity.
Qed.

Lemma den3_inj : forall s k k' t, BInv s -> den3 s k t -> den3 s k' t -> k = k'.
Proof.
  intros s [[a b] c] [[a' b'] c'] [[ta tb] tc] Hb (H1 & H2 & H3) (G1 & G2 & G3).
  rewrite (denotes_inj _ _ _ _ Hb H1 G1), (denotes_inj _ _ _ _ Hb H2 G2), (denotes_inj _ _ _ _ Hb H3 G3). reflexivity.
Qed.

Lemma key_ok_den3 : forall s k, SInv s -> key_ok s k -> exists t, den3 s k t.
Proof.
  intros s [[a b] c] Hs (Da & Db & Dc).
  destruct (defined_decodes _ _ Hs Da) as [ta Ha]. destruct (defined_decodes _ _ Hs Db) as [tb Hb].
  destruct (defined_decodes _ _ Hs Dc) as [tc Hc]. exists (ta, tb, tc). cbn [den3]. auto.
Qed.

Theorem union_seeds_correct : forall a b u, WF a -> WF b -> union a b = Ok u ->
  is_union_seeds (den a) (den b) (den u).
Proof.
  intros a b u Wa Wb H.
  destruct (union_stages _ _ _ Wa Wb H) as (ts2 & ts3 & ts4 & ts5 & x2 & sds & -> & I5 & Ea & _ & _ & _ & _ & _ & _ & (trl & -> & Hf)).
  destruct I5 as (Su & CI & _).
  pose proof Wa as (Sa & _ & _ & Ka). pose proof Wb as (Sb & _ & _ & Kb).
  pose proof Su as [Bu _]. pose proof Sb as [Bb _].
  set (u := {| dst := tst ts5; dix := x2; dseeds := trl ++ dseeds a |}).
  assert (SInv (dst u)) as Su' by exact Su.
  (* the translated list, read as a map *)
  assert (forall k' p, In (k', p) trl <-> exists k, lookup_s (dseeds b) k = Some p /\ tr3 (tcache ts5) k k') as Htrl.
  { intros k' p. split.
    - intros Hin. destruct (Forall2_in_r _ _ _ Hf _ Hin) as ([k p0] & Hk & (Hp & Ht)). cbn [fst snd] in *. subst p0.
      exists k. split; [apply live_lookup; apply in_rev; exact Hk|exact Ht].
    - intros (k & Hl & Ht). apply live_lookup in Hl. apply in_rev in Hl.
      destruct (Forall2_in_l _ _ _ Hf _ Hl) as ([k'' p''] & Hin & (Hp & Ht')). cbn [fst snd] in *. subst p''.
      destruct k as [[ka kb] kc], k' as [[ka' kb'] kc'], k'' as [[ka'' kb''] kc''].
      destruct Ht as (T1 & T2 & T3). destruct Ht' as (T1' & T2' & T3').
      assert (ka'' = ka') by congruence. assert (kb'' = kb') by congruence. assert (kc'' = kc') by congruence.
      subst. exact Hin. }
  assert (forall k' p, In (k', p) trl -> lookup_s trl k' = Some p) as Htrl_fun.
  { intros k' p Hin. apply lookup_s_unique; [exact Hin|]. intros p' Hin'.
    apply Htrl in Hin. apply Htrl in Hin'. destruct Hin as (k1 & L1 & T1). destruct Hin' as (k2 & L2 & T2).
    destruct (tr3_den3 _ _ _ _ CI T1) as (t1 & S1 & G1). destruct (tr3_den3 _ _ _ _ CI T2) as (t2 & S2 & G2).
    rewrite (den3_fun _ _ _ _ G1 G2) in S1. rewrite (den3_inj _ _ _ _ Bb S1 S2) in L1. congruence. }
  unfold is_union_seeds, den. cbn [lseeds]. intros t p.
  rewrite (den_seeds_in u _ _ Su'), (den_seeds_in _ _ _ Sa), (den_seeds_in _ _ _ Sb). subst u. cbn [dst dseeds].
  split.
  - intros (k' & Hl & H3). rewrite lookup_s_app in Hl. destruct (lookup_s trl k') as [p0|] eqn:El.
    + injection Hl as ->. left. apply lookup_s_in in El. apply Htrl in El. destruct El as (k & Lk & Tk).
      exists k. split; [exact Lk|]. destruct (tr3_den3 _ _ _ _ CI Tk) as (t' & S' & G').
      rewrite (den3_fun _ _ _ _ H3 G'). exact S'.
    + right. split.
      * exists k'. split; [exact Hl|]. apply lookup_s_in in Hl.
        destruct (key_ok_den3 _ _ Sa (Ka _ _ Hl)) as [ta Hta].
        rewrite (den3_fun _ _ _ _ H3 (den3_ext _ _ _ _ Ea Hta)). exact Hta.
      * intros p'. rewrite (den_seeds_in _ _ _ Sb). intros (k & Lk & Sk).
        apply live_lookup in Lk. pose proof Lk as Lk'. apply live_lookup in Lk'. apply in_rev in Lk.
        destruct (Forall2_in_l _ _ _ Hf _ Lk) as ([k'' p''] & Hin & (Hp & Ht')). cbn [fst snd] in *. subst p''.
        destruct (tr3_den3 _ _ _ _ CI Ht') as (t' & S' & G').
        rewrite (den3_fun _ _ _ _ S' Sk) in G'. rewrite (den3_inj _ _ _ _ Bu G' H3) in Hin.
        exact (lookup_s_none _ _ El _ Hin).
  - intros [(k & Lk & Sk)|[(k & Lk & Sk) Hno]].
    + assert (exists k', In (k', p) trl /\ tr3 (tcache ts5) k k') as (k' & Hin & Ht).
      { pose proof Lk as Lk'. apply live_lookup in Lk'. apply in_rev in Lk'.
        destruct (Forall2_in_l _ _ _ Hf _ Lk') as ([k'' p''] & Hin & (Hp & Ht')). cbn [fst snd] in *. subst p''. eauto. }
      exists k'. split.
      * rewrite lookup_s_app, (Htrl_fun _ _ Hin). reflexivity.
      * destruct (tr3_den3 _ _ _ _ CI Ht) as (t' & S' & G'). rewrite (den3_fun _ _ _ _ Sk S'). exact G'.
    + exists k. split; [|eapply den3_ext; eassumption].
      rewrite lookup_s_app. destruct (lookup_s trl k) as [p0|] eqn:El; [|exact Lk].
      exfalso. apply lookup_s_in in El. apply Htrl in El. destruct El as (k0 & L0 & T0).
      destruct (tr3_den3 _ _ _ _ CI T0) as (t' & S' & G').
      rewrite (den3_fun _ _ _ _ G' (den3_ext _ _ _ _ Ea Sk)) in S'.
      apply (Hno p0). apply (den_seeds_in _ _ _ Sb). eauto.
Qed.
