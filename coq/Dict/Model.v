(* Executable model of
     shared/src/dictionary.rs            Dictionary::{new, encode, decode, decode_term}
     shared/src/quoted_triple_store.rs   QuotedTripleStore::{new, encode, decode}, is_quoted_triple_id
     kolibrie/src/sparql_database.rs     encode_term_star (on a parsed term), decode_any,
                                         reencode_term_id, SparqlDatabase::union
   and of the small part of the population API that builds the databases `union` is applied to
   (add_quad_parts, add_triple_parts, add_tagged_triple, delete of a quad, create_graph).

   Conventions
   - lexical forms (Rust `String`) are named by numbers: `lex := N` is an injective naming of
     strings.  The code only compares / hashes strings, so nothing else of a string is observable.
   - u32 identifiers are unbounded `N`; the only place where the width matters is the quoted-triple
     bit 2^31 (`QBIT`), which is explicit, and the dictionary's `assert!(next_id < 2^31)`, which is the
     error outcome `Err Exhausted`.
   - HashMap<K,V> is an association list, newest binding first, looked up by first match
     (`insert` of a fresh key = cons; `insert` of an existing key = cons, which shadows).
   - a Rust panic is `Err Missing` (an id that its source store does not define) or `Err Exhausted`;
     `Err NoFuel` is the model's own out-of-fuel value for the two recursive functions
     (decode_term, reencode_term_id); Proofs.v shows it never occurs on well-formed states.
   No proofs in this file. *)
Require Export List NArith Bool.
Export ListNotations.
Open Scope N_scope.

(* ------------------------------------------------------------------------------------------ *)
(* results                                                                                     *)
Inductive err := Exhausted | Missing | NoFuel.
Inductive res (A : Type) := Ok (x : A) | Err (e : err).
Arguments Ok {A} x.
Arguments Err {A} e.

(* ------------------------------------------------------------------------------------------ *)
(* two maps kept in lock-step with a monotone counter (Dictionary and QuotedTripleStore have    *)
(* exactly this shape; they differ in the key type, the first id, and the dictionary's assert)  *)
Section Bimap.
  Variable K : Type.
  Variable keqb : K -> K -> bool.

  Record bimap := mkBimap {
    k2i : list (K * N);     (* string_to_id      / components_to_id *)
    i2k : list (N * K);     (* id_to_string      / id_to_components *)
    nxt : N                 (* next_id           / next_qt_id       *)
  }.

  Fixpoint lookup_k (l : list (K * N)) (k : K) : option N :=
    match l with
    | [] => None
    | (k', i) :: r => if keqb k k' then Some i else lookup_k r k
    end.

  Fixpoint lookup_i (l : list (N * K)) (i : N) : option K :=
    match l with
    | [] => None
    | (i', k) :: r => if N.eqb i i' then Some k else lookup_i r i
    end.

  Definition bm_get (m : bimap) (k : K) : option N := lookup_k (k2i m) k.
  Definition bm_rev (m : bimap) (i : N) : option K := lookup_i (i2k m) i.

  (* let id = next; map1.insert(k, id); map2.insert(id, k); next += 1; id *)
  Definition bm_alloc (m : bimap) (k : K) : bimap * N :=
    (mkBimap ((k, nxt m) :: k2i m) ((nxt m, k) :: i2k m) (nxt m + 1), nxt m).
End Bimap.
Arguments mkBimap {K} _ _ _.
Arguments k2i {K} _.
Arguments i2k {K} _.
Arguments nxt {K} _.
Arguments lookup_k {K} keqb l k.
Arguments lookup_i {K} l i.
Arguments bm_get {K} keqb m k.
Arguments bm_rev {K} m i.
Arguments bm_alloc {K} m k.

(* ------------------------------------------------------------------------------------------ *)
(* Dictionary                                                                                  *)
Definition lex := N.
Definition QBIT : N := 2147483648.          (* QUOTED_TRIPLE_ID_BIT = 0x8000_0000 *)
Definition is_quoted (i : N) : bool := QBIT <=? i.   (* id & 0x8000_0000 != 0, for a u32 *)

Definition dict := bimap lex.
Definition d_new : dict := mkBimap [] [] 0.
Definition d_get (d : dict) (s : lex) : option N := bm_get N.eqb d s.

Definition d_encode (d : dict) (s : lex) : res (dict * N) :=
  match d_get d s with
  | Some i => Ok (d, i)
  | None => if nxt d <? QBIT then Ok (bm_alloc d s) else Err Exhausted
  end.
Definition d_decode (d : dict) (i : N) : option lex := bm_rev d i.

(* ------------------------------------------------------------------------------------------ *)
(* QuotedTripleStore                                                                           *)
Definition key3 := (N * N * N)%type.
Definition key3_eqb (x y : key3) : bool :=
  match x, y with
  | (a, b, c), (a', b', c') => N.eqb a a' && N.eqb b b' && N.eqb c c'
  end.

Definition qts := bimap key3.
Definition q_new : qts := mkBimap [] [] QBIT.
Definition q_get (q : qts) (k : key3) : option N := bm_get key3_eqb q k.
Definition q_encode (q : qts) (k : key3) : qts * N :=
  match q_get q k with
  | Some i => (q, i)
  | None => bm_alloc q k
  end.
Definition q_decode (q : qts) (i : N) : option key3 := bm_rev q i.

(* ------------------------------------------------------------------------------------------ *)
(* a dictionary together with a quoted-triple store                                             *)
Record st := mkSt { sd : dict; sq : qts }.
Definition st_new : st := mkSt d_new q_new.

(* terms as the caller sees them: a lexical form, or a quoted triple of terms *)
Inductive term := TLeaf (s : lex) | TQuote (a b c : term).

(* Dictionary::decode_term (recursive rendering of a possibly quoted id); the Rust recursion is
   unbounded, here it is on fuel. *)
Fixpoint decode_term (fuel : nat) (s : st) (i : N) : res term :=
  match fuel with
  | O => Err NoFuel
  | S f =>
      if is_quoted i then
        match q_decode (sq s) i with
        | None => Err Missing
        | Some (a, b, c) =>
            match decode_term f s a with
            | Err e => Err e
            | Ok ta =>
                match decode_term f s b with
                | Err e => Err e
                | Ok tb =>
                    match decode_term f s c with
                    | Err e => Err e
                    | Ok tc => Ok (TQuote ta tb tc)
                    end
                end
            end
        end
      else
        match d_decode (sd s) i with
        | None => Err Missing
        | Some x => Ok (TLeaf x)
        end
  end.

(* enough fuel for every id of a well-formed state (Proofs.decode_any_complete) *)
Definition fuel_of (s : st) : nat := S (S (length (i2k (sq s)))).

(* SparqlDatabase::decode_any *)
Definition decode_any (s : st) (i : N) : res term := decode_term (fuel_of s) s i.

(* SparqlDatabase::encode_term_star on an already parsed term:
   quoted: encode subject, predicate, object (in this order), then QuotedTripleStore::encode;
   otherwise Dictionary::encode of the cleaned lexical form *)
Fixpoint encode_term (s : st) (t : term) : res (st * N) :=
  match t with
  | TLeaf x =>
      match d_encode (sd s) x with
      | Err e => Err e
      | Ok (d', i) => Ok (mkSt d' (sq s), i)
      end
  | TQuote a b c =>
      match encode_term s a with
      | Err e => Err e
      | Ok (s1, ia) =>
          match encode_term s1 b with
          | Err e => Err e
          | Ok (s2, ib) =>
              match encode_term s2 c with
              | Err e => Err e
              | Ok (s3, ic) =>
                  match q_encode (sq s3) (ia, ib, ic) with
                  | (q', i) => Ok (mkSt (sd s3) q', i)
                  end
              end
          end
      end
  end.

(* ------------------------------------------------------------------------------------------ *)
(* call sequences on a dictionary + quoted store                                                *)
Inductive op :=
| Enc (s : lex)            (* Dictionary::encode *)
| Dec (i : N)              (* Dictionary::decode *)
| EncQ (a b c : N)         (* QuotedTripleStore::encode on raw ids *)
| DecQ (i : N)             (* QuotedTripleStore::decode *)
| EncT (t : term)          (* SparqlDatabase::encode_term_star *)
| DecT (i : N).            (* SparqlDatabase::decode_any / Dictionary::decode_term *)

Inductive out :=
| OId (i : N)
| OLex (x : option lex)
| OKey (k : option key3)
| OTerm (t : res term).

(* Err = the call panicked (dictionary exhausted); the history stops there *)
Definition step (s : st) (o : op) : res (st * out) :=
  match o with
  | Enc x =>
      match d_encode (sd s) x with
      | Err e => Err e
      | Ok (d', i) => Ok (mkSt d' (sq s), OId i)
      end
  | Dec i => Ok (s, OLex (d_decode (sd s) i))
  | EncQ a b c =>
      match q_encode (sq s) (a, b, c) with
      | (q', i) => Ok (mkSt (sd s) q', OId i)
      end
  | DecQ i => Ok (s, OKey (q_decode (sq s) i))
  | EncT t =>
      match encode_term s t with
      | Err e => Err e
      | Ok (s', i) => Ok (s', OId i)
      end
  | DecT i => Ok (s, OTerm (decode_any s i))
  end.

Fixpoint run (s : st) (ops : list op) : res (st * list out) :=
  match ops with
  | [] => Ok (s, [])
  | o :: r =>
      match step s o with
      | Err e => Err e
      | Ok (s1, x) =>
          match run s1 r with
          | Err e => Err e
          | Ok (s2, xs) => Ok (s2, x :: xs)
          end
      end
  end.

(* the same history, keeping what was returned before a call panicked: outputs so far, the error (if any),
   and the state in which the failing call was made *)
Fixpoint run_upto (s : st) (ops : list op) : list out * option err * st :=
  match ops with
  | [] => ([], None, s)
  | o :: r =>
      match step s o with
      | Err e => ([], Some e, s)
      | Ok (s1, x) =>
          match run_upto s1 r with
          | (xs, e, s2) => (x :: xs, e, s2)
          end
      end
  end.

(* ------------------------------------------------------------------------------------------ *)
(* reencode_term_id: translate an id of a source database into a target dictionary / quoted     *)
(* store through a translation cache                                                            *)
Record tstate := mkT { tst : st; tcache : list (N * N) }.

Fixpoint lookup_n (l : list (N * N)) (i : N) : option N :=
  match l with
  | [] => None
  | (i', j) :: r => if N.eqb i i' then Some j else lookup_n r i
  end.

Fixpoint reencode (fuel : nat) (src : st) (id : N) (ts : tstate) : res (N * tstate) :=
  match fuel with
  | O => Err NoFuel
  | S f =>
      match lookup_n (tcache ts) id with
      | Some j => Ok (j, ts)
      | None =>
          if is_quoted id then
            match q_decode (sq src) id with
            | None => Err Missing          (* "quoted triple ID is missing from its source store" *)
            | Some (a, b, c) =>
                match reencode f src a ts with
                | Err e => Err e
                | Ok (a', ts1) =>
                    match reencode f src b ts1 with
                    | Err e => Err e
                    | Ok (b', ts2) =>
                        match reencode f src c ts2 with
                        | Err e => Err e
                        | Ok (c', ts3) =>
                            match q_encode (sq (tst ts3)) (a', b', c') with
                            | (q', j) =>
                                Ok (j, mkT (mkSt (sd (tst ts3)) q') ((id, j) :: tcache ts3))
                            end
                        end
                    end
                end
            end
          else
            match d_decode (sd src) id with
            | None => Err Missing          (* "term ID is missing from its source dictionary" *)
            | Some x =>
                match d_encode (sd (tst ts)) x with
                | Err e => Err e
                | Ok (d', j) => Ok (j, mkT (mkSt d' (sq (tst ts))) ((id, j) :: tcache ts))
                end
            end
      end
  end.

Fixpoint reencode_all (fuel : nat) (src : st) (ids : list N) (ts : tstate) : res tstate :=
  match ids with
  | [] => Ok ts
  | i :: r =>
      match reencode fuel src i ts with
      | Err e => Err e
      | Ok (_, ts1) => reencode_all fuel src r ts1
      end
  end.

(* ------------------------------------------------------------------------------------------ *)
(* the dataset index, abstracted to its quad set and graph catalog (justified by C04)           *)
Definition quad := (N * N * N * option N)%type.      (* subject, predicate, object, None = default graph *)
Definition optN_eqb (x y : option N) : bool :=
  match x, y with
  | None, None => true
  | Some a, Some b => N.eqb a b
  | _, _ => false
  end.
Definition quad_eqb (x y : quad) : bool :=
  match x, y with
  | (s, p, o, g), (s', p', o', g') => N.eqb s s' && N.eqb p p' && N.eqb o o' && optN_eqb g g'
  end.

Record index := mkIx { iquads : list quad; icat : list N }.
Definition ix_new : index := mkIx [] [].

Definition set_add (x : N) (l : list N) : list N := if existsb (N.eqb x) l then l else x :: l.
Definition register (g : option N) (c : list N) : list N :=
  match g with Some n => set_add n c | None => c end.
Definition qgraph (q : quad) : option N := snd q.

Definition contains_quad (x : index) (q : quad) : bool := existsb (quad_eqb q) (iquads x).

Definition insert_quad (x : index) (q : quad) : index :=
  let c := register (qgraph q) (icat x) in
  if contains_quad x q then mkIx (iquads x) c else mkIx (q :: iquads x) c.

Definition delete_quad (x : index) (q : quad) : index :=
  if contains_quad x q
  then mkIx (filter (fun y => negb (quad_eqb q y)) (iquads x)) (register (qgraph q) (icat x))
  else x.

Definition create_graph (x : index) (g : N) : index := mkIx (iquads x) (set_add g (icat x)).

Fixpoint named_of (l : list quad) : list N :=
  match l with
  | [] => []
  | q :: r => match qgraph q with Some g => g :: named_of r | None => named_of r end
  end.

(* named_graphs(): catalog ∪ graphs that hold a quad (a set; the code sorts it, the model does not:
   Proofs.v shows the order is immaterial) *)
Definition named_graphs (x : index) : list N := icat x ++ named_of (iquads x).
Definition all_quads (x : index) : list quad := iquads x.

(* ------------------------------------------------------------------------------------------ *)
(* the database: dictionary, quoted store, dataset index, probability seeds                     *)
(* a probability is an opaque payload here (union only copies it): `N` names the f64.           *)
(* HashMap<Triple, f64> is an association list, newest binding first; `live` below lists the    *)
(* visible bindings (what iterating the HashMap yields).                                        *)
Definition seed := (key3 * N)%type.
Record db := mkDb { dst : st; dix : index; dseeds : list seed }.
Definition db_new : db := mkDb st_new ix_new [].

(* insertion sort (sort_unstable on the id lists) *)
Fixpoint ins_sorted (x : N) (l : list N) : list N :=
  match l with
  | [] => [x]
  | y :: r => if x <=? y then x :: l else y :: ins_sorted x r
  end.
Definition sortN (l : list N) : list N := fold_right ins_sorted [] l.

Definition reencode_graph (fuel : nat) (src : st) (g : option N) (ts : tstate) : res (option N * tstate) :=
  match g with
  | None => Ok (None, ts)
  | Some n =>
      match reencode fuel src n ts with
      | Err e => Err e
      | Ok (n', ts1) => Ok (Some n', ts1)
      end
  end.

Definition reencode3 (fuel : nat) (src : st) (k : key3) (ts : tstate) : res (key3 * tstate) :=
  match k with
  | (s, p, o) =>
      match reencode fuel src s ts with
      | Err e => Err e
      | Ok (s', ts1) =>
          match reencode fuel src p ts1 with
          | Err e => Err e
          | Ok (p', ts2) =>
              match reencode fuel src o ts2 with
              | Err e => Err e
              | Ok (o', ts3) => Ok ((s', p', o'), ts3)
              end
          end
      end
  end.

(* for graph in other.named_graphs(): create_graph(Named(reencode(graph))) *)
Fixpoint union_graphs (fuel : nat) (src : st) (gs : list N) (ts : tstate) (x : index) : res (tstate * index) :=
  match gs with
  | [] => Ok (ts, x)
  | g :: r =>
      match reencode fuel src g ts with
      | Err e => Err e
      | Ok (g', ts1) => union_graphs fuel src r ts1 (create_graph x g')
      end
  end.

(* for quad in other.all_quads(): insert_quad(reencode s, p, o, graph) *)
Fixpoint union_quads (fuel : nat) (src : st) (qs : list quad) (ts : tstate) (x : index) : res (tstate * index) :=
  match qs with
  | [] => Ok (ts, x)
  | (s, p, o, g) :: r =>
      match reencode3 fuel src (s, p, o) ts with
      | Err e => Err e
      | Ok ((s', p', o'), ts1) =>
          match reencode_graph fuel src g ts1 with
          | Err e => Err e
          | Ok (g', ts2) => union_quads fuel src r ts2 (insert_quad x (s', p', o', g'))
          end
      end
  end.

(* the visible bindings of the seed map: the newest binding of each key *)
Fixpoint live (l : list seed) : list seed :=
  match l with
  | [] => []
  | (k, p) :: r => (k, p) :: filter (fun kp : seed => negb (key3_eqb k (fst kp))) (live r)
  end.

(* for (triple, prob) in other.probability_seeds: merged_seeds.insert(reencode triple, prob) *)
Fixpoint union_seeds (fuel : nat) (src : st) (l : list seed) (ts : tstate) (acc : list seed) : res (tstate * list seed) :=
  match l with
  | [] => Ok (ts, acc)
  | (k, p) :: r =>
      match reencode3 fuel src k ts with
      | Err e => Err e
      | Ok (k', ts1) => union_seeds fuel src r ts1 ((k', p) :: acc)
      end
  end.

(* SparqlDatabase::union, in the code's order *)
Definition union (a b : db) : res db :=
  let src := dst b in
  let fuel := fuel_of src in
  (* merged_dictionary = self dictionary, merged_quoted_triples = self store, empty cache *)
  let ts0 := mkT (dst a) [] in
  (* every term of other's dictionary, in increasing id order *)
  match reencode_all fuel src (sortN (map fst (i2k (sd src)))) ts0 with
  | Err e => Err e
  | Ok ts1 =>
      (* every quoted id of other's store, in increasing id order *)
      match reencode_all fuel src (sortN (map fst (i2k (sq src)))) ts1 with
      | Err e => Err e
      | Ok ts2 =>
          (* fresh index: self's named graphs, then self's quads *)
          let x0 := fold_left insert_quad (all_quads (dix a))
                      (fold_left create_graph (named_graphs (dix a)) ix_new) in
          match union_graphs fuel src (named_graphs (dix b)) ts2 x0 with
          | Err e => Err e
          | Ok (ts3, x1) =>
              match union_quads fuel src (all_quads (dix b)) ts3 x1 with
              | Err e => Err e
              | Ok (ts4, x2) =>
                  match union_seeds fuel src (live (dseeds b)) ts4 (dseeds a) with
                  | Err e => Err e
                  | Ok (ts5, sds) => Ok (mkDb (tst ts5) x2 sds)
                  end
              end
          end
      end
  end.

(* ------------------------------------------------------------------------------------------ *)
(* populating a database through the public API                                                 *)
Inductive bop :=
| BAddQuad (s p o : term) (g : lex)        (* add_quad_parts: encode_term_star x3, dict.encode(graph), insert_quad *)
| BAddStar (s p o : term)                  (* encode_term_star x3, add_triple (default graph) *)
| BAddTriple (s p o : lex)                 (* add_triple_parts (dictionary only, default graph) *)
| BTagged (s p o : lex) (pr : N)           (* add_tagged_triple: triple in the default graph + seed *)
| BCreate (g : lex)                        (* dict.encode(g), dataset_index.create_graph(Named(id)) *)
| BEncode (t : term)                       (* encode_term_star only: a term no quad refers to *)
| BDelQuad (s p o : term) (g : option lex)  (* encode the parts, delete_quad *)
| BSeed (s p o : term) (pr : N).           (* encode the parts, probability_seeds.insert (public field): a seed
                                              whose triple need not be asserted anywhere *)

Definition encode3 (s : st) (a b c : term) : res (st * key3) :=
  match encode_term s a with
  | Err e => Err e
  | Ok (s1, ia) =>
      match encode_term s1 b with
      | Err e => Err e
      | Ok (s2, ib) =>
          match encode_term s2 c with
          | Err e => Err e
          | Ok (s3, ic) => Ok (s3, (ia, ib, ic))
          end
      end
  end.

Definition encode_graph (s : st) (g : option lex) : res (st * option N) :=
  match g with
  | None => Ok (s, None)
  | Some x =>
      match d_encode (sd s) x with
      | Err e => Err e
      | Ok (d', i) => Ok (mkSt d' (sq s), Some i)
      end
  end.

Definition mkquad (k : key3) (g : option N) : quad :=
  match k with (s, p, o) => (s, p, o, g) end.

Definition bstep (d : db) (o : bop) : res db :=
  match o with
  | BAddQuad s p o g =>
      match encode3 (dst d) s p o with
      | Err e => Err e
      | Ok (s1, k) =>
          match encode_graph s1 (Some g) with
          | Err e => Err e
          | Ok (s2, gi) => Ok (mkDb s2 (insert_quad (dix d) (mkquad k gi)) (dseeds d))
          end
      end
  | BAddStar s p o =>
      match encode3 (dst d) s p o with
      | Err e => Err e
      | Ok (s1, k) => Ok (mkDb s1 (insert_quad (dix d) (mkquad k None)) (dseeds d))
      end
  | BAddTriple s p o =>
      match encode3 (dst d) (TLeaf s) (TLeaf p) (TLeaf o) with
      | Err e => Err e
      | Ok (s1, k) => Ok (mkDb s1 (insert_quad (dix d) (mkquad k None)) (dseeds d))
      end
  | BTagged s p o pr =>
      match encode3 (dst d) (TLeaf s) (TLeaf p) (TLeaf o) with
      | Err e => Err e
      | Ok (s1, k) => Ok (mkDb s1 (insert_quad (dix d) (mkquad k None)) ((k, pr) :: dseeds d))
      end
  | BCreate g =>
      match d_encode (sd (dst d)) g with
      | Err e => Err e
      | Ok (d', i) => Ok (mkDb (mkSt d' (sq (dst d))) (create_graph (dix d) i) (dseeds d))
      end
  | BEncode t =>
      match encode_term (dst d) t with
      | Err e => Err e
      | Ok (s1, _) => Ok (mkDb s1 (dix d) (dseeds d))
      end
  | BDelQuad s p o g =>
      match encode3 (dst d) s p o with
      | Err e => Err e
      | Ok (s1, k) =>
          match encode_graph s1 g with
          | Err e => Err e
          | Ok (s2, gi) => Ok (mkDb s2 (delete_quad (dix d) (mkquad k gi)) (dseeds d))
          end
      end
  | BSeed s p o pr =>
      match encode3 (dst d) s p o with
      | Err e => Err e
      | Ok (s1, k) => Ok (mkDb s1 (dix d) ((k, pr) :: dseeds d))
      end
  end.

Fixpoint build (d : db) (ops : list bop) : res db :=
  match ops with
  | [] => Ok d
  | o :: r => match bstep d o with Err e => Err e | Ok d1 => build d1 r end
  end.

(* ------------------------------------------------------------------------------------------ *)
(* the lexical denotation of a database: what `decode_any` makes of every id it holds           *)
Definition lquad := (term * term * term * option term)%type.
Definition ltriple := (term * term * term)%type.

Definition decode3 (s : st) (k : key3) : res ltriple :=
  match k with
  | (a, b, c) =>
      match decode_any s a with
      | Err e => Err e
      | Ok ta =>
          match decode_any s b with
          | Err e => Err e
          | Ok tb =>
              match decode_any s c with
              | Err e => Err e
              | Ok tc => Ok (ta, tb, tc)
              end
          end
      end
  end.

Definition decode_quad (s : st) (q : quad) : res lquad :=
  match q with
  | (a, b, c, g) =>
      match decode3 s (a, b, c) with
      | Err e => Err e
      | Ok (ta, tb, tc) =>
          match g with
          | None => Ok (ta, tb, tc, None)
          | Some n =>
              match decode_any s n with
              | Err e => Err e
              | Ok tg => Ok (ta, tb, tc, Some tg)
              end
          end
      end
  end.

(* the decodable elements of a list (on a well-formed database: all of them) *)
Fixpoint okmap {A B} (f : A -> res B) (l : list A) : list B :=
  match l with
  | [] => []
  | x :: r => match f x with Ok y => y :: okmap f r | Err _ => okmap f r end
  end.

Definition den_quads (d : db) : list lquad := okmap (decode_quad (dst d)) (all_quads (dix d)).
Definition den_graphs (d : db) : list term := okmap (decode_any (dst d)) (named_graphs (dix d)).
Definition den_terms (d : db) : list term := okmap (decode_any (dst d)) (map fst (i2k (sd (dst d)))).
Definition den_quoted (d : db) : list term := okmap (decode_any (dst d)) (map fst (i2k (sq (dst d)))).
Definition den_seeds (d : db) : list (ltriple * N) :=
  okmap (fun kp : seed => match decode3 (dst d) (fst kp) with Ok t => Ok (t, snd kp) | Err e => Err e end) (live (dseeds d)).
