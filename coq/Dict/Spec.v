(* Specification side of C15: a database denotes a lexical dataset - sets of quads, graph names,
   terms and quoted terms over *lexical* terms (no identifiers), and a finite map from lexical
   triples to seeds.  The union of two databases denotes the plain union of the two datasets
   (seeds: the right operand wins where both bind a triple, as `HashMap::insert` of `other` last). *)
Require Export KV.Dict.Model.

Record ldata := mkL {
  lquads  : list lquad;            (* set *)
  lgraphs : list term;             (* set: named graph identities, including empty graphs *)
  lterms  : list term;             (* set: every term of the dictionary *)
  lquoted : list term;             (* set: every quoted triple of the quoted store *)
  lseeds  : list (ltriple * N)     (* finite map *)
}.

(* what a database denotes (all ids decoded with decode_any) *)
Definition den (d : db) : ldata :=
  mkL (den_quads d) (den_graphs d) (den_terms d) (den_quoted d) (den_seeds d).

(* U is the union of A and B: quads, graph identities, dictionary terms, quoted terms *)
Definition is_union (A B U : ldata) : Prop :=
  (forall q, In q (lquads U) <-> In q (lquads A) \/ In q (lquads B)) /\
  (forall g, In g (lgraphs U) <-> In g (lgraphs A) \/ In g (lgraphs B)) /\
  (forall t, In t (lterms U) <-> In t (lterms A) \/ In t (lterms B)) /\
  (forall t, In t (lquoted U) <-> In t (lquoted A) \/ In t (lquoted B)).

(* seeds of the union: every binding of B, and the bindings of A on triples that B does not bind *)
Definition is_union_seeds (A B U : ldata) : Prop :=
  forall t p, In (t, p) (lseeds U) <->
              In (t, p) (lseeds B) \/ (In (t, p) (lseeds A) /\ forall p', ~ In (t, p') (lseeds B)).

(* the executable form, used by the check as the oracle (lists compared as sets) *)
Fixpoint term_eqb (x y : term) : bool :=
  match x, y with
  | TLeaf a, TLeaf b => N.eqb a b
  | TQuote a b c, TQuote a' b' c' => term_eqb a a' && term_eqb b b' && term_eqb c c'
  | _, _ => false
  end.
Definition ltriple_eqb (x y : ltriple) : bool :=
  match x, y with
  | (a, b, c), (a', b', c') => term_eqb a a' && term_eqb b b' && term_eqb c c'
  end.

Definition union_exec (A B : ldata) : ldata :=
  mkL (lquads A ++ lquads B) (lgraphs A ++ lgraphs B) (lterms A ++ lterms B) (lquoted A ++ lquoted B)
      (lseeds B ++ filter (fun x => negb (existsb (fun y => ltriple_eqb (fst x) (fst y)) (lseeds B))) (lseeds A)).
