(* Lemmas about the generic two-map store of Model.v (Section Bimap): the invariant that the two
   maps are mutually inverse with domain [base, nxt), its preservation by allocation, and extension. *)
Require Import KV.Dict.Model.
Require Import Lia.

Section BimapProofs.
  Variable K : Type.
  Variable keqb : K -> K -> bool.
  Hypothesis keqb_spec : forall a b, keqb a b = true <-> a = b.

  Lemma keqb_refl : forall a, keqb a a = true.
  Proof. intros a. apply keqb_spec. reflexivity. Qed.

  Lemma keqb_neq : forall a b, a <> b -> keqb a b = false.
  Proof.
    intros a b Hab. destruct (keqb a b) eqn:E; [|reflexivity].
    apply keqb_spec in E. contradiction.
  Qed.

  Definition BMInv (base : N) (m : bimap K) : Prop :=
    (forall k i, bm_get keqb m k = Some i <-> bm_rev m i = Some k) /\
    (forall i, (exists k, bm_rev m i = Some k) <-> base <= i < nxt m) /\
    nxt m = base + N.of_nat (length (i2k m)).

  Definition bm_ext (m m' : bimap K) : Prop :=
    (forall k i, bm_get keqb m k = Some i -> bm_get keqb m' k = Some i) /\
    (forall i k, bm_rev m i = Some k -> bm_rev m' i = Some k) /\
    nxt m <= nxt m'.

  Lemma bm_ext_refl : forall m, bm_ext m m.
  Proof. intros m. repeat split; auto. lia. Qed.

  Lemma bm_ext_trans : forall a b c, bm_ext a b -> bm_ext b c -> bm_ext a c.
  Proof.
    intros a b c (H1 & H2 & H3) (G1 & G2 & G3). repeat split; auto. lia.
  Qed.

  Lemma BMInv_new : forall base, BMInv base (mkBimap [] [] base).
  Proof.
    intros base. split; [|split].
    - intros k i. cbn. split; discriminate.
    - intros i. cbn. split.
      + intros [k Hk]. discriminate.
      + intros Hr. lia.
    - cbn. lia.
  Qed.

  Lemma BMInv_base_le : forall base m, BMInv base m -> base <= nxt m.
  Proof. intros base m (_ & _ & H). lia. Qed.

  Lemma BMInv_rev_range : forall base (m : bimap K) i k, BMInv base m -> bm_rev m i = Some k -> base <= i < nxt m.
  Proof. intros base m i k (_ & H & _) Hr. apply H. exists k. exact Hr. Qed.

  Lemma BMInv_get_range : forall base (m : bimap K) i k, BMInv base m -> bm_get keqb m k = Some i -> base <= i < nxt m.
  Proof.
    intros base m i k Hinv Hg. eapply BMInv_rev_range; eauto. apply Hinv. exact Hg.
  Qed.

  Lemma BMInv_defined : forall base (m : bimap K) i, BMInv base m -> base <= i < nxt m -> exists k, bm_rev m i = Some k.
  Proof. intros base m i (_ & H & _) Hr. apply H. exact Hr. Qed.

  Lemma BMInv_get_inj : forall base (m : bimap K) k k' i, BMInv base m ->
    bm_get keqb m k = Some i -> bm_get keqb m k' = Some i -> k = k'.
  Proof.
    intros base m k k' i (H & _) H1 H2. apply H in H1. apply H in H2. congruence.
  Qed.

  Lemma BMInv_rev_inj : forall base (m : bimap K) i j k, BMInv base m ->
    bm_rev m i = Some k -> bm_rev m j = Some k -> i = j.
  Proof.
    intros base m i j k (H & _) H1 H2. apply H in H1. apply H in H2. congruence.
  Qed.

  (* the two lookups after an allocation *)
  Lemma alloc_get : forall (m : bimap K) k k',
    bm_get keqb (fst (bm_alloc m k)) k' = if keqb k' k then Some (nxt m) else bm_get keqb m k'.
  Proof. intros. reflexivity. Qed.

  Lemma alloc_rev : forall (m : bimap K) k i,
    bm_rev (fst (bm_alloc m k)) i = if N.eqb i (nxt m) then Some k else bm_rev m i.
  Proof. intros. reflexivity. Qed.

  Lemma alloc_inv : forall base (m : bimap K) k,
    BMInv base m -> bm_get keqb m k = None -> BMInv base (fst (bm_alloc m k)).
  Proof.
    intros base m k Hinv Hnone.
    pose proof (BMInv_base_le _ _ Hinv) as Hle.
    destruct Hinv as (Hbij & Hdom & Hlen).
    split; [|split].
    - intros k' i. rewrite alloc_get. rewrite alloc_rev. split.
      + destruct (keqb k' k) eqn:Ek.
        * intros Hi. injection Hi as <-. rewrite N.eqb_refl. apply keqb_spec in Ek. congruence.
        * intros Hg. pose proof Hg as Hg'. apply Hbij in Hg'.
          assert (base <= i < nxt m) as Hr by (apply Hdom; eauto).
          destruct (N.eqb_spec i (nxt m)) as [->|_]; [lia|]. exact Hg'.
      + destruct (N.eqb_spec i (nxt m)) as [->|Hne].
        * intros Hk. injection Hk as <-. rewrite keqb_refl. reflexivity.
        * intros Hr. apply Hbij in Hr.
          destruct (keqb k' k) eqn:Ek; [|exact Hr].
          apply keqb_spec in Ek. subst k'. congruence.
    - intros i. split.
      + intros [k' Hk']. rewrite alloc_rev in Hk'. cbn [nxt bm_alloc fst].
        destruct (N.eqb_spec i (nxt m)) as [->|Hne]; [lia|].
        assert (base <= i < nxt m) by (apply Hdom; eauto). lia.
      + intros Hr. cbn [nxt bm_alloc fst] in Hr.
        destruct (N.eqb_spec i (nxt m)) as [->|Hne].
        * exists k. rewrite alloc_rev. rewrite N.eqb_refl. reflexivity.
        * assert (base <= i < nxt m) as Hr' by lia. apply Hdom in Hr'. destruct Hr' as [k' Hk'].
          exists k'. rewrite alloc_rev. destruct (N.eqb_spec i (nxt m)); [contradiction|exact Hk'].
    - cbn [nxt i2k bm_alloc fst length]. lia.
  Qed.

  Lemma alloc_ext : forall base (m : bimap K) k,
    BMInv base m -> bm_get keqb m k = None -> bm_ext m (fst (bm_alloc m k)).
  Proof.
    intros base m k Hinv Hnone. split; [|split].
    - intros k' i Hg. rewrite alloc_get.
      destruct (keqb k' k) eqn:Ek; [|exact Hg].
      apply keqb_spec in Ek. subst k'. congruence.
    - intros i k' Hr. rewrite alloc_rev.
      pose proof (BMInv_rev_range _ _ _ _ Hinv Hr) as Hrange.
      destruct (N.eqb_spec i (nxt m)) as [->|_]; [lia|exact Hr].
    - cbn. lia.
  Qed.
End BimapProofs.
