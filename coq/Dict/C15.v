(* placeholder while the proofs are being written *)
Require Import KV.Dict.Model KV.Dict.Spec.
Example C15_smoke : d_encode d_new 5 = Ok (mkBimap [(5,0)] [(0,5)] 1, 0).
Proof. reflexivity. Qed.
