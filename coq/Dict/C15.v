(* C15 - Term identifiers are a stable bijection, also across database union.
   This file contains only the property theorems; each is closed by `exact <lemma>` and followed by
   Print Assumptions.  The lemmas live in BimapProofs.v, Proofs.v and UnionProofs.v; the model
   (Dictionary, QuotedTripleStore, encode_term_star, decode_any, reencode_term_id, union) in Model.v.

   Vocabulary (definitions in Proofs.v / UnionProofs.v / Spec.v):
     run s ops = Ok (s', outs)   the call sequence `ops` (Enc = Dictionary::encode, Dec = Dictionary::decode,
                                 EncQ / DecQ = QuotedTripleStore::encode / decode, EncT = encode_term_star,
                                 DecT = decode_any) ran from state s without hitting the dictionary's
                                 exhaustion assert (`Err Exhausted`), ended in s' and returned `outs`
     called ops outs k o x       the k-th call was `o` and it returned `x`
     valid s ops                 every raw id passed to QuotedTripleStore::encode had been handed out before
     BInv s                      both pairs of maps are mutually inverse, the dictionary's ids are exactly
                                 [0, next_id), the quoted ids exactly [2^31, next_qt_id), next_id <= 2^31
     SInv s                      BInv and: the components of a quoted id are ids handed out before it
     denotes s i t / decode_any  the lexical term (tree over lexical forms) that id i stands for
     WF d                        SInv of the database's stores, and every id in its quads, graph catalog
                                 and seeds is defined by them
     den d                       the lexical dataset of d: everything decoded with decode_any *)
Require Import KV.Dict.Model KV.Dict.Spec KV.Dict.BimapProofs KV.Dict.Proofs KV.Dict.UnionProofs KV.Dict.SeedProofs.

(* ---- the invariant, for every call sequence ---- *)
Theorem C15_invariant :
  forall ops s outs, run st_new ops = Ok (s, outs) ->
    BInv s /\ (valid st_new ops -> SInv s).
Proof.
  intros ops s outs H. split.
  - exact (proj1 (run_B _ _ _ _ BInv_new H)).
  - intros Hv. exact (proj1 (run_S _ _ _ _ SInv_new Hv H)).
Qed.
Print Assumptions C15_invariant.

(* `valid` is no restriction on the loader path: a history without raw QuotedTripleStore::encode calls
   (Dictionary::encode/decode, encode_term_star, decode_any, QuotedTripleStore::decode) is always valid *)
Theorem C15_valid_without_raw :
  forall ops s, Forall no_raw ops -> valid s ops.
Proof. exact valid_no_raw. Qed.
Print Assumptions C15_valid_without_raw.

(* ---- a term always encodes to the same identifier; distinct terms never share one ----
   (for any two encode calls anywhere in any history: equal ids iff equal terms) *)
Theorem C15_encode_bijective :
  forall ops s outs k k' x x' i i',
    run st_new ops = Ok (s, outs) ->
    called ops outs k (Enc x) (OId i) -> called ops outs k' (Enc x') (OId i') ->
    (i = i' <-> x = x').
Proof. exact hist_encode_bijective. Qed.
Print Assumptions C15_encode_bijective.

(* ---- decoding returns the original term ---- *)
Theorem C15_decode_encode :
  forall ops s outs k k' x i r,
    run st_new ops = Ok (s, outs) -> (k < k')%nat ->
    called ops outs k (Enc x) (OId i) -> called ops outs k' (Dec i) (OLex r) -> r = Some x.
Proof. exact hist_decode_encode. Qed.
Print Assumptions C15_decode_encode.

(* ---- and encoding what was decoded returns the identifier ---- *)
Theorem C15_encode_decode :
  forall ops s outs k k' x i j,
    run st_new ops = Ok (s, outs) -> (k < k')%nat ->
    called ops outs k (Dec i) (OLex (Some x)) -> called ops outs k' (Enc x) (OId j) -> j = i.
Proof. exact hist_encode_decode. Qed.
Print Assumptions C15_encode_decode.

(* ---- identifiers handed out earlier never change as more terms arrive ----
   every binding of the four maps survives any later call sequence, and re-encoding returns the old id
   without changing the state *)
Theorem C15_encode_stable :
  forall ops1 ops2 s1 o1 s2 o2,
    run st_new ops1 = Ok (s1, o1) -> run s1 ops2 = Ok (s2, o2) ->
    (forall x i, d_get (sd s1) x = Some i -> d_get (sd s2) x = Some i) /\
    (forall i x, d_decode (sd s1) i = Some x -> d_decode (sd s2) i = Some x) /\
    (forall k i, q_get (sq s1) k = Some i -> q_get (sq s2) k = Some i) /\
    (forall i k, q_decode (sq s1) i = Some k -> q_decode (sq s2) i = Some k) /\
    (forall x i, d_get (sd s1) x = Some i -> step s2 (Enc x) = Ok (s2, OId i)) /\
    (forall a b c i, q_get (sq s1) (a, b, c) = Some i -> step s2 (EncQ a b c) = Ok (s2, OId i)).
Proof. exact stable_bindings. Qed.
Print Assumptions C15_encode_stable.

(* the same for whole (possibly quoted) terms *)
Theorem C15_terms_stable :
  forall ops1 ops2 s1 o1 s2 o2,
    valid st_new ops1 -> run st_new ops1 = Ok (s1, o1) -> valid s1 ops2 -> run s1 ops2 = Ok (s2, o2) ->
    forall i t, decode_any s1 i = Ok t ->
      decode_any s2 i = Ok t /\ step s2 (EncT t) = Ok (s2, OId i).
Proof. exact stable_terms. Qed.
Print Assumptions C15_terms_stable.

(* ---- quoted triples live in a range disjoint from plain terms ---- *)
Theorem C15_range_plain :
  forall ops s outs k x i,
    run st_new ops = Ok (s, outs) -> called ops outs k (Enc x) (OId i) -> is_quoted i = false.
Proof. exact hist_range_plain. Qed.
Print Assumptions C15_range_plain.

Theorem C15_range_quoted :
  forall ops s outs k a b c i,
    run st_new ops = Ok (s, outs) -> called ops outs k (EncQ a b c) (OId i) -> is_quoted i = true.
Proof. exact hist_range_quoted. Qed.
Print Assumptions C15_range_quoted.

Theorem C15_range_term :
  forall ops s outs k t i,
    valid st_new ops -> run st_new ops = Ok (s, outs) -> called ops outs k (EncT t) (OId i) ->
    is_quoted i = match t with TLeaf _ => false | TQuote _ _ _ => true end.
Proof. exact hist_range_term. Qed.
Print Assumptions C15_range_term.

(* the model's range test is the code's bit test on every u32 *)
Theorem C15_is_quoted_bit31 : forall i, i < 4294967296 -> is_quoted i = N.testbit i 31.
Proof. exact is_quoted_bit31. Qed.
Print Assumptions C15_is_quoted_bit31.

(* ---- quoted triples are identified structurally ---- *)
Theorem C15_qt_structural_ids :
  forall ops s outs k k' a b c a' b' c' i i',
    run st_new ops = Ok (s, outs) ->
    called ops outs k (EncQ a b c) (OId i) -> called ops outs k' (EncQ a' b' c') (OId i') ->
    (i = i' <-> (a, b, c) = (a', b', c')).
Proof. exact hist_qt_structural_ids. Qed.
Print Assumptions C15_qt_structural_ids.

Theorem C15_qt_structural_terms :
  forall ops s outs k k' t t' i i',
    valid st_new ops -> run st_new ops = Ok (s, outs) ->
    called ops outs k (EncT t) (OId i) -> called ops outs k' (EncT t') (OId i') ->
    (i = i' <-> t = t').
Proof. exact hist_qt_structural_terms. Qed.
Print Assumptions C15_qt_structural_terms.

(* encode_term_star on a plain term is Dictionary::encode *)
Theorem C15_term_vs_plain :
  forall ops s outs k k' x i i',
    valid st_new ops -> run st_new ops = Ok (s, outs) ->
    called ops outs k (Enc x) (OId i) -> called ops outs k' (EncT (TLeaf x)) (OId i') -> i = i'.
Proof. exact hist_term_vs_plain. Qed.
Print Assumptions C15_term_vs_plain.

(* decoding a (possibly nested) quoted id returns the original term; in particular the recursion
   neither runs out of fuel nor meets an undefined component *)
Theorem C15_decode_term :
  forall ops s outs k k' t i r,
    valid st_new ops -> run st_new ops = Ok (s, outs) -> (k < k')%nat ->
    called ops outs k (EncT t) (OId i) -> called ops outs k' (DecT i) (OTerm r) -> r = Ok t.
Proof. exact hist_decode_term. Qed.
Print Assumptions C15_decode_term.

Theorem C15_decode_quoted :
  forall ops s outs k k' a b c i r,
    run st_new ops = Ok (s, outs) -> (k < k')%nat ->
    called ops outs k (EncQ a b c) (OId i) -> called ops outs k' (DecQ i) (OKey r) -> r = Some (a, b, c).
Proof. exact hist_decode_quoted. Qed.
Print Assumptions C15_decode_quoted.

(* every id of a well-formed state decodes (termination of decode_term with the model's fuel) *)
Theorem C15_decode_total :
  forall s i, SInv s -> defined s i -> exists t, decode_any s i = Ok t.
Proof.
  intros s i Hs Hd. destruct (defined_decodes s i Hs Hd) as [t Ht].
  exists t. exact (decode_any_complete s i t Hs Ht).
Qed.
Print Assumptions C15_decode_total.

(* ---- union ---- *)
(* The union of two well-formed databases denotes exactly the union of their lexical datasets:
   quads, graph identities (including empty named graphs), dictionary terms and quoted terms;
   it is well-formed again and the left operand's identifiers keep their meaning in it. *)
Theorem C15_union :
  forall a b u, WF a -> WF b -> union a b = Ok u ->
    WF u /\ ext (dst a) (dst u) /\ is_union (den a) (den b) (den u).
Proof. exact union_correct. Qed.
Print Assumptions C15_union.

(* The union result is itself a stable bijection: in it equal terms have equal ids (structural identity of
   quoted triples included), re-encoding a decoded term returns its id without changing anything, every id
   of the left operand still denotes the same term, the quoted store's two maps are mutually inverse, and
   no lexical quad is stored twice (number of stored quads = number of distinct lexical quads). *)
Theorem C15_union_result_identity :
  forall a b u, WF a -> WF b -> union a b = Ok u ->
    (forall i j t, decode_any (dst u) i = Ok t -> decode_any (dst u) j = Ok t -> i = j) /\
    (forall i t, decode_any (dst u) i = Ok t -> encode_term (dst u) t = Ok (dst u, i)) /\
    (forall i t, decode_any (dst a) i = Ok t -> decode_any (dst u) i = Ok t) /\
    (forall k i, q_get (sq (dst u)) k = Some i <-> q_decode (sq (dst u)) i = Some k) /\
    NoDup (den_quads u).
Proof. exact union_result_identity. Qed.
Print Assumptions C15_union_result_identity.

(* The exhaustion guard, whatever value next_id has: a term the dictionary does not know is refused
   (the assert) exactly when next_id >= 2^31, and otherwise gets the id next_id < 2^31. *)
Theorem C15_exhaustion_guard :
  forall d x, d_get d x = None ->
    (d_encode d x = Err Exhausted <-> QBIT <= nxt d) /\
    (forall d' i, d_encode d x = Ok (d', i) -> i = nxt d /\ i < QBIT /\ nxt d' <= QBIT).
Proof. exact d_encode_guard. Qed.
Print Assumptions C15_exhaustion_guard.

(* probability seeds: the union binds a lexical triple to the right operand's seed if it has one,
   otherwise to the left operand's *)
Theorem C15_union_seeds :
  forall a b u, WF a -> WF b -> union a b = Ok u -> is_union_seeds (den a) (den b) (den u).
Proof. exact union_seeds_correct. Qed.
Print Assumptions C15_union_seeds.

(* On well-formed operands union never panics on a missing id and its recursion never runs out of the
   model's fuel: the only failure is the dictionary's exhaustion assert. *)
Theorem C15_union_total :
  forall a b, WF a -> WF b -> (exists u, union a b = Ok u) \/ union a b = Err Exhausted.
Proof. exact union_total. Qed.
Print Assumptions C15_union_total.

(* Every database populated through the public API (add_quad_parts, add_triple_parts,
   add_tagged_triple, encode_term_star, create_graph, delete_quad) is well-formed ... *)
Theorem C15_built_WF :
  forall ops d, build db_new ops = Ok d -> WF d.
Proof. intros ops d H. exact (proj1 (build_WF ops db_new d WF_new H)). Qed.
Print Assumptions C15_built_WF.

(* ... so for all pairs of independently populated databases: *)
Theorem C15_union_built :
  forall opsA opsB a b u,
    build db_new opsA = Ok a -> build db_new opsB = Ok b -> union a b = Ok u ->
    is_union (den a) (den b) (den u) /\ is_union_seeds (den a) (den b) (den u).
Proof.
  intros opsA opsB a b u Ha Hb Hu.
  pose proof (proj1 (build_WF opsA db_new a WF_new Ha)) as Wa.
  pose proof (proj1 (build_WF opsB db_new b WF_new Hb)) as Wb.
  split.
  - exact (proj2 (proj2 (union_correct a b u Wa Wb Hu))).
  - exact (union_seeds_correct a b u Wa Wb Hu).
Qed.
Print Assumptions C15_union_built.

(* ---- non-vacuity ---- *)
(* a valid history with nested quoted terms, clashing re-encodes and decodes *)
Example C15_example_history :
  let ops := [Enc 5; Enc 7; Enc 5; EncQ 0 1 0;
              EncT (TQuote (TQuote (TLeaf 5) (TLeaf 7) (TLeaf 5)) (TLeaf 9) (TLeaf 5));
              DecT 2147483649; Dec 1; DecQ 2147483648] in
  valid st_new ops /\
  exists s, run st_new ops =
    Ok (s, [OId 0; OId 1; OId 0; OId 2147483648; OId 2147483649;
            OTerm (Ok (TQuote (TQuote (TLeaf 5) (TLeaf 7) (TLeaf 5)) (TLeaf 9) (TLeaf 5)));
            OLex (Some 7); OKey (Some (0, 1, 0))]).
Proof.
  split.
  - apply validb_sound. vm_compute. reflexivity.
  - eexists. vm_compute. reflexivity.
Qed.

(* two independently populated databases whose identifiers clash (id 0 is term 1 in a and term 3 in b),
   with a shared nested quoted term, an empty named graph on each side and clashing seeds *)
Example C15_example_union :
  let opsA := [BAddQuad (TLeaf 1) (TLeaf 2) (TQuote (TLeaf 1) (TLeaf 2) (TLeaf 3)) 9; BTagged 1 2 3 4; BCreate 12] in
  let opsB := [BAddStar (TLeaf 3) (TLeaf 2) (TQuote (TLeaf 1) (TLeaf 2) (TLeaf 3)); BTagged 1 2 3 7; BCreate 13] in
  exists a b u,
    build db_new opsA = Ok a /\ build db_new opsB = Ok b /\ union a b = Ok u /\
    d_decode (sd (dst a)) 0 = Some 1 /\ d_decode (sd (dst b)) 0 = Some 3 /\
    den_quads u = [(TLeaf 3, TLeaf 2, TQuote (TLeaf 1) (TLeaf 2) (TLeaf 3), None);
                   (TLeaf 1, TLeaf 2, TQuote (TLeaf 1) (TLeaf 2) (TLeaf 3), Some (TLeaf 9));
                   (TLeaf 1, TLeaf 2, TLeaf 3, None)] /\
    den_seeds u = [(TLeaf 1, TLeaf 2, TLeaf 3, 7)].
Proof.
  do 3 eexists. split; [vm_compute; reflexivity|]. split; [vm_compute; reflexivity|]. split; [vm_compute; reflexivity|].
  split; [vm_compute; reflexivity|]. split; [vm_compute; reflexivity|]. split; vm_compute; reflexivity.
Qed.
