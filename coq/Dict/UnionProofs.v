(* C15, second half: reencode_term_id translates an id of the source database into an id of the
   target that denotes the same lexical term; SparqlDatabase::union denotes the union of the two
   lexical datasets. *)
Require Import KV.Dict.Model KV.Dict.Spec KV.Dict.BimapProofs KV.Dict.Proofs.
Require Import Lia.

(* ------------------------------------------------------------------------------------------ *)
(* small list facts                                                                            *)
Lemma lookup_i_in : forall {K} (l : list (N * K)) i k, lookup_i l i = Some k -> In i (map fst l).
Proof.
  intros K l. induction l as [|[i' k'] r IH]; intros i k H; cbn in *; [discriminate|].
  destruct (N.eqb_spec i i') as [->|Hne]; [left; reflexivity|right; eauto].
Qed.

Lemma in_lookup_i : forall {K} (l : list (N * K)) i, In i (map fst l) -> exists k, lookup_i l i = Some k.
Proof.
  intros K l. induction l as [|[i' k'] r IH]; intros i H; cbn in *; [contradiction|].
  destruct (N.eqb_spec i i') as [->|Hne]; [eauto|]. destruct H as [H|H]; [congruence|eauto].
Qed.

Lemma okmap_in : forall {A B} (f : A -> res B) l y, In y (okmap f l) <-> exists x, In x l /\ f x = Ok y.
Proof.
  intros A B f l y. induction l as [|a r IH]; cbn [okmap].
  - split; [contradiction|intros (x & [] & _)].
  - destruct (f a) as [b|e] eqn:Ef.
    + cbn [In]. rewrite IH. split.
      * intros [<-|(x & Hx & Hf)]; [exists a; auto|exists x; auto].
      * intros (x & [<-|Hx] & Hf); [left; congruence|right; eauto].
    + rewrite IH. split.
      * intros (x & Hx & Hf). exists x. cbn [In]. auto.
      * intros (x & [<-|Hx] & Hf); [congruence|eauto].
Qed.

Lemma Forall2_in_r : forall {A B} (R : A -> B -> Prop) l1 l2, Forall2 R l1 l2 ->
  forall y, In y l2 -> exists x, In x l1 /\ R x y.
Proof.
  intros A B R l1 l2 H. induction H as [|x y l1 l2 Hxy _ IH]; intros y0 Hin; [contradiction|].
  destruct Hin as [<-|Hin]; [exists x; cbn; auto|].
  destruct (IH _ Hin) as (x0 & Hx0 & Hr). exists x0. cbn. auto.
Qed.

Lemma Forall2_in_l : forall {A B} (R : A -> B -> Prop) l1 l2, Forall2 R l1 l2 ->
  forall x, In x l1 -> exists y, In y l2 /\ R x y.
Proof.
  intros A B R l1 l2 H. induction H as [|x y l1 l2 Hxy _ IH]; intros x0 Hin; [contradiction|].
  destruct Hin as [<-|Hin]; [exists y; cbn; auto|].
  destruct (IH _ Hin) as (y0 & Hy0 & Hr). exists y0. cbn. auto.
Qed.

Lemma ins_sorted_in : forall x l y, In y (ins_sorted x l) <-> y = x \/ In y l.
Proof.
  intros x l y. induction l as [|a r IH]; cbn [ins_sorted].
  - cbn. intuition.
  - destruct (x <=? a); cbn [In]; [intuition|]. rewrite IH. intuition.
Qed.

Lemma sortN_in : forall l y, In y (sortN l) <-> In y l.
Proof.
  intros l y. induction l as [|a r IH]; cbn [sortN fold_right]; [reflexivity|].
  fold (sortN r). rewrite ins_sorted_in, IH. cbn [In]. intuition.
Qed.

(* ------------------------------------------------------------------------------------------ *)
(* the invariant of a translation in progress                                                   *)
(* every cached pair translates an id of the source into an id of the target with the same denotation *)
Definition CInv (src : st) (ts : tstate) : Prop :=
  forall i j, lookup_n (tcache ts) i = Some j -> exists t, denotes src i t /\ denotes (tst ts) j t.

Definition cache_ext (ts ts' : tstate) : Prop :=
  forall i j, lookup_n (tcache ts) i = Some j -> lookup_n (tcache ts') i = Some j.

(* nothing else enters the target: every entry is one of the initial target t0 or stands for a term of the source *)
Definition Orig (src t0 tgt : st) : Prop :=
  (forall j x, d_decode (sd tgt) j = Some x ->
     d_decode (sd t0) j = Some x \/ exists i, d_decode (sd src) i = Some x) /\
  (forall j k, q_decode (sq tgt) j = Some k ->
     q_decode (sq t0) j = Some k \/
     exists i t, (exists k', q_decode (sq src) i = Some k') /\ denotes src i t /\ denotes tgt j t).

Definition TInv (src t0 : st) (ts : tstate) : Prop :=
  SInv (tst ts) /\ CInv src ts /\ Orig src t0 (tst ts).

Lemma cache_ext_refl : forall ts, cache_ext ts ts.
Proof. intros ts i j H. exact H. Qed.
Lemma cache_ext_trans : forall a b c, cache_ext a b -> cache_ext b c -> cache_ext a c.
Proof. intros a b c H1 H2 i j H. auto. Qed.

Lemma CInv_ext_cons : forall src ts tgt' id j t,
  CInv src ts -> ext (tst ts) tgt' -> denotes src id t -> denotes tgt' j t ->
  CInv src (mkT tgt' ((id, j) :: tcache ts)).
Proof.
  intros src ts tgt' id j t Hc He Hs Ht i j' Hl. cbn [tcache tst lookup_n] in *.
  destruct (N.eqb_spec i id) as [->|Hne].
  - injection Hl as <-. exists t. auto.
  - destruct (Hc _ _ Hl) as (t' & H1 & H2). exists t'. split; [exact H1|eapply denotes_ext; eassumption].
Qed.

Lemma Orig_trans_d : forall src t0 s d',
  Orig src t0 s ->
  (forall j x, d_decode d' j = Some x -> d_decode (sd s) j = Some x \/ exists i, d_decode (sd src) i = Some x) ->
  ext s (mkSt d' (sq s)) ->
  Orig src t0 (mkSt d' (sq s)).
Proof.
  intros src t0 s d' [Od Oq] Hnew He. split; cbn [sd sq].
  - intros j x Hj. destruct (Hnew _ _ Hj) as [H|H]; [apply Od; exact H|right; exact H].
  - intros j k Hj. destruct (Oq _ _ Hj) as [H|(i & t & Hk & H1 & H2)]; [left; exact H|right].
    exists i, t. split; [exact Hk|]. split; [exact H1|eapply denotes_ext; eassumption].
Qed.

Lemma reencode_spec : forall fuel src t0 id ts j ts',
  TInv src t0 ts -> reencode fuel src id ts = Ok (j, ts') ->
  TInv src t0 ts' /\ ext (tst ts) (tst ts') /\ cache_ext ts ts' /\ lookup_n (tcache ts') id = Some j.
Proof.
  induction fuel as [|f IH]; intros src t0 id ts j ts' Hinv H; cbn [reencode] in H; [discriminate|].
  destruct (lookup_n (tcache ts) id) as [j0|] eqn:El.
  - injection H as <- <-. split; [exact Hinv|]. split; [apply ext_refl|]. split; [apply cache_ext_refl|exact El].
  - destruct (is_quoted id) eqn:Eq.
    + apply is_quoted_true in Eq.
      destruct (q_decode (sq src) id) as [[[a b] c]|] eqn:Ek; [|discriminate].
      destruct (reencode f src a ts) as [[a' ts1]|] eqn:Ea; [|discriminate].
      destruct (reencode f src b ts1) as [[b' ts2]|] eqn:Eb; [|discriminate].
      destruct (reencode f src c ts2) as [[c' ts3]|] eqn:Ec; [|discriminate].
      destruct (q_encode (sq (tst ts3)) (a', b', c')) as [q' j'] eqn:Ee.
      injection H as <- <-.
      destruct (IH _ _ _ _ _ _ Hinv Ea) as (I1 & E1 & C1 & L1).
      destruct (IH _ _ _ _ _ _ I1 Eb) as (I2 & E2 & C2 & L2).
      destruct (IH _ _ _ _ _ _ I2 Ec) as (I3 & E3 & C3 & L3).
      destruct I3 as (S3 & CI3 & O3).
      assert (lookup_n (tcache ts3) a = Some a') as La by (apply C3, C2; exact L1).
      assert (lookup_n (tcache ts3) b = Some b') as Lb by (apply C3; exact L2).
      destruct (CI3 _ _ La) as (ta & Sa & Ta). destruct (CI3 _ _ Lb) as (tb & Sb & Tb).
      destruct (CI3 _ _ L3) as (tc & Sc & Tc).
      pose proof S3 as [B3 _].
      destruct (q_encode_state (tst ts3) a' b' c' q' j' S3) as (S' & E' & Hg & Hr & Hi); try assumption;
        try (eapply denotes_defined; eassumption).
      assert (denotes src id (TQuote ta tb tc)) as Dsrc by (eapply den_quote; eauto).
      assert (denotes (mkSt (sd (tst ts3)) q') j' (TQuote ta tb tc)) as Dtgt.
      { eapply den_quote; [lia|exact Hr| | | ]; (eapply denotes_ext; [exact E'|assumption]). }
      split; [split; [exact S'|split]|].
      * eapply CInv_ext_cons; eassumption.
      * destruct O3 as [Od Oq]. split; cbn [sd sq tst].
        -- exact Od.
        -- intros j0 k Hj0.
           destruct (q_encode_cases _ _ _ _ Ee) as [[_ ->]|(Hnone & -> & ->)].
           ++ destruct (Oq _ _ Hj0) as [H|(i & t & Hk & H1 & H2)]; [left; exact H|right].
              exists i, t. split; [exact Hk|]. split; [exact H1|]. rewrite st_eta. exact H2.
           ++ unfold q_decode in Hj0. rewrite alloc_rev in Hj0.
              destruct (N.eqb_spec j0 (nxt (sq (tst ts3)))) as [->|Hne].
              ** right. exists id, (TQuote ta tb tc). split; [eauto|]. split; [exact Dsrc|exact Dtgt].
              ** destruct (Oq _ _ Hj0) as [H|(i & t & Hk & H1 & H2)]; [left; exact H|right].
                 exists i, t. split; [exact Hk|]. split; [exact H1|eapply denotes_ext; eassumption].
      * split; [exact (ext_trans _ _ _ (ext_trans _ _ _ (ext_trans _ _ _ E1 E2) E3) E')|].
        split.
        -- intros i j0 Hl. cbn [tcache lookup_n].
           destruct (N.eqb_spec i id) as [->|Hne]; [congruence|]. apply C3, C2, C1. exact Hl.
        -- cbn [tcache lookup_n]. rewrite N.eqb_refl. reflexivity.
    + apply is_quoted_false in Eq.
      destruct (d_decode (sd src) id) as [x|] eqn:Ex; [|discriminate].
      destruct (d_encode (sd (tst ts)) x) as [[d' j']|] eqn:Ed; [|discriminate].
      injection H as <- <-.
      destruct Hinv as (S0 & CI0 & O0).
      destruct (d_encode_state _ _ _ _ S0 Ed) as (S' & E' & Hg & Hr & Hi).
      assert (denotes src id (TLeaf x)) as Dsrc by (apply den_leaf; assumption).
      assert (denotes (mkSt d' (sq (tst ts))) j' (TLeaf x)) as Dtgt by (apply den_leaf; assumption).
      split; [split; [exact S'|split]|].
      * eapply CInv_ext_cons; eassumption.
      * apply Orig_trans_d; [exact O0| |exact E'].
        intros j0 x0 Hj0. destruct (d_encode_cases _ _ _ _ Ed) as [[_ ->]|(Hnone & _ & -> & ->)]; [left; exact Hj0|].
        unfold d_decode in Hj0. rewrite alloc_rev in Hj0.
        destruct (N.eqb_spec j0 (nxt (sd (tst ts)))) as [->|Hne]; [|left; exact Hj0].
        injection Hj0 as <-. right. eauto.
      * split; [exact E'|]. split.
        -- intros i j0 Hl. cbn [tcache lookup_n].
           destruct (N.eqb_spec i id) as [->|Hne]; [congruence|exact Hl].
        -- cbn [tcache lookup_n]. rewrite N.eqb_refl. reflexivity.
Qed.

(* ------------------------------------------------------------------------------------------ *)
(* on a well-formed source the recursion never runs out of fuel and never meets an undefined id: *)
(* the only possible failure is the dictionary's exhaustion assert                               *)
Definition oke {A} (r : res A) : Prop := (exists x, r = Ok x) \/ r = Err Exhausted.

Lemma reencode_total_n : forall src, SInv src -> forall n id ts,
  defined src id -> (id < QBIT \/ id - QBIT < N.of_nat n) -> oke (reencode (S n) src id ts).
Proof.
  intros src [[[Hd Hle] Hq] Hcl]. induction n as [|n IH]; intros id ts Hdef Hr.
  - cbn [reencode]. destruct (lookup_n (tcache ts) id); [left; eauto|].
    destruct Hr as [Hr|Hr]; [|lia]. pose proof Hr as Hr'. apply is_quoted_false in Hr'. rewrite Hr'.
    destruct Hdef as [Hdef|Hdef]; [|lia].
    destruct (BMInv_defined _ _ 0 (sd src) id Hd) as [x Hx]; [lia|].
    unfold d_decode. rewrite Hx.
    destruct (d_encode_total (sd (tst ts)) x) as [[[d' j] ->]| ->]; [left; eauto|right; reflexivity].
  - remember (S n) as m. cbn [reencode]. destruct (lookup_n (tcache ts) id); [left; eauto|].
    destruct (is_quoted id) eqn:Eq.
    + apply is_quoted_true in Eq. destruct Hdef as [Hdef|Hdef]; [lia|].
      destruct (BMInv_defined _ _ QBIT (sq src) id Hq Hdef) as [[[a b] c] Hk].
      unfold q_decode. rewrite Hk.
      destruct (Hcl _ _ _ _ Hk) as (Ba & Bb & Bc).
      assert (forall x ts0, below src id x -> oke (reencode m src x ts0)) as Hsub.
      { intros x ts0 Bx. subst m. apply IH.
        - destruct Bx as [Bx|Bx]; [left; exact Bx|right; lia].
        - destruct Hr as [Hr|Hr]; [lia|]. destruct Bx as [Bx|Bx]; [left; lia|right; lia]. }
      destruct (Hsub a ts Ba) as [[[a' ts1] ->]| ->]; [|right; reflexivity].
      destruct (Hsub b ts1 Bb) as [[[b' ts2] ->]| ->]; [|right; reflexivity].
      destruct (Hsub c ts2 Bc) as [[[c' ts3] ->]| ->]; [|right; reflexivity].
      destruct (q_encode (sq (tst ts3)) (a', b', c')). left. eauto.
    + apply is_quoted_false in Eq. destruct Hdef as [Hdef|Hdef]; [|lia].
      destruct (BMInv_defined _ _ 0 (sd src) id Hd) as [x Hx]; [lia|].
      unfold d_decode. rewrite Hx.
      destruct (d_encode_total (sd (tst ts)) x) as [[[d' j] ->]| ->]; [left; eauto|right; reflexivity].
Qed.

Lemma reencode_total : forall src id ts, SInv src -> defined src id -> oke (reencode (fuel_of src) src id ts).
Proof.
  intros src id ts Hs Hdef. unfold fuel_of. apply reencode_total_n; [exact Hs|exact Hdef|].
  destruct (N.ltb_spec id QBIT) as [Hlt|Hge]; [left; exact Hlt|right].
  destruct Hs as [[[_ Hle] (_ & _ & Hlen)] _]. destruct Hdef as [Hdef|Hdef].
  - lia.
  - rewrite Hlen in Hdef. lia.
Qed.

(* ------------------------------------------------------------------------------------------ *)
(* the compound translations                                                                    *)
Lemma reencode_all_spec : forall fuel src t0 ids ts ts',
  TInv src t0 ts -> reencode_all fuel src ids ts = Ok ts' ->
  TInv src t0 ts' /\ ext (tst ts) (tst ts') /\ cache_ext ts ts' /\
  (forall i, In i ids -> exists j, lookup_n (tcache ts') i = Some j).
Proof.
  intros fuel src t0. induction ids as [|i r IH]; intros ts ts' Hinv H; cbn [reencode_all] in H.
  - injection H as <-. split; [exact Hinv|]. split; [apply ext_refl|]. split; [apply cache_ext_refl|]. intros i [].
  - destruct (reencode fuel src i ts) as [[j ts1]|] eqn:Er; [|discriminate].
    destruct (reencode_spec _ _ _ _ _ _ _ Hinv Er) as (I1 & E1 & C1 & L1).
    destruct (IH _ _ I1 H) as (I2 & E2 & C2 & L2).
    split; [exact I2|]. split; [eapply ext_trans; eassumption|]. split; [eapply cache_ext_trans; eassumption|].
    intros i0 [<-|Hin]; [exists j; apply C2; exact L1|apply L2; exact Hin].
Qed.

Lemma reencode_all_total : forall src ids ts, SInv src -> (forall i, In i ids -> defined src i) ->
  oke (reencode_all (fuel_of src) src ids ts).
Proof.
  intros src. induction ids as [|i r IH]; intros ts Hs Hdef; cbn [reencode_all]; [left; eauto|].
  destruct (reencode_total src i ts Hs) as [[[j ts1] ->]| ->]; [apply Hdef; left; reflexivity| |right; reflexivity].
  apply IH; [exact Hs|]. intros i0 Hi0. apply Hdef. right. exact Hi0.
Qed.

Lemma reencode3_spec : forall fuel src t0 a b c ts a' b' c' ts',
  TInv src t0 ts -> reencode3 fuel src (a, b, c) ts = Ok ((a', b', c'), ts') ->
  TInv src t0 ts' /\ ext (tst ts) (tst ts') /\ cache_ext ts ts' /\
  lookup_n (tcache ts') a = Some a' /\ lookup_n (tcache ts') b = Some b' /\ lookup_n (tcache ts') c = Some c'.
Proof.
  intros fuel src t0 a b c ts a' b' c' ts' Hinv H. cbn [reencode3] in H.
  destruct (reencode fuel src a ts) as [[a0 ts1]|] eqn:Ea; [|discriminate].
  destruct (reencode fuel src b ts1) as [[b0 ts2]|] eqn:Eb; [|discriminate].
  destruct (reencode fuel src c ts2) as [[c0 ts3]|] eqn:Ec; [|discriminate].
  injection H as <- <- <- <-.
  destruct (reencode_spec _ _ _ _ _ _ _ Hinv Ea) as (I1 & E1 & C1 & L1).
  destruct (reencode_spec _ _ _ _ _ _ _ I1 Eb) as (I2 & E2 & C2 & L2).
  destruct (reencode_spec _ _ _ _ _ _ _ I2 Ec) as (I3 & E3 & C3 & L3).
  split; [exact I3|]. split; [exact (ext_trans _ _ _ (ext_trans _ _ _ E1 E2) E3)|].
  split; [exact (cache_ext_trans _ _ _ (cache_ext_trans _ _ _ C1 C2) C3)|].
  split; [apply C3, C2; exact L1|]. split; [apply C3; exact L2|exact L3].
Qed.

Lemma reencode3_total : forall src a b c ts, SInv src -> defined src a -> defined src b -> defined src c ->
  oke (reencode3 (fuel_of src) src (a, b, c) ts).
Proof.
  intros src a b c ts Hs Da Db Dc. cbn [reencode3].
  destruct (reencode_total src a ts Hs Da) as [[[a' ts1] ->]| ->]; [|right; reflexivity].
  destruct (reencode_total src b ts1 Hs Db) as [[[b' ts2] ->]| ->]; [|right; reflexivity].
  destruct (reencode_total src c ts2 Hs Dc) as [[[c' ts3] ->]| ->]; [|right; reflexivity].
  left. eauto.
Qed.

(* translation of a graph position through the cache *)
Definition trg (c : list (N * N)) (g g' : option N) : Prop :=
  match g, g' with
  | None, None => True
  | Some n, Some n' => lookup_n c n = Some n'
  | _, _ => False
  end.

Lemma reencode_graph_spec : forall fuel src t0 g ts g' ts',
  TInv src t0 ts -> reencode_graph fuel src g ts = Ok (g', ts') ->
  TInv src t0 ts' /\ ext (tst ts) (tst ts') /\ cache_ext ts ts' /\ trg (tcache ts') g g'.
Proof.
  intros fuel src t0 g ts g' ts' Hinv H. destruct g as [n|]; cbn [reencode_graph] in H.
  - destruct (reencode fuel src n ts) as [[n' ts1]|] eqn:Er; [|discriminate]. injection H as <- <-.
    destruct (reencode_spec _ _ _ _ _ _ _ Hinv Er) as (I1 & E1 & C1 & L1). cbn [trg]. auto.
  - injection H as <- <-. split; [exact Hinv|]. split; [apply ext_refl|]. split; [apply cache_ext_refl|exact I].
Qed.

Lemma reencode_graph_total : forall src g ts, SInv src ->
  match g with Some n => defined src n | None => True end -> oke (reencode_graph (fuel_of src) src g ts).
Proof.
  intros src g ts Hs Hd. destruct g as [n|]; cbn [reencode_graph]; [|left; eauto].
  destruct (reencode_total src n ts Hs Hd) as [[[n' ts1] ->]| ->]; [left; eauto|right; reflexivity].
Qed.

(* ------------------------------------------------------------------------------------------ *)
(* the dataset index (quad set + graph catalog)                                                 *)
Lemma optN_eqb_spec : forall x y, optN_eqb x y = true <-> x = y.
Proof.
  intros [a|] [b|]; cbn; split; try discriminate; try reflexivity.
  - intros H. apply N.eqb_eq in H. congruence.
  - intros H. injection H as ->. apply N.eqb_refl.
Qed.

Lemma quad_eqb_spec : forall x y : quad, quad_eqb x y = true <-> x = y.
Proof.
  intros [[[a b] c] g] [[[a' b'] c'] g']. unfold quad_eqb. split.
  - intros H. apply andb_true_iff in H. destruct H as [H Hg].
    apply andb_true_iff in H. destruct H as [H Hc]. apply andb_true_iff in H. destruct H as [Ha Hb].
    apply N.eqb_eq in Ha. apply N.eqb_eq in Hb. apply N.eqb_eq in Hc. apply optN_eqb_spec in Hg. congruence.
  - intros H. injection H as -> -> -> ->. rewrite !N.eqb_refl. cbn. apply optN_eqb_spec. reflexivity.
Qed.

Lemma contains_quad_in : forall x q, contains_quad x q = true <-> In q (iquads x).
Proof.
  intros x q. unfold contains_quad. rewrite existsb_exists. split.
  - intros (y & Hy & He). apply quad_eqb_spec in He. subst y. exact Hy.
  - intros H. exists q. split; [exact H|apply quad_eqb_spec; reflexivity].
Qed.

Lemma set_add_in : forall x l y, In y (set_add x l) <-> y = x \/ In y l.
Proof.
  intros x l y. unfold set_add. destruct (existsb (N.eqb x) l) eqn:E.
  - apply existsb_exists in E. destruct E as (z & Hz & He). apply N.eqb_eq in He. subst z.
    split; [auto|]. intros [->|H]; assumption.
  - cbn [In]. split; intros [H|H]; auto.
Qed.

Lemma register_in : forall g c y, In y (register g c) <-> g = Some y \/ In y c.
Proof.
  intros [n|] c y; cbn [register].
  - rewrite set_add_in. split; intros [H|H]; auto; [left; congruence|left; congruence].
  - split; [auto|]. intros [H|H]; [discriminate|exact H].
Qed.

Lemma named_of_in : forall l g, In g (named_of l) <-> exists q, In q l /\ qgraph q = Some g.
Proof.
  induction l as [|q r IH]; intros g; cbn [named_of].
  - split; [contradiction|intros (q & [] & _)].
  - destruct (qgraph q) as [n|] eqn:Eg; cbn [In]; rewrite ?IH; split.
    + intros [<-|(q' & Hq' & Hg)]; [exists q; auto|exists q'; auto].
    + intros (q' & [<-|Hq'] & Hg); [left; congruence|right; eauto].
    + intros (q' & Hq' & Hg). exists q'. auto.
    + intros (q' & [<-|Hq'] & Hg); [congruence|eauto].
Qed.

Lemma named_graphs_in : forall x g,
  In g (named_graphs x) <-> In g (icat x) \/ exists q, In q (iquads x) /\ qgraph q = Some g.
Proof. intros x g. unfold named_graphs. rewrite in_app_iff, named_of_in. reflexivity. Qed.

Lemma insert_quad_quads : forall x q q', In q' (iquads (insert_quad x q)) <-> q' = q \/ In q' (iquads x).
Proof.
  intros x q q'. unfold insert_quad. destruct (contains_quad x q) eqn:E; cbn [iquads].
  - apply contains_quad_in in E. split; [auto|]. intros [->|H]; assumption.
  - cbn [In]. split; intros [H|H]; auto.
Qed.

Lemma insert_quad_named : forall x q g,
  In g (named_graphs (insert_quad x q)) <-> qgraph q = Some g \/ In g (named_graphs x).
Proof.
  intros x q g. rewrite !named_graphs_in.
  assert (icat (insert_quad x q) = register (qgraph q) (icat x)) as -> by (unfold insert_quad; destruct (contains_quad x q); reflexivity).
  rewrite register_in. split.
  - intros [[H|H]|(q' & Hq' & Hg)]; auto. apply insert_quad_quads in Hq'. destruct Hq' as [->|Hq']; [auto|right; right; eauto].
  - intros [H|[H|(q' & Hq' & Hg)]]; auto. right. exists q'. split; [apply insert_quad_quads; auto|exact Hg].
Qed.

Lemma create_graph_named : forall x g g', In g' (named_graphs (create_graph x g)) <-> g' = g \/ In g' (named_graphs x).
Proof.
  intros x g g'. rewrite !named_graphs_in. unfold create_graph. cbn [icat iquads]. rewrite set_add_in. tauto.
Qed.

Lemma fold_create_spec : forall gs x,
  iquads (fold_left create_graph gs x) = iquads x /\
  forall g, In g (named_graphs (fold_left create_graph gs x)) <-> In g gs \/ In g (named_graphs x).
Proof.
  induction gs as [|g0 r IH]; intros x; cbn [fold_left].
  - split; [reflexivity|]. intros g. cbn [In]. tauto.
  - destruct (IH (create_graph x g0)) as [Hq Hg]. split; [exact Hq|].
    intros g. rewrite Hg, create_graph_named. cbn [In]. intuition congruence.
Qed.

Lemma fold_insert_spec : forall qs x,
  (forall q, In q (iquads (fold_left insert_quad qs x)) <-> In q qs \/ In q (iquads x)) /\
  (forall g, In g (named_graphs (fold_left insert_quad qs x)) <->
             (exists q, In q qs /\ qgraph q = Some g) \/ In g (named_graphs x)).
Proof.
  induction qs as [|q0 r IH]; intros x; cbn [fold_left].
  - split; [intros q; cbn [In]; tauto|]. intros g. split; [auto|]. intros [(q & [] & _)|H]; exact H.
  - destruct (IH (insert_quad x q0)) as [Hq Hg]. split.
    + intros q. rewrite Hq, insert_quad_quads. cbn [In]. intuition congruence.
    + intros g. rewrite Hg, insert_quad_named. split.
      * intros [(q & Hq' & Hgq)|[H|H]]; [left; exists q; cbn [In]; auto|left; exists q0; cbn [In]; auto|auto].
      * intros [(q & [<-|Hq'] & Hgq)|H]; [auto|left; eauto|auto].
Qed.

(* the fresh index union starts from holds exactly self's quads and self's graph identities *)
Lemma index_copy_spec : forall x,
  let x0 := fold_left insert_quad (all_quads x) (fold_left create_graph (named_graphs x) ix_new) in
  (forall q, In q (iquads x0) <-> In q (iquads x)) /\
  (forall g, In g (named_graphs x0) <-> In g (named_graphs x)).
Proof.
  intros x x0. subst x0.
  destruct (fold_create_spec (named_graphs x) ix_new) as [Cq Cg].
  destruct (fold_insert_spec (all_quads x) (fold_left create_graph (named_graphs x) ix_new)) as [Iq Ig].
  split.
  - intros q. rewrite Iq, Cq. cbn. unfold all_quads. tauto.
  - intros g. rewrite Ig, Cg. unfold all_quads. split.
    + intros [(q & Hq & Hg)|[H|H]]; [apply named_graphs_in; eauto|exact H|].
      apply named_graphs_in in H. cbn in H. destruct H as [[]|(q & [] & _)].
    + intros H. right. left. exact H.
Qed.

(* ------------------------------------------------------------------------------------------ *)
(* the three loops of union over the other database                                             *)
Definition tr3 (c : list (N * N)) (k k' : key3) : Prop :=
  match k, k' with
  | (a, b, cc), (a', b', c') => lookup_n c a = Some a' /\ lookup_n c b = Some b' /\ lookup_n c cc = Some c'
  end.
Definition trq (c : list (N * N)) (q q' : quad) : Prop :=
  match q, q' with
  | (a, b, cc, g), (a', b', c', g') => tr3 c (a, b, cc) (a', b', c') /\ trg c g g'
  end.

Lemma trg_ext : forall ts ts' g g', cache_ext ts ts' -> trg (tcache ts) g g' -> trg (tcache ts') g g'.
Proof. intros ts ts' [n|] [n'|] He H; cbn [trg] in *; auto. Qed.
Lemma tr3_ext : forall ts ts' k k', cache_ext ts ts' -> tr3 (tcache ts) k k' -> tr3 (tcache ts') k k'.
Proof. intros ts ts' [[a b] c] [[a' b'] c'] He (H1 & H2 & H3). cbn [tr3]. auto. Qed.
Lemma trq_ext : forall ts ts' q q', cache_ext ts ts' -> trq (tcache ts) q q' -> trq (tcache ts') q q'.
Proof.
  intros ts ts' [[[a b] c] g] [[[a' b'] c'] g'] He [H1 H2]. split; [eapply tr3_ext; eassumption|eapply trg_ext; eassumption].
Qed.
Lemma trg_fun : forall c g g1 g2, trg c g g1 -> trg c g g2 -> g1 = g2.
Proof. intros c [n|] [n1|] [n2|] H1 H2; cbn [trg] in *; try contradiction; congruence. Qed.
Lemma trq_fun : forall c q q1 q2, trq c q q1 -> trq c q q2 -> q1 = q2.
Proof.
  intros c [[[a b] cc] g] [[[a1 b1] c1] g1] [[[a2 b2] c2] g2] [(H1 & H2 & H3) H4] [(G1 & G2 & G3) G4].
  pose proof (trg_fun _ _ _ _ H4 G4). congruence.
Qed.

Lemma union_graphs_spec : forall fuel src t0 gs ts x ts' x',
  TInv src t0 ts -> union_graphs fuel src gs ts x = Ok (ts', x') ->
  TInv src t0 ts' /\ ext (tst ts) (tst ts') /\ cache_ext ts ts' /\
  iquads x' = iquads x /\
  (forall g', In g' (named_graphs x') <->
              In g' (named_graphs x) \/ exists g, In g gs /\ lookup_n (tcache ts') g = Some g').
Proof.
  intros fuel src t0. induction gs as [|g r IH]; intros ts x ts' x' Hinv H; cbn [union_graphs] in H.
  - injection H as <- <-. split; [exact Hinv|]. split; [apply ext_refl|]. split; [apply cache_ext_refl|].
    split; [reflexivity|]. intros g'. split; [auto|]. intros [H|(g & [] & _)]. exact H.
  - destruct (reencode fuel src g ts) as [[g1 ts1]|] eqn:Er; [|discriminate].
    destruct (reencode_spec _ _ _ _ _ _ _ Hinv Er) as (I1 & E1 & C1 & L1).
    destruct (IH _ _ _ _ I1 H) as (I2 & E2 & C2 & Hq & Hg).
    split; [exact I2|]. split; [eapply ext_trans; eassumption|]. split; [eapply cache_ext_trans; eassumption|].
    split; [rewrite Hq; reflexivity|].
    intros g'. rewrite Hg, create_graph_named. apply C2 in L1. split.
    + intros [[->|H0]|(g0 & Hg0 & Hl)]; [right; exists g; cbn [In]; auto|auto|right; exists g0; cbn [In]; auto].
    + intros [H0|(g0 & [<-|Hg0] & Hl)]; [auto|left; left; congruence|right; eauto].
Qed.

Lemma union_graphs_total : forall src gs ts x, SInv src -> (forall g, In g gs -> defined src g) ->
  oke (union_graphs (fuel_of src) src gs ts x).
Proof.
  intros src. induction gs as [|g r IH]; intros ts x Hs Hd; cbn [union_graphs]; [left; eauto|].
  destruct (reencode_total src g ts Hs) as [[[g1 ts1] ->]| ->]; [apply Hd; left; reflexivity| |right; reflexivity].
  apply IH; [exact Hs|]. intros g0 H0. apply Hd. right. exact H0.
Qed.

Lemma union_quads_spec : forall fuel src t0 qs ts x ts' x',
  TInv src t0 ts -> union_quads fuel src qs ts x = Ok (ts', x') ->
  TInv src t0 ts' /\ ext (tst ts) (tst ts') /\ cache_ext ts ts' /\
  (forall q', In q' (iquads x') <-> In q' (iquads x) \/ exists q, In q qs /\ trq (tcache ts') q q') /\
  (forall g', In g' (named_graphs x') <->
              In g' (named_graphs x) \/ exists q q', In q qs /\ trq (tcache ts') q q' /\ qgraph q' = Some g').
Proof.
  intros fuel src t0. induction qs as [|[[[a b] c] g] r IH]; intros ts x ts' x' Hinv H; cbn [union_quads] in H.
  - injection H as <- <-. split; [exact Hinv|]. split; [apply ext_refl|]. split; [apply cache_ext_refl|].
    split; intros y; (split; [auto|]).
    + intros [H|(q & [] & _)]. exact H.
    + intros [H|(q & q' & [] & _)]. exact H.
  - destruct (reencode3 fuel src (a, b, c) ts) as [[[[a' b'] c'] ts1]|] eqn:E3; [|discriminate].
    destruct (reencode_graph fuel src g ts1) as [[g' ts2]|] eqn:Eg; [|discriminate].
    destruct (reencode3_spec _ _ _ _ _ _ _ _ _ _ _ Hinv E3) as (I1 & E1 & C1 & La & Lb & Lc).
    destruct (reencode_graph_spec _ _ _ _ _ _ _ I1 Eg) as (I2 & E2 & C2 & Lg).
    destruct (IH _ _ _ _ I2 H) as (I3 & E3' & C3 & Hq & Hg).
    assert (trq (tcache ts') (a, b, c, g) (a', b', c', g')) as Htr.
    { eapply trq_ext; [exact C3|]. split; [|exact Lg].
      cbn [tr3]. split; [apply C2; exact La|]. split; [apply C2; exact Lb|apply C2; exact Lc]. }
    split; [exact I3|]. split; [exact (ext_trans _ _ _ (ext_trans _ _ _ E1 E2) E3')|].
    split; [exact (cache_ext_trans _ _ _ (cache_ext_trans _ _ _ C1 C2) C3)|]. split.
    + intros q'. rewrite Hq, insert_quad_quads. split.
      * intros [[->|H0]|(q0 & Hq0 & Ht)]; [right; exists (a, b, c, g); cbn [In]; auto|auto|right; exists q0; cbn [In]; auto].
      * intros [H0|(q0 & [<-|Hq0] & Ht)]; [auto| |right; eauto].
        left. left. eapply trq_fun; eassumption.
    + intros y. rewrite Hg, insert_quad_named. split.
      * intros [[H0|H0]|(q0 & q0' & Hq0 & Ht & Hy)]; [|auto|right; exists q0, q0'; cbn [In]; auto].
        right. exists (a, b, c, g), (a', b', c', g'). cbn [In]. auto.
      * intros [H0|(q0 & q0' & [<-|Hq0] & Ht & Hy)]; [auto| |right; eauto].
        left. left. rewrite (trq_fun _ _ _ _ Htr Ht). exact Hy.
Qed.

Definition quad_ok (s : st) (q : quad) : Prop :=
  match q with
  | (a, b, c, g) => defined s a /\ defined s b /\ defined s c /\ match g with Some n => defined s n | None => True end
  end.
Definition key_ok (s : st) (k : key3) : Prop :=
  match k with (a, b, c) => defined s a /\ defined s b /\ defined s c end.

Lemma union_quads_total : forall src qs ts x, SInv src -> (forall q, In q qs -> quad_ok src q) ->
  oke (union_quads (fuel_of src) src qs ts x).
Proof.
  intros src. induction qs as [|[[[a b] c] g] r IH]; intros ts x Hs Hd; [left; cbn; eauto|].
  assert (quad_ok src (a, b, c, g)) as (Da & Db & Dc & Dg) by (apply Hd; left; reflexivity).
  cbn [union_quads].
  destruct (reencode3_total src a b c ts Hs Da Db Dc) as [[[[[a' b'] c'] ts1] ->]| ->]; [|right; reflexivity].
  destruct (reencode_graph_total src g ts1 Hs Dg) as [[[g' ts2] ->]| ->]; [|right; reflexivity].
  apply IH; [exact Hs|]. intros q0 H0. apply Hd. right. exact H0.
Qed.

Lemma union_seeds_spec : forall fuel src t0 l ts acc ts' sds,
  TInv src t0 ts -> union_seeds fuel src l ts acc = Ok (ts', sds) ->
  TInv src t0 ts' /\ ext (tst ts) (tst ts') /\ cache_ext ts ts' /\
  exists trl, sds = trl ++ acc /\
    Forall2 (fun kp kp' : seed => snd kp' = snd kp /\ tr3 (tcache ts') (fst kp) (fst kp')) (rev l) trl.
Proof.
  intros fuel src t0. induction l as [|[[[a b] c] p] r IH]; intros ts acc ts' sds Hinv H; cbn [union_seeds] in H.
  - injection H as <- <-. split; [exact Hinv|]. split; [apply ext_refl|]. split; [apply cache_ext_refl|].
    exists []. split; [reflexivity|constructor].
  - destruct (reencode3 fuel src (a, b, c) ts) as [[[[a' b'] c'] ts1]|] eqn:E3; [|discriminate].
    destruct (reencode3_spec _ _ _ _ _ _ _ _ _ _ _ Hinv E3) as (I1 & E1 & C1 & La & Lb & Lc).
    destruct (IH _ _ _ _ I1 H) as (I2 & E2 & C2 & trl & -> & Hf).
    split; [exact I2|]. split; [eapply ext_trans; eassumption|]. split; [eapply cache_ext_trans; eassumption|].
    exists (trl ++ [((a', b', c'), p)]). split; [rewrite <- app_assoc; reflexivity|].
    cbn [rev]. apply Forall2_app; [exact Hf|]. constructor; [|constructor].
    cbn [fst snd]. split; [reflexivity|]. eapply tr3_ext; [exact C2|]. cbn [tr3]. auto.
Qed.

Lemma union_seeds_total : forall src l ts acc, SInv src -> (forall k p, In (k, p) l -> key_ok src k) ->
  oke (union_seeds (fuel_of src) src l ts acc).
Proof.
  intros src. induction l as [|[[[a b] c] p] r IH]; intros ts acc Hs Hd; [left; cbn; eauto|].
  assert (key_ok src (a, b, c)) as (Da & Db & Dc) by (eapply Hd; left; reflexivity).
  cbn [union_seeds].
  destruct (reencode3_total src a b c ts Hs Da Db Dc) as [[[[[a' b'] c'] ts1] ->]| ->]; [|right; reflexivity].
  apply IH; [exact Hs|]. intros k0 p0 H0. eapply Hd. right. exact H0.
Qed.

(* ------------------------------------------------------------------------------------------ *)
(* well-formed databases and their denotation, relationally                                     *)
Definition WF (d : db) : Prop :=
  SInv (dst d) /\
  (forall q, In q (iquads (dix d)) -> quad_ok (dst d) q) /\
  (forall g, In g (icat (dix d)) -> defined (dst d) g) /\
  (forall k p, In (k, p) (dseeds d) -> key_ok (dst d) k).

Definition den3 (s : st) (k : key3) (t : ltriple) : Prop :=
  match k, t with
  | (a, b, c), (ta, tb, tc) => denotes s a ta /\ denotes s b tb /\ denotes s c tc
  end.
Definition deng (s : st) (g : option N) (tg : option term) : Prop :=
  match g, tg with
  | None, None => True
  | Some n, Some t => denotes s n t
  | _, _ => False
  end.
Definition denq (s : st) (q : quad) (l : lquad) : Prop :=
  match q, l with
  | (a, b, c, g), (ta, tb, tc, tg) => den3 s (a, b, c) (ta, tb, tc) /\ deng s g tg
  end.

Lemma den3_ext : forall s s' k t, ext s s' -> den3 s k t -> den3 s' k t.
Proof. intros s s' [[a b] c] [[ta tb] tc] He (H1 & H2 & H3). cbn [den3]. splits; eapply denotes_ext; eassumption. Qed.
Lemma deng_ext : forall s s' g t, ext s s' -> deng s g t -> deng s' g t.
Proof. intros s s' [n|] [t|] He H; cbn [deng] in *; auto. eapply denotes_ext; eassumption. Qed.
Lemma denq_ext : forall s s' q l, ext s s' -> denq s q l -> denq s' q l.
Proof.
  intros s s' [[[a b] c] g] [[[ta tb] tc] tg] He [H1 H2]. split; [eapply den3_ext; eassumption|eapply deng_ext; eassumption].
Qed.

Lemma den3_fun : forall s k t t', den3 s k t -> den3 s k t' -> t = t'.
Proof.
  intros s [[a b] c] [[ta tb] tc] [[ta' tb'] tc'] (H1 & H2 & H3) (G1 & G2 & G3).
  rewrite (denotes_fun _ _ _ _ H1 G1), (denotes_fun _ _ _ _ H2 G2), (denotes_fun _ _ _ _ H3 G3). reflexivity.
Qed.
Lemma deng_fun : forall s g t t', deng s g t -> deng s g t' -> t = t'.
Proof.
  intros s [n|] [t|] [t'|] H G; cbn [deng] in *; try contradiction; [|reflexivity].
  rewrite (denotes_fun _ _ _ _ H G). reflexivity.
Qed.
Lemma denq_fun : forall s q l l', denq s q l -> denq s q l' -> l = l'.
Proof.
  intros s [[[a b] c] g] [[[ta tb] tc] tg] [[[ta' tb'] tc'] tg'] [H1 H2] [G1 G2].
  pose proof (den3_fun _ _ _ _ H1 G1) as E. pose proof (deng_fun _ _ _ _ H2 G2) as E'. congruence.
Qed.

Lemma decode3_iff : forall s k t, SInv s -> (decode3 s k = Ok t <-> den3 s k t).
Proof.
  intros s [[a b] c] [[ta tb] tc] Hs. unfold decode3. cbn [den3]. split.
  - intros H.
    destruct (decode_any s a) as [xa|] eqn:Ea; [|discriminate].
    destruct (decode_any s b) as [xb|] eqn:Eb; [|discriminate].
    destruct (decode_any s c) as [xc|] eqn:Ec; [|discriminate].
    injection H as <- <- <-. splits; apply decode_term_sound with (f := fuel_of s); assumption.
  - intros (H1 & H2 & H3).
    rewrite (decode_any_complete _ _ _ Hs H1), (decode_any_complete _ _ _ Hs H2), (decode_any_complete _ _ _ Hs H3).
    reflexivity.
Qed.

Lemma decode_quad_iff : forall s q l, SInv s -> (decode_quad s q = Ok l <-> denq s q l).
Proof.
  intros s [[[a b] c] g] [[[ta tb] tc] tg] Hs. unfold decode_quad. cbn [denq]. split.
  - intros H. destruct (decode3 s (a, b, c)) as [[[xa xb] xc]|] eqn:E3; [|discriminate].
    apply (decode3_iff _ _ _ Hs) in E3. destruct g as [n|].
    + destruct (decode_any s n) as [xg|] eqn:Eg; [|discriminate]. injection H as <- <- <- <-.
      split; [exact E3|]. cbn [deng]. apply decode_term_sound with (f := fuel_of s). exact Eg.
    + injection H as <- <- <- <-. split; [exact E3|exact I].
  - intros [H3 Hg]. apply (decode3_iff _ _ _ Hs) in H3. rewrite H3.
    destruct g as [n|], tg as [t|]; cbn [deng] in Hg; try contradiction; [|reflexivity].
    rewrite (decode_any_complete _ _ _ Hs Hg). reflexivity.
Qed.

Lemma den_quads_in : forall d l, SInv (dst d) ->
  (In l (den_quads d) <-> exists q, In q (iquads (dix d)) /\ denq (dst d) q l).
Proof.
  intros d l Hs. unfold den_quads, all_quads. rewrite okmap_in.
  split; intros (q & Hq & H); exists q; (split; [exact Hq|]); apply (decode_quad_iff _ _ _ Hs); exact H.
Qed.

Lemma den_graphs_in : forall d t, SInv (dst d) ->
  (In t (den_graphs d) <-> exists g, In g (named_graphs (dix d)) /\ denotes (dst d) g t).
Proof.
  intros d t Hs. unfold den_graphs. rewrite okmap_in.
  split; intros (g & Hg & H); exists g; (split; [exact Hg|]); apply (decode_any_iff _ _ _ Hs); exact H.
Qed.

Lemma den_terms_in : forall d t, SInv (dst d) ->
  (In t (den_terms d) <-> exists i x, d_decode (sd (dst d)) i = Some x /\ t = TLeaf x).
Proof.
  intros d t Hs. unfold den_terms. rewrite okmap_in. pose proof Hs as [[[Hd Hle] _] _]. split.
  - intros (i & Hi & H). apply (decode_any_iff _ _ _ Hs) in H.
    apply in_lookup_i in Hi. destruct Hi as [x Hx]. exists i, x. split; [exact Hx|].
    pose proof (BMInv_rev_range _ _ _ _ _ _ Hd Hx) as Hr.
    eapply denotes_fun; [exact H|]. apply den_leaf; [lia|exact Hx].
  - intros (i & x & Hx & ->). exists i. split; [eapply lookup_i_in; exact Hx|].
    apply decode_any_complete; [exact Hs|].
    pose proof (BMInv_rev_range _ _ _ _ _ _ Hd Hx) as Hr. apply den_leaf; [lia|exact Hx].
Qed.

Lemma den_quoted_in : forall d t, SInv (dst d) ->
  (In t (den_quoted d) <-> exists i k, q_decode (sq (dst d)) i = Some k /\ denotes (dst d) i t).
Proof.
  intros d t Hs. unfold den_quoted. rewrite okmap_in. split.
  - intros (i & Hi & H). apply (decode_any_iff _ _ _ Hs) in H.
    apply in_lookup_i in Hi. destruct Hi as [k Hk]. exists i, k. auto.
  - intros (i & k & Hk & H). exists i. split; [eapply lookup_i_in; exact Hk|].
    apply decode_any_complete; assumption.
Qed.

Lemma defined_cases : forall s i, BInv s -> defined s i ->
  (exists x, d_decode (sd s) i = Some x) \/ (exists k, q_decode (sq s) i = Some k).
Proof.
  intros s i [[Hd _] Hq] [H|H].
  - left. apply (BMInv_defined _ _ 0 _ _ Hd). lia.
  - right. apply (BMInv_defined _ _ QBIT _ _ Hq). exact H.
Qed.

Lemma quad_ok_denq : forall s q, SInv s -> quad_ok s q -> exists l, denq s q l.
Proof.
  intros s [[[a b] c] g] Hs (Da & Db & Dc & Dg).
  destruct (defined_decodes _ _ Hs Da) as [ta Ha]. destruct (defined_decodes _ _ Hs Db) as [tb Hb].
  destruct (defined_decodes _ _ Hs Dc) as [tc Hc].
  destruct g as [n|].
  - destruct (defined_decodes _ _ Hs Dg) as [tg Hg]. exists (ta, tb, tc, Some tg). cbn [denq den3 deng]. auto.
  - exists (ta, tb, tc, None). cbn [denq den3 deng]. auto.
Qed.

Lemma denq_quad_ok : forall s q l, BInv s -> denq s q l -> quad_ok s q.
Proof.
  intros s [[[a b] c] g] [[[ta tb] tc] tg] Hb [(H1 & H2 & H3) Hg]. cbn [quad_ok].
  splits; try (eapply denotes_defined; eassumption).
  destruct g as [n|], tg as [t|]; cbn [deng] in Hg; try contradiction; [|exact I].
  eapply denotes_defined; eassumption.
Qed.

Lemma named_defined : forall d g, WF d -> In g (named_graphs (dix d)) -> defined (dst d) g.
Proof.
  intros d g (_ & Hq & Hc & _) H. apply named_graphs_in in H. destruct H as [H|(q & Hin & Hg)]; [auto|].
  apply Hq in Hin. destruct q as [[[a b] c] g0]. cbn [qgraph snd] in Hg. subst g0. apply Hin.
Qed.

(* translated items have the same denotation *)
Lemma tr3_den3 : forall src ts k k', CInv src ts -> tr3 (tcache ts) k k' ->
  exists t, den3 src k t /\ den3 (tst ts) k' t.
Proof.
  intros src ts [[a b] c] [[a' b'] c'] Hc (H1 & H2 & H3).
  destruct (Hc _ _ H1) as (ta & Sa & Ta). destruct (Hc _ _ H2) as (tb & Sb & Tb). destruct (Hc _ _ H3) as (tc & Sc & Tc).
  exists (ta, tb, tc). cbn [den3]. auto.
Qed.

Lemma trq_denq : forall src ts q q', CInv src ts -> trq (tcache ts) q q' ->
  exists l, denq src q l /\ denq (tst ts) q' l.
Proof.
  intros src ts [[[a b] c] g] [[[a' b'] c'] g'] Hc [H3 Hg].
  destruct (tr3_den3 _ _ _ _ Hc H3) as ([[ta tb] tc] & S3 & T3).
  destruct g as [n|], g' as [n'|]; cbn [trg] in Hg; try contradiction.
  - destruct (Hc _ _ Hg) as (tg & Sg & Tg). exists (ta, tb, tc, Some tg). cbn [denq deng]. auto.
  - exists (ta, tb, tc, None). cbn [denq deng]. auto.
Qed.

(* ------------------------------------------------------------------------------------------ *)
(* SparqlDatabase::union                                                                        *)
Lemma TInv_init : forall src t0, SInv t0 -> TInv src t0 (mkT t0 []).
Proof.
  intros src t0 Hs. split; [exact Hs|]. split.
  - intros i j H. discriminate.
  - split; intros; left; assumption.
Qed.

Lemma union_stages : forall a b u, WF a -> WF b -> union a b = Ok u ->
  exists ts2 ts3 ts4 ts5 x2 sds,
    u = mkDb (tst ts5) x2 sds /\
    TInv (dst b) (dst a) ts5 /\ ext (dst a) (tst ts5) /\
    cache_ext ts2 ts3 /\ cache_ext ts3 ts4 /\ cache_ext ts4 ts5 /\
    (forall i, defined (dst b) i -> exists j, lookup_n (tcache ts2) i = Some j) /\
    (forall q', In q' (iquads x2) <->
                In q' (iquads (dix a)) \/ exists q, In q (iquads (dix b)) /\ trq (tcache ts4) q q') /\
    (forall g', In g' (named_graphs x2) <->
                In g' (named_graphs (dix a)) \/
                (exists g, In g (named_graphs (dix b)) /\ lookup_n (tcache ts3) g = Some g') \/
                (exists q q', In q (iquads (dix b)) /\ trq (tcache ts4) q q' /\ qgraph q' = Some g')) /\
    (exists trl, sds = trl ++ dseeds a /\
       Forall2 (fun kp kp' : seed => snd kp' = snd kp /\ tr3 (tcache ts5) (fst kp) (fst kp')) (rev (live (dseeds b))) trl).
Proof.
  intros a b u Wa Wb H. unfold union in H.
  destruct (reencode_all (fuel_of (dst b)) (dst b) (sortN (map fst (i2k (sd (dst b))))) (mkT (dst a) [])) as [ts1|] eqn:R1; [|discriminate].
  destruct (reencode_all (fuel_of (dst b)) (dst b) (sortN (map fst (i2k (sq (dst b))))) ts1) as [ts2|] eqn:R2; [|discriminate].
  destruct (union_graphs (fuel_of (dst b)) (dst b) (named_graphs (dix b)) ts2 _) as [[ts3 x1]|] eqn:R3; [|discriminate].
  destruct (union_quads (fuel_of (dst b)) (dst b) (all_quads (dix b)) ts3 x1) as [[ts4 x2]|] eqn:R4; [|discriminate].
  destruct (union_seeds (fuel_of (dst b)) (dst b) (live (dseeds b)) ts4 (dseeds a)) as [[ts5 sds]|] eqn:R5; [|discriminate].
  injection H as <-.
  destruct Wa as (Sa & _). pose proof Wb as (Sb & _).
  pose proof (TInv_init (dst b) (dst a) Sa) as I0.
  destruct (reencode_all_spec _ _ _ _ _ _ I0 R1) as (I1 & E1 & C1 & L1).
  destruct (reencode_all_spec _ _ _ _ _ _ I1 R2) as (I2 & E2 & C2 & L2).
  destruct (union_graphs_spec _ _ _ _ _ _ _ _ I2 R3) as (I3 & E3 & C3 & Q3 & G3).
  destruct (union_quads_spec _ _ _ _ _ _ _ _ I3 R4) as (I4 & E4 & C4 & Q4 & G4).
  destruct (union_seeds_spec _ _ _ _ _ _ _ _ I4 R5) as (I5 & E5 & C5 & Hseeds).
  destruct (index_copy_spec (dix a)) as [Q0 G0].
  exists ts2, ts3, ts4, ts5, x2, sds.
  split; [reflexivity|]. split; [exact I5|].
  split; [exact (ext_trans _ _ _ (ext_trans _ _ _ (ext_trans _ _ _ (ext_trans _ _ _ E1 E2) E3) E4) E5)|].
  split; [exact C3|]. split; [exact C4|]. split; [exact C5|]. split; [|split; [|split]].
  - intros i Hi. destruct Sb as [Bb _]. destruct (defined_cases _ _ Bb Hi) as [[x Hx]|[k Hk]].
    + destruct (L1 i) as [j Hj]; [apply sortN_in; eapply lookup_i_in; exact Hx|]. exists j. apply C2. exact Hj.
    + apply L2. apply sortN_in. eapply lookup_i_in. exact Hk.
  - intros q'. rewrite Q4, Q3, Q0. unfold all_quads. reflexivity.
  - intros g'. rewrite G4, G3, G0. unfold all_quads. tauto.
  - exact Hseeds.
Qed.

Theorem union_correct : forall a b u, WF a -> WF b -> union a b = Ok u ->
  WF u /\ ext (dst a) (dst u) /\ is_union (den a) (den b) (den u).
Proof.
  intros a b u Wa Wb H.
  destruct (union_stages _ _ _ Wa Wb H) as (ts2 & ts3 & ts4 & ts5 & x2 & sds & -> & I5 & Ea & C3 & C4 & C5 & Fall & HQ & HG & (trl & -> & Hf)).
  destruct I5 as (Su & CI & [Od Oq]).
  pose proof Wa as (Sa & Qa & Ca & Ka). pose proof Wb as (Sb & Qb & Cb & Kb).
  pose proof Su as [Bu _]. pose proof Sa as [Ba _]. pose proof Sb as [Bb _].
  (* every translation that was ever cached is still there at the end, and denotation-preserving *)
  assert (forall i j, lookup_n (tcache ts2) i = Some j -> lookup_n (tcache ts5) i = Some j) as C25 by (intros; apply C5, C4, C3; assumption).
  assert (forall i j, lookup_n (tcache ts3) i = Some j -> lookup_n (tcache ts5) i = Some j) as C35 by (intros; apply C5, C4; assumption).
  assert (cache_ext ts4 ts5) as C45 by exact C5.
  assert (forall q, quad_ok (dst b) q -> exists q', trq (tcache ts4) q q') as Htrq.
  { intros [[[qa qb] qc] g] (Da & Db & Dc & Dg).
    destruct (Fall _ Da) as [a' La]. destruct (Fall _ Db) as [b' Lb]. destruct (Fall _ Dc) as [c' Lc].
    destruct g as [n|].
    - destruct (Fall _ Dg) as [n' Ln]. exists (a', b', c', Some n'). cbn [trq tr3 trg].
      splits; apply C4, C3; assumption.
    - exists (a', b', c', None). cbn [trq tr3 trg]. splits; try (apply C4, C3; assumption). exact I. }
  split; [|split; [exact Ea|]].
  - (* the union is well-formed *)
    split; [exact Su|]. cbn [dst dix dseeds]. split; [|split].
    + intros q' Hq'. apply HQ in Hq'. destruct Hq' as [Hq'|(q & Hq & Ht)].
      * apply Qa in Hq'. destruct q' as [[[qa qb] qc] g]. destruct Hq' as (D1 & D2 & D3 & D4).
        cbn [quad_ok]. splits; try (eapply ext_defined; eassumption).
        destruct g; [eapply ext_defined; eassumption|exact I].
      * apply (trq_ext _ _ _ _ C45) in Ht. destruct (trq_denq _ _ _ _ CI Ht) as (l & _ & Hl).
        eapply denq_quad_ok; eassumption.
    + intros g' Hg'. assert (In g' (named_graphs x2)) as Hn by (apply named_graphs_in; left; exact Hg').
      apply HG in Hn. destruct Hn as [Hn|[(g & Hg & Hl)|(q & q' & Hq & Ht & Hgq)]].
      * eapply ext_defined; [exact Ea|]. apply named_defined; assumption.
      * apply C35 in Hl. destruct (CI _ _ Hl) as (t & _ & Ht). eapply denotes_defined; eassumption.
      * apply (trq_ext _ _ _ _ C45) in Ht. destruct (trq_denq _ _ _ _ CI Ht) as (l & _ & Hl).
        apply (denq_quad_ok _ _ _ Bu) in Hl. destruct q' as [[[qa qb] qc] g0]. cbn [qgraph snd] in Hgq. subst g0. apply Hl.
    + intros k p Hin. apply in_app_iff in Hin. destruct Hin as [Hin|Hin].
      * destruct (Forall2_in_r _ _ _ Hf _ Hin) as ((k0 & p0) & _ & (_ & Ht)). cbn [fst snd] in Ht.
        destruct k as [[ka kb] kc].
        destruct (tr3_den3 _ _ _ _ CI Ht) as ([[ta tb] tc] & _ & (T1 & T2 & T3)).
        cbn [key_ok]. splits; eapply denotes_defined; eassumption.
      * apply Ka in Hin. destruct k as [[ka kb] kc]. destruct Hin as (D1 & D2 & D3). cbn [key_ok].
        splits; eapply ext_defined; eassumption.
  - (* the four set equations *)
    unfold is_union, den. cbn [lquads lgraphs lterms lquoted].
    set (u := {| dst := tst ts5; dix := x2; dseeds := trl ++ dseeds a |}).
    assert (SInv (dst u)) as Su' by exact Su.
    split; [|split; [|split]].
    + (* quads *)
      intros l. rewrite (den_quads_in u _ Su'), (den_quads_in _ _ Sa), (den_quads_in _ _ Sb). subst u. cbn [dst dix]. split.
      * intros (q' & Hq' & Hl). apply HQ in Hq'. destruct Hq' as [Hq'|(q & Hq & Ht)].
        -- left. exists q'. split; [exact Hq'|].
           destruct (quad_ok_denq _ _ Sa (Qa _ Hq')) as [la Hla].
           rewrite (denq_fun _ _ _ _ Hl (denq_ext _ _ _ _ Ea Hla)). exact Hla.
        -- right. exists q. split; [exact Hq|].
           apply (trq_ext _ _ _ _ C45) in Ht. destruct (trq_denq _ _ _ _ CI Ht) as (lb & Hsrc & Htgt).
           rewrite (denq_fun _ _ _ _ Hl Htgt). exact Hsrc.
      * intros [(q & Hq & Hl)|(q & Hq & Hl)].
        -- exists q. split; [apply HQ; left; exact Hq|eapply denq_ext; eassumption].
        -- destruct (Htrq q (Qb _ Hq)) as [q' Ht]. exists q'. split; [apply HQ; right; eauto|].
           apply (trq_ext _ _ _ _ C45) in Ht. destruct (trq_denq _ _ _ _ CI Ht) as (lb & Hsrc & Htgt).
           rewrite (denq_fun _ _ _ _ Hl Hsrc). exact Htgt.
    + (* graph identities *)
      intros t. rewrite (den_graphs_in u _ Su'), (den_graphs_in _ _ Sa), (den_graphs_in _ _ Sb). subst u. cbn [dst dix]. split.
      * intros (g' & Hg' & Ht). apply HG in Hg'. destruct Hg' as [Hn|[(g & Hg & Hl)|(q & q' & Hq & Htr & Hgq)]].
        -- left. exists g'. split; [exact Hn|].
           destruct (defined_decodes _ _ Sa (named_defined _ _ Wa Hn)) as [ta Hta].
           rewrite (denotes_fun _ _ _ _ Ht (denotes_ext _ _ _ _ Ea Hta)). exact Hta.
        -- right. exists g. split; [exact Hg|]. apply C35 in Hl. destruct (CI _ _ Hl) as (t' & Hs' & Ht').
           rewrite (denotes_fun _ _ _ _ Ht Ht'). exact Hs'.
        -- right. destruct q as [[[qa qb] qc] g], q' as [[[qa' qb'] qc'] g0]. cbn [qgraph snd] in Hgq. subst g0.
           destruct Htr as [_ Htg]. destruct g as [n|]; cbn [trg] in Htg; [|contradiction].
           exists n. split; [apply named_graphs_in; right; exists (qa, qb, qc, Some n); auto|].
           apply C45 in Htg. destruct (CI _ _ Htg) as (t' & Hs' & Ht').
           rewrite (denotes_fun _ _ _ _ Ht Ht'). exact Hs'.
      * intros [(g & Hg & Ht)|(g & Hg & Ht)].
        -- exists g. split; [apply HG; left; exact Hg|eapply denotes_ext; eassumption].
        -- destruct (Fall g (named_defined _ _ Wb Hg)) as [g' Hl]. apply C3 in Hl.
           exists g'. split; [apply HG; right; left; eauto|].
           apply C35 in Hl. destruct (CI _ _ Hl) as (t' & Hs' & Ht').
           rewrite (denotes_fun _ _ _ _ Ht Hs'). exact Ht'.
    + (* dictionary terms *)
      intros t. rewrite (den_terms_in u _ Su'), (den_terms_in _ _ Sa), (den_terms_in _ _ Sb). subst u. cbn [dst]. split.
      * intros (i & x & Hx & ->). destruct (Od _ _ Hx) as [H0|[i0 H0]]; [left|right]; eauto.
      * intros [(i & x & Hx & ->)|(i & x & Hx & ->)].
        -- exists i, x. split; [|reflexivity]. destruct Ea as [(_ & Er & _) _]. apply Er. exact Hx.
        -- destruct Bb as [[Hdb Hleb] _]. pose proof (BMInv_rev_range _ _ _ _ _ _ Hdb Hx) as Hr.
           assert (defined (dst b) i) as Di by (left; lia).
           destruct (Fall _ Di) as [j Hl]. apply C25 in Hl. destruct (CI _ _ Hl) as (t' & Hs' & Ht').
           assert (denotes (dst b) i (TLeaf x)) as Hleaf by (apply den_leaf; [lia|exact Hx]).
           rewrite <- (denotes_fun _ _ _ _ Hleaf Hs') in Ht'. inversion Ht'; subst. exists j, x. auto.
    + (* quoted terms *)
      intros t. rewrite (den_quoted_in u _ Su'), (den_quoted_in _ _ Sa), (den_quoted_in _ _ Sb). subst u. cbn [dst]. split.
      * intros (j & k & Hk & Ht). destruct (Oq _ _ Hk) as [H0|(i & t' & (k' & Hk') & Hs' & Ht')].
        -- left. exists j, k. split; [exact H0|].
           destruct Ba as [_ Hqa]. pose proof (BMInv_rev_range _ _ _ _ _ _ Hqa H0) as Hr.
           assert (defined (dst a) j) as Dj by (right; exact Hr).
           destruct (defined_decodes _ _ Sa Dj) as [ta Hta].
           rewrite (denotes_fun _ _ _ _ Ht (denotes_ext _ _ _ _ Ea Hta)). exact Hta.
        -- right. exists i, k'. split; [exact Hk'|]. rewrite (denotes_fun _ _ _ _ Ht Ht'). exact Hs'.
      * intros [(i & k & Hk & Ht)|(i & k & Hk & Ht)].
        -- exists i, k. split; [|eapply denotes_ext; eassumption]. destruct Ea as [_ (_ & Er & _)]. apply Er. exact Hk.
        -- destruct Bb as [_ Hqb]. pose proof (BMInv_rev_range _ _ _ _ _ _ Hqb Hk) as Hr.
           assert (defined (dst b) i) as Di by (right; exact Hr).
           destruct (Fall _ Di) as [j Hl]. apply C25 in Hl. destruct (CI _ _ Hl) as (t' & Hs' & Ht').
           rewrite <- (denotes_fun _ _ _ _ Ht Hs') in Ht'.
           inversion Ht; subst; [lia|]. inversion Ht'; subst. eauto.
Qed.

(* union of well-formed databases can only fail by exhausting the dictionary *)
Lemma live_in : forall l x, In x (live l) -> In x l.
Proof.
  induction l as [|[k p] r IH]; intros x H; cbn [live] in H; [contradiction|].
  destruct H as [<-|H]; [left; reflexivity|]. apply filter_In in H. right. apply IH. apply H.
Qed.

Theorem union_total : forall a b, WF a -> WF b -> oke (union a b).
Proof.
  intros a b Wa Wb. pose proof Wb as (Sb & Qb & Cb & Kb). pose proof Sb as [[[Hd Hle] Hq] _].
  unfold union.
  destruct (reencode_all_total (dst b) (sortN (map fst (i2k (sd (dst b))))) (mkT (dst a) []) Sb) as [[ts1 ->]| ->]; [| |right; reflexivity].
  { intros i Hi. apply (proj1 (sortN_in _ _)) in Hi. apply in_lookup_i in Hi. destruct Hi as [x Hx].
    pose proof (BMInv_rev_range _ _ _ _ _ _ Hd Hx). left. lia. }
  destruct (reencode_all_total (dst b) (sortN (map fst (i2k (sq (dst b))))) ts1 Sb) as [[ts2 ->]| ->]; [| |right; reflexivity].
  { intros i Hi. apply (proj1 (sortN_in _ _)) in Hi. apply in_lookup_i in Hi. destruct Hi as [k Hk].
    right. exact (BMInv_rev_range _ _ _ _ _ _ Hq Hk). }
  match goal with |- context [union_graphs ?f ?s ?g ?t ?x] =>
    destruct (union_graphs_total s g t x Sb) as [[[ts3 x1] ->]| ->]; [| |right; reflexivity] end.
  { intros g Hg. apply named_defined; assumption. }
  destruct (union_quads_total (dst b) (all_quads (dix b)) ts3 x1 Sb) as [[[ts4 x2] ->]| ->]; [exact Qb| |right; reflexivity].
  destruct (union_seeds_total (dst b) (live (dseeds b)) ts4 (dseeds a) Sb) as [[[ts5 sds] ->]| ->]; [|left; eauto|right; reflexivity].
  intros k p Hin. apply live_in in Hin. eapply Kb. exact Hin.
Qed.

(* ------------------------------------------------------------------------------------------ *)
(* every database populated through the public API is well-formed                               *)
Definition IxOK (s : st) (x : index) : Prop :=
  (forall q, In q (iquads x) -> quad_ok s q) /\ (forall g, In g (icat x) -> defined s g).

Lemma quad_ok_ext : forall s s' q, ext s s' -> quad_ok s q -> quad_ok s' q.
Proof.
  intros s s' [[[a b] c] g] He (D1 & D2 & D3 & D4). cbn [quad_ok].
  splits; try (eapply ext_defined; eassumption). destruct g; [eapply ext_defined; eassumption|exact I].
Qed.
Lemma key_ok_ext : forall s s' k, ext s s' -> key_ok s k -> key_ok s' k.
Proof. intros s s' [[a b] c] He (D1 & D2 & D3). cbn [key_ok]. splits; eapply ext_defined; eassumption. Qed.

Lemma IxOK_ext : forall s s' x, ext s s' -> IxOK s x -> IxOK s' x.
Proof.
  intros s s' x He [Hq Hc]. split; [intros q H; eapply quad_ok_ext; eauto|intros g H; eapply ext_defined; eauto].
Qed.

Lemma IxOK_insert : forall s x q, IxOK s x -> quad_ok s q -> IxOK s (insert_quad x q).
Proof.
  intros s x q [Hq Hc] Hok. split.
  - intros q' H. apply insert_quad_quads in H. destruct H as [->|H]; auto.
  - intros g H.
    assert (icat (insert_quad x q) = register (qgraph q) (icat x)) as E by (unfold insert_quad; destruct (contains_quad x q); reflexivity).
    rewrite E in H. apply register_in in H. destruct H as [H|H]; [|auto].
    destruct q as [[[a b] c] g0]. cbn [qgraph snd] in H. subst g0. apply Hok.
Qed.

Lemma IxOK_delete : forall s x q, IxOK s x -> quad_ok s q -> IxOK s (delete_quad x q).
Proof.
  intros s x q [Hq Hc] Hok. unfold delete_quad. destruct (contains_quad x q); [|split; assumption]. split; cbn [iquads icat].
  - intros q' H. apply filter_In in H. apply Hq. apply H.
  - intros g H. apply register_in in H. destruct H as [H|H]; [|auto].
    destruct q as [[[a b] c] g0]. cbn [qgraph snd] in H. subst g0. apply Hok.
Qed.

Lemma IxOK_create : forall s x g, IxOK s x -> defined s g -> IxOK s (create_graph x g).
Proof.
  intros s x g [Hq Hc] Hd. split; cbn [create_graph iquads icat]; [exact Hq|].
  intros g' H. apply set_add_in in H. destruct H as [->|H]; auto.
Qed.

Lemma encode3_spec : forall s a b c s' k, SInv s -> encode3 s a b c = Ok (s', k) ->
  SInv s' /\ ext s s' /\ key_ok s' k /\ den3 s' k (a, b, c).
Proof.
  intros s a b c s' k Hs H. unfold encode3 in H.
  destruct (encode_term s a) as [[s1 ia]|] eqn:Ea; [|discriminate].
  destruct (encode_term s1 b) as [[s2 ib]|] eqn:Eb; [|discriminate].
  destruct (encode_term s2 c) as [[s3 ic]|] eqn:Ec; [|discriminate]. injection H as <- <-.
  destruct (encode_term_spec _ _ _ _ Hs Ea) as (S1 & E1 & D1).
  destruct (encode_term_spec _ _ _ _ S1 Eb) as (S2 & E2 & D2).
  destruct (encode_term_spec _ _ _ _ S2 Ec) as (S3 & E3 & D3).
  pose proof S3 as [B3 _].
  assert (denotes s3 ia a) as D1' by (eapply denotes_ext; [exact (ext_trans _ _ _ E2 E3)|exact D1]).
  assert (denotes s3 ib b) as D2' by (eapply denotes_ext; [exact E3|exact D2]).
  split; [exact S3|]. split; [exact (ext_trans _ _ _ (ext_trans _ _ _ E1 E2) E3)|].
  cbn [key_ok den3]. splits; try assumption; eapply denotes_defined; eassumption.
Qed.

Lemma encode_graph_spec : forall s g s' gi, SInv s -> encode_graph s g = Ok (s', gi) ->
  SInv s' /\ ext s s' /\
  match g, gi with
  | None, None => True
  | Some x, Some n => denotes s' n (TLeaf x)
  | _, _ => False
  end.
Proof.
  intros s g s' gi Hs H. destruct g as [x|]; cbn [encode_graph] in H.
  - destruct (d_encode (sd s) x) as [[d' i]|] eqn:Ed; [|discriminate]. injection H as <- <-.
    destruct (d_encode_state _ _ _ _ Hs Ed) as (S' & E' & _ & Hr & Hi).
    split; [exact S'|]. split; [exact E'|]. apply den_leaf; assumption.
  - injection H as <- <-. split; [exact Hs|]. split; [apply ext_refl|exact I].
Qed.

Lemma mkquad_ok : forall s k gi, BInv s -> key_ok s k ->
  match gi with Some n => defined s n | None => True end -> quad_ok s (mkquad k gi).
Proof. intros s [[a b] c] gi _ (D1 & D2 & D3) Dg. cbn [mkquad quad_ok]. auto. Qed.

Definition WFparts (d : db) : Prop :=
  SInv (dst d) /\ IxOK (dst d) (dix d) /\ (forall k p, In (k, p) (dseeds d) -> key_ok (dst d) k).

Lemma WF_parts : forall d, WF d <-> WFparts d.
Proof. intros d. unfold WF, WFparts, IxOK. tauto. Qed.

Lemma bstep_WF : forall d o d', WF d -> bstep d o = Ok d' -> WF d' /\ ext (dst d) (dst d').
Proof.
  intros d o d' W H. apply WF_parts in W. destruct W as (Hs & Hx & Hk). rewrite WF_parts.
  assert (forall s', ext (dst d) s' -> forall k p, In (k, p) (dseeds d) -> key_ok s' k) as Hk'.
  { intros s' He k p Hin. eapply key_ok_ext; [exact He|eapply Hk; exact Hin]. }
  destruct o; cbn [bstep] in H.
  - destruct (encode3 (dst d) s p o) as [[s1 k]|] eqn:E3; [|discriminate].
    destruct (encode_graph s1 (Some g)) as [[s2 gi]|] eqn:Eg; [|discriminate]. injection H as <-.
    destruct (encode3_spec _ _ _ _ _ _ Hs E3) as (S1 & E1 & K1 & _).
    destruct (encode_graph_spec _ _ _ _ S1 Eg) as (S2 & E2 & Dg).
    pose proof (ext_trans _ _ _ E1 E2) as E. pose proof S2 as [B2 _].
    split; [|exact E]. split; [exact S2|]. cbn [dst dix dseeds]. split; [|apply Hk'; exact E].
    apply IxOK_insert; [exact (IxOK_ext _ _ _ E Hx)|].
    apply mkquad_ok; [exact B2|exact (key_ok_ext _ _ _ E2 K1)|].
    destruct gi as [n|]; [eapply denotes_defined; eassumption|exact I].
  - destruct (encode3 (dst d) s p o) as [[s1 k]|] eqn:E3; [|discriminate]. injection H as <-.
    destruct (encode3_spec _ _ _ _ _ _ Hs E3) as (S1 & E1 & K1 & _). pose proof S1 as [B1 _].
    split; [|exact E1]. split; [exact S1|]. cbn [dst dix dseeds]. split; [|apply Hk'; exact E1].
    apply IxOK_insert; [eapply IxOK_ext; eassumption|]. apply mkquad_ok; [exact B1|exact K1|exact I].
  - destruct (encode3 (dst d) (TLeaf s) (TLeaf p) (TLeaf o)) as [[s1 k]|] eqn:E3; [|discriminate]. injection H as <-.
    destruct (encode3_spec _ _ _ _ _ _ Hs E3) as (S1 & E1 & K1 & _). pose proof S1 as [B1 _].
    split; [|exact E1]. split; [exact S1|]. cbn [dst dix dseeds]. split; [|apply Hk'; exact E1].
    apply IxOK_insert; [eapply IxOK_ext; eassumption|]. apply mkquad_ok; [exact B1|exact K1|exact I].
  - destruct (encode3 (dst d) (TLeaf s) (TLeaf p) (TLeaf o)) as [[s1 k]|] eqn:E3; [|discriminate]. injection H as <-.
    destruct (encode3_spec _ _ _ _ _ _ Hs E3) as (S1 & E1 & K1 & _). pose proof S1 as [B1 _].
    split; [|exact E1]. split; [exact S1|]. cbn [dst dix dseeds]. split.
    + apply IxOK_insert; [eapply IxOK_ext; eassumption|]. apply mkquad_ok; [exact B1|exact K1|exact I].
    + intros k0 p0 [Heq|Hin]; [injection Heq as <- <-; exact K1|eapply Hk'; eassumption].
  - destruct (d_encode (sd (dst d)) g) as [[d1 i]|] eqn:Ed; [|discriminate]. injection H as <-.
    destruct (d_encode_state _ _ _ _ Hs Ed) as (S1 & E1 & _ & Hr & Hi). pose proof S1 as [B1 _].
    split; [|exact E1]. split; [exact S1|]. cbn [dst dix dseeds]. split; [|apply Hk'; exact E1].
    apply IxOK_create; [eapply IxOK_ext; eassumption|].
    eapply denotes_defined; [exact B1|]. apply den_leaf; eassumption.
  - destruct (encode_term (dst d) t) as [[s1 i]|] eqn:Et; [|discriminate]. injection H as <-.
    destruct (encode_term_spec _ _ _ _ Hs Et) as (S1 & E1 & _).
    split; [|exact E1]. split; [exact S1|]. cbn [dst dix dseeds]. split; [eapply IxOK_ext; eassumption|apply Hk'; exact E1].
  - destruct (encode3 (dst d) s p o) as [[s1 k]|] eqn:E3; [|discriminate].
    destruct (encode_graph s1 g) as [[s2 gi]|] eqn:Eg; [|discriminate]. injection H as <-.
    destruct (encode3_spec _ _ _ _ _ _ Hs E3) as (S1 & E1 & K1 & _).
    destruct (encode_graph_spec _ _ _ _ S1 Eg) as (S2 & E2 & Dg).
    pose proof (ext_trans _ _ _ E1 E2) as E. pose proof S2 as [B2 _].
    split; [|exact E]. split; [exact S2|]. cbn [dst dix dseeds]. split; [|apply Hk'; exact E].
    apply IxOK_delete; [exact (IxOK_ext _ _ _ E Hx)|].
    apply mkquad_ok; [exact B2|exact (key_ok_ext _ _ _ E2 K1)|].
    destruct g as [x|], gi as [n|]; try contradiction; [eapply denotes_defined; eassumption|exact I].
  - destruct (encode3 (dst d) s p o) as [[s1 k]|] eqn:E3; [|discriminate]. injection H as <-.
    destruct (encode3_spec _ _ _ _ _ _ Hs E3) as (S1 & E1 & K1 & _).
    split; [|exact E1]. split; [exact S1|]. cbn [dst dix dseeds]. split; [exact (IxOK_ext _ _ _ E1 Hx)|].
    intros k0 p0 [Heq|Hin]; [injection Heq as <- <-; exact K1|eapply Hk'; eassumption].
Qed.

Lemma WF_new : WF db_new.
Proof.
  split; [exact SInv_new|]. cbn. split; [|split]; intros; contradiction.
Qed.

Theorem build_WF : forall ops d d', WF d -> build d ops = Ok d' -> WF d' /\ ext (dst d) (dst d').
Proof.
  induction ops as [|o r IH]; intros d d' W H; cbn [build] in H.
  - injection H as <-. split; [exact W|apply ext_refl].
  - destruct (bstep d o) as [d1|] eqn:Eb; [|discriminate].
    destruct (bstep_WF _ _ _ W Eb) as (W1 & E1). destruct (IH _ _ W1 H) as (W2 & E2).
    split; [exact W2|eapply ext_trans; eassumption].
Qed.

(* ------------------------------------------------------------------------------------------ *)
(* the union result is itself a stable bijection, and stores every lexical quad once            *)
Lemma insert_quad_nodup : forall x q, NoDup (iquads x) -> NoDup (iquads (insert_quad x q)).
Proof.
  intros x q H. unfold insert_quad. destruct (contains_quad x q) eqn:E; cbn [iquads]; [exact H|].
  constructor; [|exact H]. intros Hin. apply contains_quad_in in Hin. congruence.
Qed.

Lemma fold_insert_nodup : forall qs x, NoDup (iquads x) -> NoDup (iquads (fold_left insert_quad qs x)).
Proof.
  induction qs as [|q r IH]; intros x H; cbn [fold_left]; [exact H|]. apply IH. apply insert_quad_nodup. exact H.
Qed.

Lemma union_graphs_quads : forall fuel src gs ts x ts' x',
  union_graphs fuel src gs ts x = Ok (ts', x') -> iquads x' = iquads x.
Proof.
  intros fuel src. induction gs as [|g r IH]; intros ts x ts' x' H; cbn [union_graphs] in H.
  - injection H as <- <-. reflexivity.
  - destruct (reencode fuel src g ts) as [[g1 ts1]|]; [|discriminate]. rewrite (IH _ _ _ _ H). reflexivity.
Qed.

Lemma union_quads_nodup : forall fuel src qs ts x ts' x',
  NoDup (iquads x) -> union_quads fuel src qs ts x = Ok (ts', x') -> NoDup (iquads x').
Proof.
  intros fuel src. induction qs as [|[[[a b] c] g] r IH]; intros ts x ts' x' Hn H; cbn [union_quads] in H.
  - injection H as <- <-. exact Hn.
  - destruct (reencode3 fuel src (a, b, c) ts) as [[[[a' b'] c'] ts1]|]; [|discriminate].
    destruct (reencode_graph fuel src g ts1) as [[g' ts2]|]; [|discriminate].
    eapply IH; [|exact H]. apply insert_quad_nodup. exact Hn.
Qed.

Lemma union_index_nodup : forall a b u, union a b = Ok u -> NoDup (iquads (dix u)).
Proof.
  intros a b u H. unfold union in H.
  destruct (reencode_all _ _ _ (mkT (dst a) [])) as [ts1|]; [|discriminate].
  destruct (reencode_all _ _ _ ts1) as [ts2|]; [|discriminate].
  destruct (union_graphs _ _ _ ts2 _) as [[ts3 x1]|] eqn:R3; [|discriminate].
  destruct (union_quads _ _ _ ts3 x1) as [[ts4 x2]|] eqn:R4; [|discriminate].
  destruct (union_seeds _ _ _ ts4 _) as [[ts5 sds]|]; [|discriminate].
  injection H as <-. cbn [dix].
  eapply union_quads_nodup; [|exact R4]. rewrite (union_graphs_quads _ _ _ _ _ _ _ R3).
  apply fold_insert_nodup.
  destruct (fold_create_spec (named_graphs (dix a)) ix_new) as [-> _]. constructor.
Qed.

Lemma den3_inj' : forall s k k' t, BInv s -> den3 s k t -> den3 s k' t -> k = k'.
Proof.
  intros s [[a b] c] [[a' b'] c'] [[ta tb] tc] Hb (H1 & H2 & H3) (G1 & G2 & G3).
  rewrite (denotes_inj _ _ _ _ Hb H1 G1), (denotes_inj _ _ _ _ Hb H2 G2), (denotes_inj _ _ _ _ Hb H3 G3). reflexivity.
Qed.

Lemma denq_inj : forall s q q' l, BInv s -> denq s q l -> denq s q' l -> q = q'.
Proof.
  intros s [[[a b] c] g] [[[a' b'] c'] g'] [[[ta tb] tc] tg] Hb [H3 Hg] [G3 Gg].
  pose proof (den3_inj' _ _ _ _ Hb H3 G3) as E. injection E as -> -> ->.
  destruct g as [n|], g' as [n'|], tg as [t|]; cbn [deng] in *; try contradiction; [|reflexivity].
  rewrite (denotes_inj _ _ _ _ Hb Hg Gg). reflexivity.
Qed.

Lemma okmap_nodup : forall {A B} (f : A -> res B) l,
  NoDup l -> (forall x y z, In x l -> In y l -> f x = Ok z -> f y = Ok z -> x = y) -> NoDup (okmap f l).
Proof.
  intros A B f. induction l as [|a r IH]; intros Hn Hinj; cbn [okmap]; [constructor|].
  inversion Hn as [|a' r' Hnotin Hn']; subst.
  assert (NoDup (okmap f r)) as Hr.
  { apply IH; [exact Hn'|]. intros x y z Hx Hy. apply Hinj; right; assumption. }
  destruct (f a) as [b|e] eqn:Ef; [|exact Hr].
  constructor; [|exact Hr]. intros Hin. apply okmap_in in Hin. destruct Hin as (x & Hx & Hfx).
  assert (a = x) by (eapply Hinj; [left; reflexivity|right; exact Hx|exact Ef|exact Hfx]). subst x. contradiction.
Qed.

Theorem union_result_identity : forall a b u, WF a -> WF b -> union a b = Ok u ->
  (forall i j t, decode_any (dst u) i = Ok t -> decode_any (dst u) j = Ok t -> i = j) /\
  (forall i t, decode_any (dst u) i = Ok t -> encode_term (dst u) t = Ok (dst u, i)) /\
  (forall i t, decode_any (dst a) i = Ok t -> decode_any (dst u) i = Ok t) /\
  (forall k i, q_get (sq (dst u)) k = Some i <-> q_decode (sq (dst u)) i = Some k) /\
  NoDup (den_quads u).
Proof.
  intros a b u Wa Wb H.
  destruct (union_correct _ _ _ Wa Wb H) as ((Su & _) & Ea & _).
  pose proof Su as [Bu _]. destruct Wa as (Sa & _).
  split; [|split; [|split; [|split]]].
  - intros i j t Hi Hj. apply decode_term_sound in Hi. apply decode_term_sound in Hj. eapply denotes_inj; eassumption.
  - intros i t Hi. apply decode_term_sound in Hi. apply encode_term_known; assumption.
  - intros i t Hi. apply decode_term_sound in Hi. apply decode_any_complete; [exact Su|]. eapply denotes_ext; eassumption.
  - destruct Bu as [_ (Hq & _)]. exact Hq.
  - unfold den_quads, all_quads. apply okmap_nodup; [eapply union_index_nodup; exact H|].
    intros x y z _ _ Hx Hy. apply (decode_quad_iff _ _ _ Su) in Hx. apply (decode_quad_iff _ _ _ Su) in Hy.
    eapply denq_inj; eassumption.
Qed.
