"""C07 - decision-diagram operations are exact, canonical and interruption-safe (DESIGN.md section 7, C07).

Theorems: coq/Sdd/C07.v (exactness of apply/negate/literal/exactly_one for every manager satisfying the
invariant, under every budget; budget safety; wmc = truth-table sum; bounded canonicity for three variables).
Correspondence: the real shared::sdd::SddManager (both the plain operations and their try_* twins) against the
Gallina model KV.Sdd.Model on the same histories; the oracle is the truth table of the formula the
history asked for (computed here on bit masks and, independently, by KV.Sdd.Spec.feval inside Coq).
"""
import itertools
import json
import os
from fractions import Fraction

import vf

SUB = "Sdd"
REQ = ["KV.Sdd.Model", "KV.Sdd.Sem", "KV.Sdd.Spec", "KV.Sdd.Run"]
TOL = 1e-9

PROP_RULE = ("a case is a history of manager operations (variable registration in random order, literal, and, or, negate, "
             "exactly_one, each either plain or budgeted) over <= 8 variables; every handle of every case is compared on its "
             "truth table (implementation via enumerate_models and via wmc with indicator weights, model, Spec), wmc value, "
             "gradient and handle-equality class. A case is non-trivial when it contains at least one handle that is a "
             "Decision node over >= 2 variables (truth table depends on >= 2 variables) and at least two distinct non-constant "
             "truth tables; distinct by the rendered history. Interruption cases count one evaluation per (history, expiry point).")


# ---- Coq rendering -----------------------------------------------------------------------------
def cN(n):
    return "%d%%N" % n


def cQ(num, den):
    return "(%d#%d)%%Q" % (num, den)


def cbud(b):
    if b is None:
        return "None"
    lim = "None" if b.get("max_nodes") is None else "(Some %s)" % cN(b["max_nodes"])
    orc = "[" + "; ".join("true" if x else "false" for x in b.get("oracle", [])) + "]"
    return "(Some (%s, %s))" % (lim, orc)


def cop(op):
    t = op[0]
    if t == "var":
        kind = "Indep" if op[6] is None else "(Excl %s)" % cN(op[6])
        return "OVar %s %s %s %s" % (cN(op[1]), cQ(op[2], op[3]), cQ(op[4], op[5]), kind)
    if t == "lit":
        return "OLit %s %s %s" % (cN(op[1]), "true" if op[2] else "false", cbud(op[3]))
    if t == "apply":
        return "OApply %s %s %s %s" % (cN(op[1]), cN(op[2]), "And" if op[3] == "and" else "Or", cbud(op[4]))
    if t == "neg":
        return "ONeg %s %s" % (cN(op[1]), cbud(op[2]))
    if t == "eo":
        return "OEo [%s] %s" % ("; ".join(cN(v) for v in op[1]), cbud(op[2]))
    raise ValueError(t)


def cops(ops):
    return "[" + "; ".join(cop(o) for o in ops) + "]"


def with_bud(op, b):
    return op[:-1] + [b]


# ---- the Spec on bit masks ------------------------------------------------------------------------
def spec_tables(nv, ops, codes):
    """truth table (int) of every handle slot; a slot whose operation did not return Ok is FALSE."""
    full = (1 << (1 << nv)) - 1
    lit = []
    for v in range(nv):
        t = 0
        for k in range(1 << nv):
            if (k >> v) & 1:
                t |= 1 << k
        lit.append(t)
    tabs = []
    ci = 0
    for op in ops:
        t = op[0]
        if t == "var":
            ci += 1
            continue
        ok = codes[ci] == 0
        ci += 1
        if t == "lit":
            x = lit[op[1]] if op[2] else full ^ lit[op[1]]
        elif t == "apply":
            x = (tabs[op[1]] & tabs[op[2]]) if op[3] == "and" else (tabs[op[1]] | tabs[op[2]])
        elif t == "neg":
            x = full ^ tabs[op[1]]
        elif t == "eo":
            x = eo_table(nv, op[1])
        tabs.append(x if ok else 0)
    return tabs


def eo_table(nv, vs):
    x = 0
    for k in range(1 << nv):
        if sum((k >> v) & 1 for v in vs) == 1:
            x |= 1 << k
    return x


def final_weights(ops):
    """weights after the whole history (ensure_variable_weights clamps to [0,1]; generated weights are inside)."""
    w = {}
    for op in ops:
        if op[0] == "var":
            w[op[1]] = (Fraction(op[2], op[3]), Fraction(op[4], op[5]), op[6])
    return w


class SpecW:
    """truth-table weighted sums for one weight assignment: weight of every assignment of the registered variables
    (assignments that set an unregistered variable are skipped: such variables do not occur in any formula) and, per
    variable, the weight with that variable's factor left out."""

    def __init__(self, nv, w):
        self.nv, self.w = nv, w
        vs = sorted(w)
        self.wt = {}
        self.wex = {v: {} for v in vs}
        for k in range(1 << nv):
            if any(((k >> v) & 1) for v in range(nv) if v not in w):
                continue
            fac = [w[v][0] if (k >> v) & 1 else w[v][1] for v in vs]
            p = Fraction(1)
            for f in fac:
                p *= f
            self.wt[k] = p
            for i, v in enumerate(vs):
                q = Fraction(1)
                for j, f in enumerate(fac):
                    if j != i:
                        q *= f
                self.wex[v][k] = q

    def wmc(self, table):
        return sum((p for k, p in self.wt.items() if (table >> k) & 1), Fraction(0))

    def grad(self, table, v):
        """derivative of the truth-table sum w.r.t. pos(v): Independent: neg = 1-pos moves too; Exclusive: neg constant."""
        a = sum((q for k, q in self.wex[v].items() if (table >> k) & 1 and (k >> v) & 1), Fraction(0))
        if self.w[v][2] is None:
            b = sum((q for k, q in self.wex[v].items() if (table >> k) & 1 and not (k >> v) & 1), Fraction(0))
            return a - b
        return a


def wmc_spec_applies(nv, w, table):
    """the truth-table sum is the meaning of wmc when every variable is normalised (pos+neg=1) or, for an
    exclusive-group variable (neg=1), when the function fixes the variable in every model, i.e. entails the
    exactly-one constraint of the group (smoothness caveat of DESIGN C07)."""
    groups = {}
    for v, (p, n, g) in w.items():
        if p + n != 1:
            if g is None:
                return False
            groups.setdefault(g, []).append(v)
    for g, vs in groups.items():
        allv = [v for v, x in w.items() if x[2] == g]
        if table & ~eo_table(nv, allv):
            return False
    return True


def fnum(x):
    """a float of the driver's JSON (serde_json renders NaN / infinities as null)"""
    return float("nan") if x is None else float(x)


def close(x, e):
    """|x - e| <= TOL, false for NaN / infinite x"""
    return abs(fnum(x) - float(e)) <= TOL


def classes(xs):
    first = {}
    return [first.setdefault(x, i) for i, x in enumerate(xs)]


def depends_on(nv, table):
    n = 0
    for v in range(nv):
        for k in range(1 << nv):
            if not (k >> v) & 1 and ((table >> k) & 1) != ((table >> (k | (1 << v))) & 1):
                n += 1
                break
    return n


# ---- generators -------------------------------------------------------------------------------------
def rand_budget(rng):
    r = rng.random()
    if r < 0.35:
        return {"max_nodes": None, "oracle": []}
    if r < 0.6:
        return {"max_nodes": rng.randint(2, 60), "oracle": []}
    if r < 0.9:
        k = rng.randint(1, 12) if rng.random() < 0.6 else rng.randint(1, 80)
        return {"max_nodes": None, "oracle": [True] * (k - 1) + [False]}
    return {"max_nodes": rng.randint(2, 80), "oracle": [rng.random() < 0.97 for _ in range(rng.randint(1, 80))]}


def rand_prob(rng, boundary):
    """numerator over 16 of an Independent probability; with `boundary` the values 0.0 and 1.0 (neg weight 0 /
    pos weight 0: certain and impossible facts) are drawn with substantial frequency"""
    r = rng.random()
    if r < boundary / 2:
        return 16
    if r < boundary:
        return 0
    return rng.choice([1, 2, 3, 4, 5, 8, 11, 13, 15])


def group_parts(rng, k):
    """positive weights (numerators over 16) of an exclusive group of k members, summing to 1; often degenerate:
    one member certain and the others impossible, or some member with weight 0"""
    r = rng.random()
    if r < 0.25:
        parts = [0] * k
        parts[rng.randrange(k)] = 16
        return parts
    cuts = sorted(rng.sample(range(1, 16), k - 1))
    parts = [b - a for a, b in zip([0] + cuts, cuts + [16])]
    if r < 0.45:       # move one member's mass to another: a zero-weight member
        i, j = rng.sample(range(k), 2)
        parts[j] += parts[i]
        parts[i] = 0
    return parts


def random_history(rng, nv, nops, budgeted=0.2, groups=True, boundary=None):
    if boundary is None:   # per history: a third without boundary values, a third with some, a third with many
        boundary = rng.choice([0.0, 0.3, 0.7])
    order = list(range(nv))
    rng.shuffle(order)
    ops = []
    intro = []
    nh = 0
    group_of = {}
    if groups and nv >= 3 and rng.random() < 0.35:
        k = rng.randint(2, min(4, nv))
        members = rng.sample(range(nv), k)
        parts = group_parts(rng, k)
        for v, p in zip(members, parts):
            group_of[v] = (p, 16)

    def intro_var():
        v = order[len(intro)]
        intro.append(v)
        if v in group_of:
            p, q = group_of[v]
            ops.append(["var", v, p, q, 1, 1, 0])
        else:
            p = rand_prob(rng, boundary)
            ops.append(["var", v, p, 16, 16 - p, 16, None])

    def bud():
        return rand_budget(rng) if rng.random() < budgeted else None

    intro_var()
    while sum(1 for o in ops if o[0] != "var") < nops or len(intro) < nv:
        r = rng.random()
        if len(intro) < nv and (r < 0.12 or nh == 0 and r < 0.5):
            intro_var()
            continue
        if len(intro) == nv and sum(1 for o in ops if o[0] != "var") >= nops:
            break
        r = rng.random()
        if nh < 2 or r < 0.22:
            ops.append(["lit", rng.choice(intro), rng.random() < 0.7, bud()])
        elif r < 0.75:
            i = rng.randrange(nh) if rng.random() < 0.5 else rng.randrange(max(0, nh - 6), nh)
            j = rng.randrange(nh) if rng.random() < 0.5 else rng.randrange(max(0, nh - 6), nh)
            ops.append(["apply", i, j, rng.choice(["and", "or"]), bud()])
        elif r < 0.9:
            ops.append(["neg", rng.randrange(max(0, nh - 8), nh), bud()])
        elif r < 0.97:
            if group_of and all(v in intro for v in group_of) and rng.random() < 0.6:
                vs = sorted(group_of)
                rng.shuffle(vs)
            else:
                vs = [rng.choice(intro) for _ in range(rng.randint(0, min(4, len(intro))))]
            ops.append(["eo", vs, bud()])
        else:   # re-register a variable with new weights (vtree unchanged)
            v = rng.choice(intro)
            if v in group_of:
                continue
            p = rng.choice([0, 16]) if rng.random() < boundary else rng.choice([1, 4, 7, 9, 12])
            ops.append(["var", v, p, 16, 16 - p, 16, None])
            continue
        nh += 1
    return ops


def group_history(rng, nv):
    """annotated-disjunction use: an exclusive group, its exactly-one constraint, formulas conjoined with it."""
    k = rng.randint(2, min(4, nv))
    members = rng.sample(range(nv), k)
    parts = group_parts(rng, k)
    boundary = rng.choice([0.0, 0.5])
    order = list(range(nv))
    rng.shuffle(order)
    ops = []
    for v in order:
        if v in members:
            ops.append(["var", v, parts[members.index(v)], 16, 1, 1, 0])
        else:
            p = rand_prob(rng, boundary)
            ops.append(["var", v, p, 16, 16 - p, 16, None])
    ops.append(["eo", members, None])          # handle 0
    nh = 1
    for v in range(nv):
        ops.append(["lit", v, True, None])
        nh += 1
    for _ in range(rng.randint(4, 10)):
        r = rng.random()
        if r < 0.6:
            ops.append(["apply", rng.randrange(1, nh), rng.randrange(1, nh), rng.choice(["and", "or"]), None])
        else:
            ops.append(["neg", rng.randrange(1, nh), None])
        nh += 1
        ops.append(["apply", nh - 1, 0, "and", None])   # conjoin with the constraint
        nh += 1
    return ops


# ---- evaluation of report cases -----------------------------------------------------------------------
def unwords(ws):
    return sum(w << (32 * i) for i, w in enumerate(ws))


def is_err(x):
    return isinstance(x, tuple) and len(x) == 2 and x[0] == "ERROR"


def check_report(ctx, c, im, mo, stream, st):
    """compare one history: implementation vs model (correspondence) and implementation vs Spec (oracle)."""
    nv, ops = c["nv"], c["ops"]
    ctx.count()
    if im is None or "steps" not in im:
        ctx.violation(c, {"what": "implementation panicked / died on a history of manager operations", "impl": im})
        st["viol"] += 1
        return
    isteps = [list(x) for x in im["steps"]]
    codes = [x[0] for x in isteps]
    spec = spec_tables(nv, ops, codes)
    slots = [i for i, o in enumerate(ops) if o[0] != "var"]
    hcodes = [codes[i] for i in slots]
    it_enum = [int(x) for x in im["tables_enum"]]
    it_wmc = [int(x) for x in im["tables_wmc"]]
    ih = im["handles"]
    bad = None
    # exactness (Spec): every Ok handle denotes the formula's function, through both read paths
    for k, (a, b, s) in enumerate(zip(it_enum, it_wmc, spec)):
        if a != s or b != s:
            bad = {"what": "a handle does not denote the Boolean function of its formula",
                   "handle_slot": k, "op": ops[slots[k]], "table_enumerate_models": a, "table_wmc_indicator": b, "spec_table": s}
            break
    if bad is None and im.get("wmc01_bad", 0):
        bad = {"what": "wmc under 0/1 indicator weights is not exactly 0 or 1", "count": im["wmc01_bad"]}
    # canonicity (Spec): equal functions <-> equal handles
    if bad is None:
        by_tab = {}
        for k, (h, s) in enumerate(zip(ih, spec)):
            if hcodes[k] != 0:
                continue
            if s in by_tab and by_tab[s][1] != h:
                bad = {"what": "equal Boolean functions got different handles (canonicity)", "slots": [by_tab[s][0], k],
                       "handles": [by_tab[s][1], h], "table": s}
                break
            by_tab.setdefault(s, (k, h))
    # budget (Spec): a budgeted operation returns Ok (already checked exact) or an exhaustion error; Ok result
    # equals the plain result = same class as any other handle with that table (covered by canonicity)
    w = final_weights(ops)
    sw = SpecW(nv, w)
    applies = {}
    if bad is None:
        for k, (x, s) in enumerate(zip(im["wmc"], spec)):
            if s not in applies:
                applies[s] = wmc_spec_applies(nv, w, s)
            if hcodes[k] == 0 and applies[s]:
                e = sw.wmc(s)
                st["wmc_checked"] += 1
                if not close(x, e):
                    bad = {"what": "wmc differs from the truth-table weighted sum", "slot": k, "impl": x, "spec": str(e)}
                    break
    if bad is None and "grads" in im:
        for k, (g, s) in enumerate(zip(im["grads"], spec)):
            if hcodes[k] != 0 or not applies.get(s, False):
                continue
            gd = {int(v): x for v, x in g}
            for v in w:
                e = sw.grad(s, v)
                st["grad_checked"] += 1
                if e != 0:
                    st["grad_nonzero"] += 1
                    if w[v][0] in (0, 1):
                        st["grad_boundary"] += 1
                # a variable missing from the implementation's map means derivative 0 (entries with |g| <= 1e-15 are omitted)
                if not close(gd.get(v, 0.0), e):
                    bad = {"what": "wmc_gradient differs from the truth-table derivative" +
                                   ("" if v in gd else " (the variable is missing from the gradient map, i.e. reported as 0)"),
                           "slot": k, "var": v, "pos_weight": str(w[v][0]), "neg_weight": str(w[v][1]),
                           "impl": gd.get(v, 0.0), "spec": str(e)}
                    break
            if bad:
                break
        if bad is None and any(not (fnum(a) == fnum(b)) for a, b in zip(im["wmc"], im["wmc_after_grad"])):
            bad = {"what": "wmc_gradient did not restore the weights"}
    if bad is not None:
        ctx.violation(c, bad)
        st["viol"] += 1
        return
    # correspondence with the model
    if is_err(mo):
        ctx.broken("correspondence", stream, "model evaluation failed: %s" % (mo[1],), c)
        st["mis"] += 1
        return
    msteps, mtabs, mspec, mwmc, mmodels, mgrads, mdecomp = mo
    mtabs = [unwords(x) for x in mtabs]
    mspec = [unwords(x) for x in mspec]
    msteps = [list(x) for x in msteps]
    diff = None
    if mdecomp is not True:
        diff = "the model's final manager fails decomp_ok (contradicts C07_decomposable) or reduced_ok (contradicts C07_reduced_reachable)"
    elif mspec != spec:
        diff = "Coq Spec truth tables differ from the check's bit-mask Spec"
    elif mtabs != spec:
        diff = "model truth tables differ from the Spec (the model has no exactness theorem for this case?)"
    else:
        for k, (a, b, o) in enumerate(zip(isteps, msteps, ops)):
            budgeted = o[0] != "var" and o[-1] is not None
            if a[0] != b[0] or a[3] != b[3] or (budgeted and a[2] != b[2]):
                diff = "step %d (%s): implementation (code, handle, checkpoints, nodes) = %s, model = %s" % (k, o, a, b)
                break
        mh = [msteps[i][1] for i in slots]
        if diff is None and classes(ih) != classes(mh):
            diff = "handle-equality classes differ: implementation %s, model %s" % (ih, mh)
        if diff is None:
            for k, (x, q) in enumerate(zip(im["wmc"], mwmc)):
                if not close(x, Fraction(q[0], q[1])):
                    diff = "wmc of slot %d: implementation %r, model %s/%s" % (k, x, q[0], q[1])
                    break
        if diff is None and "models" in im and mmodels:
            for k, (a, b) in enumerate(zip(im["models"], mmodels)):
                if sorted([list(map(list, cube)) for cube in a]) != sorted([[list(l) for l in cube] for cube in b]):
                    diff = "enumerate_models of slot %d: implementation %s, model %s" % (k, a, b)
                    break
        if diff is None and "grads" in im and mgrads:
            for k, (a, b) in enumerate(zip(im["grads"], mgrads)):
                gd = {int(v): x for v, x in a}
                for v, q in b:
                    if not close(gd.get(v, 0.0), Fraction(q[0], q[1])):
                        diff = "gradient of slot %d var %d: implementation %r, model %s/%s" % (k, v, gd.get(v, 0.0), q[0], q[1])
                        break
                if diff:
                    break
    if diff is not None:
        ctx.broken("correspondence", stream, "implementation and model differ but the Spec oracle accepts the implementation: " + diff,
                   {"case": c, "impl_steps": isteps, "model_steps": msteps})
        st["mis"] += 1
    oktabs = [s for k, s in enumerate(spec) if hcodes[k] == 0]
    nonconst = {s for s in oktabs if s not in (0, (1 << (1 << nv)) - 1)}
    if len(nonconst) >= 2 and any(depends_on(nv, s) >= 2 for s in nonconst):
        ctx.nontrivial(json.dumps(ops))
    st["handles"] += len(oktabs)
    st["errs"] += sum(1 for x in hcodes if x != 0)
    st["budgeted"] += sum(1 for o in ops if o[0] != "var" and o[-1] is not None)
    st["max_nodes"] = max(st["max_nodes"], isteps[-1][3] if isteps else 0)


def evaluate_reports(ctx, binpath, cases, stream):
    impl = ctx.run_impl(binpath, cases)
    ctx.log("%s: implementation ran %d histories" % (stream, len(cases)))
    exprs = ["report %s %s %s" % (cN(c["nv"]), cops(c["ops"]), "true" if c.get("detail") else "false") for c in cases]
    model = ctx.run_model(SUB, REQ, exprs, chunk=max(1, min(40, (len(exprs) + vf.NPROC - 1) // vf.NPROC)))
    ctx.log("%s: model ran" % stream)
    st = dict(viol=0, mis=0, handles=0, errs=0, budgeted=0, wmc_checked=0, grad_checked=0, grad_nonzero=0, grad_boundary=0, max_nodes=0)
    for c, im, mo in zip(cases, impl, model):
        check_report(ctx, c, im, mo, stream, st)
    ctx.stream(stream, cases=len(cases), handles=st["handles"], budgeted_ops=st["budgeted"], exhausted_ops=st["errs"],
               wmc_vs_spec=st["wmc_checked"], gradient_vs_spec=st["grad_checked"], gradient_nonzero=st["grad_nonzero"],
               gradient_nonzero_at_probability_0_or_1=st["grad_boundary"], max_nodes=st["max_nodes"],
               impl_model_mismatches=st["mis"], spec_violations=st["viol"])


# ---- interruption ------------------------------------------------------------------------------------------
def check_interrupted_run(nv, c, run, budget_desc):
    """Spec oracle for one interrupted run; returns None or a violation detail."""
    ops = c["pre"] + [c["target"]] + c["post"]
    codes = [0 if o[0] != "var" else 9 for o in c["pre"]] + [run["target"][0]] + [x[0] for x in run["post"]]
    spec = spec_tables(nv, ops, codes)
    te = [int(x) for x in run["tables_enum"]]
    tw = [int(x) for x in run["tables_wmc"]]
    npre = sum(1 for o in c["pre"] if o[0] != "var")
    for k, (a, b, s) in enumerate(zip(te, tw, spec)):
        if a != s or b != s:
            where = "the budgeted operation" if k == npre else ("an operation after the interruption" if k > npre else "an earlier handle")
            return {"what": "after a budgeted operation (%s) %s no longer denotes its formula" % (budget_desc, where),
                    "slot": k, "table_enumerate_models": a, "table_wmc_indicator": b, "spec_table": s, "target_outcome": run["target"]}
    if any(x[0] != 0 for x in run["post"]):
        return {"what": "a plain operation failed after an interruption", "post": run["post"]}
    by_tab = {}
    for k, (h, s) in enumerate(zip(run["handles"], spec)):
        if codes_slot(codes, k) != 0:
            continue
        if s in by_tab and by_tab[s][1] != h:
            return {"what": "after a budgeted operation (%s) equal functions have different handles (the budgeted result is not "
                            "the plain result)" % budget_desc, "slots": [by_tab[s][0], k], "handles": [by_tab[s][1], h]}
        by_tab.setdefault(s, (k, h))
    return None


def codes_slot(codes, k):
    return [x for x in codes if x != 9][k]


def evaluate_interrupts(ctx, binpath, cases, stream, model_points):
    impl = ctx.run_impl(binpath, cases)
    exprs, where = [], []
    st = dict(viol=0, mis=0, runs=0, deadline_points=0, node_points=0, ok_after=0, model_points=0)
    for ci, (c, im) in enumerate(zip(cases, impl)):
        nv = c["nv"]
        if im is None or "reference" not in im:
            ctx.count()
            ctx.violation(c, {"what": "implementation panicked / died on an interrupted history", "impl": im})
            st["viol"] += 1
            continue
        T = im["reference"]["target"][2]
        outcome_diff = None
        bad = check_interrupted_run(nv, c, im["reference"], "unlimited budget")
        points = [("ref", None, im["reference"])]
        for k, run in enumerate(im["by_k"], start=1):
            points.append(("k", k, run))
        for n, run in enumerate(im["by_n"], start=2):
            points.append(("n", n, run))
        for kind, val, run in points:
            ctx.count()
            st["runs"] += 1
            if kind == "k":
                st["deadline_points"] += 1
                desc = "deadline expiring at checkpoint %d of %d" % (val, T)
                # The model reports DeadlineExceeded for every k <= T and Ok for k = T+1.  The property itself allows
                # an implementation that notices the deadline later (as long as an Ok result is the right one, which the
                # table check below decides), so a different outcome is a correspondence break, not a violation.
                if (val <= T and run["target"][0] != 1) or (val > T and run["target"][0] != 0):
                    outcome_diff = outcome_diff or "deadline expiring at checkpoint %d of %d: outcome %s" % (val, T, run["target"])
            elif kind == "n":
                st["node_points"] += 1
                desc = "node budget %d" % val
            else:
                desc = "unlimited budget"
            if run["target"][0] == 0:
                st["ok_after"] += 1
            if bad is None:
                bad = check_interrupted_run(nv, c, run, desc)
            if bad is not None:
                break
        if bad is not None:
            ctx.violation(c, bad)
            st["viol"] += 1
            continue
        if outcome_diff:
            ctx.broken("correspondence", stream, "implementation does not stop at the checkpoint the model stops at "
                       "(results are still correct): " + outcome_diff, c)
            st["mis"] += 1
        ctx.nontrivial(json.dumps(c))
        # model points: a subset of the expiry points and node budgets
        ks = list(range(1, T + 2))
        ns = list(range(2, len(im["by_n"]) + 2))
        if len(ks) > model_points:
            ks = sorted(set(ctx.rng.sample(ks, model_points - 2) + [1, T + 1]))
        if len(ns) > model_points // 2:
            ns = sorted(set(ctx.rng.sample(ns, model_points // 2 - 1) + [ns[-1]]))
        for k in ks:
            b = {"max_nodes": None, "oracle": [True] * (k - 1) + [False]}
            exprs.append("interrupted %s %s (%s) %s" % (cN(nv), cops(c["pre"]), cop(with_bud(c["target"], b)), cops(c["post"])))
            where.append((ci, "k", k, im["by_k"][k - 1]))
        for n in ns:
            b = {"max_nodes": n, "oracle": []}
            exprs.append("interrupted %s %s (%s) %s" % (cN(nv), cops(c["pre"]), cop(with_bud(c["target"], b)), cops(c["post"])))
            where.append((ci, "n", n, im["by_n"][n - 2]))
    model = ctx.run_model(SUB, REQ, exprs, chunk=max(1, min(25, (len(exprs) + vf.NPROC - 1) // vf.NPROC)))
    for (ci, kind, val, run), mo in zip(where, model):
        st["model_points"] += 1
        c = cases[ci]
        if is_err(mo):
            ctx.broken("correspondence", stream, "model evaluation failed: %s" % (mo[1],), c)
            st["mis"] += 1
            continue
        mt, mpost, mtabs = mo
        mt = mt[0]
        mtabs = [unwords(x) for x in mtabs]
        diff = None
        it = run["target"]
        if [it[0], it[2], it[3]] != [mt[0], mt[2], mt[3]]:
            diff = "budgeted operation: implementation (code, handle, checkpoints, nodes) = %s, model = %s" % (it, list(mt))
        elif [x[0] for x in run["post"]] != [x[0] for x in mpost] or [x[3] for x in run["post"]] != [x[3] for x in mpost]:
            diff = "operations after the interruption: implementation %s, model %s" % (run["post"], [list(x) for x in mpost])
        elif [int(x) for x in run["tables_enum"]] != mtabs:
            diff = "truth tables after the interruption differ"
        if diff is not None:
            ctx.broken("correspondence", stream, "interruption (%s=%d): %s" % (kind, val, diff), c)
            st["mis"] += 1
    ctx.stream(stream, cases=len(cases), interrupted_runs=st["runs"], deadline_points=st["deadline_points"],
               node_budget_points=st["node_points"], runs_where_target_succeeded=st["ok_after"], model_points=st["model_points"],
               impl_model_mismatches=st["mis"], spec_violations=st["viol"])


def interrupt_case(rng, nv, npre, npost):
    pre = random_history(rng, nv, npre, budgeted=0.0, groups=False)
    nh = sum(1 for o in pre if o[0] != "var")
    r = rng.random()
    if r < 0.7:
        target = ["apply", rng.randrange(max(0, nh - 5), nh), rng.randrange(nh), rng.choice(["and", "or"]), None]
    elif r < 0.85:
        target = ["neg", rng.randrange(max(0, nh - 5), nh), None]
    else:
        target = ["eo", rng.sample(range(nv), rng.randint(2, min(4, nv))), None]
    post = [list(target)]     # first: the same operation, plain
    n = nh + 2
    for _ in range(npost):
        r = rng.random()
        if r < 0.7:
            post.append(["apply", rng.randrange(max(0, n - 6), n), rng.randrange(n), rng.choice(["and", "or"]), None])
        elif r < 0.9:
            post.append(["neg", rng.randrange(max(0, n - 4), n), None])
        else:
            post.append(["lit", rng.randrange(nv), rng.random() < 0.5, None])
        n += 1
    return {"mode": "interrupt", "nv": nv, "pre": pre, "target": target, "post": post}


# ---- exhaustive three-variable sweep on the real manager ---------------------------------------------------
def evaluate_sweep3(ctx, binpath, cases):
    stride = cases[0].get("stride", 1)
    impl = ctx.run_impl(binpath, cases, shards=min(len(cases), vf.NPROC))
    pairs = 0
    for c, im in zip(cases, impl):
        if im is None or "rows" not in im:
            ctx.violation(c, {"what": "implementation panicked / died in the three-variable sweep", "impl": im})
            continue
        bad = None
        if [int(x) for x in im["build_tables"]] != list(range(256)):
            k = next(i for i, x in enumerate(im["build_tables"]) if int(x) != i)
            bad = {"what": "disjunction of minterms does not denote its truth table", "table": k, "impl": im["build_tables"][k]}
        elif im["dup"]:
            bad = {"what": "two different functions share a handle", "tables": im["dup"][0]}
        elif im["unknown"]:
            a, b, oi, h, t = im["unknown"][0]
            bad = {"what": "result of apply is a fresh handle although a handle for that function exists (canonicity)",
                   "a": a, "b": b, "op": ["and", "or"][oi], "handle": h, "result_table": t}
        else:
            for a in range(256):
                row = im["rows"][a]
                for b in range(256):
                    for oi in (0, 1):
                        r = row[2 * b + oi]
                        if r == -2:
                            continue
                        pairs += 1
                        e = (a & b) if oi == 0 else (a | b)
                        if r != e:
                            bad = {"what": "apply on three variables returned the handle of another function",
                                   "a": a, "b": b, "op": ["and", "or"][oi], "result_table": r, "spec_table": e}
                            break
                    if bad:
                        break
                if bad:
                    break
            if bad is None and im["negs"] and im["negs"] != [255 - a for a in range(256)]:
                a = next(i for i, x in enumerate(im["negs"]) if x != 255 - i)
                bad = {"what": "negate on three variables returned the handle of another function", "a": a, "result_table": im["negs"][a]}
            if bad is None and im["nodes_after"] != im["nodes_before"]:
                bad = {"what": "operations on canonical operands allocated new nodes although every function already has a handle",
                       "nodes_before": im["nodes_before"], "nodes_after": im["nodes_after"]}
        ctx.count(256 * 256 * 2 // c.get("stride", 1))
        if bad is not None:
            ctx.violation(c, bad)
        else:
            ctx.nontrivial(("sweep3", tuple(c["order"]), c.get("stride", 1), c.get("offset", 0)))
    ctx.stream("sweep3", orders=len(cases), stride=stride, operand_pairs_checked=pairs)
    return pairs


# ---- corpus -----------------------------------------------------------------------------------------------
def load_corpus():
    d = os.path.join(vf.VERIF, "corpus", "C07")
    rep, intr = [], []
    if os.path.isdir(d):
        for fn in sorted(os.listdir(d)):
            if fn.endswith(".json"):
                c = json.load(open(os.path.join(d, fn)))
                for x in (c if isinstance(c, list) else [c]):
                    (intr if x.get("mode") == "interrupt" else rep).append(x)
    return rep, intr


TRUSTED = [
    "Coq 8.16.1 kernel; vm_compute for the bounded canonicity sweep and for running the model in the correspondence check",
    "hand-written Gallina model coq/Sdd/Model.v of shared/src/sdd.rs (one definition for each apply/try_apply twin pair, "
    "parameterised by the budget) and of diff_sdd::wmc_gradient",
    "correspondence check: harness/src/bin/c07.rs (public API only; the deadline is the caller's closure), checks/c07.py "
    "generators, bit-mask Spec and the 1e-9 tolerance between f64 and exact rationals",
    "f64 arithmetic of wmc modelled by exact rationals; HashMap iteration order in compress modelled by first-occurrence order "
    "(irrelevant for the right-linear vtree: at most one group has more than one prime); memoised recursion of wmc/enumerate_models "
    "modelled by a bottom-up table over the arena",
]
ASSUME = ["variables are registered (ensure_variable*) before a literal over them is requested, as the API documents (run_ok)",
          "real deadlines are arbitrary Boolean answer sequences of the deadline closure",
          "canonicity (C07_canonical) and totality (C07_total) are stated for fuel above 4*|history|+3; the check runs the model with fuel 200"]


def audit_canon(ctx):
    """C07canon.v holds the bounded canonicity theorem; its cone contains the VM sweeps, which coqchk (no VM) cannot
    re-check, so it is audited here (coqc re-check + Print Assumptions) and kept out of the coqchk run on C07.v."""
    d = os.path.join(vf.VERIF, "coq", SUB)
    flags = vf.coqproject_flags(d)
    os.makedirs(os.path.join(ctx.work, "audit"), exist_ok=True)
    rc, out = vf.sh(["coqc"] + flags + ["-o", os.path.join(ctx.work, "audit", "C07canon.vo"), "C07canon.v"], cwd=d, timeout=3000)
    n = len([l for l in vf.strip_coq_comments(open(os.path.join(d, "C07canon.v")).read()).splitlines()
             if l.strip().startswith("Print Assumptions")])
    ctx.coverage["obligations"] = ctx.coverage.get("obligations", 0) + n
    if rc != 0:
        ctx.broken("proof", "Sdd/C07canon.v", "bounded canonicity file does not re-check: " + out[-1200:])
        return
    closed, axioms, bad = vf.parse_assumptions(out)
    if bad or closed + len(axioms) != n:
        ctx.broken("audit", "assumptions", "C07canon.v: closed=%d axioms=%s bad=%s expected=%d" % (closed, axioms, bad, n))
        return
    ctx.coverage["discharged"] = ctx.coverage.get("discharged", 0) + n
    ctx.coverage["theorems"] = ctx.coverage.get("theorems", []) + vf.theorem_names(os.path.join(d, "C07canon.v"))
    ctx.coverage["coqchk_note"] = ("coqchk (thorough tier) covers C07.v and its cone; C07canon.v (VM sweeps of the bounded canonicity "
                                   "theorem) is checked by coqc's kernel only")
    ctx.log("coq Sdd: C07canon.v re-checked, %d/%d obligations" % (n, n))


def run(ctx):
    n_obl, n_dis = ctx.coq(SUB, "C07.v")
    if n_obl and n_dis == n_obl or ctx.coverage.get("discharged"):
        audit_canon(ctx)
    binpath = ctx.harness("c07")
    rng = ctx.rng
    rep, intr = load_corpus()
    if rep:
        evaluate_reports(ctx, binpath, rep, "corpus")
    if intr:
        evaluate_interrupts(ctx, binpath, intr, "corpus_interrupt", 12)
    # exhaustive three-variable operand sweep on the real manager, all six introduction orders
    orders = list(itertools.permutations([0, 1, 2]))
    stride = 1 if ctx.thorough else 3
    pairs = evaluate_sweep3(ctx, binpath, [{"mode": "sweep3", "order": list(o), "stride": stride, "offset": i}
                                           for i, o in enumerate(orders)])
    ctx.log("three-variable sweep on the implementation done")
    ctx.coverage["exhaustive"] = True
    ctx.coverage["exhaustive_scope"] = ("real manager: %d operand pairs (a, b, op) over the 256 functions of three variables, six "
                                        "introduction orders (stride %d), plus negate of all 256" % (pairs, 1 if ctx.thorough else 3))
    # random histories
    n = 1500 if ctx.thorough else 200
    cases = []
    for i in range(n):
        nv = rng.choice([1, 2, 3, 3, 4, 4, 5, 6, 7, 8])
        nops = rng.randint(8, 40 if ctx.thorough else 28)
        ops = random_history(rng, nv, nops)
        cases.append({"mode": "report", "nv": nv, "ops": ops, "detail": i % 2 == 0})
    for i in range(n // 5):
        nv = rng.choice([3, 4, 5, 6])
        cases.append({"mode": "report", "nv": nv, "ops": group_history(rng, nv), "detail": True})
    ctx.sample({"nv": cases[0]["nv"], "ops": cases[0]["ops"][:14]})
    ctx.sample({"nv": cases[-1]["nv"], "ops": cases[-1]["ops"][:14]})
    evaluate_reports(ctx, binpath, cases, "random")
    ctx.log("random histories done")
    # interruption
    ni = 120 if ctx.thorough else 20
    icases = []
    for i in range(ni):
        nv = rng.choice([2, 3, 4, 5, 6])
        icases.append(interrupt_case(rng, nv, rng.randint(6, 16), 20 if ctx.thorough else 6))
    ctx.sample({"interrupt": {"target": icases[0]["target"], "pre": icases[0]["pre"][:10]}})
    evaluate_interrupts(ctx, binpath, icases, "interrupt", 40 if ctx.thorough else 12)
    ctx.finish(level="proof", rule=PROP_RULE, trusted_base=TRUSTED, assumptions=ASSUME,
               extra={"partial": []})


def replay(ctx):
    binpath = ctx.harness("c07")
    c = ctx.replay.get("case")
    if isinstance(c, dict) and "case" in c and "mode" not in c:
        c = c["case"]
    if not isinstance(c, dict) or "mode" not in c:
        print("[C07] replay file has no failing input (obligation breakage): %s" % json.dumps(ctx.replay.get("broken", ""))[:600])
        ctx.coq(SUB, "C07.v")
        ctx.finish(level="proof", rule=PROP_RULE)
    if c["mode"] == "report":
        evaluate_reports(ctx, binpath, [c], "replay")
    elif c["mode"] == "interrupt":
        evaluate_interrupts(ctx, binpath, [c], "replay", 12)
    else:
        evaluate_sweep3(ctx, binpath, [c])
    ctx.finish(level="proof", rule=PROP_RULE)
