"""C10 - each firing of a continuous query sees exactly the current window, nothing older (DESIGN.md section 7, C10).

Theorems: coq/Rsp10/C10.v about the Gallina model coq/Rsp10/Model.v of create_window_processor! /
SimpleR2R::{add, remove, materialize} / Relation2StreamOperator::eval / register_window!(MultiThread).
Correspondence: the real RSPEngine (one window, built from RSP-QL text by RSPBuilder) in SingleThread mode and
in MultiThread mode under seeded schedule perturbations, against `KV.Rsp10.Run.model_run` on the window
contents reported by a probe CSPARQLWindow with the same parameters; oracle `KV.Rsp10.Run.spec_run_c`.
"""
import glob
import itertools
import json
import os
import sys

import vf

PROP_RULE = ("a case is one (RANGE, STEP, stream operator, window block of 1-2 triple patterns, 0-3 positive N3 rules, "
             "in-order stream over 4 subjects x 3 predicates x 3 objects, with/without stop()) run through the real engine "
             "once single-threaded and once per schedule seed multi-threaded; non-trivial when the window fired at least "
             "twice, at least one firing emitted rows, and at least one firing dropped a triple of the previous content "
             "(eviction happened); distinct by the rendered case. Stream lagging_worker: 340-480 events, the window worker is held "
             "back (hook hold_sites) from event 0 or from a third of the stream until everything was pushed.")

E = "http://v/"
ENT = ["e0", "e1", "e2", "e3"]
OBJ = ["e0", "e1", "e2"]
PRED = ["p0", "p1", "p2"]
TID = {"e0": 1, "e1": 2, "e2": 3, "e3": 4, "p0": 11, "p1": 12, "p2": 13}
QVARS = ["a", "b", "c"]
RVARS = ["x", "y", "z"]
OPS = {"R": "RSTREAM", "I": "ISTREAM", "D": "DSTREAM"}


# ---- rendering ---------------------------------------------------------------------------------
def iri(x):
    return "<%s%s>" % (E, x)


def term_txt(t):
    return "?" + t[1] if t[0] == "v" else iri(t[1])


def pats_txt(pats):
    return " ".join("%s %s %s ." % tuple(term_txt(x) for x in p) for p in pats)


def query_txt(c):
    stream = "?stream" if c.get("stream") is None else ":" + c["stream"]
    return ("REGISTER %s <http://out/stream> AS\nSELECT *\nFROM NAMED WINDOW :w ON %s [RANGE %d STEP %d]\n"
            "WHERE { WINDOW :w { %s } }" % (OPS[c["op"]], stream, c["w"], c["s"], pats_txt(c["pats"])))


def rules_txt(rules):
    # no "." after the closing brace: SimpleR2R::load_rules stops at the first rule otherwise
    return "".join("{ %s } => { %s }\n" % (pats_txt(r["prem"]), pats_txt([r["concl"]])) for r in rules)


def driver_case(c, seeds):
    ids = {}
    evs = []
    for s, p, o, ts in c["evs"]:
        k = (s, p, o)
        ids.setdefault(k, len(ids) + 1)
        evs.append({"nt": "%s %s %s ." % (iri(s), iri(p), iri(o)), "id": ids[k], "ts": ts})
    dc = {"w": c["w"], "s": c["s"], "query": query_txt(c), "rules": rules_txt(c["rules"]), "stream": c.get("stream"),
          "stop": bool(c.get("stop")), "seeds": seeds, "evs": evs}
    if c.get("lag_from") is not None:
        dc["lag_from"] = c["lag_from"]
    return (dc, {v: k for k, v in ids.items()})


def coq_term(t, vars_):
    return "V %d" % vars_.index(t[1]) if t[0] == "v" else "C %d" % TID[t[1]]


def coq_pat(p, vars_):
    return "(%s, %s, %s)" % tuple(coq_term(x, vars_) for x in p)


def coq_triple(t):
    return "(%d, %d, %d)" % (TID[t[0]], TID[t[1]], TID[t[2]])


def coq_case(c, contents, sched):
    rules = "[" + "; ".join("mkRule [%s] %s" % ("; ".join(coq_pat(p, RVARS) for p in r["prem"]), coq_pat(r["concl"], RVARS))
                            for r in c["rules"]) + "]"
    pats = "[" + "; ".join(coq_pat(p, QVARS) for p in c["pats"]) + "]"
    h = "[" + "; ".join("[" + "; ".join(coq_triple(t) for t in cont) + "]" for cont in contents) + "]"
    sc = "[" + "; ".join("true" if b else "false" for b in sched) + "]"
    return "check_case %s %s %s %s %s" % (rules, pats, OPS[c["op"]], h, sc)


def canon_impl_rows(rows):
    out = []
    for row in rows:
        out.append(sorted((QVARS.index(k), TID[v[len(E):]]) for k, v in row))
    return sorted(out)


def canon_model_rows(rows):
    return sorted(sorted((int(k), int(v)) for k, v in row) for row in rows)


# ---- statistics only (never used for a verdict): does a firing re-introduce a triple derived last time? ----------
def _match(pat, t, b):
    b = dict(b)
    for x, v in zip(pat, t):
        if x[0] == "c":
            if x[1] != v:
                return None
        elif x[1] in b:
            if b[x[1]] != v:
                return None
        else:
            b[x[1]] = v
    return b


def _bgp(pats, S):
    sols = [{}]
    for p in pats:
        sols = [b2 for b in sols for t in S for b2 in [_match(p, t, b)] if b2 is not None]
    return sols


def _derived(rules, S):
    S0, S = set(S), set(S)
    while True:
        new = set()
        for r in rules:
            for b in _bgp(r["prem"], S):
                t = tuple(b.get(x[1]) if x[0] == "v" else x[1] for x in r["concl"])
                if None not in t and t not in S:
                    new.add(t)
        if not new:
            return S - S0
        S |= new


def _cn(c):
    """rules / patterns in the (kind, name) tuple form (JSON round-trips tuples to lists)"""
    c = dict(c)
    c["pats"] = [tuple(tuple(x) for x in p) for p in c["pats"]]
    c["rules"] = [{"prem": [tuple(tuple(x) for x in p) for p in r["prem"]], "concl": tuple(tuple(x) for x in r["concl"])}
                  for r in c["rules"]]
    c["evs"] = [tuple(e) for e in c["evs"]]
    return c


# ---- generators ----------------------------------------------------------------------------------
def gen_pat(rng, vars_, preds=PRED):
    s = ("v", rng.choice(vars_)) if rng.random() < 0.85 else ("c", rng.choice(ENT))
    p = ("c", rng.choice(preds)) if rng.random() < 0.85 else ("v", rng.choice(vars_))
    o = ("v", rng.choice(vars_)) if rng.random() < 0.8 else ("c", rng.choice(OBJ))
    return (s, p, o)


def gen_rule(rng):
    n = rng.choice([1, 1, 2])
    prem = []
    for i in range(n):
        prem.append((("v", RVARS[i]), ("c", rng.choice(PRED)),
                     ("v", RVARS[i + 1]) if rng.random() < 0.7 else ("c", rng.choice(OBJ))))
    bound = [x[1] for p in prem for x in p if x[0] == "v"]
    cs = ("v", rng.choice(bound)) if rng.random() < 0.8 else ("c", rng.choice(ENT))
    co = ("v", rng.choice(bound)) if rng.random() < 0.5 else ("c", rng.choice(OBJ))
    return {"prem": prem, "concl": (cs, ("c", rng.choice(PRED)), co)}


def gen_case(rng, nmax=14):
    w = rng.choice([1, 2, 3, 4, 6, 8])
    s = rng.choice([1, 2, 3, 4, w, w])            # overlapping (s < w), tumbling (s = w) and hopping (s > w) windows
    rules = [gen_rule(rng) for _ in range(rng.choice([0, 1, 2, 3]))]
    # the window block mostly asks for predicates that rules conclude (so that derived facts are visible in the answers)
    preds = [r["concl"][1][1] for r in rules] * 2 + PRED
    c = {"w": w, "s": s, "op": rng.choice("RID"),
         "pats": [gen_pat(rng, QVARS, preds) for _ in range(rng.choice([1, 1, 2]))],
         "rules": rules,
         "stream": rng.choice([None, "s1"]), "stop": rng.random() < 0.5}
    ts, evs = 0, []
    for _ in range(rng.randint(4, nmax)):
        ts += rng.choice([0, 1, 1, 1, 2, 3])
        evs.append((rng.choice(ENT), rng.choice(PRED), rng.choice(OBJ), ts))
    c["evs"] = evs
    return c


def gen_lag_case(rng, nev):
    """a long stream (a firing at almost every event) for the lagging-worker schedule: from event `lag_from` on the
    window worker is held back until the producer has pushed every event, so several hundred firings (always more than
    200, far beyond any small queue bound) queue up behind it"""
    w = rng.choice([1, 2, 3])
    s = rng.choice([1, 1, 1, 2])
    rules = [gen_rule(rng) for _ in range(rng.choice([0, 1]))]
    preds = [r["concl"][1][1] for r in rules] + PRED
    c = {"w": w, "s": s, "op": rng.choice("RRID"),
         "pats": [(("v", "a"), ("c", rng.choice(preds)) if rng.random() < 0.5 else ("v", "b"), ("v", "c"))],
         "rules": rules, "stream": rng.choice([None, "s1"]), "stop": rng.random() < 0.5,
         "lag_from": rng.choice([0, 0, nev // 4])}
    ts, evs = 0, []
    for _ in range(nev):
        ts += rng.choice([1, 1, 1, 2]) if s == 1 else 2          # a window closes at (almost) every event
        evs.append((rng.choice(ENT), rng.choice(PRED), rng.choice(OBJ), ts))
    c["evs"] = evs
    return c


def exhaustive_cases(nmax):
    """every stream of <= nmax events over three triples (a raw premise, the fact the rule derives from it, another
    premise) with gaps 1..2, for two window shapes, with and without the rule, for the three stream operators"""
    U = [("e0", "p0", "e1"), ("e0", "p1", "e2"), ("e1", "p0", "e1")]
    rule = {"prem": [(("v", "x"), ("c", "p0"), ("v", "y"))], "concl": (("v", "x"), ("c", "p1"), ("c", "e2"))}
    pats = [(("v", "a"), ("c", "p1"), ("v", "b"))]
    out = []
    for n in range(1, nmax + 1):
        for items in itertools.product(U, repeat=n):
            for gaps in itertools.product([1, 2], repeat=n):
                ts, evs = 0, []
                for it, g in zip(items, gaps):
                    ts += g
                    evs.append(it + (ts,))
                for (w, s) in ((2, 2), (3, 1)):
                    for rules in ([], [rule]):
                        for op in "RID":
                            out.append({"w": w, "s": s, "op": op, "pats": pats, "rules": rules, "stream": None,
                                        "stop": True, "evs": evs})
    return out


def load_corpus():
    out = []
    for fn in sorted(glob.glob(os.path.join(vf.VERIF, "corpus", "C10", "*.json"))):
        d = json.load(open(fn))
        for c in (d if isinstance(d, list) else [d]):
            out.append(_cn(c.get("case", c)))
    return out


def make_sched(rng, n):
    acts = [True] * n + [False] * n
    rng.shuffle(acts)
    return acts + [False] * n


# ---- the check -------------------------------------------------------------------------------------
def infra(msg):
    print("[C10] infrastructure error (not a verdict): %s" % msg)
    sys.exit(2)


def run_impl_robust(ctx, binpath, dcs):
    """ctx.run_impl with ONE re-run: a driver shard that was killed from outside (out-of-memory killer) is re-run once;
    when the driver itself crashed (abort, segfault) only the first unanswered case of the shard is the culprit (reported
    as behaviour), the cases after it are re-run.  A shard that ran into the framework's time limit is never re-run, and
    a driver that reports a run blocked inside the engine ends the check: both are infrastructure errors (exit 2)."""
    KILL = (-9, 137, -15, 143)
    TIMEOUT = (124,)
    res = ctx.run_impl(binpath, dcs)

    def died(r):
        return isinstance(r, dict) and r.get("driver_died")
    if any(died(r) and r.get("rc") in TIMEOUT for r in res):
        infra("a driver shard ran into the time limit")
    confirmed = set()
    for attempt in range(2):
        dead = [i for i, r in enumerate(res) if died(r) and i not in confirmed]
        if not dead:
            break
        rerun = []
        for i in dead:
            first_of_group = (i - 1) not in dead
            if first_of_group and res[i].get("rc") not in KILL:
                confirmed.add(i)
            else:
                rerun.append(i)
        if not rerun or attempt == 1:
            break
        again = ctx.run_impl(binpath, [dcs[i] for i in rerun])
        for i, r in zip(rerun, again):
            res[i] = r
    if any(died(r) and (r.get("rc") in KILL + TIMEOUT) for r in res):
        infra("the driver process was killed from outside again after one re-run (machine overloaded?)")
    blocked = [r for r in res if isinstance(r, dict) and r.get("blocked")]
    if blocked:
        infra("a run did not come back from the engine within its deadline (%s); the remaining cases of that driver process "
              "were not run" % blocked[0].get("where"))
    return res


def run_model_robust(ctx, sub, reqs, exprs):
    """ctx.run_model, re-running (twice at most) the expressions whose coqc shard was killed (out-of-memory killer on a
    loaded machine) or timed out; if that keeps happening it is an infrastructure error, never a verdict"""
    def killed(r):
        return (isinstance(r, tuple) and len(r) == 2 and r[0] == "ERROR" and
                any(k in str(r[1]) for k in ("rc=-9", "rc=137", "rc=-15", "rc=143", "rc=124", "[timeout", "Killed", "Out of memory")))
    res = ctx.run_model(sub, reqs, exprs, preamble="Open Scope N_scope.")
    for _ in range(2):
        bad = [i for i, r in enumerate(res) if killed(r)]
        if not bad:
            break
        again = ctx.run_model(sub, reqs, [exprs[i] for i in bad], preamble="Open Scope N_scope.")
        for i, r in zip(bad, again):
            res[i] = r
    if any(killed(r) for r in res):
        infra("the coqc process evaluating the model was killed or timed out repeatedly (machine overloaded?)")
    return res


def evaluate(ctx, binpath, cases, stream, nseeds):
    cases = [_cn(c) for c in cases]
    dcs, idmaps = [], []
    for i, c in enumerate(cases):
        seeds = [0] + [1 + ((ctx.seed * 1000003 + i * 8191 + k * 131) % (2 ** 31)) for k in range(nseeds - 1)] if nseeds else []
        dc, idmap = driver_case(c, seeds)
        dcs.append(dc)
        idmaps.append(idmap)
    impl = run_impl_robust(ctx, binpath, dcs)
    exprs, contents_all = [], []
    for c, im, idmap in zip(cases, impl, idmaps):
        if not im or "contents" not in im:
            contents_all.append(None)
            exprs.append("check_case [] [] RSTREAM [] []")
            continue
        contents = [[idmap[i] for i in ids] for _, ids in im["contents"]]
        contents_all.append(contents)
        exprs.append(coq_case(c, contents, make_sched(ctx.rng, len(contents))))
    model = run_model_robust(ctx, "Rsp10", ["KV.Rsp10.Model", "KV.Rsp10.Eval", "KV.Rsp10.Spec", "KV.Rsp10.Run"], exprs)
    st = {"cases": len(cases), "firings": 0, "empty_emissions": 0, "mt_runs": 0, "evictions": 0, "rederived_raw": 0,
          "impl_model_mismatches": 0, "spec_violations": 0}
    for c, im, mo, contents in zip(cases, impl, model, contents_all):
        ctx.count()
        if im is None or im.get("driver_died"):
            ctx.violation(c, {"what": "the driver process died while running this case", "impl": im})
            st["spec_violations"] += 1
            continue
        if "build_error" in im:
            ctx.broken("correspondence", stream, "the engine rejected a generated query: %s" % im["build_error"], c)
            continue
        if "panic" in im:
            ctx.violation(c, {"what": "the engine panicked (%s)" % im.get("where"), "panic": im["panic"]})
            st["spec_violations"] += 1
            continue
        if isinstance(mo, tuple) and mo and mo[0] == "ERROR":
            ctx.broken("correspondence", stream, "model evaluation failed: %s" % (mo[1],), c)
            continue
        m_emits, s_emits, closed, (mt_emits, (mt_pend, mt_q)) = mo
        m_emits = [canon_model_rows(r) for r in m_emits]
        s_emits = [canon_model_rows(r) for r in s_emits]
        mt_emits = [canon_model_rows(r) for r in mt_emits]
        if not closed:
            infra("the fuel of infer_c was not sufficient for case %r" % (c,))
        if m_emits != s_emits:
            ctx.broken("proof", "model-vs-spec", "the model's emissions differ from the specification's (contradicts C10_emits)",
                       {"case": c, "model": m_emits, "spec": s_emits})
        if mt_emits != m_emits or mt_pend or mt_q:
            ctx.broken("proof", "mt-model-vs-st-model", "the drained multi-thread transition system differs from the single-thread run",
                       {"case": c, "mt": mt_emits, "st": m_emits})
        # --- single-thread implementation: rows grouped by the call that produced them
        fire_keys = [k for k, _ in im["contents"]]
        by_call = {}
        for k, rows in im["st"]:
            by_call.setdefault(k, []).extend(rows)
        i_emits = [canon_impl_rows(by_call.get(k, [])) for k in fire_keys]
        stray = [k for k, rows in im["st"] if rows and k not in fire_keys]
        detail = None
        if stray:
            detail = {"what": "single-thread mode emitted rows at a call where the window did not fire", "calls": stray}
        elif i_emits != s_emits:
            k = next(i for i in range(len(s_emits)) if i_emits[i] != s_emits[i])
            detail = {"what": "single-thread mode: the rows emitted at firing %d are not the specified ones" % k, "firing": k,
                      "content": contents[k], "previous_content": contents[k - 1] if k else None,
                      "implementation": i_emits[k], "spec": s_emits[k]}
        # --- multi-thread implementation under each schedule seed
        for run in im["mt"]:
            st["mt_runs"] += 1
            if run.get("lag_from") is not None:
                st["lag_runs"] = st.get("lag_runs", 0) + 1
                st["max_queued_at_release"] = max(st.get("max_queued_at_release", 0), run.get("queued_at_release", 0))
                st["min_queued_at_release"] = min(st.get("min_queued_at_release", 10 ** 9), run.get("queued_at_release", 0))
                st["holds_released_by_watchdog"] = st.get("holds_released_by_watchdog", 0) + (1 if run.get("hold_released_by_watchdog") else 0)
            if run.get("timeout") and not run.get("worker_panicked"):
                infra("quiescence of the window worker could not be established within the timeout (seed %s, case %r)" % (run["seed"], c))
            r_emits = [canon_impl_rows(r) for r in run["firings"]]
            if detail is None and (run.get("worker_panicked") or run["late"] or run["processed"] != len(s_emits) or r_emits != s_emits):
                k = next((i for i in range(min(len(s_emits), len(r_emits))) if r_emits[i] != s_emits[i]), None)
                detail = {"what": "multi-thread mode (schedule seed %d): the emission sequence differs from the specified one" % run["seed"],
                          "seed": run["seed"], "firing": k, "processed": run["processed"], "expected_firings": len(s_emits),
                          "worker_held_back_from_event": run.get("lag_from"), "firings_queued_when_released": run.get("queued_at_release"),
                          "worker_panicked": run.get("worker_panicked"), "late_rows": run["late"],
                          "implementation": r_emits[k] if k is not None else r_emits, "spec": s_emits[k] if k is not None else s_emits}
        if detail is not None:
            st["spec_violations"] += 1
            ctx.violation(c, detail)
        elif i_emits != m_emits:
            st["impl_model_mismatches"] += 1
            ctx.broken("correspondence", stream, "implementation and model differ but the Spec accepts the implementation",
                       {"case": c, "impl": i_emits, "model": m_emits})
        # --- statistics and non-triviality
        st["firings"] += len(contents)
        st["empty_emissions"] += sum(1 for e in i_emits if not e)
        evict = sum(1 for a, b in zip(contents, contents[1:]) if set(a) - set(b))
        st["evictions"] += evict
        if c["rules"]:
            for a, b in zip(contents, contents[1:]):
                if _derived(c["rules"], a) & set(b):
                    st["rederived_raw"] += 1
        if len(contents) >= 2 and any(i_emits) and evict:
            ctx.nontrivial(json.dumps(c, sort_keys=True, default=list))
        st["op_" + c["op"]] = st.get("op_" + c["op"], 0) + 1
        st["rules_%d" % len(c["rules"])] = st.get("rules_%d" % len(c["rules"]), 0) + 1
    ctx.stream(stream, **st)


TRUSTED = [
    "Coq 8.16.1 kernel; vm_compute for running the model and the specification in the correspondence check",
    "hand-written Gallina model coq/Rsp10/Model.v of create_window_processor!, SimpleR2R::{add,remove,materialize}, "
    "Relation2StreamOperator::eval and of the channel/worker pipeline of register_window!(MultiThread)",
    "the store is modelled as a duplicate-free list of triples (its own correctness is property C04); the reasoner and the "
    "plan executor are parameters of the theorems, instantiated for the check by coq/Rsp10/Eval.v (positive rules, basic graph "
    "patterns) and validated against the real reasoner/executor by the correspondence runs",
    "window contents are taken from a probe CSPARQLWindow with the same parameters (the window operator is property C09)",
    "correspondence check: harness/src/bin/c10.rs (public API + add-only kolibrie_verif hooks in rsp_engine.rs), "
    "checks/c10.py generators and canonicalisation",
    "runtime facts not provable in the model (exercised by hook-perturbed runs only): std::sync::mpsc is FIFO, the detached "
    "worker thread is scheduled, the mutex around the store serialises firings",
]
ASSUMPTIONS = [
    "in-order streams; ReportStrategy::OnWindowClose with Tick::TimeDriven (what RSPBuilder builds by default)",
    "hybrid probabilistic materialisation and cross-window SDS+ reasoning are switched off (single deterministic window)",
    "rules are positive, without filters, safe (every conclusion variable occurs in the premise)",
    "hash-map iteration order is unobservable after sorting the rows of one firing",
]


def finish(ctx):
    ctx.finish(level="proof", rule=PROP_RULE, trusted_base=TRUSTED, assumptions=ASSUMPTIONS,
               extra={"partial": ["C10_sched is a theorem about the transition-system model of the worker pipeline; that the "
                                  "real mpsc channel is FIFO, that the detached worker runs and that the mutex serialises "
                                  "firings are runtime facts exercised by seeded schedule perturbations, not proved"]})


def run(ctx):
    ctx.coq("Rsp10", "C10.v")
    binpath = ctx.harness("c10")
    nseeds = 64 if ctx.thorough else 8
    corpus = load_corpus()
    if corpus:
        evaluate(ctx, binpath, corpus, "corpus", nseeds)
    nmax = 4 if ctx.thorough else 3
    ex = exhaustive_cases(nmax)
    ctx.sample(ex[len(ex) // 3])
    evaluate(ctx, binpath, ex, "exhaustive_le%d" % nmax, 2)
    ctx.coverage["exhaustive"] = True
    ctx.coverage["exhaustive_scope"] = ("all %d cases: streams of <= %d events over 3 triples (a premise, the fact the rule derives "
                                        "from it, a second premise) with gaps 1..2 x (RANGE,STEP) in {(2,2),(3,1)} x {no rule, one rule} "
                                        "x {R,I,D}STREAM, single-thread + 2 multi-thread runs each" % (len(ex), nmax))
    n = 3000 if ctx.thorough else 320
    rnd = [gen_case(ctx.rng) for _ in range(n)]
    ctx.sample(rnd[0])
    evaluate(ctx, binpath, rnd, "random", nseeds)
    lng = [gen_case(ctx.rng, nmax=40) for _ in range(n // 8)]
    evaluate(ctx, binpath, lng, "random_long", nseeds)
    # lagging worker: several hundred firings queue up behind a held worker, then are worked off; same sequence required
    nlag = 120 if ctx.thorough else 16
    lag = [gen_lag_case(ctx.rng, ctx.rng.randint(340, 480)) for _ in range(nlag)]
    ctx.sample({k: (v if k != "evs" else v[:6] + ["... %d events" % len(v)]) for k, v in lag[0].items()})
    evaluate(ctx, binpath, lag, "lagging_worker", 3 if ctx.thorough else 2)
    finish(ctx)


def replay(ctx):
    binpath = ctx.harness("c10")
    c = ctx.replay.get("case")
    if not c or "evs" not in c:
        b = (ctx.replay.get("broken") or [{}])[0].get("case") or {}
        c = b.get("case", b)
    if not c or "evs" not in c:
        ctx.coq("Rsp10", "C10.v")
        finish(ctx)
    evaluate(ctx, binpath, [c], "replay", 64 if ctx.thorough else 8)
    finish(ctx)
