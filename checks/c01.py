"""C01 - SELECT answers equal the SPARQL algebra over the stored dataset (DESIGN.md section 7, C01).

Theorems: coq/Sparql/C01.v.  Spec: coq/Sparql/Algebra.v (`answer_full`), evaluated in Coq for every case of the
quick tier; its Python transliteration (checks/c01_lib.py) is used while generating (to keep answers mostly
non-empty and inside the fragment) and is compared with the Coq Spec on every case the Coq Spec is run on.
Model: coq/Sparql/{Lowering,Engine}.v, compared with the implementation's logical plan and with the solution
sequence the implementation's own physical plan produces.
"""
import json
import os

import c01_lib as L
import vf

PROP_RULE = ("a case is (dataset, SELECT text); datasets: default graph + 0-3 named graphs (empty graphs, shared triples) over "
             "5 subjects x 3 predicates x {IRIs, integers, strings}; queries: syntax trees of depth <= 4 over BGP / group / UNION / "
             "GRAPH iri|var / FILTER / BIND(CONCAT) / VALUES+UNDEF / sub-select / DISTINCT / ORDER BY / LIMIT / GROUP BY + "
             "SUM MIN MAX AVG / FROM / FROM NAMED, printed with random whitespace, comments and keyword case. "
             "non-trivial = the algebra's answer is non-empty and the query has at least two pattern operators; distinct by "
             "(dataset, syntax tree).")

REQ = ["KV.Sparql.Base", "KV.Sparql.Syntax", "KV.Sparql.Algebra", "KV.Sparql.Engine", "KV.Sparql.Run"]
CLASS_CODE = {1: "subselect-in-graph-var", 2: "undef-filter-sibling"}
PRE = "Open Scope string_scope."

FINDINGS = {
    "subselect-in-graph-var": "C01-subselect-in-graph-var",
    "undef-filter-sibling": "C01-undef-filter-sibling",
}


def run_model_retry(ctx, exprs, requires=None, tries=3):
    """ctx.run_model, re-running (in smaller shards) the expressions of a shard that was killed or timed out:
    an out-of-memory kill of coqc on a loaded machine is an infrastructure failure, not a verdict."""
    res = ctx.run_model("Sparql", requires or REQ, exprs, preamble=PRE)
    for attempt in range(tries):
        bad = [i for i, r in enumerate(res) if isinstance(r, tuple) and r and r[0] == "ERROR"]
        if not bad:
            break
        ctx.log("re-running %d Coq evaluations whose shard failed (attempt %d)" % (len(bad), attempt + 1))
        again = ctx.run_model("Sparql", requires or REQ, [exprs[i] for i in bad], preamble=PRE, chunk=max(1, len(bad) // (4 * (attempt + 1)) or 1))
        for i, r in zip(bad, again):
            res[i] = r
    return res


def n_ops(q):
    n = [0]

    def walk(e):
        n[0] += 1
        if e[0] in ("group", "union"):
            for x in e[1]:
                walk(x)
        elif e[0] == "graph":
            walk(e[2])
        elif e[0] == "sub":
            walk(e[1]["where"])
    walk(q["where"])
    return n[0]


def gen_cases(ctx, n, noise=True):
    rng = ctx.rng
    cases, skipped, ops = [], {}, {}
    while len(cases) < n:
        if rng.random() < 0.08:
            # GRAPH operators with different graph terms over bodies without triple patterns (graph-existence patterns)
            ds, q = L.gen_scanfree_graphs(rng)
            ops["scanfree_graph_family"] = ops.get("scanfree_graph_family", 0) + 1
            cases.append({"ds": ds, "q": q, "query": L.print_query(q, rng, noise), "pyspec": L.spec_answer(ds, q)})
            continue
        if rng.random() < 0.05:
            # DISTINCT + ORDER BY over a strict subset of the projection, duplicates interleaved within the ties (seeded C02r2/3)
            ds, q = L.gen_distinct_order(rng)
            ops["distinct_order_subset_family"] = ops.get("distinct_order_subset_family", 0) + 1
            cases.append({"ds": ds, "q": q, "query": L.print_query(q, rng, noise), "pyspec": L.spec_answer(ds, q)})
            continue
        if rng.random() < 0.05:
            # the shapes of the repaired BIND findings (target bound by a sibling, argument unbound in some rows)
            ds, q = L.gen_bind_sibling(rng)
            ops["bind_sibling_family"] = ops.get("bind_sibling_family", 0) + 1
            cases.append({"ds": ds, "q": q, "query": L.print_query(q, rng, noise), "pyspec": L.spec_answer(ds, q)})
            continue
        ds = L.gen_dataset(rng)
        g = L.Gen(rng, ds)
        q = g.query()
        why = L.in_fragment(ds, q)
        if why:
            k = "outside-fragment: " + why.split("?")[0].strip()
            skipped[k] = skipped.get(k, 0) + 1
            continue
        spec = L.spec_answer(ds, q)
        if not spec["full"] and rng.random() < 0.8:
            skipped["empty-answer (thinned)"] = skipped.get("empty-answer (thinned)", 0) + 1
            continue
        for k, v in g.ops.items():
            ops[k] = ops.get(k, 0) + v
        cases.append({"ds": ds, "q": q, "query": L.print_query(q, rng, noise), "pyspec": spec})
    return cases, skipped, ops


def evaluate(ctx, binpath, cases, stream, coq=True, known_ok=None, env=None):
    """Runs the implementation, the Coq Spec (and checks the Python transliteration against it) and compares."""
    impl = ctx.run_impl(binpath, [{"ds": c["ds"], "query": c["query"], "plan": bool(coq)} for c in cases], env=env)
    coqv = [None] * len(cases)
    if coq:
        exprs = []
        for c, im in zip(cases, impl):
            ds, qq = L.cdataset(c["ds"]), L.cquery(c["q"])
            c["model"] = None
            try:
                lg, ph = L.jlop(im["logical"]), L.jpop(im["physical"])
                exprs.append("(spec_run %s %s, (classify_run %s, coverage_run %s %s, syntactic_run %s %s), Some (plan_run %s %s %s, model_pattern_run %s %s %s))" % (ds, qq, qq, ds, qq, ds, qq, qq, lg, ph, ds, qq, ph))
            except (KeyError, TypeError, L.Unsupported) as ex:
                c["model"] = "no plan to model: %s" % (ex,)
                exprs.append("(spec_run %s %s, (classify_run %s, coverage_run %s %s, syntactic_run %s %s), @None ((bool * bool) * list mu))" % (ds, qq, qq, ds, qq, ds, qq))
        ctx.log("%s: implementation done, evaluating %d cases in Coq" % (stream, len(exprs)))
        coqv = run_model_retry(ctx, exprs)
        ctx.log("%s: Coq evaluation done" % stream)
    st = {"cases": len(cases), "empty_answers": 0, "spec_violations": 0, "in_known_class": 0, "known_class_disagreements": 0,
          "entry_points_disagree": 0, "rejected_by_parser": 0, "python_vs_coq_spec_mismatch": 0, "rows_total": 0}
    for c, im, cv in zip(cases, impl, coqv):
        ctx.count()
        q = c["q"]
        spec = c.get("pyspec") or L.spec_answer(c["ds"], q)
        if coq:
            if isinstance(cv, tuple) and cv and cv[0] == "ERROR":
                ctx.broken("correspondence", stream, "Coq Spec evaluation failed: %s" % (cv[1],), {"query": c["query"]})
                continue
            cspec = L.from_coq_answer(cv[:2])        # Coq prints ((cols, rows), x, opt) as the flat tuple (cols, rows, x, opt)
            ccodes, cws, (cfrag, cagree), (cnoerr, ctyped) = cv[2]
            c["syntactic"] = bool(cfrag and cnoerr and ctyped)
            if c["syntactic"] and not cagree:
                ctx.broken("correspondence", stream + ":classifier", "a case satisfies the syntactic hypotheses of C01_pattern_syntactic but not `agree` (contradicts C01_agree_syntactic)",
                           {"q": c["q"], "query": c["query"]})
            c["coq_classes"] = (set(CLASS_CODE[k] for k in ccodes), cws)
            c["in_theorem"] = bool(cfrag and cagree)
            cv = (None, cv[3])
            st["model_cases"] = st.get("model_cases", 0)
            if cv[1] is None:
                if "rows" in im.get("query", {}):
                    ctx.broken("correspondence", stream + ":model", "the implementation answered but its plans cannot be rendered in the model: %s" % c.get("model"),
                               {"query": c["query"], "logical": im.get("logical"), "physical": im.get("physical")})
            else:
                lower_ok, impl_ok, mrows = cv[1][1]
                st["model_cases"] += 1
                if not lower_ok:
                    ctx.broken("correspondence", stream + ":lowering", "coq/Sparql/Lowering.v does not reproduce the implementation's logical plan",
                               {"ds": c["ds"], "q": c["q"], "query": c["query"], "impl_logical": im.get("logical")})
                if not impl_ok:
                    ctx.broken("correspondence", stream + ":implements", "the optimizer emitted a physical plan outside the `implements` relation (coq/Sparql/PlanEquiv.v)",
                               {"ds": c["ds"], "q": c["q"], "query": c["query"], "impl_logical": im.get("logical"), "impl_physical": im.get("physical")})
                if "pattern_rows" in im and not L.mus_equal(L.from_coq_mus(mrows), L.canon_impl_mus(im["pattern_rows"])):
                    st["impl_model_mismatches"] = st.get("impl_model_mismatches", 0) + 1
                    c["model_mismatch"] = {"model": L.from_coq_mus(mrows)[:30], "impl": L.canon_impl_mus(im["pattern_rows"])[:30]}
            # without ORDER BY the sequence order carries no meaning, and ties may come out in any order: multisets
            if cspec["cols"] != spec["cols"] or sorted(cspec["full"]) != sorted(spec["full"]):
                st["python_vs_coq_spec_mismatch"] += 1
                ctx.broken("correspondence", stream + ":python-transliteration",
                           "the Python transliteration of the Spec disagrees with coq/Sparql/Algebra.v",
                           {"ds": c["ds"], "q": q, "coq": cspec, "python": {"cols": spec["cols"], "full": spec["full"]}})
                spec = dict(spec, cols=cspec["cols"], full=cspec["full"])      # the Coq Spec decides
        if not spec["full"]:
            st["empty_answers"] += 1
        st["rows_total"] += len(spec["full"])
        classes, wellscoped = L.classify(q)
        if coq and "coq_classes" in c:
            if c["coq_classes"] != (classes, wellscoped):
                ctx.broken("correspondence", stream + ":classifier", "the Python classifier of the known classes disagrees with coq/Sparql/Classes.v",
                           {"q": q, "query": c["query"], "coq": [sorted(c["coq_classes"][0]), c["coq_classes"][1]], "python": [sorted(classes), wellscoped]})
                classes, wellscoped = c["coq_classes"]          # the Coq classifier decides
            if c.get("syntactic"):
                st["inside_hypotheses_of_C01_pattern_syntactic"] = st.get("inside_hypotheses_of_C01_pattern_syntactic", 0) + 1
            if c.get("in_theorem"):
                st["inside_hypotheses_of_C01_pattern"] = st.get("inside_hypotheses_of_C01_pattern", 0) + 1
                if classes & {"subselect-in-graph-var", "undef-filter-sibling"}:
                    ctx.broken("correspondence", stream + ":classifier", "a case inside a scoping class satisfies the hypotheses of C01_pattern",
                               {"q": q, "query": c["query"], "classes": sorted(classes)})
        if not wellscoped:
            st["not_wellscoped_skipped"] = st.get("not_wellscoped_skipped", 0) + 1   # outside the property's quantifier
            continue
        r = im.get("query", {}) if isinstance(im, dict) else {}
        case_out = {"ds": c["ds"], "q": q, "query": c["query"]}
        if "rows" not in r:
            if "err" in r and "syntax" in r["err"].lower():
                st["rejected_by_parser"] += 1      # a C16 matter: the query never reached the evaluator
                continue
            ctx.violation(case_out, {"what": "the implementation did not answer a query of the fragment", "impl": im})
            st["spec_violations"] += 1
            continue
        bad = L.check_answer(q, spec, r["rows"])
        v = im.get("volcano", {})
        bad2 = L.check_answer(q, spec, v["rows"]) if "rows" in v else "no rows from execute_query_rayon_parallel2_volcano: %r" % (v,)
        if (bad is None) != (bad2 is None):
            st["entry_points_disagree"] += 1
        if classes:
            if c.get("model_mismatch"):
                ctx.broken("correspondence", stream + ":engine", "implementation and model (coq/Sparql/Engine.v) produce different solutions for the same physical plan (case inside a known class)",
                           dict(case_out, physical=im.get("physical"), **c["model_mismatch"]))
            st["in_known_class"] += 1
            if bad or bad2:
                st["known_class_disagreements"] += 1
                if known_ok is not None:
                    for k in classes:
                        known_ok.setdefault(k, []).append(c)
            continue
        if bad or bad2:
            st["spec_violations"] += 1
            ctx.violation(case_out, {"what": bad or bad2, "entry_point": "execute_sparql_query" if bad else "execute_query_rayon_parallel2_volcano",
                                     "implementation_rows": (r["rows"] if bad else v.get("rows"))[:40],
                                     "spec_columns": spec["cols"], "spec_rows_before_limit": spec["full"][:40],
                                     "limit": q["limit"], "physical_plan": im.get("physical")})
            continue
        if c.get("model_mismatch"):
            ctx.broken("correspondence", stream + ":engine", "implementation and model (coq/Sparql/Engine.v) produce different solutions for the same physical plan, but the Spec accepts the implementation's answer",
                       dict(case_out, physical=im.get("physical"), **c["model_mismatch"]))
        if spec["full"] and n_ops(q) >= 2:
            ctx.nontrivial((json.dumps(c["ds"], sort_keys=True), json.dumps(q, sort_keys=True)))
    ctx.stream(stream, **st)
    return impl


def load_corpus():
    d = os.path.join(vf.VERIF, "corpus", "C01")
    out = []
    if os.path.isdir(d):
        for fn in sorted(os.listdir(d)):
            if fn.endswith(".json"):
                c = json.load(open(os.path.join(d, fn)))
                c["name"] = fn
                out.append(c)
    return out


def replay_known(ctx, binpath):
    """Replays the witness of every open known finding; prints KNOWN-FINDING when it still contradicts the Spec."""
    for k in ctx.known_findings():
        w = k["witness"]
        q, ds = w["q"], w["ds"]
        text = L.print_query(q, None, False)
        im = ctx.run_impl(binpath, [{"ds": ds, "query": text, "plan": False}])[0]
        cv = run_model_retry(ctx, ["spec_run %s %s" % (L.cdataset(ds), L.cquery(q))])[0]
        ctx.count()
        if isinstance(cv, tuple) and cv and cv[0] == "ERROR":
            ctx.broken("correspondence", "known-finding-replay", "Coq Spec evaluation failed on the witness of %s: %s" % (k["id"], cv[1]))
            continue
        spec = L.from_coq_answer(cv)
        rows = im.get("query", {}).get("rows")
        bad = "no rows" if rows is None else L.check_answer(q, spec, rows)
        cls, _ = L.classify(q)
        if k["id"] not in [FINDINGS.get(x) for x in cls]:
            ctx.broken("correspondence", "known-finding-replay", "the witness of %s is not inside its own class" % k["id"], w)
        if bad:
            ctx.known(k["id"], "%s -- %s: implementation %d rows, algebra %d rows" % (k["what"], text, len(rows or []), len(spec["full"])))
        else:
            ctx.log("known finding %s no longer reproduces (witness answered as the algebra requires)" % k["id"])


def run(ctx):
    ctx.coq("Sparql", "C01.v")
    binpath = ctx.harness("c01")
    replay_known(ctx, binpath)
    corpus = load_corpus()
    if corpus:
        evaluate(ctx, binpath, corpus, "corpus")
    n = 5000 if ctx.thorough else 500
    cases, skipped, ops = gen_cases(ctx, n)
    for c in cases[:3]:
        ctx.sample({"query": c["query"], "dataset": c["ds"], "answer_rows": len(c["pyspec"]["full"])})
    known_seen = {}
    evaluate(ctx, binpath, cases, "random", coq=True, known_ok=known_seen)
    # wide joins under small thread pools: the parallel bind join (execute_bind_join) splits a left input of a prime number
    # of rows; both entry points go through it.  The Spec side of these big cases is the Python transliteration only
    # (validated against the Coq Spec on every case of the streams above).
    for threads in (2, 4):
        wide = []
        for _ in range(6 if ctx.thorough else 2):
            ds, q, nrows = L.gen_prime_wide(ctx.rng, threads)
            wide.append({"ds": ds, "q": q, "query": L.print_query(q, ctx.rng, True), "pyspec": L.spec_answer(ds, q)})
        evaluate(ctx, binpath, wide, "wide_prime_left_rows_threads_%d" % threads, coq=False, env={"RAYON_NUM_THREADS": str(threads)})
        ctx.stream("wide_prime_left_rows_threads_%d" % threads, spec="python transliteration only (big cases)",
                   left_rows=[len(c["ds"]["default"]) for c in wide])
    sizes = sorted(len(c["pyspec"]["full"]) for c in cases)
    ctx.stream("random", operator_counts=ops, generator_rejections=skipped,
               result_size_median=sizes[len(sizes) // 2], result_size_max=sizes[-1],
               known_classes_hit={k: len(v) for k, v in known_seen.items()})
    ctx.finish(
        level="proof", rule=PROP_RULE,
        trusted_base=[
            "Coq 8.16.1 kernel; vm_compute for running the Spec and the model",
            "hand-written Gallina model coq/Sparql/{Lowering,Engine}.v of utils.rs / engine.rs / execute_query.rs::finalize_select",
            "correspondence check: harness/src/bin/c01.rs (public API only), checks/c01.py + c01_lib.py (generators, printer, comparison of observables)",
            "terms are their lexical strings (the dictionary is an injective map, C15); f64 modelled by Z on the generated integers; cells compared exactly, top-level AVG cells as numbers within 1e-9",
        ],
        assumptions=[
            "supported fragment as generated: ORDER BY keys are projected and range over homogeneous columns (all integers, or all IRIs, or all non-numeric strings); "
            "ordering comparisons and aggregates see integers only; a LIMIT inside a sub-select comes with an ORDER BY over all its projected variables; "
            "AVG only at the top level; dataset clauses name catalogued graphs",
            "queries the parser rejects are not C01's (counted per stream as rejected_by_parser)",
            "NOT proved, covered by the correspondence with the executable Spec only (the _partial list of coq/Sparql/C01.v): "
            "(p1) sub-selects with LIMIT as part of C01_pattern (component theorems C01_cut_determined / C01_cut_is_algebra hold under conditions on the "
            "solutions), sub-selects that aggregate outside the legal shape (group keys + aggregate aliases projected), LIMIT together with aggregates at "
            "top level, the decimal rendering of AVG (compared numerically, 1e-9, top level only); "
            "(p2) FILTER / BIND inside GRAPH ?g that mention ?g while the group's own pattern binds ?g; "
            "(p3) single-element groups nested twice or more around a lone BIND; "
            "(p4) ORDER BY keys over columns that mix numbers with other terms or are partly unbound (comparator assumed transitive on the "
            "solutions at hand), ordering comparisons on non-integers, aggregated variables with non-integer values.  Per stream, "
            "inside_hypotheses_of_C01_pattern(_syntactic) counts the cases whose WHERE pattern is inside the hypotheses of the proved theorems.",
        ])


def replay(ctx):
    binpath = ctx.harness("c01")
    c = ctx.replay["case"]
    if "query" not in c:
        c["query"] = L.print_query(c["q"], None, False)
    evaluate(ctx, binpath, [c], "replay")
    ctx.finish(level="proof", rule=PROP_RULE)
