"""C02 - query answers do not depend on the plan the optimizer happens to choose (DESIGN.md section 7, C02).

Theorems: coq/Sparql/C02.v.  The cost model is not modelled; the model is the relation `implementsb` (coq/Sparql/PlanEquiv.v)
of plans the optimizer may emit under any statistics, and the three join executors (coq/Sparql/Engine.v).
Correspondence, per generated (dataset, query):
  - the real optimizer's plan under fresh / stale / empty / zeros / huge / big / swapped statistics: every emitted plan must
    pass `implementsb` (translation validation), the lowering model must reproduce the logical plan;
  - every plan, and the fresh plan rewritten with every assignment of {bind, hash, nested-loop} to its join nodes, is
    executed by the real engine under RAYON_NUM_THREADS in {1,2,4,16} (separate driver processes): all solution multisets
    must be equal to each other and to the Spec's (`spec_pattern_run`);
  - every permutation of every basic graph pattern (<= 4 patterns: all) must give the same solutions;
  - `execute_sparql_query` with a stale statistics cache must give the Spec's answer.
"""
import json
import re

import c01 as C1
import c01_lib as L
import vf

PROP_RULE = ("a case is (dataset split into before/update parts, SELECT text) from the C01 generator plus 'wide' cases whose "
             "intermediate results exceed the 64-row chunk of the parallel bind join; per case: 7 statistics kinds x "
             "all 3^k join-algorithm assignments (k <= 5; 81 sampled beyond) x thread-pool sizes, and the permutations of its "
             "basic graph patterns. non-trivial = the chosen plan has at least one join node and the solution multiset is "
             "non-empty; distinct by (dataset, syntax tree).")

KINDS = ["fresh", "stale", "empty", "zeros", "large", "swapped", "huge", "big"]
PLAN_DEPENDENT = {"undef-filter-sibling"}
FINDING_OF = {"undef-filter-sibling": "C02-undef-filter-plan-dependence"}
REQ = C1.REQ


def split_ds(rng, ds):
    """(before, update): statistics are gathered on `before`; `update` arrives through add_quad afterwards"""
    before = {"default": [], "named": []}
    update = {"default": [], "named": []}
    for t in ds["default"]:
        (update if rng.random() < 0.5 else before)["default"].append(t)
    for g, ts in ds["named"]:
        if rng.random() < 0.3:
            update["named"].append([g, ts])           # a graph that did not exist when the statistics were gathered
        else:
            b = [t for t in ts if rng.random() < 0.6]
            before["named"].append([g, b])
            update["named"].append([g, [t for t in ts if t not in b]])
    return before, update


def gen_wide(rng):
    """a query whose first two patterns form a (near) Cartesian product of more than 64 rows, joined further"""
    ds = L.gen_dataset(rng)
    while len(ds["default"]) < 12:
        ds = L.gen_dataset(rng)
    V, C = L.V, L.C
    p1 = [V("a"), rng.choice([V("b"), C(L.PRED[0]), C(L.PRED[1])]), V("c")]
    p2 = [V("d"), V("e"), V("f")] if p1[1][0] == "c" else [V("d"), C(rng.choice(L.PRED)), V("e")]
    third = rng.choice([
        [V("a"), C(L.PRED[2]), V("g")],
        [V("c"), V("g"), V("d")],
        [V("d"), C(L.PRED[0]), V("a")],
    ])
    elems = [["bgp", [p1, p2]]]
    r = rng.random()
    if r < 0.4:
        elems.append(["bgp", [third]])
    elif r < 0.6:
        elems.append(["union", [["group", [["bgp", [third]]]], ["group", [["values", ["g"], [[C("1")], [None]]]]]]])
    elif r < 0.8:
        elems.append(["group", [["bgp", [third]], ["filter", ["cmp", "!=", V("a"), C(L.SUBJ[0])]]]])
    else:
        elems.append(["values", ["a"], [[C(L.SUBJ[0])], [C(L.SUBJ[1])], [None]]])
        elems.append(["bgp", [third]])
    if rng.random() < 0.4:
        elems.append(["filter", ["cmp", "!=", V("a"), V("d")]])
    q = {"distinct": False, "proj": "*", "from": [], "from_named": [], "where": ["group", elems], "group_by": [], "order_by": [], "limit": None}
    return ds, q


def gen_star(rng):
    """a subject-centred star (>= 3 default-scope patterns with one subject variable), sometimes with a repeated pattern
    (the optimizer re-appends it), a tail, and a FILTER directly above the star (the Selection-over-star rewrite)"""
    ds = L.gen_dataset(rng)
    while len(ds["default"]) < 8:
        ds = L.gen_dataset(rng)
    V, C = L.V, L.C
    subj = rng.choice([t[0] for t in ds["default"]])
    mine = [t for t in ds["default"] if t[0] == subj] or ds["default"]
    pats, used = [], ["a"]
    for i in range(rng.choice([3, 3, 4, 5])):
        t = rng.choice(mine)
        o = C(t[2]) if rng.random() < 0.3 else V(rng.choice(["b", "c", "d", "e"]))
        p = C(t[1]) if rng.random() < 0.8 else V("f")
        pats.append([V("a"), p, o])
    if rng.random() < 0.3:
        pats.insert(rng.randrange(len(pats) + 1), rng.choice(pats))          # the same pattern twice
    if rng.random() < 0.5:
        pats.append([V(rng.choice(["b", "c"])), C(rng.choice(L.PRED)), V("g")])   # a tail outside the star
    rng.shuffle(pats)
    elems = [["bgp", pats]]
    if rng.random() < 0.5:
        elems.append(["filter", ["cmp", "!=", V("a"), C(rng.choice(L.SUBJ))]])
    q = {"distinct": False, "proj": "*", "from": [], "from_named": [], "where": ["group", elems], "group_by": [], "order_by": [], "limit": None}
    if rng.random() < 0.3:
        q["where"] = ["group", [["union", [["group", elems], ["group", [["values", ["a"], [[C(subj)]]]]]]]]]
    return ds, q


def pattern_solutions(ds, q):
    view = L.View(ds, q.get("from", []), q.get("from_named", []))
    rows = L.eval_elem(q["where"], view, None)
    return sorted(sorted([k, v] for k, v in mu.items()) for mu in rows)


def gen_cases(ctx, n):
    rng = ctx.rng
    cases, ops = [], {}
    while len(cases) < n:
        r0 = rng.random()
        if r0 > 0.90:
            ds, q = L.gen_scanfree_graphs(rng)
            ops["scanfree_graph_family"] = ops.get("scanfree_graph_family", 0) + 1
        elif r0 > 0.75 and r0 <= 0.82:
            # DISTINCT + ORDER BY over a strict subset of the projection: the result must not depend on the order in which the
            # plan emits the rows that tie on the key (seeded C02r2/3)
            ds, q = L.gen_distinct_order(rng)
            ops["distinct_order_subset_family"] = ops.get("distinct_order_subset_family", 0) + 1
        elif r0 > 0.82:
            # the shapes of the repaired finding C02-bind-target-plan-dependence: every join algorithm must agree now
            ds, q = L.gen_bind_sibling(rng)
            ops["bind_sibling_family"] = ops.get("bind_sibling_family", 0) + 1
        elif r0 < 0.12:
            ds, q = gen_wide(rng)
            ops["wide"] = ops.get("wide", 0) + 1
        elif r0 < 0.22:
            ds, q = gen_star(rng)
            ops["star"] = ops.get("star", 0) + 1
        else:
            ds = L.gen_dataset(rng)
            g = L.Gen(rng, ds)
            q = g.query()
            if L.in_fragment(ds, q):
                continue
            for k, v in g.ops.items():
                ops[k] = ops.get(k, 0) + v
        sols = pattern_solutions(ds, q)
        if not sols and rng.random() < 0.8:
            continue
        before, update = split_ds(rng, ds)
        cases.append({"ds": ds, "ds_before": before, "ds_update": update, "q": q, "query": L.print_query(q, rng, True),
                      "sols": sols, "kinds": KINDS, "max_assign": 81, "seed": rng.randrange(1 << 30)})
    return cases, ops


# spelling of the model's variables in the keys: `?name` (the code keeps the sigil as typed; `$name` is normalised to `?name` on
# both sides before comparing, which identifies the two spellings of one variable - a constant with that shape is read as a
# variable by the engine anyway)
NAMES = L.clist("(%s, %s)" % (L.cv(v), L.cs("?" + v)) for v in list(L.VNUM) + ["x%d" % i for i in range(10)] + ["y%d" % i for i in range(10)])
_DOLLAR = re.compile(r'(?<=["( ])\$(?=[A-Za-z0-9_])')


def norm_key(k):
    return _DOLLAR.sub("?", k)


def dict_is_injective(d):
    return len(set(x for x, _ in d)) == len(d) == len(set(i for _, i in d))


def driver_case(c):
    return {k: c[k] for k in ("ds_before", "ds_update", "query", "kinds", "max_assign", "seed")}


def plan_ops(p, acc):
    acc[p[0]] = acc.get(p[0], 0) + 1
    for x in p[1:]:
        if isinstance(x, list) and x and isinstance(x[0], str) and x[0] in ("unit", "tscan", "iscan", "union", "graph", "filter", "bj", "hj", "nl", "star", "sub", "bind", "values"):
            plan_ops(x, acc)
        elif isinstance(x, list) and x and isinstance(x[0], list):
            for y in x:
                if isinstance(y, list) and y and isinstance(y[0], str):
                    plan_ops(y, acc) if y[0] in ("unit", "tscan", "iscan", "union", "graph", "filter", "bj", "hj", "nl", "star", "sub", "bind", "values") else None
    return acc


def evaluate(ctx, binpath, cases, stream, threads, coq=True, known_seen=None):
    runs = {}
    for t in threads:
        runs[t] = ctx.run_impl(binpath, [driver_case(c) for c in cases], env={"RAYON_NUM_THREADS": str(t)})
    base = runs[threads[0]]
    coqv = [None] * len(cases)
    if coq:
        exprs = []
        for c, im in zip(cases, base):
            qq = L.cquery(c["q"])
            ds = L.cdataset(c["ds"]) if not c.get("big") else None
            spec_expr = ("spec_pattern_run %s %s" % (ds, qq)) if not c.get("big") else "(@nil mu)"
            try:
                lg = L.jlop(im["logical"])
                c["vkinds"] = [k for k in c["kinds"] if isinstance(im["plans"][k], list)]
                plans = [L.jpop(im["plans"][k]) for k in c["vkinds"]]
                dict_expr = L.clist("(%s, %d%%N)" % (L.cs(lexical), ident) for lexical, ident in im.get("dict", []))
                real_expr = L.clist(L.cs(norm_key(k)) for k in im.get("memo_keys", []))
                exprs.append("(Some (lop_eqb (lower_query (q_sel %s)) %s, %s), %s, memo_check_run %s %s %s %s)" % (
                    qq, lg, L.clist("implements_run %s %s" % (qq, p) for p in plans), spec_expr, NAMES, dict_expr, lg, real_expr))
            except (KeyError, TypeError, L.Unsupported) as ex:
                c["model"] = "no plan to validate: %s" % (ex,)
                exprs.append("(@None (bool * list bool), %s, @nil (option bool))" % spec_expr)
        ctx.log("%s: implementation done (%d thread-pool sizes), validating %d cases in Coq" % (stream, len(threads), len(exprs)))
        coqv = C1.run_model_retry(ctx, exprs, REQ + ["KV.Sparql.Lowering", "KV.Sparql.PlanEquiv"])
    st = {"cases": len(cases), "executions": 0, "rewritten_join_nodes": 0, "plans_validated": 0, "plan_dependent_known": 0,
          "violations": 0, "empty_solutions": 0, "cases_with_several_distinct_plans": 0, "star_plans": 0, "thread_pool_sizes": list(threads)}
    popc, joinhist = {}, {}
    for i, c in enumerate(cases):
        ctx.count()
        q = c["q"]
        im = base[i]
        classes, wellscoped = L.classify(q)
        case_out = {"ds": c["ds"], "ds_before": c["ds_before"], "ds_update": c["ds_update"], "q": q, "query": c["query"]}
        if not wellscoped:
            continue
        if "results" not in im:
            if "plan_err" in im and "parse" in str(im["plan_err"]):
                continue
            ctx.violation(case_out, {"what": "the driver could not plan / execute the query", "impl": im})
            st["violations"] += 1
            continue
        spec_sols = c["sols"]
        if coq:
            cv = coqv[i]
            if isinstance(cv, tuple) and cv and cv[0] == "ERROR":
                ctx.broken("correspondence", stream, "Coq evaluation failed: %s" % (cv[1],), {"query": c["query"]})
                continue
            opt, cs_rows, model_keys = cv
            # the model of create_memo_key (coq/Sparql/MemoKeyPlan.v) against the keys of the real optimizer's plan cache
            if "memo_keys" in im and dict_is_injective(im.get("dict", [])):
                for node, found in enumerate(model_keys):
                    if found is None:
                        st["memo_nodes_not_compared"] = st.get("memo_nodes_not_compared", 0) + 1
                        continue
                    st["memo_keys_compared"] = st.get("memo_keys_compared", 0) + 1
                    if not found[1]:              # Coq's `Some b` is parsed as ("Some", b)
                        ctx.broken("correspondence", stream + ":memo-key",
                                   "keyed node %d (pre-order) of the logical plan has no variant whose modelled key (coq/Sparql/MemoKeyPlan.v: plan_key) "
                                   "occurs in the real optimizer's memo: the model of serialize_logical_plan is not what the code writes" % node,
                                   dict(case_out, impl_logical=im.get("logical"), real_keys=sorted(im.get("memo_keys", []))[:40]))
                        break
            elif "memo_keys" in im:
                ctx.broken("correspondence", stream + ":memo-key", "the dictionary ids of the plan's constants are not an injective map of their lexical forms",
                           dict(case_out, dict=im.get("dict")))
            csols = L.from_coq_mus(cs_rows) if not c.get("big") else spec_sols     # big cases: Python transliteration only
            if not L.mus_equal(csols, spec_sols):
                ctx.broken("correspondence", stream + ":python-transliteration", "the Python transliteration of the Spec disagrees with coq/Sparql/Algebra.v (pattern solutions)",
                           dict(case_out, coq=csols[:20], python=spec_sols[:20]))
                spec_sols = csols
            if opt is None:
                ctx.broken("correspondence", stream + ":model", "the implementation's plans cannot be rendered in the model: %s" % c.get("model"),
                           dict(case_out, logical=im.get("logical"), plans=im.get("plans")))
            else:
                lower_ok, oks = opt[1]
                if not lower_ok:
                    ctx.broken("correspondence", stream + ":lowering", "coq/Sparql/Lowering.v does not reproduce the implementation's logical plan",
                               dict(case_out, impl_logical=im.get("logical")))
                for k, ok in zip(c["vkinds"], oks):
                    st["plans_validated"] += 1
                    if not ok:
                        ctx.broken("correspondence", stream + ":implements",
                                   "under %s statistics the optimizer emitted a plan outside the `implements` relation (coq/Sparql/PlanEquiv.v): either it learned a new rewrite or it is wrong" % k,
                                   dict(case_out, impl_logical=im.get("logical"), impl_physical=im["plans"][k], statistics=k))
        if not spec_sols:
            st["empty_solutions"] += 1
        # -- all executions, all thread-pool sizes
        distinct = []          # distinct solution multisets seen, with a description of one execution that produced each
        panics = []
        for t in threads:
            r = runs[t][i]
            if "results" not in r:
                panics.append({"threads": t, "impl": r})
                continue
            st["executions"] += r.get("n_assignments", 0) + len(r.get("plan_result", {})) + 1
            st["rewritten_join_nodes"] += r.get("rewritten_joins", 0)
            for k, idx in r.get("plan_result", {}).items():
                if not isinstance(idx, int):
                    panics.append({"threads": t, "statistics": k, "impl": idx})
            for name, msg in r.get("assignment_panics", []):
                panics.append({"threads": t, "assignment": name, "panic": msg})
            for j, rows in enumerate(r["results"]):
                who = [k for k, idx in r.get("plan_result", {}).items() if idx == j] + [a[2] for a in r.get("assignment_results", []) if a[0] == j]
                for d in distinct:
                    if L.mus_equal(d["rows"], rows):
                        break
                else:
                    distinct.append({"rows": rows, "threads": t, "produced_by": who[:4]})
        plans = im.get("plans", {})
        for k, p in plans.items():
            if isinstance(p, dict):
                msg = str(p.get("panic"))
                panics.append({"statistics": k, "optimizer_panic": msg})      # no statistics may make the optimizer panic
        if len(set(json.dumps(p) for p in plans.values())) > 1:
            st["cases_with_several_distinct_plans"] += 1
        for p in plans.values():
            if isinstance(p, list):
                plan_ops(p, popc)
        if any(isinstance(p, list) and "star" in json.dumps(p) for p in plans.values()):
            st["star_plans"] += 1
        nj = im.get("n_joins", 0)
        joinhist[min(nj, 8)] = joinhist.get(min(nj, 8), 0) + 1
        if panics:
            st["violations"] += 1
            ctx.violation(case_out, {"what": "an execution panicked or did not finish", "panics": panics[:5]})
            continue
        if len(distinct) > 1:
            if classes & PLAN_DEPENDENT:
                st["plan_dependent_known"] += 1
                if known_seen is not None:
                    for k in classes & PLAN_DEPENDENT:
                        known_seen[k] = known_seen.get(k, 0) + 1
                continue
            st["violations"] += 1
            ctx.violation(case_out, {"what": "the solution multiset depends on the plan / join algorithm / thread-pool size",
                                     "distinct_answers": [{"rows": d["rows"][:30], "n": len(d["rows"]), "threads": d["threads"], "produced_by": d["produced_by"]} for d in distinct[:4]],
                                     "fresh_plan": plans.get("fresh")})
            continue
        if not classes and distinct:
            if not L.mus_equal(distinct[0]["rows"], spec_sols):
                st["violations"] += 1
                ctx.violation(case_out, {"what": "every plan gives the same solutions, but not the algebra's", "implementation": distinct[0]["rows"][:30],
                                         "spec": spec_sols[:30], "fresh_plan": plans.get("fresh")})
                continue
            es = im.get("entry_stale", {})
            spec = L.spec_answer(c["ds"], q)
            bad = L.check_answer(q, spec, es["rows"]) if "rows" in es else "no rows: %r" % (es,)
            if bad:
                st["violations"] += 1
                ctx.violation(case_out, {"what": "execute_sparql_query with a stale statistics cache: " + bad, "implementation_rows": es.get("rows", [])[:30],
                                         "spec_rows_before_limit": spec["full"][:30]})
                continue
        if nj >= 1 and spec_sols:
            ctx.nontrivial((json.dumps(c["ds"], sort_keys=True), json.dumps(q, sort_keys=True)))
    ctx.stream(stream, physical_operator_counts=popc, join_nodes_histogram={str(k): v for k, v in sorted(joinhist.items())}, **st)
    return runs


def load_corpus(ctx):
    import os
    out = []
    for prop in ("C02", "C01"):
        d = os.path.join(vf.VERIF, "corpus", prop)
        if not os.path.isdir(d):
            continue
        for fn in sorted(os.listdir(d)):
            if fn.endswith(".json"):
                c = json.load(open(os.path.join(d, fn)))
                before, update = split_ds(ctx.rng, c["ds"])
                c.update(ds_before=before, ds_update=update, kinds=KINDS, max_assign=81, seed=7, sols=pattern_solutions(c["ds"], c["q"]))
                out.append(c)
    return out


def permutation_stream(ctx, binpath, cases, per_case, name="bgp_permutations"):
    """every permutation of each basic graph pattern gives the solutions of the original text"""
    pc = []
    for c in cases:
        perms = L.bgp_permutations(c["q"])
        if len(perms) > per_case:
            perms = ctx.rng.sample(perms, per_case)
        for q2 in perms:
            pc.append({"ds": c["ds"], "ds_before": c["ds_before"], "ds_update": c["ds_update"], "q": q2, "orig": c,
                       "query": L.print_query(q2, ctx.rng, True), "kinds": ["fresh", "empty"], "max_assign": 3, "seed": 1})
    outs = ctx.run_impl(binpath, [dict(driver_case(c), max_assign=3) for c in pc])
    n_bad = 0
    for c, im in zip(pc, outs):
        ctx.count()
        classes, wellscoped = L.classify(c["q"])
        if not wellscoped or "results" not in im:
            continue
        want = pattern_solutions(c["ds"], c["orig"]["q"])
        rows = im["results"]
        if classes:
            continue       # C01's classes: the permuted query may legitimately differ from the algebra there
        if len(rows) != 1 or not L.mus_equal(rows[0], want):
            n_bad += 1
            ctx.violation({"ds": c["ds"], "ds_before": c["ds_before"], "ds_update": c["ds_update"], "q": c["q"], "query": c["query"]},
                          {"what": "permuting the triple patterns of a basic graph pattern changed the solutions",
                           "original_query": L.print_query(c["orig"]["q"], None, False), "permuted_query": L.print_query(c["q"], None, False),
                           "implementation": [r[:20] for r in rows[:3]], "expected": want[:20]})
    ctx.stream(name, cases=len(pc), violations=n_bad)


def replay_known(ctx, binpath):
    for k in ctx.known_findings():
        w = k["witness"]
        q, ds = w["q"], w["ds"]
        c = {"ds_before": ds, "ds_update": {"default": [], "named": []}, "query": L.print_query(q, None, False), "kinds": KINDS, "max_assign": 81, "seed": 1}
        im = ctx.run_impl(binpath, [c])[0]
        ctx.count()
        n = len(im.get("results", []))
        cls, _ = L.classify(q)
        if k["id"] not in [FINDING_OF.get(x) for x in cls]:
            ctx.broken("correspondence", "known-finding-replay", "the witness of %s is not inside its own class" % k["id"], w)
        if n > 1:
            sizes = [len(r) for r in im["results"]]
            by = {a[2]: a[0] for a in im.get("assignment_results", [])}
            ctx.known(k["id"], "%s -- %s: %d different answers (row counts %s) over the join-algorithm assignments %s" % (
                k["what"], c["query"], n, sizes, by))
        else:
            ctx.log("known finding %s no longer reproduces" % k["id"])


def run(ctx):
    ctx.coq("Sparql", "C02.v")
    binpath = ctx.harness("c02")
    replay_known(ctx, binpath)
    corpus = load_corpus(ctx)
    if corpus:
        evaluate(ctx, binpath, corpus, "corpus", [1, 2, 4, 16], coq=True)
        permutation_stream(ctx, binpath, corpus, per_case=24, name="corpus_bgp_permutations")
    n = 1500 if ctx.thorough else 160
    cases, ops = gen_cases(ctx, n)
    for c in cases[:2]:
        ctx.sample({"query": c["query"], "dataset": c["ds"], "solutions": len(c["sols"])})
    threads = [1, 2, 4, 16]
    # wide joins: a bind-join left input of a PRIME number of rows, at least 64 per worker of the 2 / 4 / 16-thread pool
    # (130..1100 rows), so that the parallel bind join splits it unevenly; the Spec side of these big cases is the Python
    # transliteration only (cross-checked against the Coq Spec on every other case)
    wide = []
    for t in (2, 4, 16):
        for _ in range(6 if ctx.thorough else 2):
            ds, q, nrows = L.gen_prime_wide(ctx.rng, t)
            before, update = split_ds(ctx.rng, ds)
            wide.append({"ds": ds, "ds_before": before, "ds_update": update, "q": q, "query": L.print_query(q, ctx.rng, True), "big": True,
                         "sols": pattern_solutions(ds, q), "kinds": ["fresh", "stale", "empty", "large"], "max_assign": 27, "seed": 3, "left_rows": nrows})
    evaluate(ctx, binpath, wide, "wide_prime_left_rows", threads, coq=True)
    ctx.stream("wide_prime_left_rows", left_rows=[c["left_rows"] for c in wide], spec="python transliteration only (big cases)")
    known_seen = {}
    evaluate(ctx, binpath, cases, "random", threads, coq=True, known_seen=known_seen)
    ctx.stream("random", operator_counts=ops, known_plan_dependent_classes_hit=known_seen)
    permutation_stream(ctx, binpath, cases, per_case=(24 if ctx.thorough else 4))
    ctx.finish(
        level="proof", rule=PROP_RULE,
        trusted_base=[
            "Coq 8.16.1 kernel; vm_compute for running the Spec and `implementsb`",
            "hand-written Gallina model: coq/Sparql/PlanEquiv.v (the relation of plans the optimizer may emit, cost model deliberately not modelled), coq/Sparql/Engine.v (the three join executors, the engine)",
            "correspondence check: harness/src/bin/c02.rs (public API only: Streamertail::find_best_plan, PhysicalOperator constructors, ExecutionEngine::execute_with_ids_and_dataset, DatabaseStats fields, cached_stats), checks/c02.py",
            "rayon (par_iter ordered collect, par_chunks) preserving order for every pool size is a runtime fact: tested with RAYON_NUM_THREADS in {1,2,4,16}, not proved (partial on schedules)",
            "plan-cache key: coq/Sparql/MemoKeyPlan.v models create_memo_key / serialize_logical_plan for every logical operator of the fragment and is proved "
            "injective (C02_memo_key_injective_plan); per case the modelled key of every keyed node of the logical plan (all permutations of its scan groups) "
            "is looked up in the real optimizer's memo (Streamertail::memo, a public field; memo_keys_compared per stream); variable spellings `$x` / `?x` are "
            "identified before comparing; dictionary ids are read from the driver and checked to be an injective map",
        ],
        assumptions=["the supported fragment of C01 (see evidence/C01.json)", "queries inside C01's plan-independent classes are compared between plans only, not with the Spec"])


def replay(ctx):
    binpath = ctx.harness("c02")
    c = ctx.replay["case"]
    c.setdefault("ds_before", c["ds"])
    c.setdefault("ds_update", {"default": [], "named": []})
    if "query" not in c:
        c["query"] = L.print_query(c["q"], None, False)
    c.update(kinds=KINDS, max_assign=81, seed=1, sols=pattern_solutions(c["ds"], c["q"]))
    evaluate(ctx, binpath, [c], "replay", [1, 2, 4, 16])
    permutation_stream(ctx, binpath, [c], 24)
    ctx.finish(level="proof", rule=PROP_RULE)
