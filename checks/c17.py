"""C17 - Query entry points cannot modify data and string entry points fail cleanly (DESIGN.md section 7, C17).

Theorems: coq/Entry/C17.v (frame property of the query entry points for every parse outcome and every
database state; total error rendering for every UTF-8 text and every error slice).
Correspondence: the real entry points (execute_sparql_query, execute_sparql_update,
SparqlDatabase::execute_update, handle_update, handle_query, handle_http_request) against the Gallina
dispatch model (`KV.Entry.Run.m_*`) and `format_parse_error` against the byte-level rendering model
(`run_render`); the Spec (dataset unchanged by query entry points, update syntax refused there, an error
value - never a panic - for malformed text) is the oracle for violations.

Not generated (stated in notes/C17.md): MODEL / NEURAL RELATION / TRAIN / ML.PREDICT declarations - their
materialisation adds triples by design, the theorems carry the corresponding `neural_free` hypothesis.
"""
import itertools
import json
import os
import re
import urllib.parse

import vf

PROP_RULE = ("entry cases: one request text through one entry point against one database state, observed as the outcome "
             "enum {ok, err, panic} plus the complete before/after list of quads (all graphs) and of the graph catalog; "
             "non-trivial when the database is non-empty AND the step exercises a mechanism: a SELECT that returned at least "
             "one row, update syntax refused by a query entry point, an update that changed quads through an update entry "
             "point, or a parse error rendered for a text containing a multi-byte character; distinct by (entry point, text, "
             "state). render cases: format_parse_error on (text, error slice); non-trivial when the text contains a "
             "multi-byte character; distinct by (text, slice).")

E = "http://e/"
MB = ["é", "€", "\U0001F600"]          # 2-, 3- and 4-byte characters
# characters whose to_lowercase / to_uppercase changes the UTF-8 length:
# U+212A KELVIN SIGN (3 -> 1), U+0130 (2 -> 3), U+1E9E (3 -> 2), U+023A (2 -> 3), U+FB00 (upper: 3 -> 2), U+0149 (upper: 2 -> 3)
CASE = ["\u212a", "\u0130", "\u1e9e", "\u023a", "\ufb00", "\u0149"]
# malformed requests that get past the early diagnostics (balanced braces, even quote count, `where` present or
# no `select`) and so reach check_missing_prefix / check_missing_triple_separator, with a literal to mutate
BALANCED_MALFORMED = [
    'INSERT DATA { <urn:a> <urn:b> "v" } .',
    'SELECT ?s WHERE { ?s ?p "v" } LIMIT',
    'DELETE WHERE { ?s ?p "v" . ?s ?p ?é€ }',
    'SELECT * WHERE { ?s <http://e/p> "lit" } trailing',
    'PREFIX e: <http://e/> SELECT ?s WHERE { ?s e:p "x" . ?s nope:q ?o } ORDER',
    'INSERT { ?s <http://e/r> "w" } WHERE { ?s <http://e/p> ?o } ;',
    'DELETE DATA { <http://e/a> <http://e/p> "x" } é',
    'select ?x where { ?x ?y "z" } limit x',
]


# ---------------------------------------------------------------------------------------------
# generators
# ---------------------------------------------------------------------------------------------
def iri(x):
    return "<%s%s>" % (E, x)


SUBJ = ["a", "b", "c", "d"]
PRED = ["p", "q"]
OBJ = [iri("a"), iri("b"), iri("c"), '"x"', '"y z"', '"été"', "1", "2", '"7"']
GRAPHS = ["g1", "g2"]


def rand_quads(rng, n):
    qs = []
    for _ in range(n):
        g = rng.choice([None, None] + GRAPHS)
        qs.append((iri(rng.choice(SUBJ)), iri(rng.choice(PRED)), rng.choice(OBJ), g))
    return qs


def data_block(qs):
    out = []
    by_g = {}
    for s, p, o, g in qs:
        by_g.setdefault(g, []).append("%s %s %s" % (s, p, o))
    for g, ts in by_g.items():
        body = " . ".join(ts)
        out.append(body if g is None else "GRAPH %s { %s }" % (iri(g), body))
    return "{ " + " . ".join(out) + " }"


def rand_state(rng, kind=None):
    kind = kind if kind is not None else rng.choice(["empty", "default", "named", "named", "mixed", "mixed", "mixed"])
    if kind == "empty":
        qs = []
    elif kind == "default":
        qs = [q for q in rand_quads(rng, 6) if q[3] is None] or [(iri("a"), iri("p"), iri("b"), None)]
    elif kind == "named":
        qs = [(s, p, o, g or "g1") for s, p, o, g in rand_quads(rng, 6)]
    else:
        qs = rand_quads(rng, rng.randint(3, 10))
    st = {"setup": ["INSERT DATA " + data_block(qs)] if qs else [],
          "empty_graphs": [E + "g3"] if rng.random() < 0.4 else [],
          "db_prefixes": [["e", E]] if rng.random() < 0.3 else [],
          "warm_stats": rng.random() < 0.3}
    if kind == "empty" and rng.random() < 0.5:
        st["empty_graphs"] = [E + "g3", E + "g4"]
    return st


def tp(rng, gvar=False):
    s = rng.choice(["?s", "?s", "?x", iri(rng.choice(SUBJ))])
    p = rng.choice(["?p", iri("p"), iri("q"), "e:p"]) if not gvar else rng.choice([iri("p"), "?p"])
    o = rng.choice(["?o", "?o", "?y", rng.choice(OBJ)])
    return "%s %s %s" % (s, p, o)


def group(rng, depth=0):
    parts = []
    n = rng.randint(1, 3)
    for _ in range(n):
        r = rng.random()
        if r < 0.45 or depth >= 2:
            parts.append(tp(rng) + " .")
        elif r < 0.60:
            g = rng.choice(["?g", iri("g1"), iri("g2"), iri("g3"), iri("nog")])
            parts.append("GRAPH %s { %s }" % (g, tp(rng, True)))
        elif r < 0.70:
            parts.append("{ %s } UNION { %s }" % (tp(rng), tp(rng)))
        elif r < 0.80:
            parts.append("FILTER(%s)" % rng.choice(["?o = " + iri("b"), "?o != \"x\"", "?o > 1", "(?o = 1 || ?o = 2) && ?s != " + iri("c"),
                                                  "!(?o = \"y z\")", "isTRIPLE(?o)"]))
        elif r < 0.88:
            parts.append("VALUES ?s { %s %s }" % (iri("a"), iri("b")) if rng.random() < 0.5
                         else "VALUES (?s ?o) { (%s UNDEF) (%s \"x\") }" % (iri("a"), iri("b")))
        elif r < 0.94:
            parts.append("BIND(CONCAT(?s, \"-é\") AS ?c)")
        else:
            parts.append("{ SELECT ?s WHERE { %s } LIMIT 3 }" % tp(rng))
    return "{ " + " ".join(parts) + " }"


def rand_select(rng):
    pro = rng.choice(["", "", "PREFIX e: <%s> " % E, "PREFIX e: <%s>\nPREFIX f: <http://f/> " % E])
    proj = rng.choice(["*", "*", "?s", "?s ?o", "DISTINCT ?s", "?s (MAX(?o) AS ?m)", "(SUM(?o) AS ?t)"])
    ds = rng.choice(["", "", "", "FROM %s " % iri("g1"), "FROM NAMED %s " % iri("g2"), "FROM %s FROM NAMED %s " % (iri("g2"), iri("g1"))])
    g = group(rng)
    if "e:p" in g and "PREFIX e:" not in pro:
        pro = "PREFIX e: <%s> " % E
    tail = ""
    if "MAX" in proj:
        tail += " GROUP BY ?s"
    tail += rng.choice(["", "", " ORDER BY ?s", " ORDER BY DESC(?o)", " LIMIT 2", " ORDER BY ?s LIMIT 5"])
    return "%sSELECT %s %sWHERE %s%s" % (pro, proj, ds, g, tail)


def templ(rng):
    qs = []
    for _ in range(rng.randint(1, 2)):
        t = "%s %s %s" % (rng.choice(["?s", iri("n")]), iri(rng.choice(PRED + ["r"])), rng.choice(["?o", iri("m"), '"new"']))
        qs.append(t if rng.random() < 0.6 else "GRAPH %s { %s }" % (iri(rng.choice(GRAPHS + ["g5"])), t))
    return "{ " + " . ".join(qs) + " }"


def rand_update(rng, form=None):
    form = form if form is not None else rng.randrange(8)
    new = rand_quads(rng, 2)
    pro = rng.choice(["", "", "PREFIX e: <%s> " % E])
    if form == 0:
        return pro + "INSERT DATA " + data_block(new)
    if form == 1:
        return pro + "DELETE DATA " + data_block(new)
    if form == 2:
        return pro + "INSERT %s WHERE { ?s %s ?o }" % (templ(rng), iri(rng.choice(PRED)))
    if form == 3:
        return pro + "DELETE %s WHERE { ?s %s ?o }" % (templ(rng), iri(rng.choice(PRED)))
    if form == 4:
        return pro + "DELETE WHERE { ?s %s ?o }" % iri(rng.choice(PRED))
    if form == 5:
        return pro + "DELETE { ?s %s ?o } INSERT %s WHERE { ?s %s ?o }" % (iri("p"), templ(rng), iri("p"))
    if form == 6:
        return pro + "INSERT " + data_block(new)           # legacy alias, accepted by handle_update only
    return pro + "DELETE " + data_block(new)               # legacy alias


EXT_REQUESTS = [
    "RULE :R1 :- CONSTRUCT { ?s <http://e/q> ?o . } WHERE { ?s <http://e/p> ?o . }",
    "PREFIX e: <http://e/> RULE :R2 :- CONSTRUCT { ?s e:q ?o . } WHERE { ?s e:p ?o . }",
    "RULE :R3 :- CONSTRUCT { ?s <http://e/q> ?o . } WHERE { ?s <http://e/p> ?o . } SELECT * WHERE { ?s ?p ?o }",
    "PREFIX e: <http://e/>",
    "PREFIX e: <http://e/> # only a prologue €",
    "REGISTER RSTREAM <http://out/stream> AS SELECT * WHERE { ?s ?p ?o }",
]

GARBAGE = [
    "", " ", "\n", "é", "€", "\U0001F600", "SELECT", "SELECT *", "SELECT * WHERE", "SELECT * WHERE {", "SELECT * { ?s ?p ?o",
    "select ?x { ?x ?y }", "WHERE { ?s ?p ?o }", "INSERT", "INSERT DATA", "INSERT DATA {", "DELETE", "DELETE WHERE", "DELETE { } WHERE",
    "}{", "{}", "\"", "'''", "<", "<<", "<< >>", "?", "$", "#", "#é", "# \U0001F600\n", "\\u00e9", "PREFIX", "PREFIX :", "PREFIX 1: <x>",
    'INSERT DATA { <urn:a> <urn:b> "\u212a" } .', 'DELETE WHERE { ?s ?p "\u0130" . ?s ?p ?é€ }', 'SELECT ?s WHERE { ?s ?p "\u212a\u1e9e" } LIMIT',
    "SELECT * WHERE { ?s 1:p ?o } #é", "INSERT DATA { ?x <p> <o> } #€", "DELETE DATA { _:b <p> <o> } #\U0001F600",
    "SELECT * WHERE { GRAPH 1:x { ?s ?p ?o } } #é", "PREFIX 1: <http://e/> SELECT * WHERE { ?s ?p ?o } #é",
    "INSERT DATA { ?x <p> <o> } } #€", "SELECT ?x WHERE { ?x <p> ?y } é", "INSERT DATA { <a> <b> \"é\" } €",
    "SELECT * WHERE { ?s <http://e/p> \"unterminated }", "SELECT * WHERE { ?s x.:p ?o } éé",
    "SELECT * WHERE { ?s ?p ?o } LIMIT é", "SELECT * WHERE { ?s ?p ?o } ORDER BY €", "SELECT ?s ?p WHERE { ?s ?p ?o ?s ?p ?o }",
    "SELECT * WHERE { ?s nope:p ?o }", "ASK { ?s ?p ?o }", "CONSTRUCT { ?s ?p ?o } WHERE { ?s ?p ?o }", "DROP GRAPH <http://e/g1>",
    "CLEAR ALL", "LOAD <http://e/x>", "SELECT * WHERE { ?s ?p ?o } ; INSERT DATA { <http://e/a> <http://e/p> <http://e/z> }",
    "INSERT DATA { <http://e/a> <http://e/p> <http://e/z> } ; SELECT * WHERE { ?s ?p ?o }",
    "SELECT * WHERE { ?s ?p ?o } INSERT DATA { <http://e/a> <http://e/p> <http://e/z> }",
    "﻿SELECT * WHERE { ?s ?p ?o }", "SELECT * WHERE { ?s ?p ?o }", "SİELECT * { }", "KSELECT", "a b c", "<http://e/a> <http://e/p> <http://e/b>",
]


def rand_garbage(rng):
    alphabet = list("SELECTWHEREINSERTDATADELETEabc?$<>{}()\"'.:;,#\\ \n\t*=!|&0123") + MB + ["İ", " "]
    return "".join(rng.choice(alphabet) for _ in range(rng.randint(1, 24)))


def mutate(rng, text):
    r = rng.random()
    chars = list(text)
    if not chars:
        return rng.choice(MB)
    i = rng.randrange(len(chars))
    if r < 0.3:
        del chars[i]
    elif r < 0.5:
        chars = chars[:i]
    elif r < 0.7:
        chars.insert(i, rng.choice(MB + CASE + ["{", "}", "\"", "#", ":"]))
    elif r < 0.85:
        chars[i] = chars[i].swapcase()
    else:
        j = rng.randrange(len(chars))
        chars[i], chars[j] = chars[j], chars[i]
    return "".join(chars)


# ---- HTTP framing (always well-formed HTTP; the property is about the SPARQL text) ---------------
def http_get(text, plus=False):
    enc = urllib.parse.quote_plus(text, safe="") if plus else urllib.parse.quote(text, safe="")
    return "GET /sparql?query=%s HTTP/1.1\r\nHost: localhost\r\n\r\n" % enc


def http_post_direct(text, ctype):
    return "POST /sparql HTTP/1.1\r\nHost: localhost\r\nContent-Type: %s\r\n\r\n%s" % (ctype, text)


def http_post_form(fields, plus=True):
    q = urllib.parse.quote_plus if plus else urllib.parse.quote
    body = "&".join("%s=%s" % (k, q(v, safe="")) for k, v in fields)
    return "POST /sparql HTTP/1.1\r\nHost: localhost\r\ncontent-type: application/x-www-form-urlencoded\r\n\r\n%s" % body


def http_steps(rng, text, which=None):
    """(raw request, route, sparql text the adapter must extract)"""
    body_text = text.split("\r\n\r\n")[0]
    opts = [
        ("get", http_get(text, False), "query", text),
        ("get+", http_get(text, True), "query", text),
        ("post-query", http_post_direct(text, "application/sparql-query"), "query", body_text),
        ("form-query", http_post_form([("query", text)]), "query", text),
        ("form-both", http_post_form([("update", "INSERT DATA { <http://e/a> <http://e/p> <http://e/both> }"), ("query", text)], False), "query", text),
        ("form-update", http_post_form([("update", text)]), "update", text),
        ("post-update", http_post_direct(text, "application/sparql-update"), "update", body_text),
    ]
    if which is None:
        which = rng.randrange(len(opts))
    name, raw, route, sparql = opts[which]
    return {"via": "http", "text": raw, "sparql": sparql, "route": route, "http": name}


# ---------------------------------------------------------------------------------------------
# model encoding
# ---------------------------------------------------------------------------------------------
class Intern:
    def __init__(self):
        self.ids = {"": 0}

    def __call__(self, s):
        if s not in self.ids:
            self.ids[s] = len(self.ids)
        return self.ids[s]


def cN(n):
    return "%d%%N" % n


def cpairs(ps):
    return "[" + "; ".join("(%d%%N, %d%%N)" % p for p in ps) + "]"


def cquads(qs, I):
    return "[" + "; ".join("(%d%%N, %d%%N, %d%%N, %d%%N)" % (I(a), I(b), I(c), I(g)) for a, b, c, g in qs) + "]"


def clist(xs):
    return "[" + "; ".join("%d%%N" % x for x in xs) + "]"


def cbool(b):
    return "true" if b else "false"


def cbytes(s):
    return "[" + "; ".join("%d%%N" % b for b in s.encode("utf-8")) + "]"


def outcome_coq(info, I, qor, uor):
    """Coq `outcome Qo Uo` for a parse-info record; qor/uor: the oracles."""
    k = info["kind"]
    if k in ("err", "trailing", "incomplete"):
        return "PErr"
    ext = "(ex0 %s)" % cpairs([(I("pfx:" + a), I(b)) for a, b in info["prefixes"]])
    if k == "select":
        return "(PSelect %s %s)" % (ext, qor)
    if k == "update":
        return "(PUpdate %s %s)" % (ext, uor)
    return "(PNoOp %s)" % ext


def neural(info):
    return bool(info.get("model_decls") or info.get("neural_decls") or info.get("train_decls") or info.get("has_ml_predict"))


ANSI = re.compile(r"\x1b\[[0-9;]*m")


def title_of(msg):
    """(kind, line, col) from a rendered parse error; None when the text is not a rendering."""
    plain = ANSI.sub("", msg)
    m = re.search(r"error: (.*)", plain)
    if not m:
        return None
    t = m.group(1)
    if t.startswith("SELECT query missing WHERE clause"):
        return (1, None, None)
    if t.startswith("Unclosed brace in SPARQL query"):
        return (2, None, None)
    if t.startswith("Unterminated string literal"):
        return (3, None, None)
    lc = re.search(r"at line (\d+), column (\d+)", t)
    if lc:
        return (0, int(lc.group(1)), int(lc.group(2)))
    if t.startswith("Undefined prefix") or t.startswith("Missing separator between triple patterns") or t.startswith("Incomplete SPARQL query"):
        return (0, None, None)
    return None


def run_model_dedup(ctx, exprs):
    """ctx.run_model on the distinct expressions only (most malformed requests give the same model term)."""
    uniq = {}
    for e in exprs:
        if e not in uniq:
            uniq[e] = len(uniq)
    vals = ctx.run_model("Entry", ["KV.Entry.Model", "KV.Entry.Render", "KV.Entry.Run"], list(uniq.keys()))
    return [vals[uniq[e]] for e in exprs], len(uniq)


# ---------------------------------------------------------------------------------------------
# evaluation of entry cases
# ---------------------------------------------------------------------------------------------
QUERY_VIAS = ("query", "handle_query")


def routed(step):
    """'query' | 'update' : which path the step's entry point takes"""
    if step["via"] in QUERY_VIAS:
        return "query"
    if step["via"] == "http":
        return step["route"]
    return "update"


def eval_entry(ctx, binpath, cases, stream):
    impl = ctx.run_impl(binpath, cases)
    ctx.log("  %s: implementation ran" % stream)
    I = Intern()
    exprs, where = [], []
    rend_exprs, rend_where = [], []
    counts = dict(cases=len(cases), steps=0, ok=0, err=0, panic=0, select=0, update_kind=0, noop=0, parse_err=0, trailing=0,
                  select_rows_nonempty=0, refused_at_query=0, updates_applied=0, neural_skipped=0, multibyte=0, rendered=0,
                  impl_model_mismatches=0, spec_violations=0)
    for ci, (c, r) in enumerate(zip(cases, impl)):
        if r is None or "steps" not in r:
            ctx.violation({"case": c}, {"what": "driver died on an entry case (a crash that catch_unwind could not contain)", "impl": r})
            counts["spec_violations"] += 1
            continue
        if r.get("setup_errors"):
            ctx.broken("correspondence", stream, "state setup failed: %s" % r["setup_errors"], c)
            continue
        nonempty = r["initial"]["n_quads"] > 0
        for si, (step, o) in enumerate(zip(c["steps"], r["steps"])):
            if o.get("outcome") == "skipped":
                continue
            ctx.count()
            counts["steps"] += 1
            oc = o["outcome"]
            counts[oc] += 1
            text = step.get("sparql", step["text"])
            mb = any(ord(ch) > 127 for ch in text)
            counts["multibyte"] += mb
            one = {"setup": c.get("setup", []), "empty_graphs": c.get("empty_graphs", []), "db_prefixes": c.get("db_prefixes", []),
                   "warm_stats": c.get("warm_stats", False), "steps": c["steps"][:si + 1]}
            route = routed(step)
            std, compat = o["parse_std"], o["parse_compat"]
            if std["kind"] == "parser_panic" or compat["kind"] == "parser_panic":
                ctx.violation(one, {"what": "the parser itself panics on this request text", "text": text, "parse": std, "entry": step["via"]})
                counts["spec_violations"] += 1
                continue
            if neural(std) or neural(compat):
                counts["neural_skipped"] += 1
                continue
            kind = std["kind"]
            counts[{"select": "select", "update": "update_kind", "noop": "noop", "err": "parse_err", "trailing": "trailing",
                    "incomplete": "parse_err"}[kind]] += 1
            # ---------------- Spec oracle ----------------
            viol = None
            if oc == "panic":
                viol = "the entry point panicked instead of returning a value"
            dataset_changed = bool(o["quads_removed"] or o["quads_added"] or o["graphs_removed"] or o["graphs_added"])
            if viol is None and route == "query" and dataset_changed:
                viol = "a query entry point changed the stored quads / graph catalog"
            if viol is None and route == "query" and step["via"] != "handle_query":
                if kind == "update" and oc != "err":
                    viol = "update syntax was not refused by a query entry point"
                elif kind in ("err", "trailing", "incomplete") and oc != "err":
                    viol = "malformed text did not yield an error value at a query entry point"
                elif kind == "noop" and not (oc == "ok" and o["extra"].get("rows", 0) == 0 or step["via"] == "http" and oc == "ok"):
                    viol = "an extension-only request did not return the empty result"
            if viol is None and route == "update":
                kinds = [kind] if step["via"] in ("update", "db_update") else [kind, compat["kind"]]
                if all(k != "update" for k in kinds):
                    if oc != "err":
                        viol = "an update entry point accepted a request that is not an update operation"
                    elif dataset_changed:
                        viol = "an update entry point changed the dataset while returning an error for a non-update request"
            if viol:
                ctx.violation(one, {"what": viol, "entry": step["via"], "http": step.get("http"), "text": text, "outcome": oc,
                                    "extra": o["extra"], "parse_kind": kind, "quads_added": o["quads_added"],
                                    "quads_removed": o["quads_removed"], "graphs_added": o["graphs_added"],
                                    "graphs_removed": o["graphs_removed"]})
                counts["spec_violations"] += 1
                continue
            # ---------------- non-triviality ----------------
            key = (step["via"], step.get("http"), step["text"], tuple(c.get("setup", [])), tuple(c.get("empty_graphs", [])))
            if nonempty:
                if route == "query" and kind == "select" and oc == "ok" and o["extra"].get("rows", 0) > 0:
                    counts["select_rows_nonempty"] += 1
                    ctx.nontrivial(key)
                elif route == "query" and kind == "update":
                    counts["refused_at_query"] += 1
                    ctx.nontrivial(key)
                elif route == "update" and oc == "ok" and (o["quads_added"] or o["quads_removed"]):
                    counts["updates_applied"] += 1
                    ctx.nontrivial(key)
                elif kind == "err" and mb:
                    ctx.nontrivial(key)
            # ---------------- model ----------------
            st = "(st0 %s %s %s %s)" % (cquads([tuple(q) for q in o["quads_before"]], I),
                                        clist([I(g) for g in o["graphs_before"] if g != ""]),
                                        cpairs([(I("pfx:" + a), I(b)) for a, b in o["prefixes_before"]]), cbool(o["stats_before"]))
            qor = "(%s, %s)" % (cbool(oc == "ok"), cN(o["extra"].get("rows", 0) if oc == "ok" else 0))
            uor = "(%s, %s, %s, %s, %s)" % (cbool(oc == "ok"), cN(0), cquads([tuple(q) for q in o["quads_after"]], I),
                                            clist([I(g) for g in o["graphs_after"] if g != ""]), cbool(o["stats_after"]))
            o1, o2 = outcome_coq(std, I, qor, uor), outcome_coq(compat, I, qor, uor)
            via = step["via"]
            if via == "query":
                e = "r_out (m_query %s %s)" % (o1, st)
            elif via in ("update", "db_update"):
                e = "r_out (m_update %s %s)" % (o1, st)
            elif via == "handle_update":
                e = "r_out (m_handle_update %s %s %s)" % (o1, o2, st)
            elif via == "handle_query":
                toks = text.split()
                e = "r_out (m_handle_query %s %s)" % (clist([I("tok:" + t) for t in toks]), st)
            else:
                h = step["http"]
                if h in ("get", "get+"):
                    req = "(HGet _ _ (Some %s))" % o1
                elif h == "post-query":
                    req = "(HPostQuery _ _ %s)" % o1
                elif h == "form-query":
                    req = "(HPostForm _ _ (Some %s) None)" % o1
                elif h == "form-both":
                    req = "(HPostForm _ _ (Some %s) (Some (PErr, PErr)))" % o1
                elif h == "form-update":
                    req = "(HPostForm _ _ None (Some (%s, %s)))" % (o1, o2)
                else:
                    req = "(HPostUpdate _ _ %s %s)" % (o1, o2)
                e = "r_out (m_http %s %s)" % (req, st)
            exprs.append(e)
            where.append((ci, si, one, I))
            # ---------------- end-to-end rendering ----------------
            if kind == "err" and via in ("query", "update", "db_update") and oc == "err":
                start = std.get("err_start")
                rend_exprs.append("run_render %s %s %s" % (cbytes(text), "None" if start is None else "(Some %s)" % cN(start), cN(std["err_len"])))
                rend_where.append((one, text, std, o["extra"].get("msg", "")))
    model, n_uniq = run_model_dedup(ctx, exprs + rend_exprs)
    inv = None
    for (ci, si, one, I_), mo in zip(where, model[:len(exprs)]):
        if isinstance(mo, tuple) and mo and mo[0] == "ERROR":
            ctx.broken("correspondence", stream, "model evaluation failed: %s" % (mo[1],), one)
            continue
        o = impl[ci]["steps"][si]
        if inv is None:
            inv = {v: k for k, v in I_.ids.items()}
        tag, _rows, mq, mc, mp, ms = mo
        m_quads = sorted([inv[a], inv[b], inv[c], inv[g]] for a, b, c, g in mq)
        m_graphs = sorted([""] + [inv[g] for g in mc]) if True else None
        m_pref = sorted([inv[a][4:], inv[b]] for a, b in mp)
        i_graphs = sorted(set(o["graphs_after"]) | {""})
        diffs = []
        if (tag == 1) != (o["outcome"] == "ok"):
            diffs.append("result: model %s, implementation %s" % ("ok" if tag == 1 else "err", o["outcome"]))
        if m_quads != sorted(o["quads_after"]):
            diffs.append("quads after the request differ")
        if m_graphs != i_graphs:
            diffs.append("graph catalog after the request differs: model %s impl %s" % (m_graphs, i_graphs))
        if m_pref != sorted(o["prefixes_after"]):
            diffs.append("registered prefixes differ: model %s impl %s" % (m_pref, o["prefixes_after"]))
        if ms != o["stats_after"]:
            diffs.append("statistics cache flag differs: model %s impl %s" % (ms, o["stats_after"]))
        if not o["dict_kept"] or o["dict_after"] < o["dict_before"]:
            diffs.append("the dictionary lost or changed entries")
        if diffs:
            counts["impl_model_mismatches"] += 1
            ctx.broken("correspondence", stream, "dispatch model and implementation differ (the Spec oracle accepts the implementation): " + "; ".join(diffs),
                       {"case": one, "impl": {k: o[k] for k in ("outcome", "extra", "prefixes_after", "stats_after", "parse_std")}})
    for (one, text, std, msg), mo in zip(rend_where, model[len(exprs):]):
        if isinstance(mo, tuple) and mo and mo[0] == "ERROR":
            ctx.broken("correspondence", stream, "model evaluation failed: %s" % (mo[1],), one)
            continue
        counts["rendered"] += 1
        tag, k, line, col, lo, hi = mo
        t = title_of(msg)
        bad = None
        if tag == 0:
            bad = "model predicts a panic in format_parse_error, implementation returned an error value"
        elif t is None:
            bad = "error text is not a rendering: %r" % msg[:120]
        elif t[0] != k and not (k == 0 and t[0] == 0):
            bad = "message family differs: model %d impl %d" % (k, t[0])
        elif t[1] is not None and (t[1], t[2]) != (line, col):
            bad = "line/column differ: model %d:%d impl %d:%d" % (line, col, t[1], t[2])
        if bad:
            counts["impl_model_mismatches"] += 1
            ctx.broken("correspondence", stream + "/render", bad, {"case": one, "text": text, "parse": std})
    ctx.stream(stream, **counts)
    ctx.log("stream %s: %d cases, %d steps, %d model evaluations (%d distinct terms)" % (stream, len(cases), counts["steps"], len(exprs) + len(rend_exprs), n_uniq))


# ---------------------------------------------------------------------------------------------
# function-level rendering stream
# ---------------------------------------------------------------------------------------------
def boundaries(s):
    b = s.encode("utf-8")
    return [i for i in range(len(b) + 1) if i == len(b) or (b[i] & 0xC0) != 0x80]


def render_cases_for(text, full=True):
    n = len(text.encode("utf-8"))
    bs = boundaries(text)
    out = []
    for ln in range(0, n + 3):
        out.append({"mode": "render", "input": text, "start": None, "len": ln, "code": ln % 7})
    for i, a in enumerate(bs):
        ends = bs[i:] if full else bs[i:i + 2] + bs[-1:]
        for b in sorted(set(ends)):
            out.append({"mode": "render", "input": text, "start": a, "len": b - a, "code": (a + b) % 7})
    return out


def eval_render(ctx, binpath, cases, stream):
    impl = ctx.run_impl(binpath, cases)
    ctx.log("  %s: implementation ran" % stream)
    exprs = ["run_render %s %s %s" % (cbytes(c["input"]), "None" if c["start"] is None else "(Some %s)" % cN(c["start"]), cN(c["len"]))
             for c in cases]
    model = ctx.run_model("Entry", ["KV.Entry.Model", "KV.Entry.Render", "KV.Entry.Run"], exprs)
    counts = dict(cases=len(cases), panics=0, multibyte=0, inside=0, outside=0, kind1=0, kind2=0, kind3=0, with_linecol=0,
                  impl_model_mismatches=0, spec_violations=0)
    for c, r, mo in zip(cases, impl, model):
        ctx.count()
        mb = any(ord(ch) > 127 for ch in c["input"])
        counts["multibyte"] += mb
        counts["inside" if c["start"] is not None else "outside"] += 1
        if mb:
            ctx.nontrivial(("render", c["input"], c["start"], c["len"]))
        if isinstance(mo, tuple) and mo and mo[0] == "ERROR":
            ctx.broken("correspondence", stream, "model evaluation failed: %s" % (mo[1],), c)
            continue
        if r is None or r.get("driver_died") or r.get("outcome") == "panic":
            counts["panics"] += 1
            counts["spec_violations"] += 1
            ctx.violation(c, {"what": "format_parse_error panics for a well-formed text and a legal error slice",
                              "input": c["input"], "slice_start": c["start"], "slice_len": c["len"], "impl": r,
                              "model": mo})
            continue
        tag, k, line, col, lo, hi = mo
        t = title_of(r["text"])
        bad = None
        if tag == 0:
            bad = "model predicts a panic, the implementation rendered"
        elif t is None:
            bad = "unrecognised rendering %r" % r["text"][:100]
        elif t[0] != k:
            bad = "message family differs: model %d impl %d" % (k, t[0])
        elif t[1] is not None and (t[1], t[2]) != (line, col):
            bad = "line/column differ: model %d:%d impl %d:%d" % (line, col, t[1], t[2])
        if t is not None:
            counts["kind%d" % t[0]] = counts.get("kind%d" % t[0], 0) + 1
            counts["with_linecol"] += t[1] is not None
        if bad:
            counts["impl_model_mismatches"] += 1
            ctx.broken("correspondence", stream, bad, c)
    ctx.stream(stream, **counts)
    ctx.log("stream %s: %d render cases" % (stream, len(cases)))


# ---------------------------------------------------------------------------------------------
def steps_for(rng, text, vias):
    out = []
    for v in vias:
        if v == "http":
            out.append(http_steps(rng, text))
        elif v.startswith("http:"):
            out.append(http_steps(rng, text, int(v[5:])))
        else:
            out.append({"via": v, "text": text})
    return out


def case_of(state, steps):
    c = {"mode": "entry"}
    c.update(state)
    c["steps"] = steps
    return c


def load_corpus():
    d = os.path.join(vf.VERIF, "corpus", "C17")
    out = []
    for fn in sorted(os.listdir(d)) if os.path.isdir(d) else []:
        if fn.endswith(".json"):
            out.append(json.load(open(os.path.join(d, fn))))
    return out


FIXED_STATE = {"setup": ['INSERT DATA { <http://e/a> <http://e/p> <http://e/b> . <http://e/a> <http://e/q> "x" . <http://e/b> <http://e/p> "été" . '
                         'GRAPH <http://e/g1> { <http://e/a> <http://e/p> <http://e/c> . <http://e/c> <http://e/q> 1 } '
                         'GRAPH <http://e/g2> { <http://e/d> <http://e/p> <http://e/a> } }'],
               "empty_graphs": [E + "g3"], "db_prefixes": [], "warm_stats": False}

REPRESENTATIVES = [
    "SELECT * WHERE { ?s ?p ?o }",
    "PREFIX e: <http://e/> SELECT ?s ?o WHERE { ?s e:p ?o }",
    "SELECT ?g ?s WHERE { GRAPH ?g { ?s <http://e/p> ?o } }",
    "SELECT * FROM <http://e/g1> FROM NAMED <http://e/g2> WHERE { ?s ?p ?o . GRAPH <http://e/g2> { ?x ?y ?z } }",
    "SELECT ?s WHERE { ?s <http://e/p> ?o FILTER(?o != \"x\") VALUES ?s { <http://e/a> <http://e/b> } }",
    "SELECT ?s ?c WHERE { ?s <http://e/q> ?o BIND(CONCAT(?o, \"-€\") AS ?c) }",
    "SELECT ?s WHERE { { SELECT ?s WHERE { ?s <http://e/p> ?o } LIMIT 2 } }",
    "SELECT * FROM ?g WHERE { ?s ?p ?o }",
    "INSERT DATA { <http://e/a> <http://e/p> <http://e/z> . GRAPH <http://e/g9> { <http://e/a> <http://e/p> <http://e/z> } }",
    "DELETE DATA { <http://e/a> <http://e/p> <http://e/b> }",
    "INSERT { ?s <http://e/r> ?o } WHERE { ?s <http://e/p> ?o }",
    "DELETE { ?s <http://e/p> ?o } WHERE { ?s <http://e/p> ?o }",
    "DELETE WHERE { ?s <http://e/q> ?o }",
    "DELETE { ?s <http://e/p> ?o } INSERT { GRAPH <http://e/g7> { ?s <http://e/p> ?o } } WHERE { ?s <http://e/p> ?o }",
    "INSERT { <http://e/a> <http://e/p> <http://e/alias> }",
    "DELETE { <http://e/a> <http://e/p> <http://e/b> }",
    "PREFIX e: <http://e/> INSERT DATA { e:a e:p e:pz }",
    EXT_REQUESTS[0], EXT_REQUESTS[2], EXT_REQUESTS[3],
    "SELECT * WHERE { ?s ?p ?o } garbage",
    "SELECT * WHERE { ?s 1:p ?o } #é",
    "INSERT DATA { ?x <p> <o> } #€",
    "é",
    "",
    "a b c",
    "<http://e/a> <http://e/p> <http://e/b>",
]

ALL_VIAS = ["query", "update", "db_update", "handle_update", "handle_query"] + ["http:%d" % i for i in range(7)]

TRUSTED = [
    "Coq 8.16.1 kernel; vm_compute for running the models in the correspondence check",
    "hand-written Gallina models coq/Entry/Model.v (dispatch in execute_query.rs, adapters in sparql_database.rs, as a function "
    "of the parse outcome) and coq/Entry/Render.v (offset arithmetic of error_handler.rs on UTF-8 bytes)",
    "Rust's type system for the frame of evaluation: below ExecutionEngine::execute_with_ids_and_context the database is borrowed "
    "immutably and DatasetIndex has no interior mutability, which is what the model's `sel_eval` (a function of the stored quads) states",
    "annotate-snippets' renderer modelled as panicking exactly when an annotation end is not a character boundary (validated by the "
    "exhaustive function-level stream, not proved); nom, httparse, url, percent-encoding are outside the model",
    "correspondence check: harness/src/bin/c17.rs (public API plus the add-only hooks verif_c17_parse_info, "
    "verif_c17_format_parse_error in kolibrie/src/execute_query.rs), checks/c17.py generators, HTTP framing and canonicalisation",
]
ASSUME = [
    "requests and database states declare no MODEL / NEURAL RELATION / TRAIN / ML.PREDICT (materialisation adds triples by design); "
    "the theorems carry this as the hypotheses outcome_neural_free / state_neural_free and the generators never produce them",
    "'never crashes' is proved for the modelled arithmetic of format_parse_error only; for the rest of the real code (parser, lowering, "
    "evaluation, HTTP decoding) it is a runtime property exercised by the garbage and multi-byte streams (partial)",
    "HTTP requests are well-formed at the HTTP level (handle_http_request unwraps httparse's result); the property quantifies over the SPARQL text",
    "to_lowercase() in detect_specific_sparql_error is modelled by ASCII lowering (exact for the three ASCII keywords searched)",
]


def run(ctx):
    ctx.coq("Entry", "C17.v")
    # VERIF_C17_BIN: development knob for the mutation self-test only (a driver built from a private,
    # mutated copy of /repo, so that the shared /repo is never left mutated); unset in normal use.
    binpath = os.environ.get("VERIF_C17_BIN") or ctx.harness("c17")
    rng = ctx.rng
    T = ctx.thorough

    # ---- corpus first: minimised past failures (both repaired defects) ----
    corpus = load_corpus()
    ent = [c for c in corpus if c.get("mode") == "entry"]
    ren = [c for c in corpus if c.get("mode") == "render"]
    eval_entry(ctx, binpath, ent, "corpus")
    eval_render(ctx, binpath, ren, "corpus_render")

    # ---- exhaustive function-level rendering scope ----
    small = ["a", "é", "€", "\U0001F600", "{", "\n"]
    big = small + ["}", "\"", "select ", "where ", "insert ", "?x ", "p:q ", " "]
    texts = [""]
    for L in (1, 2, 3):
        texts += ["".join(t) for t in itertools.product(small, repeat=L)]
    for L in (1, 2):
        texts += ["".join(t) for t in itertools.product(big, repeat=L)]
    if T:
        texts += ["".join(t) for t in itertools.product(big, repeat=3)]
        texts += ["".join(t) for t in itertools.product(small, repeat=4)]
    # characters whose case mapping changes the byte length (a slice of a case-mapped copy at an offset of the
    # original text would be off a boundary or out of range)
    casey = ["a", CASE[0], CASE[1], CASE[3], CASE[2]]
    for L in (1, 2, 3):
        texts += ["".join(t) for t in itertools.product(casey, repeat=L)]
    texts += [a + b for a in CASE for b in big] + [b + a for a in CASE for b in big]
    if T:
        texts += ["".join(t) for t in itertools.product(["a", "é", "{", "\""] + CASE, repeat=3)]
    texts = sorted(set(texts))
    rc = []
    for t in texts:
        rc += render_cases_for(t, full=True)
    ctx.sample(rc[len(rc) // 2])
    eval_render(ctx, binpath, rc, "render_exhaustive")
    ctx.coverage["exhaustive"] = True
    ctx.coverage["exhaustive_scope"] = ("format_parse_error: all %d texts of <= %s tokens over %s (and <= %s over %s) x every error slice "
                                        "(every sub-slice on character boundaries, every outside length 0..len+2); dispatch: every entry "
                                        "point and HTTP form x %d representative requests x 6 database states"
                                        % (len(texts), "4" if T else "3", small, "3" if T else "2", big, len(REPRESENTATIVES))
                                        + "; rendering texts also include all texts of <= 3 tokens over {a, U+212A, U+0130, U+023A, U+1E9E} and every "
                                          "length-changing character before/after every token")

    # ---- exhaustive dispatch scope: every entry point x representative request x state ----
    states = [dict(FIXED_STATE), dict(FIXED_STATE, warm_stats=True), dict(FIXED_STATE, db_prefixes=[["e", "http://other/"]]),
              {"setup": [], "empty_graphs": [], "db_prefixes": [], "warm_stats": False},
              {"setup": [], "empty_graphs": [E + "g3"], "db_prefixes": [["e", E]], "warm_stats": True},
              {"setup": ['INSERT DATA { GRAPH <http://e/g1> { <http://e/a> <http://e/p> <http://e/b> } }'], "empty_graphs": [],
               "db_prefixes": [], "warm_stats": False}]
    ex = []
    for st in states:
        for text in REPRESENTATIVES:
            for v in ALL_VIAS:
                ex.append(case_of(st, steps_for(rng, text, [v])))
    ctx.sample({"steps": ex[7]["steps"], "setup": ex[7]["setup"]})
    eval_entry(ctx, binpath, ex, "dispatch_exhaustive")

    # ---- histories: several requests against one state, query and update entry points interleaved ----
    n_hist = 400 if T else 60
    hist = []
    for _ in range(n_hist):
        st = rand_state(rng)
        steps = []
        for _ in range(rng.randint(3, 7)):
            r = rng.random()
            if r < 0.45:
                text = rand_select(rng)
            elif r < 0.80:
                text = rand_update(rng)
            elif r < 0.88:
                text = rng.choice(EXT_REQUESTS)
            else:
                text = mutate(rng, rand_select(rng) if rng.random() < 0.5 else rand_update(rng))
            via = rng.choice(["query", "query", "query", "update", "db_update", "handle_update", "http", "http", "handle_query"])
            steps += steps_for(rng, text, [via])
        hist.append(case_of(st, steps))
    ctx.sample({"setup": hist[0]["setup"], "steps": hist[0]["steps"][:3]})
    eval_entry(ctx, binpath, hist, "histories")

    # ---- valid requests through every entry point ----
    n_valid = 1500 if T else 220
    valid = []
    for i in range(n_valid):
        text = rand_select(rng) if i % 5 < 3 else rand_update(rng)
        vias = ["query", rng.choice(["update", "db_update", "handle_update"]), "http"]
        rng.shuffle(vias)
        valid.append(case_of(rand_state(rng), steps_for(rng, text, vias)))
    eval_entry(ctx, binpath, valid, "valid_requests")

    # ---- malformed: garbage + mutations ----
    mal = []
    for text in GARBAGE:
        mal.append(case_of(FIXED_STATE, steps_for(rng, text, ["query"])))
        mal.append(case_of(FIXED_STATE, steps_for(rng, text, ["update"])))
        mal.append(case_of(FIXED_STATE, steps_for(rng, text, [rng.choice(["db_update", "handle_update", "http", "handle_query"])])))
    for _ in range(3000 if T else 400):
        text = rand_garbage(rng) if rng.random() < 0.4 else mutate(rng, mutate(rng, rng.choice(REPRESENTATIVES[:20]) if rng.random() < 0.5 else
                                                                                 (rand_select(rng) if rng.random() < 0.6 else rand_update(rng))))
        mal.append(case_of(rand_state(rng), steps_for(rng, text, ["query", rng.choice(["update", "db_update", "handle_update", "http"])])))
    eval_entry(ctx, binpath, mal, "malformed")

    # ---- multi-byte characters at every offset of seed requests ----
    seeds = list(REPRESENTATIVES[:21])
    while len(seeds) < (110 if T else 30):
        seeds.append(rand_select(rng) if len(seeds) % 3 else rand_update(rng))
    mbc = []
    for k, sd in enumerate(seeds):
        # quick: the length-changing characters on every 4th seed (and on all BALANCED_MALFORMED below); thorough: all
        chars = MB + (CASE if (T or k % 4 == 0) else [])
        for i in range(len(sd) + 1):
            for ch in chars:
                text = sd[:i] + ch + sd[i:]
                mbc.append(case_of(FIXED_STATE, steps_for(rng, text, ["query", "update"])))
    for sd in BALANCED_MALFORMED:
        for i in range(len(sd) + 1):
            for ch in CASE + (MB if T else []):
                text = sd[:i] + ch + sd[i:]
                mbc.append(case_of(FIXED_STATE, steps_for(rng, text, ["query", "update"])))
    ctx.sample({"steps": mbc[len(mbc) // 3]["steps"]})
    eval_entry(ctx, binpath, mbc, "multibyte_every_offset")
    ctx.coverage["multibyte_seeds"] = len(seeds)

    ctx.finish(level="proof", rule=PROP_RULE, trusted_base=TRUSTED, assumptions=ASSUME,
               extra={"partial": ["panic-freedom of the real code outside format_parse_error's offset arithmetic is exercised, not proved",
                                  "SELECT evaluation is abstract in the model (any function of the stored quads); that the real evaluator is such "
                                  "a function rests on Rust's immutable borrow of the database during execution and on the before/after comparison"],
                      "fixed_findings_in_corpus": ["22495a6 parse-error span ended inside a multi-byte character",
                                                   "b4ac3b3 parse-error offset computed from a non-suffix error slice"]})


def replay(ctx):
    binpath = os.environ.get("VERIF_C17_BIN") or ctx.harness("c17")
    c = ctx.replay["case"]
    if c.get("mode") == "render":
        eval_render(ctx, binpath, [c], "replay")
    else:
        case = c.get("case", c)
        case = dict(case)
        case["mode"] = "entry"
        eval_entry(ctx, binpath, [case], "replay")
    ctx.finish(level="proof", rule=PROP_RULE, trusted_base=TRUSTED, assumptions=ASSUME)
