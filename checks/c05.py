"""C05 - rule materialisation computes exactly the least model of the program (DESIGN.md section 7, C05).

Theorems: coq/Datalog/C05.v.  Correspondence: the real Reasoner under its four forward-chaining strategies
(naive, semi-naive, parallel, provenance/Boolean) against the Gallina model of each strategy
(`KV.Datalog.Run.run_all`) on the same programs; the executable Spec `least_model` (proved equal to the
inductive `derives`) is the oracle for violations.  A function-level stream compares
shared::join_algorithm::perform_hash_join_for_rules with the model's bucketed `hash_join` on explicit rows.
"""
import itertools
import json
import os
import re
import vf

SUB = "Datalog"
REQ = ["KV.Datalog.LeastModel", "KV.Datalog.Strategies", "KV.Datalog.Classes", "KV.Datalog.Run"]
PRE = "Open Scope N_scope."
STRATS = ["naive", "semi", "par", "prov"]
OPS = {">": "Gt", "<": "Lt", ">=": "Ge", "<=": "Le", "=": "Eq", "!=": "Ne"}

PROP_RULE = ("a case is one Datalog program (dictionary, facts, rules) run under all four strategies of the real Reasoner, each on "
             "a fresh store, plus a second run on the resulting store; observables: stored facts, returned new facts, second-run "
             "output (sets). Exhaustive scope A (complete): every canonical safe rule with <= 2 premises and one conclusion over "
             "subject/object terms {a,b,X0,X1,X2} and the constant predicate p, on fixed fact sets over {a,b}x{p}x{a,b}; scope B "
             "(sampled): the same with a variable in predicate position; scope C: ordered pairs of rules from a reduced pool. Random "
             "scope: 1-4 rules with 1-4 premises, constants and repeated variables in every position, variable predicates, 1-2 "
             "conclusions, numeric / variable filters, 3-6 constants, 3 predicates, 0-15 facts, half of the programs re-run with rule "
             "and fact order shuffled; a negation stream (one stratum, oracle = stratified Spec) and a malformed stream (unsafe "
             "negation must be rejected). A program case is non-trivial when the Spec derives at least one fact beyond the input "
             "facts (some rule fired); distinct by the rendered dictionary, rules and fact set. A join-stream case (one call of "
             "perform_hash_join_for_rules on explicit rows) is non-trivial when the join returns at least one row.")


# ---- rendering for Coq ---------------------------------------------------------------------------
def c_term(t):
    return ("V %d" if t[0] == "v" else "C %d") % t[1]


def c_atom(a):
    return "(%s, %s, %s)" % tuple(c_term(t) for t in a)


def c_filter(f):
    if "var" in f:
        return "FVar %d %s %d" % (f["x"], OPS[f["op"]], f["var"])
    return "FNum %d %s (%d)%%Z" % (f["x"], OPS[f["op"]], f["num"])


def c_rule(r):
    return "Rule [%s] [%s] [%s] [%s]" % ("; ".join(c_atom(a) for a in r["prem"]),
                                           "; ".join(c_atom(a) for a in r.get("neg", [])),
                                           "; ".join(c_filter(f) for f in r.get("filt", [])),
                                           "; ".join(c_atom(a) for a in r["concl"]))


def c_fact(f):
    return "(%d, %d, %d)" % tuple(f)


def numeric_value(s):
    """The value evaluate_filters gives the string: parse::<f64>() or 0.0.  Generated strings are plain integers or
    identifiers that do not parse."""
    try:
        if s.strip() != s or "_" in s:
            return 0
        return int(s)
    except ValueError:
        return 0


def fuel_for(case):
    n = len(case["dict"])
    return min(n * n * n + 2, 400)


def c_run_all(case):
    tbl = "; ".join("(%d, (%d)%%Z)" % (i, numeric_value(s)) for i, s in enumerate(case["dict"]) if numeric_value(s) != 0)
    return "run_all [%s] %d%%nat [%s] [%s]" % (tbl, fuel_for(case),
                                                "; ".join(c_rule(r) for r in case["rules"]),
                                                "; ".join(c_fact(f) for f in case["facts"]))


# ---- the classes, as in coq/Datalog/Classes.v ----------------------------------------------------
def par_unsupported(r):
    return len(r["prem"]) > 2 or any(a[1][0] == "v" for a in r["prem"]) or len(r.get("filt", [])) > 0


def known_par(case):
    return any(par_unsupported(r) for r in case["rules"])


def known_neg(case):
    return any(len(r.get("neg", [])) > 0 for r in case["rules"])


SYNTH_RE = re.compile(r"^__const_(subj|obj)_(0|[1-9][0-9]*)$")


def case_vars(case):
    vs = []
    for r in case["rules"]:
        for a in r["prem"] + r["concl"] + r.get("neg", []):
            vs += atom_vars(a)
        for f in r.get("filt", []):
            vs.append(f["x"])
            if "var" in f:
                vs.append(f["var"])
    return sorted(set(vs))


def known_synth(case):
    """C05-synthetic-var-capture = negb (no_synthetic_names names P) of coq/Datalog/VarKeys.v: some variable of the program is
    spelled exactly like a name the join invents for a constant subject/object ("__const_subj_<decimal id>")."""
    names = case.get("varnames") or {}
    return any(SYNTH_RE.match(str(names.get(str(v), "X%d" % v))) for v in case_vars(case))


def c_run_spelled(case):
    tbl = "; ".join("(%d, (%d)%%Z)" % (i, numeric_value(s)) for i, s in enumerate(case["dict"]) if numeric_value(s) != 0)
    names = "; ".join('(%d, "%s"%%string)' % (int(k), v.replace('"', '""')) for k, v in sorted((case.get("varnames") or {}).items()))
    return "run_spelled [%s] [%s] %d%%nat [%s] [%s]" % (names, tbl, fuel_for(case),
                                                         "; ".join(c_rule(r) for r in case["rules"]),
                                                         "; ".join(c_fact(f) for f in case["facts"]))


def term_compat(t, u):
    return not (t[0] == "c" and u[0] == "c") or t[1] == u[1]


def atom_compat(a, b):
    return all(term_compat(t, u) for t, u in zip(a, b))


def known_neg_feed(case):
    return any(len(r1.get("neg", [])) > 0 and any(atom_compat(c, a) for c in r1["concl"] for r2 in case["rules"]
                                                   for a in r2["prem"] + r2.get("neg", []))
               for r1 in case["rules"])


def atom_vars(a):
    return [t[1] for t in a if t[0] == "v"]


def safe_rule(r):
    pv = set(v for a in r["prem"] for v in atom_vars(a))
    need = [v for a in r["concl"] for v in atom_vars(a)] + [v for a in r.get("neg", []) for v in atom_vars(a)]
    for f in r.get("filt", []):
        need.append(f["x"])
        if "var" in f:
            need.append(f["var"])
    return len(r["prem"]) > 0 and all(v in pv for v in need)


# ---- canonical forms ------------------------------------------------------------------------------
def fset(l):
    return sorted(set(tuple(x) for x in l))


def model_triple(v):
    """Coq option (all, new, again) -> dict of sorted sets, or None (fuel exhausted)."""
    if v is None:
        return None
    assert v[0] == "Some", v
    a, n, g = v[1]
    return {"all": fset(a), "new": fset(n), "again": fset(g)}


def impl_triple(r):
    if r is None or "all" not in r:
        return None
    return {"all": fset(r["all"]), "new": fset(r["new"]), "again": fset(r["again"]),
            "dups": len(r["new"]) != len(set(map(tuple, r["new"]))), "all2": fset(r["all2"])}


# ---- generators ------------------------------------------------------------------------------------
ENT_POOL = ["a", "b", "c", "d", "e", "f"]
NUM_POOL = ["1", "2", "3", "5", "8", "10", "-1", "0"]


def random_program(rng, profile="general"):
    negation = profile == "neg"
    par = profile == "par"
    ne = rng.randint(3, 6)
    nnum = rng.randint(0, min(3, ne - 1))
    ents = rng.sample(ENT_POOL, ne - nnum) + rng.sample(NUM_POOL, nnum)
    rng.shuffle(ents)
    dic = ents + ["p", "q", "r"]
    E = list(range(ne))
    PR = [ne, ne + 1, ne + 2]
    nf = rng.choice([0, 1, 2, 3, 4, 5, 6, 7, 8, 9, 10, 11, 12, 13, 14, 15, 8, 10, 12, 15, 15])

    def so_const():
        return rng.choice(E) if rng.random() < 0.93 else rng.choice(PR)

    facts = []
    for _ in range(nf):
        p = rng.choice(PR[:2]) if rng.random() < 0.8 else (rng.choice(PR) if rng.random() < 0.8 else rng.choice(E))
        facts.append([so_const(), p, so_const()])
    facts = [list(t) for t in dict.fromkeys(tuple(f) for f in facts)]
    rules = []
    for _ in range(rng.choice([1, 1, 2, 2, 2, 3, 4])):
        npr = rng.choice([1, 2, 2]) if par else rng.choice([1, 1, 2, 2, 2, 3, 3, 4])
        has_neg = negation and rng.random() < 0.6
        nv = rng.choice([1, 2, 2, 3, 3, 4])
        vs = list(range(nv))
        prem = []
        for k in range(npr):
            def so():
                return ["v", rng.choice(vs)] if rng.random() < 0.85 else ["c", so_const()]
            if negation:      # premises over p, q only, so that conclusions over r feed nothing (outside known_C05_neg_feed)
                p = ["c", rng.choice(PR[:2])] if rng.random() < 0.93 else ["v", rng.choice(vs + [nv])]
            else:
                p = ["c", rng.choice(PR[:2] if rng.random() < 0.85 else PR)] if (par or rng.random() < 0.82) else ["v", rng.choice(vs + [nv])]
            prem.append([so(), p, so()])
        pv = sorted(set(v for a in prem for v in atom_vars(a)))

        def ct(pred=False):
            if pv and rng.random() < ((0.0 if (par or negation) else 0.25) if pred else 0.8):
                return ["v", rng.choice(pv)]
            if pred and negation:
                return ["c", PR[2] if (has_neg and rng.random() < 0.9) else rng.choice(PR[:2])]
            if pred:
                return ["c", rng.choice(PR[:2] if rng.random() < 0.7 else PR)]
            return ["c", so_const()]
        concl = [[ct(), ct(True), ct()] for _ in range(rng.choice([1, 1, 1, 2]))]
        filt = []
        if pv and not par and rng.random() < 0.3:
            for _ in range(rng.choice([1, 1, 2])):
                if len(pv) >= 2 and rng.random() < 0.5:
                    x, y = rng.sample(pv, 2)
                    filt.append({"x": x, "op": rng.choice(["=", "!=", "!=", "<", ">="] if rng.random() < 0.5 else ["=", "!="]), "var": y})
                else:
                    filt.append({"x": rng.choice(pv), "op": rng.choice(list(OPS)), "num": rng.choice([0, 1, 2, 3, 5, 8, -1])})
        neg = []
        if has_neg and pv:
            def nt(pred=False):
                if rng.random() < 0.7:
                    return ["v", rng.choice(pv)]
                return ["c", rng.choice(PR[:2])] if pred else ["c", so_const()]
            neg.append([nt(), ["c", rng.choice(PR[:2])] if rng.random() < 0.8 else nt(True), nt()])
        rules.append({"prem": prem, "neg": neg, "filt": filt, "concl": concl})
    return {"kind": "program", "dict": dic, "facts": facts, "rules": rules}


def shuffled(rng, case):
    c = json.loads(json.dumps(case))
    rng.shuffle(c["facts"])
    rng.shuffle(c["rules"])
    return c


def canonical_rule(prem, concl):
    """variables numbered by first occurrence (premises left to right, then conclusions)"""
    seen = []
    for a in prem + concl:
        for t in a:
            if t[0] == "v" and t[1] not in seen:
                seen.append(t[1])
    return seen == sorted(seen) and seen == list(range(len(seen)))


def exhaustive_rules(max_prem, so_terms, p_terms, concl_p_terms):
    atoms = [[s, p, o] for s in so_terms for p in p_terms for o in so_terms]
    out = []
    for n in range(1, max_prem + 1):
        for prem in itertools.product(atoms, repeat=n):
            prem = [list(a) for a in prem]
            pv = set(v for a in prem for v in atom_vars(a))
            for cs in so_terms:
                for cp in concl_p_terms:
                    for co in so_terms:
                        concl = [[cs, cp, co]]
                        if all(v in pv for v in atom_vars(concl[0])) and canonical_rule(prem, concl):
                            out.append({"prem": prem, "neg": [], "filt": [], "concl": concl})
    return out


def exhaustive_cases(thorough):
    # ids: a=0, b=1, p=2
    A, B, Pp = ["c", 0], ["c", 1], ["c", 2]
    X = [["v", 0], ["v", 1], ["v", 2]]
    dic = ["a", "b", "p"]
    factsets = [[[0, 2, 1]], [[0, 2, 1], [1, 2, 0]], [[0, 2, 0], [0, 2, 1]], [[0, 2, 1], [1, 2, 1]],
                [[0, 2, 0], [0, 2, 1], [1, 2, 0], [1, 2, 1]]]
    cases = []
    # scope A: every canonical safe rule with <= 2 premises and one conclusion, constant predicate (outside the
    # parallel class: all four strategies are held to the Spec)
    scope_a = exhaustive_rules(2, [A, B] + X, [Pp], [Pp])
    for r in scope_a:
        for fs in (factsets if thorough else [factsets[1], factsets[2]]):
            cases.append({"kind": "program", "dict": dic, "facts": fs, "rules": [r]})
    # scope B: the same with a variable allowed in predicate position (premises and conclusion)
    scope_b = [r for r in exhaustive_rules(2, [A, B] + X, [Pp] + X, [Pp] + X)
               if any(a[1][0] == "v" for a in r["prem"] + r["concl"])]
    stride = 5 if thorough else 41
    nb = 0
    for i, r in enumerate(scope_b):
        if i % stride == 0:
            nb += 1
            for fs in ([factsets[1], factsets[2]] if thorough else [factsets[2] if nb % 2 else factsets[1]]):
                cases.append({"kind": "program", "dict": dic, "facts": fs, "rules": [r]})
    # scope C: ordered pairs (one-premise rule, any rule) from a reduced pool (terms {a, X0, X1}, constant predicate)
    pool = exhaustive_rules(2, [A, X[0], X[1]], [Pp], [Pp])
    pool1 = [r for r in pool if len(r["prem"]) == 1]
    pairs = 0
    for i, r1 in enumerate(pool1):
        for j, r2 in enumerate(pool):
            if not thorough and (i * 31 + j) % 5:
                continue
            pairs += 1
            cases.append({"kind": "program", "dict": dic, "facts": factsets[2] if (i + j) % 2 else factsets[1], "rules": [r1, r2]})
    return cases, {"scope_a_rules": len(scope_a), "scope_a_factsets": 5 if thorough else 2, "scope_b_rules": len(scope_b),
                   "scope_b_stride": stride, "pair_pool": len(pool), "pair_pool_1prem": len(pool1), "pairs_run": pairs}


# ---- join stream ------------------------------------------------------------------------------------
def random_join_case(rng, homogeneous):
    dic = ["a", "b", "c", "d", "p", "q"]
    E, PR = [0, 1, 2, 3], [4, 5]
    facts = [[rng.choice(E), rng.choice(PR), rng.choice(E)] for _ in range(rng.randint(0, 8))]
    vs = [0, 1, 2]

    def so():
        return ["v", rng.choice(vs)] if rng.random() < 0.7 else ["c", rng.choice(E)]
    prem = [so(), ["c", rng.choice(PR)] if rng.random() < 0.7 else ["v", rng.choice(vs + [3])], so()]
    keys = [[0, v] for v in vs + [3]] + [[1, c] for c in E[:2]] + [[2, c] for c in E[:2]]

    def val(k):
        if k[0] == 0:
            return rng.choice(E + PR) if k[1] == 3 else rng.choice(E)
        return k[1]
    rows = []
    if homogeneous:
        ks = [k for k in keys if rng.random() < 0.4]
        for _ in range(rng.randint(0, 5)):
            rows.append([[k, val(k)] for k in ks])
    else:
        for _ in range(rng.randint(0, 5)):
            rows.append([[k, val(k)] for k in keys if rng.random() < 0.4])
    return {"kind": "join", "dict": dic, "premise": prem, "facts": facts, "rows": rows}


def c_key(k):
    return "%s %d" % (["KV", "KS", "KO"][k[0]], k[1])


def c_run_join(case):
    rows = "; ".join("[" + "; ".join("(%s, %d)" % (c_key(k), v) for k, v in row) + "]" for row in case["rows"])
    return "run_join %s [%s] [%s]" % (c_atom(case["premise"]), "; ".join(c_fact(f) for f in case["facts"]), rows)


def canon_row_model(row):
    d = {}
    for (t, n, v) in row:       # Coq prints ((t, n), v) as (t, n, v); lookup finds the first entry, a BTreeMap holds one entry per key
        d.setdefault((t, n), v)
    return sorted(d.items())


def canon_row_impl(row):
    return sorted((tuple(k), v) for k, v in row)


# ---- large fact sets (the join splits its probe side into chunks of max(len / rayon threads, 1000) triples) ----------
JOIN_MIN_CHUNK = 1000      # shared/src/join_algorithm.rs: chunk_size = (len / current_num_threads().max(1)).max(1000)
RAYON_THREADS = [1, 2, 4, 16]


def large_program(kind, n):
    """Flat programs in which one premise matches n facts (n straddles multiples of the chunk size)."""
    V = lambda k: ["v", k]
    C = lambda k: ["c", k]
    ents = ["e%d" % i for i in range(n)]
    if kind == "type-chain":      # n facts (e_i type A); A -> B -> C: the second round joins a delta of n facts
        dic = ents + ["type", "A", "B", "Cc"]
        T, A, B, Cc = n, n + 1, n + 2, n + 3
        facts = [[i, T, A] for i in range(n)]
        rules = [{"prem": [[V(0), C(T), C(A)]], "neg": [], "filt": [], "concl": [[V(0), C(T), C(B)]]},
                 {"prem": [[V(0), C(T), C(B)]], "neg": [], "filt": [], "concl": [[V(0), C(T), C(Cc)], [C(Cc), C(T), V(0)]]}]
    elif kind == "two-premise":   # (X p Y)(Y q Z) -> (X r Z): n p-facts, n q-facts
        dic = ents + ["p", "q", "r", "g0", "g1", "g2"]
        Pp, Q, R, G = n, n + 1, n + 2, n + 3
        facts = [[i, Pp, (i * 7 + 1) % n] for i in range(n)] + [[i, Q, G + i % 3] for i in range(n)]
        rules = [{"prem": [[V(0), C(Pp), V(1)], [V(1), C(Q), V(2)]], "neg": [], "filt": [], "concl": [[V(0), C(R), V(2)]]}]
    elif kind == "var-predicate":  # (X P a) -> (a P X): variable predicate, constant object
        dic = ents + ["p", "q", "a"]
        Pp, Q, A = n, n + 1, n + 2
        facts = [[i, Pp if i % 2 else Q, A] for i in range(n)]
        rules = [{"prem": [[V(0), V(1), C(A)]], "neg": [], "filt": [], "concl": [[C(A), V(1), V(0)]]}]
    elif kind == "negation":      # (X type A), NOT (X flag on) -> (X type D): the negative pass joins n facts too
        dic = ents + ["type", "A", "D", "flag", "on"]
        T, A, D, Fl, On = n, n + 1, n + 2, n + 3, n + 4
        facts = [[i, T, A] for i in range(n)] + [[i, Fl, On] for i in range(0, n, 5)]
        rules = [{"prem": [[V(0), C(T), C(A)]], "neg": [[V(0), C(Fl), C(On)]], "filt": [], "concl": [[V(0), C(T), C(D)]]}]
    else:
        raise ValueError(kind)
    return {"kind": "program", "dict": dic, "facts": facts, "rules": rules, "large": kind, "n": n}


def c_run_spec(case):
    return "run_spec [] %d%%nat [%s] [%s]" % (12, "; ".join(c_rule(r) for r in case["rules"]),
                                               "; ".join(c_fact(f) for f in case["facts"]))


def evaluate_large(ctx, binpath, cases, stream, threads=None):
    """Large cases: every strategy of the implementation under several rayon pool sizes against the executable Spec
    (least_model / stratified_exec, proved equal to the inductive definitions).  The Gallina models of the strategies are
    NOT run on these cases (their list-based hash tables are quadratic under vm_compute); recorded in the evidence."""
    spec = ctx.run_model(SUB, REQ, [c_run_spec(c) for c in cases], preamble=PRE, chunk=1, timeout=1500)
    st = {"cases": 0, "spec_violations": 0, "sizes": sorted(set(c["n"] for c in cases)), "rayon_threads": RAYON_THREADS,
          "model_strategies_evaluated": False, "known_reproduced": 0}
    want = []
    for c, mo in zip(cases, spec):
        if isinstance(mo, tuple) and mo and mo[0] == "ERROR":
            ctx.broken("correspondence", stream, "Spec evaluation failed on a large case: %s" % (mo[1],), {"large": c["large"], "n": c["n"]})
            want.append(None)
            continue
        lm, strat, (kpar, kneg, safe, kfeed) = mo
        if (kpar, kneg, safe, kfeed) != (known_par(c), known_neg(c), all(safe_rule(r) for r in c["rules"]), known_neg_feed(c)):
            ctx.broken("correspondence", stream, "class predicates of checks/c05.py and Classes.v disagree", {"large": c["large"], "n": c["n"]})
            want.append(None)
            continue
        if kneg:
            if strat is None or not strat[1][2]:
                ctx.broken("correspondence", stream, "stratified Spec gave no answer on a large case", {"large": c["large"], "n": c["n"]})
                want.append(None)
                continue
            want.append(fset(strat[1][1]))
        else:
            if lm is None:
                ctx.broken("correspondence", stream, "Spec ran out of fuel on a large case", {"large": c["large"], "n": c["n"]})
                want.append(None)
                continue
            want.append(fset(lm[1]))
    for th in (threads or RAYON_THREADS):
        impl = ctx.run_impl(binpath, [{k: v for k, v in c.items() if k not in ("large", "n")} for c in cases], shards=1,
                            env={"RAYON_NUM_THREADS": str(th)})
        for c, im, w in zip(cases, impl, want):
            if w is None:
                continue
            ctx.count()
            st["cases"] += 1
            F = fset(c["facts"])
            derived = [f for f in w if f not in F]
            ctx.nontrivial(("large", c["large"], c["n"], th))
            small = {"large": c["large"], "n": c["n"], "rayon_threads": th}
            if im is None or im.get("driver_died"):
                ctx.violation(small, {"what": "driver died on a large program", "impl": im})
                st["spec_violations"] += 1
                continue
            for s in STRATS:
                i = impl_triple(im.get(s))
                if i is None:
                    ctx.violation(dict(small, strategy=s), {"what": "implementation panicked or rejected a safe program", "impl": im.get(s)})
                    st["spec_violations"] += 1
                    continue
                known = ((s == "par" and known_par(c) and is_known(ctx, "C05-parallel-shapes"))
                         or (known_neg(c) and s != "prov" and is_known(ctx, "C05-negation-ignored"))
                         or (known_neg(c) and s == "prov" and known_neg_feed(c) and is_known(ctx, "C05-negation-single-pass")))
                ok = (i["all"] == w and i["new"] == derived and i["again"] == [] and not i["dups"] and i["all2"] == i["all"])
                if ok:
                    continue
                if known:
                    st["known_reproduced"] += 1
                    continue
                missing = [f for f in w if f not in set(i["all"])]
                extra = [f for f in i["all"] if f not in set(w)]
                ctx.violation(dict(small, strategy=s),
                              {"what": "strategy '%s' does not compute the %s on a large fact set (RAYON_NUM_THREADS=%d)" % (
                                  s, "stratified model" if known_neg(c) else "least model", th),
                               "premise_matches": c["n"], "join_chunk_size": max(c["n"] // th, JOIN_MIN_CHUNK),
                               "missing_count": len(missing), "missing": missing[:8], "unsound": extra[:8],
                               "second_run": i["again"][:8], "specified_model_size": len(w), "stored": len(i["all"])})
                st["spec_violations"] += 1
    ctx.stream(stream, **st)


def large_cases(thorough):
    if thorough:
        spec = [("type-chain", 1001), ("type-chain", 1500), ("type-chain", 2000), ("type-chain", 2001), ("type-chain", 3000),
                ("two-premise", 1001), ("two-premise", 1999), ("two-premise", 2500), ("var-predicate", 1500), ("var-predicate", 2999),
                ("negation", 1001), ("negation", 2001)]
    else:
        spec = [("type-chain", 1001), ("two-premise", 1001), ("var-predicate", 1500), ("negation", 1250)]
    return [large_program(k, n) for k, n in spec]


# ---- cascades: later premises of a 3/4-premise rule are fed by facts that other rules derive in the same round ----------
def cascade_program(k, base_pos, swaps, extra_round, ne=3, order=None):
    """friend-of-a-friend style cascade.  Base facts (x type T) and (x likes y).  One one-premise rule per derived predicate
    d_j: (X likes Y) -> (X d_j Y) or (Y d_j X) (swaps[j]); the k-premise rule has the base premise (X type T) at position
    base_pos and the premises over d_1 .. d_{k-1} elsewhere; with extra_round the base premise is over a predicate derived
    one round EARLIER than the d_j (so it is old, not base, when the d_j arrive)."""
    V = lambda i: ["v", i]
    C = lambda i: ["c", i]
    ents = ["a", "b", "c", "d"][:ne]
    preds = ["type", "T", "likes", "pre", "friend", "seed"] + ["d%d" % j for j in range(1, k)]
    dic = ents + preds
    idx = {s: i for i, s in enumerate(dic)}
    facts = [[i, idx["type"], idx["T"]] for i in range(ne)]
    facts += [[i, idx["likes"], (i + 1) % ne] for i in range(ne)] + [[0, idx["likes"], 0]]
    rules = []
    src = "likes"
    if extra_round:        # likes facts appear one round later than the type facts: (x seed y) -> (x likes y)
        facts = [f if f[1] != idx["likes"] else [f[0], idx["seed"], f[2]] for f in facts]
        rules.append({"prem": [[V(0), C(idx["seed"]), V(1)]], "neg": [], "filt": [], "concl": [[V(0), C(idx["likes"]), V(1)]]})
    body = []
    for j in range(1, k):
        d = idx["d%d" % j]
        rules.append({"prem": [[V(0), C(idx[src]), V(1)]], "neg": [], "filt": [],
                      "concl": [[V(1), C(d), V(0)] if swaps[j - 1] else [V(0), C(d), V(1)]]})
        body.append([V(1), C(d), V(0)] if swaps[j - 1] else [V(0), C(d), V(1)])
    body.insert(base_pos, [V(0), C(idx["type"]), C(idx["T"])])
    rules.append({"prem": body, "neg": [], "filt": [], "concl": [[V(0), C(idx["friend"]), V(1)]]})
    if order is not None:
        rules = [rules[i] for i in order]
    return {"kind": "program", "dict": dic, "facts": facts, "rules": rules}


def cascade_cases(rng, thorough):
    cases = []
    for k in (3, 4):
        for base_pos in range(k):
            for sw in itertools.product([False, True], repeat=k - 1):
                for extra in (False, True):
                    if not thorough and (k == 4 and (sum(sw) % 2 == 1)):
                        continue
                    cases.append(cascade_program(k, base_pos, sw, extra))
    for _ in range(200 if thorough else 24):    # random variants: rule order, entity count
        k = rng.choice([3, 4])
        n_rules = (k - 1) + 1
        extra = rng.random() < 0.5
        order = list(range(n_rules + (1 if extra else 0)))
        rng.shuffle(order)
        cases.append(cascade_program(k, rng.randrange(k), [rng.random() < 0.5 for _ in range(k - 1)], extra,
                                     ne=rng.choice([2, 3, 4]), order=order))
    return cases


# ---- evaluation ------------------------------------------------------------------------------------
def is_known(ctx, fid):
    return any(k["id"] == fid for k in ctx.known_findings())


def evaluate_programs(ctx, binpath, cases, stream, pairs=None):
    """pairs: list of (i, j) indexes of cases that are the same program in another rule/fact order."""
    impl = ctx.run_impl(binpath, cases)
    model = ctx.run_model(SUB, REQ, [c_run_all(c) for c in cases], preamble=PRE)
    st = {"cases": len(cases), "impl_model_mismatches": 0, "spec_violations": 0, "in_known_par": 0, "in_known_neg": 0,
          "known_par_reproduced": 0, "known_neg_reproduced": 0, "derived_facts": 0, "empty_derivation": 0,
          "rules": 0, "premises": 0, "var_predicate_premises": 0, "filters": 0, "two_conclusions": 0, "facts": 0,
          "negated_atoms": 0, "unstratified_skipped": 0, "in_known_neg_feed": 0, "known_neg_feed_reproduced": 0}
    spelled_idx = [i for i, c in enumerate(cases) if c.get("varnames")]
    spelled = dict(zip(spelled_idx, ctx.run_model(SUB, REQ, [c_run_spelled(cases[i]) for i in spelled_idx],
                                                  preamble=PRE + " Import String.StringSyntax."))) if spelled_idx else {}
    results = []
    for ci, (c, im, mo) in enumerate(zip(cases, impl, model)):
        ctx.count()
        results.append(None)
        if isinstance(mo, tuple) and mo and mo[0] == "ERROR":
            ctx.broken("correspondence", stream, "model evaluation failed: %s" % (mo[1],), c)
            continue
        m = {s: model_triple(mo[i]) for i, s in enumerate(STRATS)}
        m_spelled = None
        if ci in spelled:
            sp = spelled[ci]
            if isinstance(sp, tuple) and sp and sp[0] == "ERROR":
                ctx.broken("correspondence", stream, "model evaluation (spelled variant) failed: %s" % (sp[1],), c)
                continue
            if sp[0] != known_synth(c):
                ctx.broken("correspondence", stream, "known_synth of checks/c05.py and no_synthetic_names of VarKeys.v disagree", c)
                continue
            m_spelled = model_triple(sp[1])     # the naive strategy with the join keys the spellings denote
        spec = None if mo[4] is None else fset(mo[4][1])
        kpar_m, kneg_m, safe_m = mo[5]
        strat, kfeed_m, accepted_m = mo[6]
        kpar, kneg, safe = known_par(c), known_neg(c), all(safe_rule(r) for r in c["rules"])
        kfeed = known_neg_feed(c)
        if not accepted_m:
            # unsafe negation: Reasoner::try_add_rule must reject the program (shared/src/rule.rs check_rule_safety)
            st["unsafe_negation"] = st.get("unsafe_negation", 0) + 1
            rej = im is not None and all(isinstance(im.get(s), dict) and "rejected" in im[s] for s in STRATS)
            if not rej:
                ctx.broken("correspondence", stream, "a rule with an unsafe negated atom was not rejected by try_add_rule (model: check_rule_safety = false)",
                           {"case": c, "impl": im})
            continue
        if (kpar, kneg, safe, kfeed) != (kpar_m, kneg_m, safe_m, kfeed_m):
            ctx.broken("correspondence", stream, "class predicates of checks/c05.py and Classes.v disagree", c)
            continue
        if spec is None or any(m[s] is None for s in STRATS):
            ctx.broken("correspondence", stream, "model or Spec ran out of fuel", c)
            continue
        F = fset(c["facts"])
        stratified = True
        if kneg:
            if strat is None:
                ctx.broken("correspondence", stream, "stratified Spec ran out of fuel", c)
                continue
            _m0, s1, okflag = strat[1]
            spec = fset(s1)            # the Spec of a program with negated atoms is the stratified model
            stratified = okflag
            st["unstratified_skipped"] += not okflag
        derived = [f for f in spec if f not in F]
        st["rules"] += len(c["rules"])
        st["facts"] += len(F)
        for r in c["rules"]:
            st["premises"] += len(r["prem"])
            st["var_predicate_premises"] += sum(1 for a in r["prem"] if a[1][0] == "v")
            st["filters"] += len(r.get("filt", []))
            st["negated_atoms"] += len(r.get("neg", []))
            st["two_conclusions"] += len(r["concl"]) >= 2
        st["derived_facts"] += len(derived)
        st["empty_derivation"] += not derived
        if derived:
            ctx.nontrivial((c["dict"], c["rules"], F))
        if im is None or im.get("driver_died"):
            ctx.violation(c, {"what": "driver died on the program", "impl": im})
            st["spec_violations"] += 1
            continue
        results[-1] = {}
        for s in STRATS:
            r = im.get(s)
            i = impl_triple(r)
            if i is None:
                ctx.violation({"case": c, "strategy": s}, {"what": "implementation panicked or rejected a safe program", "impl": r})
                st["spec_violations"] += 1
                continue
            results[-1][s] = i
            in_par = s == "par" and kpar
            in_neg = kneg and s != "prov"
            in_feed = kneg and s == "prov" and kfeed
            in_synth = known_synth(c) and s != "par"
            if not stratified:
                want = None     # the two-level split is not a stratification of this program: no specified answer
            else:
                want = {"all": spec, "new": derived, "again": []}
            got = {k: i[k] for k in ("all", "new", "again")}
            ok_spec = want is None or (got == want and not i["dups"] and i["all2"] == i["all"])
            if s == "naive" and m_spelled is not None:
                ok_model = got == m_spelled      # inside the class too: the spelled variant reproduces the capture
            else:
                ok_model = got == m[s] or (in_synth and is_known(ctx, "C05-synthetic-var-capture"))
            if not ok_model:
                st["impl_model_mismatches"] += 1
            if in_par:
                st["in_known_par"] += 1
            if in_neg:
                st["in_known_neg"] += 1
            if in_feed:
                st["in_known_neg_feed"] += 1
            if not ok_spec:
                if in_synth and is_known(ctx, "C05-synthetic-var-capture"):
                    st["known_synth_reproduced"] = st.get("known_synth_reproduced", 0) + 1
                elif in_neg and is_known(ctx, "C05-negation-ignored"):
                    st["known_neg_reproduced"] += 1
                elif in_feed and is_known(ctx, "C05-negation-single-pass"):
                    st["known_neg_feed_reproduced"] += 1
                elif in_par and is_known(ctx, "C05-parallel-shapes"):
                    st["known_par_reproduced"] += 1
                else:
                    missing = [f for f in want["all"] if f not in got["all"]]
                    extra = [f for f in got["all"] if f not in want["all"]]
                    ctx.violation({"case": c, "strategy": s},
                                  {"what": "strategy '%s' does not compute the %s" % (s, "stratified model" if kneg else "least model"),
                                   "missing": missing[:10], "unsound": extra[:10], "second_run": got["again"][:10],
                                   "duplicates_in_returned": i["dups"], "least_model_size": len(spec)})
                    st["spec_violations"] += 1
                    continue
            if not ok_model:
                ctx.broken("correspondence", stream,
                           "strategy '%s': implementation and model differ (Spec oracle %s)" % (s, "accepts the implementation" if ok_spec else "is not decisive here"),
                           {"case": c, "strategy": s, "impl": got, "model": m[s]})
    if pairs:
        for (a, b) in pairs:
            ra, rb = results[a], results[b]
            if ra and rb:
                for s in STRATS:
                    if s in ra and s in rb and (ra[s]["all"] != rb[s]["all"] or ra[s]["new"] != rb[s]["new"]):
                        if s == "par" and known_par(cases[a]) and is_known(ctx, "C05-parallel-shapes"):
                            continue
                        if known_neg(cases[a]) and (s != "prov" or known_neg_feed(cases[a])):
                            continue
                        ctx.violation({"case": cases[a], "reordered": cases[b], "strategy": s},
                                      {"what": "result depends on rule/fact order", "first": ra[s], "second": rb[s]})
    ctx.stream(stream, **st)
    return results


def evaluate_joins(ctx, binpath, cases, stream):
    impl = ctx.run_impl(binpath, cases)
    model = ctx.run_model(SUB, REQ, [c_run_join(c) for c in cases], preamble=PRE)
    mism = nonempty = 0
    for c, im, mo in zip(cases, impl, model):
        ctx.count()
        if isinstance(mo, tuple) and mo and mo[0] == "ERROR":
            ctx.broken("correspondence", stream, "model evaluation failed: %s" % (mo[1],), c)
            continue
        if im is None or "rows" not in im:
            ctx.broken("correspondence", stream, "join driver failed: %s" % (im,), c)
            continue
        mrows = sorted(canon_row_model(r) for r in mo)
        irows = sorted(canon_row_impl(r) for r in im["rows"])
        if mrows:
            nonempty += 1
            ctx.nontrivial(("join", c["premise"], c["facts"], c["rows"]))
        if mrows != irows:
            mism += 1
            ctx.broken("correspondence", stream, "perform_hash_join_for_rules and the model's hash_join return different rows",
                       {"case": c, "impl": irows, "model": mrows})
    ctx.stream(stream, cases=len(cases), nonempty=nonempty, mismatches=mism)


def load_corpus():
    d = os.path.join(vf.VERIF, "corpus", "C05")
    out = []
    if os.path.isdir(d):
        for fn in sorted(os.listdir(d)):
            if fn.endswith(".json"):
                with open(os.path.join(d, fn)) as f:
                    j = json.load(f)
                j["_file"] = fn
                out.append(j)
    return out


def replay_known(ctx, binpath):
    """Replay the listed witness of every open finding on the implementation; print KNOWN-FINDING if it still fails."""
    for k in ctx.known_findings():
        w = k.get("witness")
        if not isinstance(w, dict) or "rules" not in w:
            continue
        case = {"kind": "program", "dict": w["dict"], "facts": w["facts"], "rules": w["rules"]}
        if "varnames" in w:
            case["varnames"] = w["varnames"]
        im = ctx.run_impl(binpath, [case])[0]
        mo = ctx.run_model(SUB, REQ, [c_run_all(case)], preamble=PRE)[0]
        ctx.count()
        if isinstance(mo, tuple) and mo and mo[0] == "ERROR":
            ctx.broken("correspondence", "known-witness", "model evaluation failed on the witness of %s" % k["id"], case)
            continue
        s = w.get("strategy", "par")
        if known_neg(case):
            want = fset(mo[6][0][1][1])
        else:
            want = fset(mo[4][1])
        got = impl_triple(im.get(s)) if im else None
        if got is None or got["all"] != want:
            missing = [] if got is None else [f for f in want if f not in got["all"]]
            extra = [] if got is None else [f for f in got["all"] if f not in want]
            ctx.known(k["id"], "%s: strategy '%s' stores %d facts, the specified model has %d (missing %d, unsound %d)" % (
                k.get("what", ""), s, -1 if got is None else len(got["all"]), len(want), len(missing), len(extra)))
        else:
            ctx.log("finding %s no longer reproduces on its witness (entry is stale)" % k["id"])


def run(ctx):
    ctx.coq(SUB, "C05.v")
    binpath = ctx.harness("c05")
    # corpus first
    corpus = [c for c in load_corpus() if c.get("kind", "program") == "program"]
    if corpus:
        evaluate_programs(ctx, binpath, [{k: v for k, v in c.items() if not k.startswith("_")} for c in corpus], "corpus")
    replay_known(ctx, binpath)
    # cascades (3/4-premise rules fed by facts other rules derive in the same round) and large fact sets
    casc = cascade_cases(ctx.rng, ctx.thorough)
    ctx.sample({"cascade_rules": casc[0]["rules"], "facts": casc[0]["facts"]})
    evaluate_programs(ctx, binpath, casc, "cascade")
    large = large_cases(ctx.thorough)
    for c in load_corpus():      # corpus entries {"kind": "large", "large": <family>, "n": <size>}
        if c.get("kind") == "large" and not any(l["large"] == c["large"] and l["n"] == c["n"] for l in large):
            large.append(large_program(c["large"], c["n"]))
    evaluate_large(ctx, binpath, large, "large_fact_sets")
    # function-level join stream
    nj = 3000 if ctx.thorough else 400
    joins = [random_join_case(ctx.rng, i % 3 != 0) for i in range(nj)]
    ctx.sample(joins[1])
    evaluate_joins(ctx, binpath, joins, "join")
    # exhaustive small scope
    ex, exinfo = exhaustive_cases(ctx.thorough)
    ctx.sample(ex[len(ex) // 2])
    evaluate_programs(ctx, binpath, ex, "exhaustive")
    ctx.coverage["exhaustive"] = True
    ctx.coverage["exhaustive_scope"] = ("scope A (complete in both tiers): all %(scope_a_rules)d canonical safe rules with <=2 premises and 1 conclusion over "
                                        "s/o terms {a,b,X0,X1,X2} and the constant predicate p, each on %(scope_a_factsets)d fact sets over {a,b}x{p}x{a,b}; "
                                        "scope B (sampled): every %(scope_b_stride)d-th of the %(scope_b_rules)d such rules with a variable in predicate position; "
                                        "scope C: %(pairs_run)d ordered pairs (one-premise rule, rule) from a pool of %(pair_pool)d rules over {a,X0,X1}" % exinfo)
    # random programs, each also run in a shuffled order
    n = 4000 if ctx.thorough else 360
    rnd, pairs = [], []
    for i in range(n):
        c = random_program(ctx.rng, "par" if i % 3 == 2 else "general")
        rnd.append(c)
        if i % 2 == 0:
            pairs.append((len(rnd) - 1, len(rnd)))
            rnd.append(shuffled(ctx.rng, c))
    ctx.sample(rnd[0])
    evaluate_programs(ctx, binpath, rnd, "random", pairs)
    # programs with one stratum of negation (oracle: the stratified Spec)
    nn = 1500 if ctx.thorough else 150
    neg = [random_program(ctx.rng, "neg") for _ in range(nn)]
    ctx.sample(next((c for c in neg if known_neg(c)), neg[0]))
    evaluate_programs(ctx, binpath, neg, "negation")
    # malformed stream: a negated atom with a variable that no premise binds must be rejected
    bad = []
    for c in neg[: (200 if ctx.thorough else 40)]:
        c = json.loads(json.dumps(c))
        r = ctx.rng.choice(c["rules"])
        r["neg"] = r.get("neg", []) + [[["v", 9], ["c", len(c["dict"]) - 3], ["v", 0]]]
        bad.append(c)
    evaluate_programs(ctx, binpath, bad, "malformed_unsafe_negation")
    finish(ctx)


def finish(ctx):
    ctx.finish(
        level="proof", rule=PROP_RULE,
        trusted_base=[
            "Coq 8.16.1 kernel; vm_compute for running the model and the Spec in the correspondence check",
            "hand-written Gallina model coq/Datalog/{HashJoin,Strategies}.v of shared/src/join_algorithm.rs, datalog/src/reasoning/materialisation/{infer_generic,my_naive,semi_naive,semi_naive_parallel,provenance_semi_naive}.rs, rules.rs, rule_index.rs",
            "correspondence check: harness/src/bin/c05.rs (public API only), checks/c05.py generators and canonicalisation",
            "dictionary abstracted to a bijection (C15): binding rows map variables to ids instead of strings; u32 ids modelled as unbounded N",
            "HashSet/HashMap modelled as repetition-free lists in insertion order; rayon collects assumed order-preserving and race-free",
            "numeric filter values: integers (f64 parsing of the generated strings is exact)",
        ],
        assumptions=["rule variable names are outside the engine's synthetic namespace (__const_subj_*, __const_obj_*)",
                     "no quoted-triple terms in rules; conclusions only use premise variables (rule safety)",
                     "BooleanProvenance without probability seeds (every tag is `true`)"])


def replay(ctx):
    binpath = ctx.harness("c05")
    c = ctx.replay["case"]
    case = c.get("case", c)
    if "large" in case:
        evaluate_large(ctx, binpath, [large_program(case["large"], case["n"])], "replay",
                       threads=[case["rayon_threads"]] if "rayon_threads" in case else None)
    elif case.get("kind") == "join":
        evaluate_joins(ctx, binpath, [case], "replay")
    else:
        cases = [case] + ([c["reordered"]] if "reordered" in c else [])
        evaluate_programs(ctx, binpath, cases, "replay", [(0, 1)] if len(cases) == 2 else None)
    ctx.finish(level="proof", rule=PROP_RULE)
