"""C09 - a time window reports exactly the stream items of one aligned interval (DESIGN.md section 7, C09).

Theorems: coq/Rsp09/C09.v (content exactness, monotonicity, exactly-once outside the hopping gap, gap refuted),
about the Gallina model coq/Rsp09/Model.v of CSPARQLWindow::{scope, add_to_window} (OnWindowClose, TimeDriven).
Correspondence: the real CSPARQLWindow (callback consumer, WindowRunner/channel consumer, and a hooked instance
exposing the active windows) against `KV.Rsp09.Run.model_trace` on the same streams.
Oracle: an independent Python re-statement of Spec.v evaluated on the implementation's firings.
"""
import glob
import itertools
import json
import os
import re
import shutil
import sys
import time
import atexit

import vf

PROP_RULE = ("a case is one (width, slide, stream of (item, timestamp)) fed event by event into a fresh window; "
             "non-trivial when the implementation produced at least one firing with non-empty content; distinct by "
             "(width, slide, stream); a function-level `scope` case (width, slide, timestamps passed to scope on a fresh window) "
             "is non-trivial when scope opened at least two windows. Exhaustive scope: every stream of at most N events whose successive timestamp "
             "gaps (the first one from 0) are in 0..3, for every width, slide in 1..4 (N=5 quick, 6 thorough).")

FINDING_ID = "C09-hopping-gap"
ITEM_PATTERN = [0, 1, 0, 2, 1, 0, 3, 2]


# ---- Coq rendering ------------------------------------------------------------------------------
def evs_coq(evs):
    return "[" + "; ".join("(%d, %d)" % (x, t) for x, t in evs) + "]"


def case_expr(c):
    if c.get("mode") == "scope":
        return "model_scope %d %d [%s]" % (c["w"], c["s"], "; ".join(str(t) for t in c["ts"]))
    return "%s %d %d %s" % ("model_case_trace" if c.get("snap") else "model_case", c["w"], c["s"], evs_coq(c["evs"]))


def canon_items(el):
    return sorted([int(i), int(t)] for i, t in el)


def canon_wins(ws):
    return sorted([int(o), int(c), canon_items(el), int(lc)] for o, c, el, lc in ws)


def model_firings(mf):
    """Coq (idx, time, open, close, elems, last_changed) -> dicts shaped like the driver's, plus the window."""
    out = []
    for k, t, o, c, el, lc in mf:
        out.append({"k": k, "t": t, "items": canon_items(el), "lc": lc, "len": len(el), "open": o, "close": c})
    return out


def strip_win(f):
    return {k: v for k, v in f.items() if k not in ("open", "close")}


# ---- independent oracle (Spec.v restated) ---------------------------------------------------------
def spec_items(w, c, evs):
    """the items of the stream with a timestamp in [c-w, c), each with its latest such timestamp"""
    d = {}
    for x, t in evs:
        if c <= t + w and t < c:
            d[x] = max(d.get(x, t), t)
    return sorted([i, t] for i, t in d.items())


def item_set(f):
    return sorted(i for i, _ in f["items"])


def is_cand(w, s, evs, f, c):
    """the firing's item set is exactly the item set of [c-w, c), c aligned and not after the trigger
    (the property text speaks of the set of items; the stored latest timestamps are compared against the model only)"""
    return c % s == 0 and c <= f["t"] and [i for i, _ in spec_items(w, c, evs)] == item_set(f)


def cand_range(w, s, evs, f):
    """closes that could possibly produce the non-empty item set of f (superset of the candidates), ascending"""
    i0 = f["items"][0][0]
    cs = set()
    for x, t in evs:
        if x == i0:
            first = (t // s + 1) * s
            cs.update(range(first, min(t + w, f["t"]) + 1, s))
    return sorted(cs)


def min_cand_ge(w, s, evs, f, lo):
    """least close c >= lo such that the firing is an exact report of [c-w, c); None if there is none"""
    if f["items"]:
        for c in cand_range(w, s, evs, f):
            if c >= lo and is_cand(w, s, evs, f, c):
                return c
        return None
    c = ((lo + s - 1) // s) * s
    bound = len(evs) * (w // s + 2) + 2      # at most that many aligned intervals are non-empty
    n = 0
    while c <= f["t"] and n <= bound:
        if is_cand(w, s, evs, f, c):
            return c
        c += s
        n += 1
    return None


def closings(s, evs):
    """(c, k): interval with close c closes at event k, whose predecessor (t_0 = 0 for the first) is at most one slide back"""
    out, tp = [], 0
    for k, (_, t) in enumerate(evs):
        c = (t // s) * s
        if tp < t <= tp + s and tp < c:
            out.append((c, k))
        tp = t
    return out


def in_gap_class(w, s, evs, c):
    """known class C09-hopping-gap: slide > width and no event timestamp in [c - width, c]"""
    return s > w and not any(c <= t + w and t <= c for _, t in evs)


def oracle(w, s, evs, firings):
    """Returns (violations, skipped_known): violations = list of (clause, text)."""
    bad, skipped = [], []
    n = len(evs)
    # clause 1: every firing belongs to an event and is the exact content of one aligned interval closing not after it
    for f in firings:
        if not (0 <= f["k"] < n and evs[f["k"]][1] == f["t"]):
            bad.append(("content", "firing %r does not belong to an event of the stream" % (f,)))
            continue
        if f["len"] != len(f["items"]) or len({i for i, _ in f["items"]}) != len(f["items"]):
            bad.append(("content", "firing at event %d reports an item more than once: %r" % (f["k"], f["items"])))
            continue
        if min_cand_ge(w, s, evs, f, 0) is None:
            bad.append(("content", "firing at event %d (t=%d) with items %r is not the item set of any interval "
                        "[c-%d, c) with %d | c and c <= %d (missing or foreign item)" % (f["k"], f["t"], item_set(f), w, s, f["t"])))
    if bad:
        return bad, skipped
    # clause 2: strictly increasing trigger times, non-decreasing intervals
    lo = 0
    for a, b in zip(firings, firings[1:]):
        if not (a["k"] < b["k"] and a["t"] < b["t"]):
            bad.append(("monotone", "firings at events %d (t=%d) and %d (t=%d) are not triggered at strictly increasing times"
                        % (a["k"], a["t"], b["k"], b["t"])))
    for f in firings:
        c = min_cand_ge(w, s, evs, f, lo)
        if c is None:
            bad.append(("monotone", "firing at event %d reports an interval before an interval reported earlier (no close >= %d fits %r)"
                        % (f["k"], lo, f["items"])))
            break
        lo = c
    # clause 3: every interval that closes (consecutive timestamps at most one slide apart) is reported exactly once
    by_idx = {}
    for f in firings:
        by_idx.setdefault(f["k"], []).append(f)
    for c, k in closings(s, evs):
        reported = [f for f in by_idx.get(k, []) if is_cand(w, s, evs, f, c)]
        if in_gap_class(w, s, evs, c):
            if not reported:
                skipped.append((c, k))
            continue
        if not reported:
            bad.append(("once", "interval [%d, %d) closes at event %d (t=%d, previous t=%d, slide %d) and is not reported there"
                        % (max(0, c - w), c, k, evs[k][1], evs[k - 1][1] if k else 0, s)))
    singles = {}
    for f in firings:
        if f["items"]:
            cs = [c for c in cand_range(w, s, evs, f) if is_cand(w, s, evs, f, c)]
            if len(cs) == 1:
                if cs[0] in singles:
                    bad.append(("once", "interval with close %d is reported twice (events %d and %d)" % (cs[0], singles[cs[0]], f["k"])))
                singles[cs[0]] = f["k"]
    return bad, skipped


def check_model_windows(w, s, evs, mfs):
    """the model's own windows against the oracle (what the theorems say); returns a text or None"""
    prev = None
    for f in mfs:
        c = f["close"]
        if f["open"] != max(0, c - w) or c % s or c > f["t"] or spec_items(w, c, evs) != f["items"]:
            return "model firing %r is not an exact aligned report" % (f,)
        if prev is not None and not (prev["close"] < c and prev["t"] < f["t"]):
            return "model firings not strictly ordered: %r then %r" % (prev, f)
        prev = f
    return None


# ---- generators -----------------------------------------------------------------------------------
def exhaustive_cases(nmax, snap_upto=99):
    """every stream of <= nmax events with gaps 0..3 x w, s in 1..4; window-state snapshots for streams of <= snap_upto events"""
    cases = []
    for n in range(0, nmax + 1):
        for gaps in itertools.product(range(4), repeat=n):
            ts, t = [], 0
            for g in gaps:
                t += g
                ts.append(t)
            evs = [[ITEM_PATTERN[k], ts[k]] for k in range(n)]
            for w in range(1, 5):
                for s in range(1, 5):
                    # one window with both consumers: Receiver dropped before event d, for every d, and never
                    cases.append({"w": w, "s": s, "evs": evs, "snap": n <= snap_upto, "drops": [None] + list(range(n))})
    return cases


def random_stream(rng, n, wmax, base=0, pool=None):
    w, s = rng.randint(1, wmax), rng.randint(1, wmax)
    if rng.random() < 0.25:
        s = rng.randint(w + 1, w + 1 + wmax // 2)     # hopping
    if rng.random() < 0.15:
        w = s * rng.randint(1, 4)                       # width a multiple of the slide
    pool = pool or rng.choice([3, 8, 30])
    style = rng.choice(["dense", "slide", "mixed", "sparse"])
    t = base + (rng.randint(0, 2 * s) if rng.random() < 0.7 else 0)
    evs = []
    for _ in range(n):
        evs.append([rng.randrange(pool), t])
        r = rng.random()
        if style == "dense":
            g = 0 if r < 0.3 else (1 if r < 0.8 else rng.randint(0, 3))
        elif style == "slide":
            g = rng.randint(0, s) if r < 0.9 else rng.randint(0, 3 * w)
        elif style == "mixed":
            g = 0 if r < 0.2 else (rng.randint(1, max(1, s)) if r < 0.7 else rng.randint(0, 3 * w))
        else:
            g = rng.randint(0, 3 * w + s)
        t += g
    drops = [None, 0, rng.randrange(n), rng.randrange(n)]     # channel Receiver dropped: never / before the stream / mid-stream
    return {"w": w, "s": s, "evs": evs, "drops": drops}


def disorder(rng, c):
    evs = [list(e) for e in c["evs"]]
    for _ in range(rng.randint(1, 3)):
        i, j = rng.randrange(len(evs)), rng.randrange(len(evs))
        evs[i][1], evs[j][1] = evs[j][1], evs[i][1]
    return {"w": c["w"], "s": c["s"], "evs": evs, "snap": c.get("snap", False), "disorder": True, "drops": c.get("drops", [])}


def scope_cases(rng, thorough):
    cases = []
    for w in range(1, 7):
        for s in range(1, 7):
            for t in range(0, 26):
                cases.append({"mode": "scope", "w": w, "s": s, "ts": [t]})
    for _ in range(600 if thorough else 150):
        w, s = rng.choice([(rng.randint(1, 12), rng.randint(1, 12)), (rng.randint(1, 400), rng.randint(1, 60)),
                           (rng.randint(1, 10 ** 6), rng.randint(1000, 10 ** 6))])
        base = rng.choice([0, 0, 10 ** 6, 2 ** 40])
        cases.append({"mode": "scope", "w": w, "s": s,
                      "ts": [base + rng.randint(0, 6 * max(w, s)) for _ in range(rng.randint(1, 5))]})
    return cases


def in_order(evs):
    return all(a[1] <= b[1] for a, b in zip(evs, evs[1:]))


# ---- evaluation -----------------------------------------------------------------------------------
REQUIRES = ["KV.Rsp09.Model", "KV.Rsp09.Spec", "KV.Rsp09.Run"]


def _infra_error(r):
    """a coqc shard that was killed by its timeout or lost its scratch file: machine trouble, not a verdict"""
    return isinstance(r, tuple) and len(r) == 2 and r[0] == "ERROR" and (
        "rc=124" in str(r[1]) or "[timeout after" in str(r[1]) or "No such file or directory" in str(r[1]))


def run_model_retry(ctx, exprs, chunk=None):
    res = ctx.run_model("Rsp09", REQUIRES, exprs, preamble="Open Scope N_scope.", chunk=chunk, timeout=1800)
    bad = [i for i, r in enumerate(res) if _infra_error(r)]
    if bad:
        ctx.log("model evaluation timed out on %d cases (overloaded machine?); retrying them in small shards" % len(bad))
        again = ctx.run_model("Rsp09", REQUIRES, [exprs[i] for i in bad], preamble="Open Scope N_scope.", chunk=50, timeout=3600)
        for i, r in zip(bad, again):
            res[i] = r
        if any(_infra_error(r) for r in again):
            print("[C09] model evaluation could not be completed (coqc timeouts; infrastructure error, not a verdict)")
            sys.exit(2)
    return res


def evaluate(ctx, binpath, cases, stream, chunk=None):
    t0 = time.time()
    impl = ctx.run_impl(binpath, cases)
    t1 = time.time()
    model = run_model_retry(ctx, [case_expr(c) for c in cases], chunk)
    st = dict(cases=len(cases), impl_model_mismatches=0, spec_violations=0, firings=0, empty_firings=0,
              closings_judged=0, gap_class_skipped=0, no_firing_cases=0)
    gap_seen = []
    t2 = time.time()
    for c, im, mo in zip(cases, impl, model):
        ctx.count()
        if isinstance(mo, tuple) and mo and mo[0] == "ERROR":
            ctx.broken("correspondence", stream, "model evaluation failed: %s" % (mo[1],), c)
            continue
        if im is None or "panic" in im or im.get("driver_died"):
            if c.get("mode") == "scope" or c.get("disorder"):
                ctx.broken("correspondence", stream, "implementation panicked / died where the model does not: %r" % (im,), c)
            else:
                ctx.violation(c, {"what": "the window panicked / died on an in-order stream", "impl": im})
                st["spec_violations"] += 1
            continue
        if c.get("mode") == "scope":
            m = [canon_wins(ws) for ws, ok in mo]
            if not all(ok for _, ok in mo):
                ctx.broken("correspondence", stream, "model scope loop ran out of fuel", c)
            i = [[[o, cl, sorted(el), lc] for o, cl, el, lc in ws] for ws in im["scope"]]
            if i != m:
                st["impl_model_mismatches"] += 1
                ctx.broken("correspondence", stream, "scope: implementation and model open different windows",
                           {"case": c, "impl": i, "model": m})
            if any(len(ws) > 1 for ws in m):
                ctx.nontrivial(("scope", c["w"], c["s"], tuple(c["ts"])))
            continue
        mrun, mtrace, (mviol, mskipped) = mo   # Coq prints ((a, b), c) as (a, b, c)
        w, s, evs = c["w"], c["s"], c["evs"]
        mfs = model_firings(mrun)
        ifs = im["cb"]
        st["firings"] += len(ifs)
        st["empty_firings"] += sum(1 for f in ifs if not f["items"])
        st["no_firing_cases"] += 0 if ifs else 1
        differ = None
        if im["ch"] != ifs:
            differ = "callback consumer and channel consumer (WindowRunner) received different firings"
        elif ifs != [strip_win(f) for f in mfs]:
            differ = "firings of the implementation and of the model differ"
        elif c.get("snap"):
            hk = im["hook"]
            msteps = [{"scoped": canon_wins(a), "after": canon_wins(b), "app": app} for a, b, app, ok in mtrace]
            if not all(ok for _, _, _, ok in mtrace):
                differ = "model scope loop ran out of fuel"
            elif hk["firings"] != ifs:
                differ = "hooked instance fired differently from the public-API instance"
            elif hk["steps"] != msteps:
                k = next((j for j in range(len(msteps)) if j >= len(hk["steps"]) or hk["steps"][j] != msteps[j]), 0)
                differ = "window state differs from the model at step %d" % k
            else:
                # the model's fired window is one of the implementation's windows, with that content
                for f in mfs:
                    sc = hk["steps"][f["k"]]["scoped"]
                    if [f["open"], f["close"], f["items"], f["lc"]] not in sc:
                        differ = "model's reported window %r is not an active window of the implementation" % (f,)
        # one window with a channel consumer AND a callback consumer, the channel's Receiver dropped before event d:
        # the callback must see the same firings as ever, the channel those of the events before d
        both_bad = None
        for b in im.get("both") or []:
            st["both_runs"] = st.get("both_runs", 0) + 1
            d = b["drop"]
            if b["cb"] != ifs:
                both_bad = (d, b["cb"], "with a channel consumer whose Receiver was dropped before event %s, the callback "
                            "consumer of the same window receives different firings" % d)
                break
            if b["ch"] != [f for f in ifs if d is None or f["k"] < d]:
                both_bad = (d, None, "the channel consumer (Receiver dropped before event %s) did not receive exactly the firings of "
                            "the earlier events" % d)
                break
        if both_bad and not differ:
            differ = both_bad[2]
        if differ:
            st["impl_model_mismatches"] += 1
        if not in_order(evs):
            # outside the property's quantifier: correspondence only
            if differ:
                ctx.broken("correspondence", stream, differ + " (out-of-order stream)", {"case": c, "impl": im, "model": mfs})
            continue
        # the Spec is the oracle, on the implementation's output
        vcase = {"w": w, "s": s, "evs": evs, "snap": bool(c.get("snap"))}
        views = [ifs] if im["ch"] == ifs else [ifs, im["ch"]]
        if both_bad and both_bad[1] is not None:
            views.append(both_bad[1])
        for fl in views:
            bad, skipped = oracle(w, s, evs, fl)
            if bad:
                if both_bad and fl is both_bad[1]:
                    vcase["drops"] = [both_bad[0]]
                    bad = [(bad[0][0], "one window with a channel consumer (Receiver dropped before event %s) and a callback "
                            "consumer; seen by the callback: %s" % (both_bad[0], bad[0][1]))] + bad[1:]
                break
        if not bad and len(views) > 1:
            _, skipped = oracle(w, s, evs, ifs)
        st["closings_judged"] += len(closings(s, evs)) - len(skipped)
        st["gap_class_skipped"] += len(skipped)
        if skipped:
            gap_seen.append((c, skipped))
        if bad:
            st["spec_violations"] += 1
            ctx.violation(vcase,
                          {"what": bad[0][1], "clause": bad[0][0], "all": [b[1] for b in bad[:5]],
                           "implementation_firings": fl, "model_firings": mfs})
        elif differ:
            ctx.broken("correspondence", stream, differ + " but the Spec oracle accepts the implementation",
                       {"case": c, "impl": im, "model": mfs})
        # the model against the oracle and against the Coq checker (what the theorems state)
        txt = check_model_windows(w, s, evs, mfs)
        mb, msk = oracle(w, s, evs, [strip_win(f) for f in mfs])
        if txt or mb or mviol or sorted(mskipped) != sorted(cc for cc, _ in msk):
            ctx.broken("oracle", stream, "model run rejected by a Spec checker: %s / python=%r / coq=%r skipped %r vs %r"
                       % (txt, mb[:2], mviol, mskipped, msk), c)
        if any(f["items"] for f in ifs):
            ctx.nontrivial((w, s, tuple(map(tuple, evs))))
    ctx.stream(stream, **st)
    ctx.log("stream %s: %d cases, %d mismatches, %d violations (impl %.1fs, model %.1fs, compare %.1fs)"
            % (stream, len(cases), st["impl_model_mismatches"], st["spec_violations"], t1 - t0, t2 - t1, time.time() - t2))
    return gap_seen


def known_witness(ctx, binpath):
    for kf in ctx.known_findings():
        if kf["id"] != FINDING_ID:
            continue
        wt = kf["witness"]
        case = {"w": wt["width"], "s": wt["slide"], "evs": [[k, t] for k, t in enumerate(wt["timestamps"])], "snap": True}
        seen = evaluate(ctx, binpath, [case], "known_witness")
        if seen:
            c, k = seen[0][1][0]
            ctx.known(FINDING_ID, "width=%d slide=%d timestamps=%r: interval [%d, %d) closes at event %d (one slide after the "
                      "previous event) and is never reported (window created and evicted inside one add_to_window call)"
                      % (case["w"], case["s"], wt["timestamps"], max(0, c - case["w"]), c, k))
        else:
            ctx.log("known finding %s no longer reproduces on its witness" % FINDING_ID)


def load_corpus():
    out = []
    for fn in sorted(glob.glob(os.path.join(vf.VERIF, "corpus", "C09", "*.json"))):
        with open(fn) as f:
            d = json.load(f)
        out.extend(d["cases"] if "cases" in d else [d["case"]])
    return out


def finish(ctx, level="proof"):
    ctx.finish(
        level=level, rule=PROP_RULE,
        trusted_base=[
            "Coq 8.16.1 kernel; vm_compute for running the model in the correspondence check",
            "hand-written Gallina model coq/Rsp09/Model.v of CSPARQLWindow::{scope, add_to_window}, Report::report and "
            "ContentContainer::add for strategies=[OnWindowClose], tick=TimeDriven, t_0=0",
            "f64 arithmetic of `scope`: the model uses exact N/Z arithmetic; C09_f64_exact (C09float.v, Flocq) proves that "
            "the binary64 computation (every +,-,*,/ and int->float conversion rounded to nearest-even, exact ceil, "
            "saturating cast) returns the same windows whenever timestamp + width + slide < 2^53. Still trusted: that "
            "Rust/LLVM/the CPU implement IEEE-754 binary64 as Flocq's rounding operator describes, the transcription of "
            "the Rust expression into Float.f_scope_opt, and inputs beyond 2^53 (correspondence streams reach 2^40)",
            "correspondence check: harness/src/bin/c09.rs (public API: register_callback, WindowRunner/register(); add-only "
            "hooks verif_active_windows / verif_app_time / verif_scope in kolibrie/src/rsp/s2r.rs for the state snapshots), "
            "checks/c09.py generators, canonicalisation (sorted windows / items) and the Python restatement of Spec.v",
            "HashMap<Window,_> and HashMap<I,usize> modelled as association lists; usize as unbounded N; items as N ids",
        ],
        assumptions=[
            "streams are in order (non-decreasing timestamps), width >= 1, slide >= 1 (the property's quantifier); "
            "out-of-order streams are compared against the model only",
            "other report strategies (NonEmptyContent, OnContentChange, Periodic), other ticks, add_probabilistic_to_window "
            "and flush are outside the model",
            "the reported window (open, close) is not observable through the public API; the oracle accepts a firing when some "
            "aligned interval fits, and the window identity is compared through the hooked state snapshots",
        ])


def private_workdir(ctx):
    """two concurrent runs of this check must not share the model/driver scratch files"""
    ctx.work = os.path.join(ctx.work, "run-%d" % os.getpid())
    os.makedirs(ctx.work, exist_ok=True)
    atexit.register(shutil.rmtree, ctx.work, True)


def coq_obligations(ctx):
    """C09.v (axiom-free property theorems) and C09float.v (binary64 exactness of `scope`, on Flocq and the
    standard library's real-number axioms) are audited separately and reported together."""
    n1, d1 = ctx.coq("Rsp09", "C09.v")
    th1, ax1, cmd1 = (ctx.coverage.get(k) for k in ("theorems", "axioms_used", "checker_cmd"))
    chk1 = ctx.coverage.get("coqchk")
    n2, d2 = ctx.coq("Rsp09", "C09float.v")
    th2, ax2, cmd2 = (ctx.coverage.get(k) for k in ("theorems", "axioms_used", "checker_cmd"))
    # vf.parse_assumptions misses an axiom whose type is printed on the following line (`name` alone on its line);
    # list exactly what Print Assumptions prints and audit those names too
    d = os.path.join(vf.VERIF, "coq", "Rsp09")
    os.makedirs(os.path.join(ctx.work, "audit"), exist_ok=True)
    rc, out = vf.sh(["coqc"] + vf.coqproject_flags(d) + ["-o", os.path.join(ctx.work, "audit", "C09float.vo"), "C09float.v"],
                    cwd=d, timeout=900)
    if rc == 0:
        names = sorted(set(re.findall(r"^([A-Za-z_][\w\.']*)\s*(?::.*)?$", out.split("Axioms:", 1)[-1], re.M)) - {"Axioms"}) \
            if "Axioms:" in out else []
        notallowed = [n for n in names if n not in vf.AXIOM_ALLOW and n.split(".")[-1] not in vf.AXIOM_ALLOW]
        if notallowed:
            ctx.broken("audit", "assumptions", "C09float.v depends on non-allow-listed axioms: %s" % notallowed)
        ax2 = names or ax2
    ctx.coverage.update(
        obligations=n1 + n2, discharged=d1 + d2,
        theorems=(th1 or []) + [t for t in (th2 or []) if t not in (th1 or [])],
        axioms_used=["C09.v: " + ", ".join(ax1 or ["(not built)"]), "C09float.v: " + ", ".join(ax2 or ["(not built)"])],
        checker_cmd="%s ; %s" % (cmd1, cmd2))
    if chk1 is not None:
        ctx.coverage["coqchk"] = "ok" if chk1 == "ok" and ctx.coverage.get("coqchk") == "ok" else "FAILED"


def driver(ctx):
    """the driver built against /repo; VERIF_C09_BIN points at a driver built elsewhere (used to try seeded changes
    on a private copy of the repository without touching /repo)"""
    alt = os.environ.get("VERIF_C09_BIN")
    if alt:
        ctx.log("using driver %s (VERIF_C09_BIN)" % alt)
        return alt
    return ctx.harness("c09")


def run(ctx):
    private_workdir(ctx)
    coq_obligations(ctx)
    binpath = driver(ctx)
    known_witness(ctx, binpath)
    # corpus first
    corpus = load_corpus()
    if corpus:
        evaluate(ctx, binpath, corpus, "corpus")
    # function-level: scope alone
    evaluate(ctx, binpath, scope_cases(ctx.rng, ctx.thorough), "scope")
    # exhaustive small scope
    nmax = 6 if ctx.thorough else 5
    ex = exhaustive_cases(nmax, snap_upto=6 if ctx.thorough else 4)
    ctx.sample(ex[len(ex) // 3])
    evaluate(ctx, binpath, ex, "exhaustive_le%d" % nmax)
    ctx.coverage["exhaustive"] = True
    ctx.coverage["exhaustive_scope"] = ("all %d cases: streams of <= %d events with successive timestamp gaps in 0..3 "
                                        "(first from 0) x width, slide in 1..4, full firing sequence; window state "
                                        "after every step for streams of <= %d events" % (len(ex), nmax, 6 if ctx.thorough else 4))
    # random medium streams with state snapshots, then long streams (firings only), then large timestamps
    nm, nl = (1500, 1500) if ctx.thorough else (200, 160)
    med = [dict(random_stream(ctx.rng, 40, 12), snap=True) for _ in range(nm)]
    ctx.sample(med[0])
    evaluate(ctx, binpath, med, "random_medium_snap")
    lng = [dict(random_stream(ctx.rng, 200, 50), snap=False) for _ in range(nl)]
    big = [dict(random_stream(ctx.rng, 60, 50, base=ctx.rng.choice([10 ** 9, 2 ** 40])), snap=False) for _ in range(nl // 4)]
    evaluate(ctx, binpath, lng, "random_long")
    evaluate(ctx, binpath, big, "random_large_timestamps")
    # malformed stream: out-of-order timestamps (outside the property; model == code is still expected)
    dis = [disorder(ctx.rng, c) for c in med[: nm // 2]]
    evaluate(ctx, binpath, dis, "out_of_order")
    finish(ctx)


def replay(ctx):
    private_workdir(ctx)
    binpath = driver(ctx)
    c = ctx.replay.get("case")
    if not c or "w" not in c:
        b = (ctx.replay.get("broken") or [{}])[0].get("case") or {}
        c = b.get("case", b)
    if not c or "w" not in c:
        coq_obligations(ctx)
        finish(ctx)
    evaluate(ctx, binpath, [c], "replay")
    finish(ctx)
