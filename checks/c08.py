"""C08 - hybrid probability results never certify a wrong decision (DESIGN.md section 7, C08).

Theorems: coq/Hybrid/C08.v (search invariant, interval / exact / alert / no-alert soundness for every clock
oracle, SDD oracle, node budget and configuration).
Correspondence: shared::hybrid::{LineageStore, evaluate_hybrid_with_clock, evaluate_topk,
compile_lineage_to_sdd_with_clock} and the private enumerate_proofs / interval_from_enumeration /
retained_proof_wmc (through add-only hooks) against the Gallina model (KV.Hybrid.Run), with an injected
clock whose deadline expires at the n-th reading for every n.  Oracle for violations: the exact rational
probability by world enumeration, computed here with integers (independent of model and implementation).
"""
import itertools
import json
import os
from fractions import Fraction as F

import vf

PROP_RULE = ("a case is a lineage DAG (construction operations), a seed snapshot, a configuration and a set of injected clocks; "
             "one evaluation = one call of evaluate_hybrid_with_clock / enumerate_proofs / evaluate_topk / "
             "compile_lineage_to_sdd_with_clock on the real code. A case is non-trivial when its root is not a constant, the "
             "unexpired evaluation performed at least one top-k round or an SDD compilation of a formula with >= 2 seeds, and "
             "the true probability is strictly between 0 and 1; distinct by (operations, seeds, configuration).")

REASONS = ["top-k-exhausted", "lower-bound-crossed-threshold", "upper-bound-below-threshold", "exact-sdd",
           "negation-requires-exact", "exclusivity-requires-exact", "near-threshold", "marginal-gain",
           "top-k-budget", "sdd-budget", "sdd-node-budget", "missing-seed", "diagnostic-only"]
TB = 1_000_000_000
SB = 2_000_000_000
REQ = ["KV.Hybrid.Lineage", "KV.Hybrid.Spec", "KV.Hybrid.Model", "KV.Hybrid.Run"]
PRE = "Require Import QArith."
TOL = F(1, 10 ** 9)


# ---- Coq encodings ----------------------------------------------------------------------------
def cN(n):
    return "%d%%N" % n


def cQ(q):
    q = F(q)
    return "(Qmake (%d)%%Z %d%%positive)" % (q.numerator, q.denominator)


def cNl(l):
    return "[" + "; ".join(cN(x) for x in l) + "]"


def c_seeds(seeds):
    return "[" + "; ".join("(%s, (%s, %s))" % (cN(s[0]), cQ(F(s[1], s[2])), "None" if s[3] is None else "(Some %s)" % cN(s[3]))
                           for s in seeds) + "]"


def c_ops(ops):
    out = []
    for o in ops:
        if o[0] == "lit":
            out.append("OLit %s" % cN(o[1]))
        elif o[0] == "not":
            out.append("ONot %s" % cN(o[1]))
        elif o[0] == "and":
            out.append("OAnd %s" % cNl(o[1]))
        else:
            out.append("OOr %s" % cNl(o[1]))
    return "[" + "; ".join(out) + "]"


def c_cfg(c):
    return "(mk_config %s %s %s %s %s %s %s %s %s)" % (
        cQ(F(*c["thr"])), cQ(F(*c["band"])), cQ(F(*c["floor"])), cN(c["k0"]), cN(c["kmax"]), cN(c["kg"]),
        cN(c.get("tb", TB)), cN(c.get("sb", SB)), cN(c["nodes"]))


def c_cost(x):
    if x is None:
        return "(0%N, true)"
    return "(%s, %s)" % (cN(x["c"]), "true" if x["out"] == 0 else "false")


def c_table(table):
    return "[" + "; ".join("(%s, (%s, %s))" % (cN(r["k"]), c_cost(r.get("ret")), c_cost(r.get("probe"))) for r in table) + "]"


def c_clocks(specs):
    return "[" + "; ".join("(%s, %s, %s)" % (cN(a), cN(b), cN(c)) for a, b, c in specs) + "]"


def c_proofs(ps):
    return "[" + "; ".join(cNl(p) for p in ps) + "]"


# ---- exact oracle: truth tables as bit masks over worlds -----------------------------------------
class Oracle:
    """Worlds = subsets of the snapshot seeds (bit i of a world index = seed i of the snapshot is true)."""

    def __init__(self, seeds):
        self.seeds = seeds
        self.n = len(seeds)
        self.pos = {s[0]: i for i, s in enumerate(seeds)}
        self.nw = 1 << self.n
        self.full = (1 << self.nw) - 1
        self.var = []
        for i in range(self.n):
            # truth table of variable i
            block = ((1 << (1 << i)) - 1) << (1 << i)
            period = 1 << (i + 1)
            m = 0
            for off in range(0, self.nw, period):
                m |= block << off
            self.var.append(m)

    def lit(self, sid):
        return self.var[self.pos[sid]] if sid in self.pos else 0

    def ops_tables(self, ops):
        vals = [0, self.full]
        for o in ops:
            if o[0] == "lit":
                v = self.lit(o[1])
            elif o[0] == "not":
                v = self.full & ~vals[o[1]]
            elif o[0] == "and":
                v = self.full
                for r in o[1]:
                    v &= vals[r]
            else:
                v = 0
                for r in o[1]:
                    v |= vals[r]
            vals.append(v)
        return vals

    def arena_tables(self, nodes):
        tbl = {}
        for i, nd in nodes:
            t = nd[0]
            if t == "F":
                v = 0
            elif t == "T":
                v = self.full
            elif t == "L":
                v = self.lit(nd[1])
            elif t == "N":
                v = self.full & ~tbl[nd[1]]
            elif t == "A":
                v = self.full
                for c in nd[1]:
                    v &= tbl[c]
            else:
                v = 0
                for c in nd[1]:
                    v |= tbl[c]
            tbl[i] = v
        return tbl

    def weights(self, relevant_excl=None):
        """list of world weights (Fractions). Independent semantics unless relevant_excl is given: then
        exclusive seeds weigh (p, 1) when in relevant_excl and (0, 1) otherwise (they do not take part)."""
        if relevant_excl is None and getattr(self, "_w", None) is not None:
            return self._w
        ws = self._weights(relevant_excl)
        if relevant_excl is None:
            self._w = ws
        return ws

    def _weights(self, relevant_excl):
        ws = [F(1)]
        for i, s in enumerate(self.seeds):
            p = F(s[1], s[2])
            if relevant_excl is not None and s[3] is not None:
                wt, wf = (p, F(1)) if s[0] in relevant_excl else (F(0), F(1))
            else:
                wt, wf = p, 1 - p
            ws = [w * wf for w in ws] + [w * wt for w in ws]
        return ws

    def prob(self, table, ws):
        tot = F(0)
        i = 0
        t = table
        while t:
            if t & 1:
                tot += ws[i]
            t >>= 1
            i += 1
        return tot

    def proof_table(self, proof):
        v = self.full
        for s in proof:
            v &= self.lit(s)
        return v

    def dnf_table(self, proofs):
        v = 0
        for p in proofs:
            v |= self.proof_table(p)
        return v


def referenced_seeds(ops, root):
    """seeds occurring below `root` in the operation DAG (a superset of the canonical arena's, equal for the oracle's
    purpose only when canonicalisation does not drop a literal; the check uses the implementation's arena instead)."""
    seen, stack, out = set(), [root], set()
    while stack:
        r = stack.pop()
        if r < 2 or r in seen:
            continue
        seen.add(r)
        o = ops[r - 2]
        if o[0] == "lit":
            out.add(o[1])
        elif o[0] == "not":
            stack.append(o[1])
        else:
            stack.extend(o[1])
    return out


def arena_seeds(nodes, root):
    d = dict((i, nd) for i, nd in nodes)
    seen, stack, out = set(), [root], set()
    while stack:
        r = stack.pop()
        if r in seen:
            continue
        seen.add(r)
        nd = d[r]
        if nd[0] == "L":
            out.add(nd[1])
        elif nd[0] == "N":
            stack.append(nd[1])
        elif nd[0] in ("A", "O"):
            stack.extend(nd[1])
    return out


def choice_probability(orc, seeds, table):
    """possible-worlds semantics of exclusive groups, computed directly: pick exactly one choice per group (weight = its
    probability) and a truth value per independent seed; sum the weights of the worlds in which `table` is true"""
    groups = {}
    indep = []
    for i, s in enumerate(seeds):
        if s[3] is None:
            indep.append(i)
        else:
            groups.setdefault(s[3], []).append(i)
    glist = [groups[g] for g in sorted(groups)]
    tot = F(0)
    for choice in itertools.product(*glist) if glist else [()]:
        base = 0
        wt = F(1)
        for i in choice:
            base |= 1 << i
            wt *= F(seeds[i][1], seeds[i][2])
        if wt == 0:
            continue
        for mask in range(1 << len(indep)):
            idx = base
            w = wt
            for j, i in enumerate(indep):
                p = F(seeds[i][1], seeds[i][2])
                if mask >> j & 1:
                    idx |= 1 << i
                    w *= p
                else:
                    w *= 1 - p
            if (table >> idx) & 1:
                tot += w
    return tot


def truth_of(case, impl):
    """exact probability of the root, under the semantics of the snapshot (independent seeds; exclusive groups as
    annotated disjunctions when the formula refers to a member of a group)."""
    orc = Oracle(case["seeds"])
    vals = orc.ops_tables(case["ops"])
    table = vals[case["root"]]
    nodes = impl["arena"]["nodes"]
    refs = arena_seeds(nodes, impl["root"])
    group_of = {s[0]: s[3] for s in case["seeds"]}
    ref_groups = {group_of[s] for s in refs if group_of.get(s) is not None}
    if not any(s[3] is not None for s in case["seeds"]):
        return orc, vals, orc.prob(table, orc.weights())
    if not ref_groups:
        flat = orc.prob(table, orc.weights())
        truth = choice_probability(orc, case["seeds"], table)
        assert flat == truth, "oracle self-check: unreferenced normalised groups must marginalise out"
        return orc, vals, truth
    members = {g: [s[0] for s in case["seeds"] if s[3] == g] for g in ref_groups}
    rel = {s for g in ref_groups for s in members[g]}
    # exactly one member true per referenced group
    ok = orc.full
    for g in ref_groups:
        exactly = 0
        for m in members[g]:
            t = orc.lit(m)
            for m2 in members[g]:
                if m2 != m:
                    t &= orc.full & ~orc.lit(m2)
            exactly |= t
        ok &= exactly
    flat = orc.prob(table & ok, orc.weights(rel))          # the annotated-disjunction encoding (what the SDD counts)
    truth = choice_probability(orc, case["seeds"], table)  # the possible-worlds semantics itself
    assert flat == truth, "oracle self-check: encoding and possible-worlds semantics differ (group not normalised?)"
    return orc, vals, truth


# ---- canonical forms of results --------------------------------------------------------------------
def fr(x):
    return None if x is None else F(x)


def canon_impl(r):
    if r["status"] == "Exact":
        vals = [fr(r["p"])]
    elif r["status"] in ("Bounded", "NeedsExact"):
        vals = [fr(r.get("lo")), fr(r.get("hi"))]
    elif r["status"] == "LowerBound":
        vals = [fr(r.get("lo"))]
    else:
        vals = [fr(r.get("p"))]
    return {"status": r["status"], "decision": r["decision"], "reason": r["reason"], "vals": vals,
            "k_used": r["k_used"], "exact_used": r["exact_used"], "fe": r["fe"], "cap_hit": r["cap_hit"],
            "mg": F(r["mg"]), "topk_ns": r["topk_ns"], "sdd_ns": r["sdd_ns"], "width": F(r["width"])}


def mq(x):
    return F(x[0], x[1])


def canon_model(v):
    tag, d, rs, vals, m = v
    if tag == 9:
        return {"status": "ModelOutOfFuel"}
    status = ["Exact", "Bounded", "NeedsExact"][tag]
    vs = [mq(x[0]) if x else None for x in vals]
    return {"status": status, "decision": ["Alert", "NoAlert", "Indeterminate"][d], "reason": REASONS[rs], "vals": vs,
            "k_used": m[0], "exact_used": m[1] == 1, "fe": m[2] == 1, "cap_hit": m[3] == 1,
            "mg": mq(m[4]), "topk_ns": m[5], "sdd_ns": m[6], "width": mq(m[7])}


def same_result(a, b, exact):
    if exact:
        return a == b
    for k in a:
        if k in ("vals", "mg", "width"):
            continue
        if a.get(k) != b.get(k):
            return False
    if len(a["vals"]) != len(b["vals"]):
        return False
    for x, y in zip(a["vals"] + [a["mg"], a["width"]], b["vals"] + [b["mg"], b["width"]]):
        if (x is None) != (y is None):
            return False
        if x is not None and abs(x - y) > TOL:
            return False
    return True


def shape(r):
    return (r["status"], r["decision"], r["reason"], r.get("p"), r.get("lo"), r.get("hi"), r["k_used"], r["fe"], r["cap_hit"], r["mg"])


def spec_check(r, truth, thr):
    """the property, on one result of the implementation; returns None or a description"""
    st = r["status"]
    vals = r["vals"]
    if st == "Exact":
        if abs(vals[0] - truth) > TOL:
            return "result marked Exact (%s) differs from the true probability %s" % (float(vals[0]), float(truth))
    elif st in ("Bounded", "NeedsExact"):
        lo, hi = vals
        if lo is not None and lo > truth + TOL:
            return "reported lower bound %s exceeds the true probability %s" % (float(lo), float(truth))
        if hi is not None and hi < truth - TOL:
            return "reported upper bound %s is below the true probability %s" % (float(hi), float(truth))
        if st == "Bounded" and (lo is None or hi is None):
            return "Bounded result without both bounds"
    elif st == "LowerBound":
        if vals[0] > truth + TOL:
            return "reported lower bound exceeds the true probability"
    else:
        return "status %s: an estimate without certificate was returned" % st
    if r["decision"] == "Alert" and truth < thr - TOL:
        return "Alert although the true probability %s is below the threshold %s" % (float(truth), float(thr))
    if r["decision"] == "NoAlert" and truth >= thr + TOL:
        return "NoAlert although the true probability %s is at least the threshold %s" % (float(truth), float(thr))
    if st == "NeedsExact" and r["decision"] != "Indeterminate":
        return "NeedsExact carries a decision"
    return None


# ---- generators -----------------------------------------------------------------------------------
def gen_seeds(rng, n, den, with_groups=False, extremes=True):
    idpool = rng.sample(range(0, 16), n)
    idpool.sort()
    seeds = []
    for sid in idpool:
        r = rng.random()
        if extremes and r < 0.04:
            num = 0
        elif extremes and r < 0.08:
            num = den
        else:
            num = rng.randint(1, den - 1)
        seeds.append([sid, num, den, None])
    if with_groups and n >= 2:
        # carve one or two exclusive groups with probabilities summing to 1
        order = list(range(n))
        rng.shuffle(order)
        ng = rng.choice([1, 1, 2]) if n >= 4 else 1
        pos = 0
        for g in range(ng):
            size = rng.randint(2, min(3, n - pos)) if n - pos >= 2 else 0
            if size < 2:
                break
            cuts = sorted(rng.sample(range(1, den), size - 1))
            parts = [b - a for a, b in zip([0] + cuts, cuts + [den])]
            for j in range(size):
                s = seeds[order[pos + j]]
                s[1], s[3] = parts[j], 7 + g
            pos += size
    return seeds


def gen_ops(rng, seeds, n_inner, negation=False, missing=None):
    """literals first, then random and/or(/not) nodes with sharing and subsumption"""
    ops = []
    lit_refs = []
    ids = [s[0] for s in seeds] + (missing or [])
    for sid in ids:
        ops.append(["lit", sid])
        lit_refs.append(len(ops) + 1)
    style = rng.random()
    if style < 0.35:
        # DNF with overlapping and subsuming proofs
        proofs = []
        for _ in range(n_inner):
            k = rng.randint(1, min(4, len(lit_refs)))
            p = sorted(rng.sample(lit_refs, k))
            if proofs and rng.random() < 0.3:
                base = rng.choice(proofs)
                p = sorted(set(base) | set(rng.sample(lit_refs, 1)))        # superset of an earlier proof
            if proofs and rng.random() < 0.15:
                base = rng.choice(proofs)
                p = sorted(rng.sample(base, max(1, len(base) - 1)))         # subset of an earlier proof
            proofs.append(p)
        refs = []
        for p in proofs:
            ops.append(["and", p])
            refs.append(len(ops) + 1)
        if negation and rng.random() < 0.7:
            j = rng.randrange(len(refs))
            ops.append(["not", refs[j]])
            refs[j] = len(ops) + 1
        ops.append(["or", refs])
        root = len(ops) + 1
    else:
        pool = list(lit_refs)
        for _ in range(n_inner):
            r = rng.random()
            arity = rng.choice([2, 2, 2, 3, 3, 4])
            args = [rng.choice(pool) for _ in range(arity)]
            if rng.random() < 0.05:
                args.append(rng.choice([0, 1]))
            if negation and r < 0.2:
                ops.append(["not", rng.choice(pool)])
            elif r < 0.6:
                ops.append(["and", args])
            else:
                ops.append(["or", args])
            pool.append(len(ops) + 1)
        root = len(ops) + 1
        if rng.random() < 0.1:
            root = rng.choice(pool)
    return ops, root


def gen_cfg(rng, truth, den_exp=10, small_nodes=False):
    d = 1 << den_exp
    k0 = rng.choice([1, 1, 1, 2, 2, 3, 4])
    kmax = k0 * rng.choice([1, 1, 2, 4, 8])
    kg = rng.choice([2, 2, 3])
    r = rng.random()
    tq = F(int(truth * d), d)
    if r < 0.25:
        thr = tq
    elif r < 0.55:
        thr = tq + F(rng.choice([-1, 1]) * rng.choice([1, 2, 8, 32, 128]), d)
    elif r < 0.65:
        thr = F(rng.choice([0, d]), d)
    else:
        thr = F(rng.randint(0, 64), 64)
    thr = min(max(thr, F(0)), F(1))
    band = rng.choice([F(0), F(1, 64), F(1, 8), F(1, 2), F(1)])
    floor = rng.choice([F(0), F(1, 1024), F(1, 16), F(2)])
    nodes = rng.choice([2, 3, 5, 8, 12, 20, 40]) if small_nodes else 100000
    return {"thr": [thr.numerator, thr.denominator], "band": [band.numerator, band.denominator],
            "floor": [floor.numerator, floor.denominator], "k0": k0, "kmax": kmax, "kg": kg, "nodes": nodes}


def quick_truth(seeds, ops, root):
    orc = Oracle(seeds)
    table = orc.ops_tables(ops)[root]
    if any(s[3] is not None for s in seeds):
        return choice_probability(orc, seeds, table)
    return orc.prob(table, orc.weights())


def gen_case(rng, kind):
    if kind == "mono":
        seeds = gen_seeds(rng, rng.randint(1, 9), 16)
        ops, root = gen_ops(rng, seeds, rng.randint(1, 7))
    elif kind == "neg":
        seeds = gen_seeds(rng, rng.randint(1, 8), 16)
        ops, root = gen_ops(rng, seeds, rng.randint(1, 7), negation=True)
    elif kind == "excl":
        seeds = gen_seeds(rng, rng.randint(2, 8), 16, with_groups=True)
        ops, root = gen_ops(rng, seeds, rng.randint(1, 6), negation=rng.random() < 0.3)
    elif kind == "float":
        seeds = gen_seeds(rng, rng.randint(1, 9), rng.choice([10, 7, 100, 3]))
        ops, root = gen_ops(rng, seeds, rng.randint(1, 7), negation=rng.random() < 0.2)
    elif kind == "missing":
        seeds = gen_seeds(rng, rng.randint(1, 6), 16)
        ops, root = gen_ops(rng, seeds, rng.randint(1, 6), missing=[20 + rng.randint(0, 3)])
    elif kind == "nodes":
        seeds = gen_seeds(rng, rng.randint(1, 8), 16)
        ops, root = gen_ops(rng, seeds, rng.randint(1, 6), negation=rng.random() < 0.2)
    elif kind == "exclneg":
        # one or two normalised groups of 3-4 choices; the lineage mentions only SOME choices of each group (at least one
        # choice of a referenced group is absent from the lineage) and negates literals of choices; a few independent seeds
        den = 16
        ng = rng.choice([1, 1, 2])
        seeds, sid = [], 0
        mentioned, lits_of = [], {}
        for g in range(ng):
            size = rng.choice([3, 3, 4])
            cuts = sorted(rng.sample(range(1, den), size - 1))
            parts = [b - a for a, b in zip([0] + cuts, cuts + [den])]
            ids_g = []
            for j in range(size):
                seeds.append([sid, parts[j], den, 7 + g])
                ids_g.append(sid)
                sid += rng.choice([1, 1, 2])
            mentioned += rng.sample(ids_g, rng.randint(1, size - 1))
        for _ in range(rng.randint(0, 3)):
            seeds.append([sid, rng.randint(1, den - 1), den, None])
            mentioned.append(sid)
            sid += 1
        ops = []
        for x in mentioned:
            ops.append(["lit", x])
            lits_of[x] = len(ops) + 1
        pool = list(lits_of.values())
        group_lits = [lits_of[x] for x in mentioned if any(sd[0] == x and sd[3] is not None for sd in seeds)]
        for r in rng.sample(group_lits, rng.randint(1, len(group_lits))):
            ops.append(["not", r])
            pool.append(len(ops) + 1)
        for _ in range(rng.randint(1, 5)):
            args = [rng.choice(pool) for _ in range(rng.choice([2, 2, 3]))]
            ops.append([rng.choice(["and", "or", "or"]), args])
            pool.append(len(ops) + 1)
            if rng.random() < 0.25:
                ops.append(["not", len(ops) + 1])
                pool.append(len(ops) + 1)
        root = len(ops) + 1
    elif kind == "big":
        # the upper end of the stated scope: 10-12 seeds (12 x 4 bits: f64 arithmetic still exact)
        seeds = gen_seeds(rng, rng.randint(10, 12), 16)
        ops, root = gen_ops(rng, seeds, rng.randint(4, 9), negation=rng.random() < 0.25)
    elif kind == "wide":
        # many cheap, nearly disjoint proofs with small probabilities: the union bound is far from saturated,
        # so a residual / probe mass that is too small shows up as an interval that misses the truth
        n = rng.randint(5, 8)          # 8 seeds x 6 bits: every f64 operation stays exact
        ids = sorted(rng.sample(range(0, 16), n))
        seeds = [[i, rng.randint(1, 6), 64, None] for i in ids]
        ops = [["lit", i] for i in ids]
        lits = list(range(2, 2 + n))
        refs = []
        for _ in range(rng.randint(4, 9)):
            p = sorted(rng.sample(lits, rng.choice([1, 1, 1, 2])))
            if len(p) == 1:
                refs.append(p[0])
            else:
                ops.append(["and", p])
                refs.append(len(ops) + 1)
        ops.append(["or", refs])
        root = len(ops) + 1
    else:
        raise ValueError(kind)
    truth = quick_truth(seeds, ops, root)
    cfg = gen_cfg(rng, truth, small_nodes=(kind == "nodes"))
    if kind == "wide":
        cfg["k0"] = rng.choice([1, 1, 2])
        cfg["kmax"] = cfg["k0"] * rng.choice([1, 2])
    return {"kind": kind, "seeds": seeds, "ops": ops, "root": root, "cfg": cfg, "exact": kind != "float"}


def kplus1_cases(rng, thorough):
    """Lineages with EXACTLY k+1 minimal proofs for the configured k_initial = k (so the first round stops at the cap with an
    empty frontier), k < k_max, threshold just above the lower bound of the k best proofs (inside the band, gain floor 0: the
    controller wants to escalate), swept over EVERY node budget from 2 up to a value that fits the unbudgeted run: somewhere in
    the sweep the k retained proofs compile and the k+1 proofs with the probe do not."""
    den = 16
    out = []
    shapes = [(1, [1, 1]), (1, [1, 2]), (2, [1, 1, 1])]
    if thorough:
        shapes += [(1, [2, 2]), (2, [1, 1, 2]), (2, [2, 1, 2]), (3, [1, 1, 1, 1]), (3, [1, 2, 1, 1]), (1, [1, 3])]
    for k, sizes in shapes:
        for rep in range(3 if thorough else 1):
            nlit = sum(sizes)
            ids = sorted(rng.sample(range(0, 16), nlit))
            # distinct proof probabilities (no ties in the best-first order): disjoint proofs over distinct seeds
            while True:
                nums = [rng.randint(2, 13) for _ in range(nlit)]
                seeds = [[i, n, den, None] for i, n in zip(ids, nums)]
                ops = [["lit", i] for i in ids]
                refs, pos, probs = [], 0, []
                for sz in sizes:
                    lits = list(range(2 + pos, 2 + pos + sz))
                    pr = F(1)
                    for j in range(pos, pos + sz):
                        pr *= F(nums[j], den)
                    probs.append(pr)
                    pos += sz
                    if sz == 1:
                        refs.append(lits[0])
                    else:
                        ops.append(["and", lits])
                        refs.append(len(ops) + 1)
                if len(set(probs)) == len(probs):
                    break
            ops.append(["or", refs])
            root = len(ops) + 1
            # lower bound of the k most probable proofs (disjoint seeds: 1 - prod(1 - p))
            best = sorted(probs, reverse=True)[:k]
            miss = F(1)
            for pr in best:
                miss *= 1 - pr
            lower = 1 - miss
            truth = quick_truth(seeds, ops, root)
            thrs = [min(lower + F(1, 1024), truth)] + ([min(lower + F(1, 64), truth)] if thorough else [])
            for thr in thrs:
                for floor, band in ((F(0), F(0)), (F(2), F(1, 8))):
                    # quick: the three small shapes need at most 10 nodes unbudgeted; thorough: up to 40
                    for nodes in range(2, (40 if thorough else 14) + 1):
                        cfg = {"thr": [thr.numerator, thr.denominator], "band": [band.numerator, band.denominator],
                               "floor": [floor.numerator, floor.denominator], "k0": k, "kmax": 4 * k, "kg": 2, "nodes": nodes}
                        out.append({"kind": "kp1", "seeds": seeds, "ops": ops, "root": root, "cfg": cfg, "exact": True})
    return out


def invalid_cfgs():
    base = {"thr": [1, 2], "band": [1, 50], "floor": [0, 1], "k0": 1, "kmax": 2, "kg": 2, "nodes": 1000}
    out = []
    for k, v in [("thr", [3, 2]), ("thr", [-1, 4]), ("band", [2, 1]), ("band", [-1, 8]), ("floor", [-1, 8]),
                 ("k0", 0), ("k0", 3), ("kg", 1), ("kg", 0), ("nodes", 1), ("nodes", 0), ("tb", 0), ("sb", 0)]:
        c = dict(base)
        c[k] = v
        out.append(c)
    return out


def exhaustive_cases(thorough):
    """all DNFs over 3 seeds (every set of non-empty proofs), a grid of configurations"""
    seeds = [[0, 1, 2, None], [1, 1, 4, None], [2, 3, 4, None]]
    subsets = [[i for i in range(3) if m >> i & 1] for m in range(1, 8)]
    kcfgs = [(1, 1, 2), (1, 4, 2), (2, 2, 2)] + ([(1, 2, 2), (2, 8, 3), (3, 3, 2)] if thorough else [])
    cases = []
    for mask in range(0, 128):
        proofs = [subsets[j] for j in range(7) if mask >> j & 1]
        ops = [["lit", 0], ["lit", 1], ["lit", 2]]
        refs = []
        for p in proofs:
            ops.append(["and", [2 + i for i in p]])
            refs.append(len(ops) + 1)
        ops.append(["or", refs])
        root = len(ops) + 1
        truth = quick_truth(seeds, ops, root)
        thrs = [truth, F(1, 2)] + ([truth + F(1, 64), truth - F(1, 64)] if thorough else [])
        for (k0, kmax, kg) in kcfgs:
            for thr in thrs:
                thr = min(max(thr, F(0)), F(1))
                cfg = {"thr": [thr.numerator, thr.denominator], "band": [1, 8], "floor": [1, 16],
                       "k0": k0, "kmax": kmax, "kg": kg, "nodes": 100000}
                cases.append({"kind": "exh", "seeds": seeds, "ops": ops, "root": root, "cfg": cfg, "exact": True})
    return cases


# ---- evaluation ---------------------------------------------------------------------------------------
def pick_ns(rng, lst, budget):
    """positions n to compare with the model: small n, every change point of the implementation's answer and its
    neighbours, the last ones, plus random ones"""
    top = len(lst) - 1
    want = set(range(0, min(top, 4) + 1)) | {top, max(0, top - 1)}
    for n in range(1, top + 1):
        if shape(lst[n]) != shape(lst[n - 1]):
            want |= {n - 1, n}
    want = sorted(want)
    if len(want) > budget:
        keep = set(want[:6]) | set(want[-3:])
        rest = [n for n in want if n not in keep]
        keep |= set(rng.sample(rest, max(0, min(len(rest), budget - len(keep)))))
        want = sorted(keep)
    extra = [n for n in range(top + 1) if n not in want]
    if extra and len(want) < budget:
        want = sorted(set(want) | set(rng.sample(extra, min(len(extra), budget - len(want)))))
    return want


def evaluate(ctx, binpath, cases, stream, nbudget=16, all_n=False, by_kind=False):
    for c in cases:
        c.setdefault("max_n", 100000)
    impl = ctx.run_impl(binpath, cases)
    exprs, plan = [], []
    dists = {}

    def dist_for(c):
        key = stream + "_" + c["kind"] if by_kind else stream
        return dists.setdefault(key, {"status": {}, "reasons": {}, "evaluations": 0, "expiry_points": 0, "nontrivial": 0,
                                      "excl": 0, "neg": 0, "nviol": 0, "nmis": 0, "cases": 0})
    for ci, (c, im) in enumerate(zip(cases, impl)):
        dist = dist_for(c)
        dist["cases"] += 1
        if im is None or "panic" in im or "driver_died" in im:
            ctx.violation(c, {"what": "implementation panicked / died", "impl": im})
            dist["nviol"] += 1
            plan.append(None)
            continue
        if "seed_error" in im or "unexpired" not in im:
            ctx.broken("correspondence", stream, "driver could not run the case: %s" % (im.get("seed_error"),), c)
            plan.append(None)
            continue
        specs, where = [(0, 0, 0)], [("unexpired", None)]
        for mode, name in ((1, "sticky"), (2, "jump"), (3, "edge")):
            lst = im[name]
            # all_n: every expiry point for the sticky clock, a (large) sample for the two other shapes
            ns = list(range(len(lst))) if (all_n and mode == 1) else pick_ns(ctx.rng, lst, min(nbudget, 40) if all_n else nbudget)
            for n in ns:
                specs.append((mode, n, c["cfg"].get("tb", TB) if mode == 3 else 0))
                where.append((name, n))
        lists = c.get("clocks", [])
        e1 = "run_eval %s %s %s %s %s %s %s %s" % (
            c_cfg(c["cfg"]), c_ops(c["ops"]), cN(c["root"]), c_seeds(c["seeds"]), c_table(im["table"]),
            c_cost({"c": max(0, im["compile"]["readings"] - 1), "out": 0 if "ok" in im["compile"]["unexpired"] else 1}),
            c_clocks(specs), "[" + "; ".join(cNl(l) for l in lists) + "]")
        # function level: enumerate for every cap of the schedule (unexpired and all expiry points), topk
        enum_parts = []
        for e in im["enums"]:
            nexp = len(e["expiry"])
            js = list(range(nexp)) if (all_n or nexp <= 6) else sorted(set([0, 1, nexp - 1, nexp - 2] + ctx.rng.sample(range(nexp), 3)))
            e["_js"] = js
            enum_parts.append("run_enum %s %s %s %s %s" % (c_ops(c["ops"]), cN(c["root"]), c_seeds(c["seeds"]), cN(e["cap"]),
                                                         c_clocks([(0, 0, 0)] + [(1, j, 0) for j in js])))
        e2 = "[" + "; ".join(enum_parts) + "]"
        e3 = "run_topk %s %s %s %s %s" % (c_ops(c["ops"]), cN(c["root"]), c_seeds(c["seeds"]), c_table(im["table"]),
                                          cNl([t["k"] for t in im["topk"]]))
        ivs = []
        for row in im["table"]:
            if "interval" in row:
                e = next(x for x in im["enums"] if x["cap"] == row["k"] + 1)["unexpired"]
                ivs.append("run_interval %s %s %s %s %s %s" % (
                    c_seeds(c["seeds"]), cQ(F(row["ret"]["v"])), c_proofs(e["proofs"]), cN(min(len(e["proofs"]), row["k"])),
                    cN(e["kind"]), cQ(F(e["mass"]))))
        e4 = "[" + "; ".join(ivs) + "]"
        plan.append((len(exprs), where))
        exprs.append("(%s, %s, %s, %s)" % (e1, e2, e3, e4))
    # shards of bounded work (a case with every expiry point is ~10^3 model runs); 16 of them run at a time
    chunk = max(1, min(24 if all_n else 60, (len(exprs) + vf.NPROC - 1) // vf.NPROC))
    model = ctx.run_model("Hybrid", REQ, exprs, preamble=PRE, timeout=3000, chunk=chunk)
    # a shard killed by the OS or timing out on an overloaded machine is an infrastructure failure: re-run its cases
    for attempt in range(3):
        failed = [i for i, m in enumerate(model) if isinstance(m, tuple) and m and m[0] == "ERROR"]
        if not failed:
            break
        ctx.log("%s: re-running %d model evaluations whose coqc shard failed (%s)" % (stream, len(failed), str(model[failed[0]][1])[:60]))
        again = ctx.run_model("Hybrid", REQ, [exprs[i] for i in failed], preamble=PRE, timeout=3000,
                              chunk=max(1, min(8, (len(failed) + 7) // 8)))
        for i, m in zip(failed, again):
            model[i] = m
    failed = [m for m in model if isinstance(m, tuple) and m and m[0] == "ERROR"]
    if failed and all(("rc=-9" in str(m[1]) or "rc=124" in str(m[1]) or "timeout" in str(m[1])) for m in failed):
        print("[C08] %d model evaluations were killed / timed out four times (machine overloaded?): infrastructure error, not a verdict" % len(failed))
        import sys
        sys.exit(2)
    for ci, (c, im) in enumerate(zip(cases, impl)):
        if plan[ci] is None:
            continue
        dist = dist_for(c)
        ctx.count()
        ei, where = plan[ci]
        mo = model[ei]
        thr = F(*c["cfg"]["thr"])
        orc, vals, truth = truth_of(c, im)
        exact = c.get("exact", True)
        # ---- the Spec oracle on everything the implementation returned ----
        bad = None

        def viol(detail, clock=None):
            nonlocal bad
            if bad is None:
                bad = dict(detail)
                bad["clock"] = clock
        # canonicalisation preserves meaning: every node handed out denotes what was asked for
        atab = orc.arena_tables(im["arena"]["nodes"])
        for j, rid in enumerate(im["ids"]):
            if atab[rid] != vals[j + 2]:
                viol({"what": "the lineage node returned by the store does not denote the requested formula", "op": j})
        nev = 0
        if im["valid"]:
            for name in ("unexpired", "sticky", "jump", "edge", "lists"):
                lst = [im[name]] if name == "unexpired" else im.get(name, [])
                for n, r in enumerate(lst):
                    nev += 1
                    msg = spec_check(canon_impl(r), truth, thr)
                    if msg:
                        viol({"what": msg, "result": r, "truth": str(truth)}, (name, n))
                    dist["status"][r["status"]] = dist["status"].get(r["status"], 0) + 1
                    dist["reasons"][r["reason"]] = dist["reasons"].get(r["reason"], 0) + 1
            dist["expiry_points"] += len(im["sticky"])
        else:
            for name in ("unexpired", "sticky", "jump", "edge"):
                lst = [im[name]] if name == "unexpired" else im.get(name, [])
                for n, r in enumerate(lst):
                    nev += 1
                    if not (r["status"] == "NeedsExact" and r.get("lo") is None and r.get("hi") is None):
                        viol({"what": "an invalid configuration produced a result other than NeedsExact without bounds", "result": r}, (name, n))
        # function level oracles
        independent = not im["meta"]["excl"]
        for e in im["enums"]:
            for which, x in [("unexpired", e["unexpired"])] + [("expiry", y) for y in e["expiry"]]:
                nev += 1
                if "err" in x:
                    continue
                ptab = orc.dnf_table(x["proofs"])
                if independent and (ptab & ~vals[c["root"]]) & orc.full:
                    viol({"what": "enumerate_proofs emitted a proof that does not entail the root", "cap": e["cap"], "out": x})
                if independent and x["kind"] != 2:
                    pw = orc.prob(ptab, orc.weights())
                    mass = F(x["mass"]) if x["kind"] == 1 else F(0)
                    if truth > pw + mass + TOL and pw + mass < 1:
                        viol({"what": "enumerate_proofs residual mass does not cover the unexplored proofs", "cap": e["cap"], "out": x,
                              "truth": str(truth), "covered": str(pw + mass)})
        if independent:
            for row in im["table"]:
                e = next(x for x in im["enums"] if x["cap"] == row["k"] + 1)["unexpired"]
                for key, upto in (("ret", min(len(e.get("proofs", [])), row["k"])), ("probe", row["k"] + 1)):
                    if key in row and row[key]["out"] == 0:
                        nev += 1
                        want = orc.prob(orc.dnf_table(e["proofs"][:upto]), orc.weights())
                        if abs(F(row[key]["v"]) - want) > TOL:
                            viol({"what": "retained_proof_wmc is not the exact probability of the retained proofs", "k": row["k"],
                                  "got": row[key]["v"], "want": str(want)})
                if isinstance(row.get("interval"), list):
                    lo, hi = F(row["interval"][0]), F(row["interval"][1])
                    if lo > truth + TOL or hi < truth - TOL:
                        viol({"what": "interval_from_enumeration does not contain the true probability", "k": row["k"],
                              "interval": row["interval"], "truth": str(truth)})
            for t in im["topk"]:
                nev += 1
                if "err" not in t:
                    if F(t["lo"]) > truth + TOL or F(t["hi"]) < truth - TOL or F(t["lower"]) > truth + TOL:
                        viol({"what": "evaluate_topk interval does not contain the true probability", "topk": t, "truth": str(truth)})
                    if t["fe"] and (abs(F(t["lo"]) - truth) > TOL or abs(F(t["hi"]) - truth) > TOL):
                        viol({"what": "evaluate_topk reports an exhausted frontier with a non-exact interval", "topk": t, "truth": str(truth)})
        for n, x in enumerate([im["compile"]["unexpired"]] + im["compile"]["expiry"]):
            nev += 1
            if "ok" in x and abs(F(x["ok"]) - truth) > TOL:
                viol({"what": "compile_lineage_to_sdd_with_clock: weighted count of the compiled SDD differs from the true probability",
                      "got": x["ok"], "truth": str(truth)}, ("compile", n - 1))
        ctx.count(nev - 1)
        dist["evaluations"] += nev
        if bad:
            dist["nviol"] += 1
            clock = bad.pop("clock")
            cc = {k: c[k] for k in ("kind", "seeds", "ops", "root", "cfg", "exact")}
            cc["clock"] = clock
            ctx.violation(cc, bad)
        # ---- implementation vs model ----
        mism = None
        if isinstance(mo, tuple) and mo and mo[0] == "ERROR":
            ctx.broken("correspondence", stream, "model evaluation failed: %s" % (mo[1],), c)
            continue
        # Coq prints left-nested pairs flat: ((a, .., g), e2, e3, e4) arrives as one 10-tuple
        (m_arena, m_ids, m_root, m_flags, m_exact, m_res, m_lists, m_enum, m_topk, m_iv) = mo
        tags = ["F", "T", "L", "A", "O", "N"]
        m_nodes = [[i, [tags[t]] + ([p[0]] if t in (2, 5) else [p] if t in (3, 4) else [])] for i, (t, p) in enumerate(m_arena)]
        if m_nodes != im["arena"]["nodes"] or im["arena"]["len"] != len(m_arena) or m_ids != im["ids"] or m_root != im["root"]:
            mism = {"what": "arena built by LineageStore differs from the model's (literal / not / canonical_nary)",
                    "impl": im["arena"], "model": m_nodes, "impl_ids": im["ids"], "model_ids": m_ids}
        if not mism and ((m_flags[0] == 1) != im["meta"]["neg"] or (m_flags[1] == 1) != im["meta"]["excl"]):
            mism = {"what": "metadata differs", "impl": im["meta"], "model": m_flags}
        if m_flags[2] != 1 and not mism:
            mism = {"what": "model arena is not well-formed (children must precede parents)"}
        # ((z, n), (z', n'), cons) is printed with the first pair flattened
        pz, pn, m_probx, m_constraints = m_exact
        m_plan_value = (pz, pn)
        if not mism and (mq(m_plan_value) != truth or mq(m_probx) != truth):
            mism = {"what": "the probability computed in Coq (weighted count of the compile plan / Spec ProbX_node) differs from the Python oracle",
                    "coq_plan": str(mq(m_plan_value)), "coq_spec": str(mq(m_probx)), "python": str(truth)}
        # the exactly-one constraints of the plan range over all choices of every referenced group
        group_of = {sd[0]: sd[3] for sd in c["seeds"]}
        refs_now = arena_seeds(im["arena"]["nodes"], im["root"])
        want_cons = [[sd[0] for sd in c["seeds"] if sd[3] == g] for g in sorted({group_of[x] for x in refs_now if group_of.get(x) is not None})]
        if not mism and m_constraints != want_cons:
            mism = {"what": "model plan constraints are not 'all choices of every referenced group'", "model": m_constraints, "want": want_cons}
        if want_cons:
            dist["excl_absent_choice"] = dist.get("excl_absent_choice", 0) + (1 if any(x not in refs_now for cs in want_cons for x in cs) else 0)
            dist["excl_negated"] = dist.get("excl_negated", 0) + (1 if im["meta"]["neg"] else 0)
        soft = 0
        if not mism:
            for (name, n), mr in zip(where, m_res):
                ir = im[name] if name == "unexpired" else im[name][n]
                a, b = canon_impl(ir), canon_model(mr)
                if not same_result(a, b, exact):
                    if not exact and not same_result(a, b, True):
                        soft += 1
                        continue
                    mism = {"what": "evaluate_hybrid_with_clock differs from the model", "clock": (name, n), "impl": ir, "model": render(b)}
                    break
            for l, ir, mr in zip(c.get("clocks", []), im.get("lists", []), m_lists):
                a, b = canon_impl(ir), canon_model(mr)
                if not same_result(a, b, exact) and exact and not mism:
                    mism = {"what": "evaluate_hybrid_with_clock differs from the model", "clock": ("list", l), "impl": ir, "model": render(b)}
        if not mism and exact:
            for e, me in zip(im["enums"], m_enum):
                outs = [e["unexpired"]] + [e["expiry"][j] for j in e["_js"]]
                for x, mx in zip(outs, me):
                    tag, ps, (rk, rm), t = mx
                    if "err" in x:
                        ok = tag == 1 and REASONS[rk] == x["err"] and t == x["readings"]
                    else:
                        ok = tag == 0 and ps == x["proofs"] and rk == x["kind"] and t == x["readings"] and (rk != 1 or mq(rm) == F(x["mass"]))
                    if not ok and not mism:
                        mism = {"what": "enumerate_proofs differs from the model", "cap": e["cap"], "impl": x, "model": repr(mx)}
            for t, mt in zip(im["topk"], m_topk):
                tag, qs, (ku, fe, ch) = mt
                if "err" in t:
                    ok = tag >= 1 and tag != 99 and REASONS[tag - 1] == t["err"]
                else:
                    ok = tag == 0 and [mq(q) for q in qs] == [F(t["lower"]), F(t["lo"]), F(t["hi"]), F(t["mg"])] and \
                        (ku, fe == 1, ch == 1) == (t["k_used"], t["fe"], t["cap_hit"])
                if not ok and not mism:
                    mism = {"what": "evaluate_topk differs from the model", "impl": t, "model": repr(mt)}
            rows = [r for r in im["table"] if "interval" in r]
            for row, mi in zip(rows, m_iv):
                tag, qs = mi
                iv = row["interval"]
                if isinstance(iv, list):
                    ok = tag == 0 and [mq(q) for q in qs] == [F(iv[0]), F(iv[1])]
                elif iv == "none":
                    ok = tag == 1
                else:
                    ok = tag >= 2 and REASONS[tag - 2] == iv
                if not ok and not mism:
                    mism = {"what": "interval_from_enumeration differs from the model", "impl": row, "model": repr(mi)}
        if soft:
            ctx.stream(stream, float_divergences=soft)
        if mism and not bad:
            dist["nmis"] += 1
            ctx.broken("correspondence", stream, mism["what"] + " (the Spec oracle accepts the implementation's answers)",
                       {"case": {k: c[k] for k in ("kind", "seeds", "ops", "root", "cfg")}, "detail": mism})
        # coverage
        u = im["unexpired"]
        nontrivial = im["root"] >= 2 and 0 < truth < 1 and im["valid"] and (u["k_used"] > 0 or len(arena_seeds(im["arena"]["nodes"], im["root"])) >= 2)
        if nontrivial:
            ctx.nontrivial((c["ops"], c["seeds"], c["cfg"], c["root"]))
            dist["nontrivial"] += 1
        dist["excl"] += 1 if im["meta"]["excl"] else 0
        dist["neg"] += 1 if im["meta"]["neg"] else 0
    for key, dist in dists.items():
        ctx.stream(key, cases=dist["cases"], impl_model_mismatches=dist["nmis"], spec_violations=dist["nviol"],
                   evaluations=dist["evaluations"], expiry_points=dist["expiry_points"], nontrivial=dist["nontrivial"],
                   exclusive=dist["excl"], negated=dist["neg"], exclusive_with_absent_choice=dist.get("excl_absent_choice", 0),
                   exclusive_negated=dist.get("excl_negated", 0), statuses=dist["status"], reasons=dist["reasons"])
    ctx.log("stream %s: %d cases done" % (stream, len(cases)))


# ---- end to end: Reasoner::infer_new_facts_with_hybrid --------------------------------------------------------
def gen_e2e(rng):
    nodes = [1, 2, 3, 4]
    edges = [(a, b) for a in nodes for b in nodes if a != b]
    chosen = rng.sample(edges, rng.randint(3, 8))
    facts = [[a, 10, b, rng.randint(1, 15), 16] for a, b in chosen]
    rules = [{"premise": [["x", 10, "y"], ["y", 10, "z"]], "negative": [], "conclusion": [["x", 11, "z"]]},
             {"premise": [["x", 11, "y"]], "negative": [], "conclusion": [["x", 12, "y"]]},
             {"premise": [["x", 10, "y"]], "negative": [], "conclusion": [["x", 12, "y"]]}]
    if rng.random() < 0.6:
        rules.append({"premise": [["x", 12, "y"], ["y", 10, "z"]], "negative": [], "conclusion": [["x", 13, "z"]]})
    if rng.random() < 0.4:
        rules.append({"premise": [["x", 10, "y"]], "negative": [["y", 10, "x"]], "conclusion": [["x", 14, "y"]]})
    thr = F(rng.randint(0, 32), 32)
    cfg = {"thr": [thr.numerator, thr.denominator], "band": [1, rng.choice([1, 8, 64])], "floor": [rng.choice([0, 1]), 1024],
           "k0": rng.choice([1, 1, 2, 4]), "kmax": rng.choice([4, 8, 16]), "kg": 2, "nodes": rng.choice([100000, 100000, 30]),
           "tb": 2 * TB, "sb": 5 * TB}
    return {"e2e": True, "facts": facts, "rules": rules, "cfg": cfg}


def evaluate_e2e(ctx, binpath, cases, stream):
    impl = ctx.run_impl(binpath, cases)
    nfacts = nviol = nneg = 0
    statuses = {}
    for c, im in zip(cases, impl):
        ctx.count()
        if im is None or "panic" in im or "driver_died" in im:
            ctx.violation(c, {"what": "Reasoner::infer_new_facts_with_hybrid panicked / died", "impl": im})
            nviol += 1
            continue
        if "error" in im:
            ctx.broken("correspondence", stream, "a layered, non-recursive rule set was rejected: %s" % im["error"], c)
            continue
        seeds = [[i, f[3], f[4], None] for i, f in enumerate(c["facts"])]
        orc = Oracle(seeds)
        thr = F(*c["cfg"]["thr"])
        for fct in im["facts"]:
            nfacts += 1
            ctx.count()
            nodes = sorted(fct["nodes"], key=lambda x: x[0])
            truth = orc.prob(orc.arena_tables(nodes)[fct["root"]], orc.weights())
            nneg += any(nd[0] == "N" for _, nd in nodes)
            r = fct["result"]
            if r is None:
                ctx.violation(c, {"what": "a derived fact has no hybrid result", "fact": fct["triple"]})
                nviol += 1
                continue
            statuses[r["status"]] = statuses.get(r["status"], 0) + 1
            msg = spec_check(canon_impl(r), truth, thr)
            if msg:
                ctx.violation(c, {"what": msg, "fact": fct["triple"], "result": r, "truth": str(truth), "lineage": nodes})
                nviol += 1
            if 0 < truth < 1 and len(nodes) >= 3:
                ctx.nontrivial(("e2e", c["facts"], fct["triple"], c["cfg"]))
    ctx.stream(stream, cases=len(cases), derived_facts=nfacts, with_negation=nneg, spec_violations=nviol, statuses=statuses)


def render(b):
    return {k: (str(v) if isinstance(v, F) else [None if x is None else str(x) for x in v] if k == "vals" else v) for k, v in b.items()}


def load_corpus():
    d = os.path.join(vf.VERIF, "corpus", "C08")
    out = []
    if os.path.isdir(d):
        for fn in sorted(os.listdir(d)):
            if fn.endswith(".json"):
                with open(os.path.join(d, fn)) as f:
                    x = json.load(f)
                out.extend(x if isinstance(x, list) else [x])
    return out


TRUSTED = [
    "Coq 8.16.1 kernel; vm_compute for running the model in the correspondence check",
    "hand-written Gallina model coq/Hybrid/{Lineage,Model}.v of shared/src/hybrid.rs (LineageStore, enumerate_proofs, "
    "interval_from_enumeration, retained_proof_wmc, evaluate_topk, evaluate_hybrid_controlled, HybridConfig::validate)",
    "the SDD manager is not modelled here: an SDD computation is an oracle (number of budget checkpoints, success or node-budget "
    "failure) whose value on success is the exact weighted count; that the real manager computes this value is property C07, and "
    "is checked on every case against the world-enumeration oracle (retained_proof_wmc hook, compile_lineage_to_sdd_with_clock)",
    "correspondence check: harness/src/bin/c08.rs (public API + add-only kolibrie_verif hooks in shared/src/hybrid.rs), "
    "checks/c08.py generators, canonicalisation and the integer world-enumeration oracle",
    "f64 arithmetic replaced by exact rationals; the correspondence uses dyadic probabilities (k/16, <= 10 seeds) and dyadic "
    "thresholds so that every f64 operation of the code is exact and ties are compared exactly; a separate non-dyadic stream is "
    "checked against the Spec with tolerance 1e-9",
    "Instant/Duration arithmetic modelled as unbounded N nanoseconds; the clock is an arbitrary function of the reading number",
]
ASSUME = ["lineage arenas are built through LineageStore's API (children precede parents, no cycles)",
          "exclusive groups are normalised (member probabilities sum to 1) in generated cases",
          "u64 sequence numbers and usize k do not saturate"]


def run(ctx):
    ctx.coq("Hybrid", "C08.v")
    binpath = ctx.harness("c08")
    rng = ctx.rng
    corpus = load_corpus()
    if corpus:
        evaluate(ctx, binpath, corpus, "corpus", nbudget=40)
    # invalid configurations
    seeds = [[0, 1, 2, None], [1, 1, 4, None]]
    inv = [{"kind": "invalid", "seeds": seeds, "ops": [["lit", 0], ["lit", 1], ["or", [2, 3]]], "root": 4, "cfg": cfg, "exact": True}
           for cfg in invalid_cfgs()]
    evaluate(ctx, binpath, inv, "invalid_config", nbudget=4)
    # exhaustive small scope
    ex = exhaustive_cases(ctx.thorough)
    ctx.sample({"ops": ex[77]["ops"], "seeds": ex[77]["seeds"], "cfg": ex[77]["cfg"]})
    evaluate(ctx, binpath, ex, "exhaustive_dnf3", nbudget=10 if not ctx.thorough else 400, all_n=ctx.thorough)
    ctx.coverage["exhaustive"] = True
    ctx.coverage["exhaustive_scope"] = ("all 128 DNFs over 3 seeds (p = 1/2, 1/4, 3/4) x %d configurations; implementation run with "
                                        "the deadline expiring at every clock reading in three clock shapes" % (len(ex) // 128))
    # random streams
    mult = 6 if ctx.thorough else 1
    batch = []
    for kind, n in (("mono", 120), ("wide", 40), ("neg", 40), ("excl", 30), ("exclneg", 30), ("nodes", 40), ("missing", 16), ("float", 40), ("big", 8)):
        cs = [gen_case(rng, kind) for _ in range(n * mult)]
        # a few explicit arbitrary (non-monotone) clocks
        for c in cs[: max(4, len(cs) // 4)]:
            vals = [0, 1, TB - 1, TB, TB + 1, SB, TB + SB, 3 * SB, 5]
            c["clocks"] = [[rng.choice(vals) for _ in range(rng.randint(1, 40))] for _ in range(3)]
        ctx.sample({k: cs[0][k] for k in ("kind", "seeds", "ops", "root", "cfg")}, limit=12)
        batch += cs
    kp1 = kplus1_cases(rng, ctx.thorough)
    ctx.sample({k: kp1[1][k] for k in ("kind", "seeds", "ops", "root", "cfg")}, limit=12)
    batch += kp1
    # one batch (one driver run, one sharded model run); the evidence keeps one stream record per kind
    evaluate(ctx, binpath, batch, "random", nbudget=12 if not ctx.thorough else 40, by_kind=True)
    e2e = [gen_e2e(rng) for _ in range(30 * mult)]
    ctx.sample({k: e2e[0][k] for k in ("facts", "rules", "cfg")})
    evaluate_e2e(ctx, binpath, e2e, "end_to_end_reasoner")
    ctx.finish(level="proof", rule=PROP_RULE, trusted_base=TRUSTED, assumptions=ASSUME)


def replay(ctx):
    binpath = ctx.harness("c08")
    c = ctx.replay["case"]
    if "case" in c and "ops" not in c and "e2e" not in c:
        c = c["case"]
    if c.get("e2e"):
        evaluate_e2e(ctx, binpath, [c], "replay")
        ctx.finish(level="proof", rule=PROP_RULE, trusted_base=TRUSTED, assumptions=ASSUME)
    case = {k: c[k] for k in ("seeds", "ops", "root", "cfg")}
    case["kind"] = c.get("kind", "replay")
    case["exact"] = c.get("exact", True)
    evaluate(ctx, binpath, [case], "replay", nbudget=400, all_n=True)
    ctx.finish(level="proof", rule=PROP_RULE, trusted_base=TRUSTED, assumptions=ASSUME)
