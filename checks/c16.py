"""C16 - the query parser is total and faithful (DESIGN.md section 7, C16).

Theorems: coq/Parser/C16.v (scanner totality / consumption on UTF-8 byte strings, term round trips, whole input).
Correspondence (every run):
  tables   the Unicode class tables of the model (coq/Parser/Unicode.v) against Rust's std on every code point
  scan     every hand-written scanner, function level (add-only hooks `verif_sparql_*`), against the Gallina model:
           exhaustive short strings over a per-scanner alphabet + generated tokens + mutated tokens
  tree     pretty-printings of generated syntax trees under ~10 layouts -> real parser's tree == source tree (Spec)
           == model parser's tree
  mutant   byte/char mutations of ~300 seed requests (repo tests/examples): outcome of every string entry point,
           never Panic, acceptance only of whole inputs; model == implementation on a sample
"""
import json
import os
import re
import subprocess
import vf

SUB = "Parser"
REQ = ["KV.Parser.Utf8", "KV.Parser.Scanners", "KV.Parser.Keywords", "KV.Parser.Grammar", "KV.Parser.Run"]
PRE = "Open Scope N_scope."
KINDS = {1: "Eof", 2: "Char", 3: "TakeWhile1", 4: "Escaped", 5: "Verify", 6: "TakeUntil", 7: "Tag", 8: "Digit", 9: "Many1", 10: "Alt"}

PROP_RULE = ("a case is one input string given to one parser function / entry point.  Non-trivial: scan cases whose "
             "implementation result is an accepted token or an error past the first byte; tree cases that parse to a tree "
             "with at least one triple pattern; mutants of accepted seeds (outcome of >= 1 entry point is Ok for the seed). "
             "Distinct by (function, input).")

MB = ["\u00e9", "\u20ac", "\U0001F600", "\u0301", "\u00a0", "\u2028"]     # e-acute, euro, emoji, combining acute, NBSP, LS


# ---------------------------------------------------------------------------------------------------
# helpers
# ---------------------------------------------------------------------------------------------------
def b2c(s):
    """python str -> Coq byte list literal"""
    return "[" + "; ".join(str(x) for x in s.encode("utf-8")) + "]"


def tob(x):
    """model byte list / impl str -> bytes"""
    if isinstance(x, str):
        return x.encode("utf-8")
    return bytes(x)


def is_boundary(bs, i):
    return i == 0 or i == len(bs) or (0 < i < len(bs) and not (0x80 <= bs[i] < 0xC0))


WS_CP = {9, 10, 11, 12, 13, 32, 0x85, 0xA0, 0x1680, 0x2028, 0x2029, 0x202F, 0x205F, 0x3000} | set(range(0x2000, 0x200B))


def is_layout(text):
    """Spec: a string consisting only of whitespace and `#` comments (comment = `#` up to CR / LF / end)."""
    i, n = 0, len(text)
    while i < n:
        c = text[i]
        if ord(c) in WS_CP:
            i += 1
        elif c == "#":
            while i < n and text[i] not in "\r\n":
                i += 1
        else:
            return False
    return True


def _norm(v):
    """vf.parse_coq leaves a nullary constructor in argument position as ("@", name)"""
    if isinstance(v, tuple):
        if len(v) == 2 and v[0] == "@" and isinstance(v[1], str):
            return v[1]
        return tuple(_norm(x) for x in v)
    if isinstance(v, list):
        return [_norm(x) for x in v]
    return v


def model_batch(ctx, fn_inputs, chunk=40, timeout=1500):
    """fn_inputs: list of (coq function expression, python str).  Returns the model values in order.
    Inputs of the same function are evaluated in batches (`map f [..]`) to amortise the per-Eval cost."""
    groups = {}
    for i, (fn, s) in enumerate(fn_inputs):
        groups.setdefault(fn, []).append(i)
    exprs, owners = [], []
    for fn, idxs in groups.items():
        for k in range(0, len(idxs), chunk):
            part = idxs[k:k + chunk]
            exprs.append("map (%s) [%s]" % (fn, "; ".join(b2c(fn_inputs[i][1]) for i in part)))
            owners.append(part)
    vals = ctx.run_model(SUB, REQ, exprs, preamble=PRE, timeout=timeout, chunk=max(1, (len(exprs) + vf.NPROC - 1) // vf.NPROC))
    out = [None] * len(fn_inputs)
    vals = [v if (isinstance(v, tuple) and v and v[0] == "ERROR") else _norm(v) for v in vals]
    for part, v in zip(owners, vals):
        if isinstance(v, tuple) and v and v[0] == "ERROR":
            for i in part:
                out[i] = v
        else:
            if v == "nil":
                v = []
            for i, x in zip(part, v):
                out[i] = x
    return out


def canon_model_out(v, conv):
    """Coq `out` value -> canonical python: ("Ok", x) / ("Err", kind, elen, eend) / ("Panic",) / ("Fuel",)"""
    if v == "RPanic":
        return ("Panic",)
    if v == "RFuel":
        return ("Fuel",)
    if isinstance(v, tuple) and v[0] == "ROk":
        return ("Ok", conv(v[1]))
    if isinstance(v, tuple) and v[0] == "RErr":
        return ("Err", KINDS.get(v[1], str(v[1])), v[2], v[3])
    raise ValueError("unexpected model output %r" % (v,))


def canon_impl_out(r, n, conv):
    """driver result -> same canonical shape (n = byte length of the input)"""
    if r is None or "driver_died" in r:
        return ("Died",)
    if "panic" in r:
        return ("Panic", r["panic"])
    if "ok" in r:
        return ("Ok", conv(r["ok"]))
    if "err" in r:
        kind, (off, ln) = r["err"][0], r["err"][1]
        return ("Err", kind, ln, (n - (off + ln)) if off >= 0 else -1)
    raise ValueError("unexpected driver output %r" % (r,))


# ---------------------------------------------------------------------------------------------------
# stream: Unicode tables
# ---------------------------------------------------------------------------------------------------
def read_tables():
    txt = open(os.path.join(vf.VERIF, "coq", SUB, "Unicode.v")).read()
    tabs = {}
    for name in ("alphabetic_ranges", "numeric_ranges", "whitespace_ranges"):
        m = re.search(r"Definition %s : list \(N \* N\) := \[(.*?)\]\." % name, txt, re.S)
        tabs[name] = [(int(a), int(b)) for a, b in re.findall(r"\((\d+),(\d+)\)", m.group(1))]
    return tabs


def stream_tables(ctx, binpath):
    tabs = read_tables()
    N = 0x110000
    bits = bytearray(N)
    for bit, name in ((1, "alphabetic_ranges"), (2, "numeric_ranges"), (4, "whitespace_ranges")):
        for a, b in tabs[name]:
            for c in range(a, b + 1):
                bits[c] |= bit
    step = N // 16
    cases = [{"k": "class", "cps": list(range(k * step, (k + 1) * step))} for k in range(16)]
    res = ctx.run_impl(binpath, cases, shards=16)
    bad = 0
    impl_sparql = {}
    for k, r in enumerate(res):
        if not isinstance(r, list):
            ctx.broken("correspondence", "tables", "driver died on the class dump", None)
            return
        for j, x in enumerate(r):
            c = k * step + j
            if x is None:
                continue                       # surrogate: not a char
            std = x[0]
            mine = bits[c] | (8 if bits[c] & 3 else 0)
            ctx.count()
            if std != mine:
                bad += 1
                if bad <= 3:
                    ctx.broken("correspondence", "tables", "Unicode class table differs from std at U+%04X: std=%d model=%d" % (c, std, mine), {"cp": c})
            impl_sparql[c] = x[1]
    # the SPARQL classes (defined in Scanners.v) through the model on all range borders +-1 and the test alphabet
    pts = set()
    for name in tabs:
        for a, b in tabs[name][:200] + tabs[name][-40:]:
            pts.update((a - 1, a, b, b + 1))
    for v in (0xC0, 0xD6, 0xD7, 0xD8, 0xF6, 0xF7, 0xF8, 0x2FF, 0x300, 0x36F, 0x370, 0x37D, 0x37E, 0x37F, 0x1FFF, 0x2000, 0x200B,
              0x200C, 0x200D, 0x200E, 0x203E, 0x203F, 0x2040, 0x2041, 0x206F, 0x2070, 0x218F, 0x2190, 0x2BFF, 0x2C00, 0x2FEF, 0x2FF0,
              0x3000, 0x3001, 0xD7FF, 0xE000, 0xF8FF, 0xF900, 0xFDCF, 0xFDD0, 0xFDEF, 0xFDF0, 0xFFFD, 0xFFFE, 0xFFFF, 0x10000, 0xEFFFF,
              0xF0000, 0x10FFFF, 0xB6, 0xB7, 0xB8, 0x212A, 0x1F600):
        pts.update((v - 1, v, v + 1))
    pts.update(range(0, 0x180))
    pts = sorted(c for c in pts if 0 <= c < N and not (0xD800 <= c < 0xE000))
    exprs = ["map (fun c => (run_classes c, run_sparql_classes c)) [%s]" % "; ".join(str(c) for c in pts[k:k + 400]) for k in range(0, len(pts), 400)]
    vals = ctx.run_model(SUB, REQ, exprs, preamble=PRE)
    flat = []
    for v in vals:
        if isinstance(v, tuple) and v and v[0] == "ERROR":
            ctx.broken("correspondence", "tables", "model evaluation failed: %s" % (v[1],))
            return
        flat.extend(v)
    nb = 0
    for c, (std_m, sp_m) in zip(pts, flat):
        ctx.count()
        mine = bits[c] | (8 if bits[c] & 3 else 0)
        if std_m != mine or sp_m != impl_sparql.get(c):
            nb += 1
            if nb <= 3:
                ctx.broken("correspondence", "tables", "character class differs at U+%04X: model (std=%d, sparql=%d) impl (std=%d, sparql=%s)"
                           % (c, std_m, sp_m, mine, impl_sparql.get(c)), {"cp": c})
    ctx.nontrivial(("tables", len(pts)))
    ctx.stream("tables", code_points=N - 2048, model_points=len(pts), mismatches=bad + nb)


# ---------------------------------------------------------------------------------------------------
# token generators (valid tokens of each lexical class, as the scanners define them)
# ---------------------------------------------------------------------------------------------------
NAME_START = list("abcxyzABZ") + ["é", "中"]
NAME_CHARS = NAME_START + list("0159_")
HEX = "0123456789abcdefABCDEF"


def gen_var(rng):
    return rng.choice("??$") + "".join(rng.choice(NAME_CHARS) for _ in range(rng.randint(1, 5)))


def gen_iri(rng):
    body = ""
    for _ in range(rng.randint(0, 8)):
        r = rng.random()
        if r < 0.75:
            body += rng.choice("abcxyz019:/#?=&.-_~%")
        elif r < 0.85:
            body += rng.choice(["é", "€", "\U0001F600", "中"])
        elif r < 0.93:
            body += "\\u" + rng.choice("01234567abcefABCEF") + "".join(rng.choice(HEX) for _ in range(3))
        else:
            body += "\\U000" + rng.choice("01") + rng.choice("01234567abcefABCEF") + "".join(rng.choice(HEX) for _ in range(3))
    return "<" + rng.choice(["http://e/", "urn:", "", "http://example.org/ns#"]) + body + ">"


def gen_local(rng):
    s = ""
    n = rng.randint(0, 5)
    for i in range(n):
        r = rng.random()
        if r < 0.6:
            s += rng.choice(NAME_START + list("0159_"))
        elif r < 0.7 and i > 0:
            s += rng.choice("-:") if rng.random() < 0.7 else "·"
        elif r < 0.8 and 0 < i < n - 1:
            s += "."
        elif r < 0.9:
            s += "%" + rng.choice(HEX) + rng.choice(HEX)
        else:
            s += "\\" + rng.choice("_~.-!$&'()*+,;=/?#@%")
    if s.endswith(".") and not s.endswith("\\."):
        s += "z"
    return s


def gen_pname(rng):
    pre = rng.choice(["", "ex", "foaf", "b", "x1", "p.q", "éx", "rdf"])
    return pre + ":" + gen_local(rng)


def gen_blank(rng):
    s = rng.choice(NAME_START + list("07_"))
    for _ in range(rng.randint(0, 4)):
        s += rng.choice(NAME_CHARS + ["-", ".", "·"])
    if s.endswith("."):
        s += "b"
    return "_:" + s


def gen_numeric(rng):
    s = rng.choice(["", "", "+", "-"])
    r = rng.random()
    if r < 0.4:
        s += str(rng.randint(0, 9999))
    elif r < 0.7:
        s += str(rng.randint(0, 99)) + "." + str(rng.randint(0, 999))
    else:
        s += "." + str(rng.randint(0, 99))
    if rng.random() < 0.3:
        s += rng.choice("eE") + rng.choice(["", "+", "-"]) + str(rng.randint(0, 30))
    return s


def gen_lit_body(rng, q, triple):
    s = ""
    for _ in range(rng.randint(0, 7)):
        r = rng.random()
        if r < 0.55:
            s += rng.choice("abc xyz019.,:;<>{}#@^")
        elif r < 0.65:
            s += rng.choice(["é", "€", "\U0001F600", "\u0301"])
        elif r < 0.8:
            s += "\\" + rng.choice("tbnrf\"'\\")
        elif r < 0.88:
            s += "\\u00" + rng.choice(HEX) + rng.choice(HEX)
        elif r < 0.92:
            s += "\\U0001F60" + rng.choice("0123456789")
        elif triple:
            s += rng.choice(["\n", q + "x", "\r\n", "x"])
        else:
            s += "'" if q == '"' else '"'
    if triple:
        s = s.replace(q * 3, q + "x" + q)
        if s.endswith(q) and not s.endswith("\\" + q):
            s += "."
    return s


def gen_literal(rng, suffix=True):
    q = rng.choice("\"\"'")
    triple = rng.random() < 0.2
    d = q * 3 if triple else q
    s = d + gen_lit_body(rng, q, triple) + d
    if suffix:
        r = rng.random()
        if r < 0.2:
            s += "@" + rng.choice(["en", "EN", "fr", "de"]) + rng.choice(["", "", "-GB", "-x-1", "-Latn-CH"])
        elif r < 0.35:
            s += "^^" + gen_iri(rng)
        elif r < 0.45:
            s += "^^" + rng.choice(["xsd:integer", "ex:t", ":t"])
    return s


def gen_bare(rng):
    return rng.choice(["A", "B", "cat", "x1", "foo-bar", "Zed_9", "été"])


def gen_qt(rng, depth=2):
    def term(pos):
        r = rng.random()
        if depth > 1 and r < 0.2 and pos != "p":
            return gen_qt(rng, depth - 1)
        if pos == "p":
            return rng.choice([gen_iri(rng), gen_pname(rng), gen_var(rng), "a"])
        if pos == "s":
            return rng.choice([gen_iri(rng), gen_pname(rng), gen_var(rng), gen_blank(rng)])
        return rng.choice([gen_iri(rng), gen_pname(rng), gen_var(rng), gen_blank(rng), gen_literal(rng), gen_numeric(rng), "true"])
    sp = lambda: rng.choice([" ", " ", "  ", "\n"])
    return "<<" + sp() + term("s") + sp() + term("p") + sp() + term("o") + sp() + ">>"


def gen_layout(rng, required=True):
    if not required and rng.random() < 0.5:
        return ""
    return rng.choice([" ", " ", "\n", "\t", "  ", " # c\n", "#x:y <z> \"\n", "\u00a0", "\r\n", "\u3000 ", " #é\n  "])


TOKEN_GENS = {
    "variable": gen_var, "iri": gen_iri, "prefixed_name": gen_pname, "blank_node": gen_blank,
    "numeric_literal": gen_numeric, "quoted_literal": gen_literal, "bare_identifier": gen_bare, "quoted_triple": gen_qt,
}

# scanner -> (Coq function, exhaustive alphabet, generators whose tokens are fed to it)
SCANNERS = {
    "skip_ws":            ("run_skip_ws", [" ", "#", "\n", "\r", "a", "\u00a0", "é", "\u2028"], []),
    "variable":           ("run_tok variable", ["?", "$", "a", "_", "1", " ", "é", "€", ".", "#"], ["variable"]),
    "unicode_escape_len": ("run_unicode_escape_len", ["\\", "u", "U", "0", "d", "8", "F", "é", "g"], []),
    "invalid_pn_prefix":  ("run_invalid_pn_prefix", ["a", ".", "-", "1", "_", "é", "€", "·", " "], []),
    "iri":                ("run_tok iri", ["<", ">", "\\", "u", "0", "a", " ", "é", "{", "\U0001F600"], ["iri"]),
    "blank_node":         ("run_tok blank_node", ["_", ":", "a", ".", "-", "1", " ", "é", "€"], ["blank_node"]),
    "prefixed_name":      ("run_tok prefixed_name", ["a", ":", ".", "%", "\\", "-", "1", "F", " ", "é", "€"], ["prefixed_name"]),
    "bare_identifier":    ("run_tok bare_identifier", ["a", "-", "_", "1", " ", ":", "é", "€", "#"], ["bare_identifier"]),
    "identifier":         ("run_tok identifier", ["a", "-", "_", "1", " ", "é", "€"], ["bare_identifier"]),
    "numeric_literal":    ("run_tok numeric_literal", ["1", "0", ".", "+", "-", "e", "E", "a", " ", "é", "_"], ["numeric_literal"]),
    "quoted_literal":     ("run_tok quoted_literal", ["\"", "'", "\\", "u", "n", "0", "é", "@", "^", "-", "a", "\n", "<", ">", ":"], ["quoted_literal"]),
    "filter_operator":    ("run_tok filter_operator", ["!", "=", "<", ">", " ", "a", "é"], []),
    "quoted_triple":      ("run_tok m_quoted_triple", ["<", ">", "?", "a", " ", ":", "é", "\""], ["quoted_triple"]),
    "subject_term":       ("run_tok m_subject_term", ["<", ">", "?", "a", ":", "_", "1", " ", "é", "\""], ["variable", "iri", "prefixed_name", "blank_node", "bare_identifier", "quoted_triple"]),
    "predicate_term":     ("run_tok predicate_term", ["<", ">", "?", "a", ":", "b", " ", "é", "-"], ["variable", "iri", "prefixed_name"]),
    "object_term":        ("run_tok m_object_term", ["<", ">", "?", "a", ":", "_", "1", ".", "\"", "t", " ", "é"], ["variable", "iri", "prefixed_name", "blank_node", "numeric_literal", "quoted_literal", "bare_identifier", "quoted_triple"]),
    "graph_name":         ("run_tok graph_name", ["<", ">", "?", "a", ":", " ", "é"], ["variable", "iri", "prefixed_name"]),
    "keyword:SELECT":     ("run_tok (keyword kw_select)", ["S", "s", "E", "e", "L", "C", "T", "t", " ", "#", "\n", "-", "é", "K"], []),
    "keyword:AS":         ("run_tok (keyword kw_as)", ["A", "a", "S", "s", " ", "(", ":", "_", "1", "é", "\u017f"], []),
    "keyword:true":       ("run_tok (keyword kw_true)", ["t", "T", "r", "u", "e", "E", " ", ".", "x", "é"], []),
    "unescape_iri":       ("run_v unescape_iri", ["\\", "u", "U", "0", "4", "1", "+", "a", "é", "\U0001F600", "d", "8"], ["iri"]),
    "literal_value":      ("run_v literal_lexical_value", ["\"", "'", "\\", "u", "0", "4", "1", "n", "a", "é", "+"], ["quoted_literal"]),
}
RESTS = ["", " .", " ;", "}", ")", " ?x", ".", ",", " <a>", "é", " #c", "x", ":", "_", "-", ">>", "\n}", "1", "\"", "^", "@", "\u00b7"]


def scan_conv_impl(f):
    def conv(ok):
        if f == "skip_ws":
            return ok["rest"][1]
        if f == "unicode_escape_len":
            return ok["n"]
        if f == "invalid_pn_prefix":
            return None if ok["bad"] is None else tuple(ok["bad"])
        if f in ("unescape_iri", "literal_value"):
            return tob(ok["text"])
        return (tob(ok["text"]), ok["rest"][1])
    return conv


def scan_conv_model(f):
    def conv(v):
        if f == "skip_ws":
            return v
        if f == "unicode_escape_len":
            return v if v is None else v[1]
        if f == "invalid_pn_prefix":
            return None if v is None else tuple(v[1])
        if f in ("unescape_iri", "literal_value"):
            return tob(v)
        return (tob(v[0]), v[1])
    return conv


def model_scan_value(f, v):
    if f == "skip_ws":
        return ("Ok", v)
    return canon_model_out(v, scan_conv_model(f))


def known_lexical_slice(f, s):
    """(C16-lexical-helper-slice, repaired by 484100d: no longer a known class; a panic of unescape_sparql_iri /
    literal_lexical_value is a VIOLATION.)"""
    return False


def spec_scan_ok(f, s, r):
    """Spec oracle for an accepted token (independent of the model): skipped prefix is layout, token and rest are
    contiguous, the rest is a suffix, all cut points are character boundaries."""
    if f in ("unicode_escape_len", "invalid_pn_prefix", "unescape_iri", "literal_value"):
        return None
    bs = s.encode("utf-8")
    ok = r["ok"]
    roff, rlen = ok["rest"]
    if roff < 0 or roff + rlen != len(bs) or not is_boundary(bs, roff):
        return "the rest is not a suffix of the input at a character boundary"
    if f == "skip_ws":
        return None if is_layout(bs[:roff].decode("utf-8")) else "skipped text is not whitespace/comments"
    toff, tlen = ok["tok"]
    if toff < 0 or toff + tlen != roff or not is_boundary(bs, toff):
        return "token and rest are not contiguous slices at character boundaries"
    if f != "identifier" and not is_layout(bs[:toff].decode("utf-8")):
        return "text before the token is not whitespace/comments"
    if tlen == 0:
        return "empty token accepted"
    return None


def run_scan_cases(ctx, binpath, cases, stream):
    """cases: list of (scanner name, input str)"""
    impl = ctx.run_impl(binpath, [{"k": "scan", "f": f, "s": s} for f, s in cases])
    model = model_batch(ctx, [(SCANNERS[f][0], s) for f, s in cases])
    nmis = nviol = nknown = 0
    kinds = {}
    for (f, s), im, mo in zip(cases, impl, model):
        ctx.count()
        n = len(s.encode("utf-8"))
        case = {"stream": stream, "k": "scan", "f": f, "s": s}
        if isinstance(mo, tuple) and mo and mo[0] == "ERROR":
            ctx.broken("correspondence", stream, "model evaluation failed: %s" % (mo[1],), case)
            continue
        mv = model_scan_value(f, mo)
        iv = canon_impl_out(im, n, scan_conv_impl(f))
        kinds[iv[0]] = kinds.get(iv[0], 0) + 1
        if iv[0] in ("Panic", "Died"):
            if known_lexical_slice(f, s):
                nknown += 1
                if mv[0] != "Panic":
                    ctx.broken("correspondence", stream, "implementation panics inside the known class but the model does not", case)
                continue
            ctx.violation(case, {"what": "scanner panicked on a valid UTF-8 string", "impl": im, "model": mv})
            nviol += 1
            continue
        if iv[0] == "Ok":
            why = spec_scan_ok(f, s, im)
            if why:
                ctx.violation(case, {"what": "accepted token violates the consumption spec: " + why, "impl": im})
                nviol += 1
                continue
        if iv != mv:
            nmis += 1
            if nmis <= 20:
                ctx.broken("correspondence", stream, "scanner %s: implementation %r, model %r" % (f, iv, mv), case)
        if iv[0] == "Ok" or (iv[0] == "Err" and iv[2] < n):
            ctx.nontrivial((f, s))
    ctx.stream(stream, cases=len(cases), impl_model_mismatches=nmis, spec_violations=nviol, known_class=nknown, outcomes=kinds)


def exhaustive_strings(alpha, maxlen):
    import itertools
    out = [""]
    for L in range(1, maxlen + 1):
        for tup in itertools.product(alpha, repeat=L):
            out.append("".join(tup))
    return out


ESC_FOLLOW = ["\u00e9", "\u20ac", "\U0001F642", "+", "-", "g", " ", ""]       # 2-, 3-, 4-byte character, signs, a non-hex letter, blank, nothing


def escape_family(f):
    """\\u with 0..4 and \\U with 0..8 hexadecimal digits (also with a sign in front), followed by a character of every
    UTF-8 length, a sign, a non-hex letter or the closing delimiter: in the three literal quote forms (both quote
    kinds) and in IRIs.  A truncated escape whose window ends inside a multi-byte character is where a byte-indexed
    slice panics (seeded change C16r2/1)."""
    escs = []
    for u, full in (("u", "00e9"), ("U", "0001F642")):
        for k in range(len(full) + 1):
            escs.append("\\" + u + full[:k])
        escs.append("\\" + u + "+" + full[1:])
        escs.append("\\" + u + "-" + full[1:])
        escs.append("\\" + u + full[:-2] + "+" + full[-1:])
    bodies = [e + x + tail for e in escs for x in ESC_FOLLOW for tail in ("", "1")]
    if f in ("quoted_literal", "literal_value"):
        out = []
        for q in ("\"", "'", "\"\"\"", "'''"):
            for b in bodies:
                out.append(q + b + q)
                if f != "literal_value":
                    out.append(q + b + q + "@en .")
        return out
    if f == "iri":
        return ["<http://e/" + b + ">" for b in bodies] + ["<" + b + "> ." for b in bodies]
    if f == "unescape_iri":
        return ["http://e/" + b for b in bodies]
    return []


def stream_scan(ctx, binpath):
    rng = ctx.rng
    # 1. exhaustive short strings (what makes an off-by-one in the index arithmetic certain to show)
    ex = []
    for f, (_, alpha, _) in SCANNERS.items():
        L = 3 if len(alpha) <= 10 else 2
        if ctx.thorough:
            L += 1
        strs = exhaustive_strings(alpha, L)
        if f in ("quoted_literal", "literal_value"):
            strs += ["\"" + x for x in exhaustive_strings(["\\", "u", "0", "é", "\"", "a", "@", "-", "^"], 4 if ctx.thorough else 3)]
        if f in ("iri", "unescape_iri"):
            pre = "<" if f == "iri" else ""
            strs += [pre + "\\u" + x for x in exhaustive_strings(["0", "a", "é", ">", "d", "8"], 5 if ctx.thorough else 4)]
        if f == "prefixed_name":
            strs += ["a:" + x for x in exhaustive_strings(["%", "\\", "F", "-", ".", "é", "b", " "], 3)]
        strs += escape_family(f)
        if f.startswith("keyword:"):
            kw = f.split(":", 1)[1]
            for variant in (kw, kw.lower(), kw.upper(), kw[:-1], kw[1:], kw.swapcase()):
                strs += [lead + variant + x for lead in ("", " ", "#c\n") for x in exhaustive_strings(alpha, 1)]
        ex += [(f, s) for s in strs]
    ctx.coverage["exhaustive"] = True
    ctx.coverage["exhaustive_scope"] = "every string of length <= %d (<= %d for alphabets > 10 symbols) over each scanner's alphabet: %d scanner inputs" % (
        4 if ctx.thorough else 3, 3 if ctx.thorough else 2, len(ex))
    run_scan_cases(ctx, binpath, ex, "scan_exhaustive")
    # 2. generated tokens with layout before and arbitrary text after, and their mutants
    gen = []
    per = 60 if ctx.thorough else 12
    for f, (_, alpha, gens) in SCANNERS.items():
        for g in gens:
            for _ in range(per):
                tok = TOKEN_GENS[g](rng)
                if f == "unescape_iri":
                    s = tok[1:-1]
                elif f == "literal_value":
                    s = tok
                elif f == "identifier":
                    s = tok + rng.choice(RESTS)
                else:
                    s = gen_layout(rng, False) + tok + rng.choice(RESTS)
                gen.append((f, s))
                for _ in range(2):
                    i = rng.randint(0, len(s))
                    r = rng.random()
                    ch = rng.choice(MB + alpha)
                    m = s[:i] + ch + s[i:] if r < 0.5 else (s[:i] + s[i + 1:] if r < 0.75 else s[:i] + ch + s[i + 1:])
                    gen.append((f, m))
    ctx.sample({"stream": "scan_generated", "f": gen[0][0], "s": gen[0][1]})
    run_scan_cases(ctx, binpath, gen, "scan_generated")


# ---------------------------------------------------------------------------------------------------
# syntax-tree generator + printer with a layout oracle (Spec side of the round trip)
#
# A generated case is a token list; tokens are (kind, text):
#   "kw"  keyword (printed in any letter case)      "t"  term / operator (needs layout next to another t/kw)
#   "p"   punctuation (layout around it optional)   "dot" the `.` separator
#   ("mark", id) records a source position; comparison operands are reported by the parser as raw source text,
#   so the expected tree takes them from the printed text between two marks.
# The expected tree is built together with the tokens, following the grammar's meaning (Spec): nesting, pattern
# order, terms, filters, modifiers.  Shapes equal the driver's JSON.
# ---------------------------------------------------------------------------------------------------
class Gen:
    def __init__(self, rng):
        self.rng = rng
        self.marks = 0

    # ---- terms ----
    def var(self):
        return gen_var(self.rng)

    def iri(self):
        return gen_iri(self.rng)

    def subject(self, data=False, noblank=False):
        r = self.rng.random()
        if r < 0.45 and not data:
            return self.var()
        if r < 0.65:
            return self.iri()
        if r < 0.8:
            return gen_pname(self.rng)
        if r < 0.9 and not noblank:
            return gen_blank(self.rng)
        if r < 0.95:
            return gen_bare(self.rng)
        return self.qt(data, noblank)

    def predicate(self, data=False):
        r = self.rng.random()
        if r < 0.3 and not data:
            return self.var()
        if r < 0.6:
            return self.iri()
        if r < 0.85:
            return gen_pname(self.rng)
        return "a"

    def obj(self, data=False, noblank=False):
        r = self.rng.random()
        if r < 0.3 and not data:
            return self.var()
        if r < 0.45:
            return self.iri()
        if r < 0.55:
            return gen_pname(self.rng)
        if r < 0.62 and not noblank:
            return gen_blank(self.rng)
        if r < 0.8:
            return gen_literal(self.rng)
        if r < 0.88:
            return gen_numeric(self.rng)
        if r < 0.92:
            return self.rng.choice(["true", "false"])
        if r < 0.96:
            return gen_bare(self.rng)
        return self.qt(data, noblank)

    def qt(self, data=False, noblank=False):
        # one token: its text (single spaces inside) is what the parser reports
        return "<< %s %s %s >>" % (self.subject(data, noblank) if self.rng.random() < 0.8 else self.iri(),
                                   self.predicate(data), self.obj(data, noblank) if self.rng.random() < 0.8 else self.iri())

    def graph_name(self, data=False):
        r = self.rng.random()
        if r < 0.4 and not data:
            return self.var()
        return self.iri() if r < 0.75 else gen_pname(self.rng)

    # ---- triples statement: tokens, list of triples, whether it ends with a dangling `;` ----
    def stmt(self, data=False, noblank=False, allow_trailing=False):
        s = self.subject(data, noblank)
        toks, triples = [("t", s)], []
        npred = self.rng.choice([1, 1, 1, 2, 3])
        for i in range(npred):
            if i:
                toks.append(("p", ";"))
            p = self.predicate(data)
            toks.append(("t", p))
            for j in range(self.rng.choice([1, 1, 1, 2, 3])):
                if j:
                    toks.append(("p", ","))
                o = self.obj(data, noblank)
                toks.append(("t", o))
                triples.append([s, p, o])
        trailing = allow_trailing and self.rng.random() < 0.15
        if trailing:
            toks.append(("p", ";"))
        return toks, triples, trailing

    # ---- FILTER ----
    def operand(self):
        r = self.rng.random()
        if r < 0.45:
            return self.var()
        if r < 0.65:
            return gen_numeric(self.rng)
        if r < 0.78:
            return gen_literal(self.rng, suffix=self.rng.random() < 0.3)
        if r < 0.86:
            return self.iri()
        if r < 0.92:
            return self.rng.choice(["true", "false"])
        return gen_pname(self.rng)

    def arith(self, depth=2, no_paren_start=False):
        """tokens, tree of an additive expression"""
        def primary(d, first):
            if d > 0 and self.rng.random() < 0.2 and not (first and no_paren_start):
                tk, tr = self.arith(d - 1)
                return [("p", "(")] + tk + [("p", ")")], tr
            o = self.operand()
            return [("t", o)], ["Op", o]

        def product(d, first):
            tk, tr = primary(d, first)
            while self.rng.random() < 0.2:
                op = self.rng.choice("*/")
                tk2, tr2 = primary(d, False)
                tk = tk + [("t", op)] + tk2
                tr = ["Mul" if op == "*" else "Div", tr, tr2]
            return tk, tr
        tk, tr = product(depth, True)
        while self.rng.random() < 0.25:
            op = self.rng.choice("+-")
            tk2, tr2 = product(depth, False)
            tk = tk + [("t", op)] + tk2
            tr = ["Add" if op == "+" else "Sub", tr, tr2]
        return tk, tr

    def mark(self):
        self.marks += 1
        return self.marks

    def atom(self, depth):
        r = self.rng.random()
        if r < 0.1:
            tk, tr = self.atom(depth)
            return [("p", "!")] + tk, ["Not", tr]
        if r < 0.2:
            name = self.rng.choice(["isTRIPLE", "TRIPLE", "SUBJECT", "PREDICATE", "OBJECT"])
            args = []
            tk = [("kw", name), ("p", "(")]
            for i in range(self.rng.choice([1, 1, 2, 3])):
                if i:
                    tk.append(("p", ","))
                a = self.rng.choice([self.var, self.var, self.iri, lambda: gen_numeric(self.rng), lambda: gen_literal(self.rng),
                                     lambda: gen_pname(self.rng), self.qt])()
                args.append(a)
                tk.append(("t", a))
            return tk + [("p", ")")], ["Call", name, args]
        if r < 0.75:
            ltk, _ = self.arith(1)
            rtk, _ = self.arith(1)
            op = self.rng.choice(["=", "!=", "<", ">", "<=", ">="])
            a, b, c, d = self.mark(), self.mark(), self.mark(), self.mark()
            return [("mark", a)] + ltk + [("mark", b), ("t", op), ("mark", c)] + rtk + [("mark", d)], ["Cmp", ("SPAN", a, b), op, ("SPAN", c, d)]
        if r < 0.88 and depth > 0:
            tk, tr = self.or_expr(depth - 1)
            return [("p", "(")] + tk + [("p", ")")], tr
        tk, tr = self.arith(1, no_paren_start=True)
        return tk, ["Arith", tr]

    def and_expr(self, depth):
        tk, tr = self.atom(depth)
        while self.rng.random() < 0.25:
            tk2, tr2 = self.atom(depth)
            tk, tr = tk + [("t", "&&")] + tk2, ["And", tr, tr2]
        return tk, tr

    def or_expr(self, depth):
        tk, tr = self.and_expr(depth)
        while self.rng.random() < 0.2:
            tk2, tr2 = self.and_expr(depth)
            tk, tr = tk + [("t", "||")] + tk2, ["Or", tr, tr2]
        return tk, tr

    def filter_clause(self):
        tk, tr = self.or_expr(2)
        return [("kw", "FILTER"), ("p", "(")] + tk + [("p", ")")], ["Filter", tr]

    def bind_clause(self):
        fname = self.rng.choice(["CONCAT", "concat", "Concat", "UCASE", "str", "my-fn", "f_1"])
        tk = [("kw", "BIND"), ("p", "("), ("t", fname), ("p", "(")]
        args = []
        for i in range(self.rng.choice([1, 2, 2, 3])):
            if i:
                tk.append(("p", ","))
            r = self.rng.random()
            a = self.var() if r < 0.5 else (gen_literal(self.rng, suffix=self.rng.random() < 0.2) if r < 0.85 else gen_numeric(self.rng))
            tk.append(("t", a))
            if a[0] in "\"'" and a[-1] == a[0]:
                a = a[1:-1]
            args.append(a)
        v = self.var()
        tk += [("p", ")"), ("kw", "AS"), ("t", v), ("p", ")")]
        return tk, ["Bind", "CONCAT" if fname.lower() == "concat" else fname, args, v]

    def value(self):
        r = self.rng.random()
        if r < 0.15:
            return ("kw", "UNDEF"), None
        v = (self.iri() if r < 0.4 else gen_literal(self.rng) if r < 0.65 else gen_numeric(self.rng) if r < 0.8
             else self.rng.choice(["true", "false"]) if r < 0.85 else gen_pname(self.rng))
        return ("t", v), v

    def values_clause(self):
        n = self.rng.choice([1, 1, 2, 3])
        vs = [self.var() for _ in range(n)]
        tk = [("kw", "VALUES")]
        paren = n > 1 or self.rng.random() < 0.3
        if paren:
            tk.append(("p", "("))
        tk += [("t", v) for v in vs]
        if paren:
            tk.append(("p", ")"))
        tk.append(("p", "{"))
        rows = []
        for _ in range(self.rng.randint(0, 3)):
            row = []
            if n > 1:
                tk.append(("p", "("))
            for _ in range(n):
                tok, val = self.value()
                tk.append(tok)
                row.append(val)
            if n > 1:
                tk.append(("p", ")"))
            rows.append(row)
        tk.append(("p", "}"))
        return tk, ["Values", vs, rows]

    # ---- group graph pattern ----
    def group(self, depth):
        """tokens of `{ ... }` and the tree"""
        tk = [("p", "{")]
        items = []
        n = self.rng.choice([0, 1, 1, 2, 2, 3, 4]) if depth < 3 else self.rng.choice([1, 2])
        kinds = []
        for _ in range(n):
            r = self.rng.random()
            if depth <= 0 or r < 0.5:
                kinds.append("stmt")
            elif r < 0.62:
                kinds.append("filter")
            elif r < 0.68:
                kinds.append("bind")
            elif r < 0.74:
                kinds.append("values")
            elif r < 0.82:
                kinds.append("graph")
            elif r < 0.94:
                kinds.append("braced")
            else:
                kinds.append("sub")
        for k, kind in enumerate(kinds):
            nxt = kinds[k + 1] if k + 1 < len(kinds) else None
            if kind == "stmt":
                want_dot = self.rng.random() < 0.6
                stk, triples, trailing = self.stmt(allow_trailing=(nxt is None or want_dot or nxt == "graph"))
                tk += stk
                items.append(["Bgp", triples])
                if want_dot:
                    tk.append(("dot", "."))
            elif kind == "filter":
                ftk, ftr = self.filter_clause()
                tk += ftk
                items.append(ftr)
            elif kind == "bind":
                btk, btr = self.bind_clause()
                tk += btk
                items.append(btr)
            elif kind == "values":
                vtk, vtr = self.values_clause()
                tk += vtk
                items.append(vtr)
            elif kind == "graph":
                name = self.graph_name()
                gtk, gtr = self.group(depth - 1)
                tk += [("kw", "GRAPH"), ("t", name)] + gtk
                items.append(["Graph", name, gtr])
                if self.rng.random() < 0.3:
                    tk.append(("dot", "."))
            elif kind == "braced":
                branches = []
                for b in range(self.rng.choice([1, 2, 2, 3])):
                    if b:
                        tk.append(("kw", "UNION"))
                    if self.rng.random() < 0.15:
                        stk, str_ = self.select(depth - 1, sub=True)
                        tk += [("p", "{")] + stk + [("p", "}")]
                        branches.append(["SubQuery", str_])
                    else:
                        gtk, gtr = self.group(depth - 1)
                        tk += gtk
                        branches.append(gtr)
                items.append(branches[0] if len(branches) == 1 else ["Union", branches])
                if self.rng.random() < 0.3:
                    tk.append(("dot", "."))
            else:
                stk, str_ = self.select(depth - 1, sub=True)
                tk += [("p", "{")] + stk + [("p", "}")]
                items.append(["SubQuery", str_])
                if self.rng.random() < 0.3:
                    tk.append(("dot", "."))
        tk.append(("p", "}"))
        tree = ["Unit"] if not items else items[0] if len(items) == 1 else ["Join", items]
        return tk, tree

    # ---- SELECT ----
    def select(self, depth, sub=False):
        tk = [("kw", "SELECT")]
        distinct = self.rng.random() < 0.3
        if distinct:
            tk.append(("kw", "DISTINCT"))
        vars_ = []
        if self.rng.random() < 0.3:
            tk.append(("t", "*"))
            vars_ = [["*", "*", None]]
        else:
            for _ in range(self.rng.randint(1, 3)):
                r = self.rng.random()
                if r < 0.7:
                    v = self.var()
                    tk.append(("t", v))
                    vars_.append(["VAR", v, None])
                else:
                    agg = self.rng.choice(["SUM", "MIN", "MAX", "AVG"])
                    v = self.var()
                    style = self.rng.choice(["bare", "alias", "wrapped", "wrapped_noalias"])
                    alias = self.var() if style in ("alias", "wrapped") else None
                    core = [("kw", agg), ("p", "("), ("t", v), ("p", ")")]
                    if alias:
                        core += [("kw", "AS"), ("t", alias)]
                    if style.startswith("wrapped"):
                        core = [("p", "(")] + core + [("p", ")")]
                    tk += core
                    vars_.append([agg, v, alias])
        frm, frm_named = [], []
        if not sub:
            for _ in range(self.rng.choice([0, 0, 0, 1, 2])):
                g = self.iri() if self.rng.random() < 0.7 else gen_pname(self.rng)
                if self.rng.random() < 0.5:
                    tk += [("kw", "FROM"), ("kw", "NAMED"), ("t", g)]
                    frm_named.append(g)
                else:
                    tk += [("kw", "FROM"), ("t", g)]
                    frm.append(g)
        if self.rng.random() < 0.8:
            tk.append(("kw", "WHERE"))
        gtk, gtr = self.group(depth)
        tk += gtk
        group_vars, order, limit = [], [], None
        if self.rng.random() < 0.25:
            group_vars = [self.var() for _ in range(self.rng.randint(1, 2))]
            tk += [("kw", "GROUP"), ("kw", "BY")] + [("t", v) for v in group_vars]
        if self.rng.random() < 0.3:
            tk += [("kw", "ORDER"), ("kw", "BY")]
            for i in range(self.rng.randint(1, 3)):
                if i and self.rng.random() < 0.4:
                    tk.append(("p", ","))
                v = self.var()
                r = self.rng.random()
                if r < 0.4:
                    tk.append(("t", v))
                    order.append([v, "Asc"])
                elif r < 0.7:
                    tk += [("kw", "ASC"), ("p", "("), ("t", v), ("p", ")")]
                    order.append([v, "Asc"])
                else:
                    tk += [("kw", "DESC"), ("p", "("), ("t", v), ("p", ")")]
                    order.append([v, "Desc"])
        if self.rng.random() < 0.3:
            limit = self.rng.choice([0, 1, 7, 10, 1000, 18446744073709551615, 42])
            tk += [("kw", "LIMIT"), ("t", ("0" if self.rng.random() < 0.1 else "") + str(limit))]
        tree = {"distinct": distinct, "vars": vars_, "from": frm, "from_named": frm_named, "pattern": gtr,
                "group": group_vars, "order": order, "limit": limit}
        return tk, tree

    # ---- quad blocks and the six update forms ----
    def quad_block(self, data=False, noblank=False):
        tk = [("p", "{")]
        quads = []
        kinds = [self.rng.choice(["stmt", "stmt", "graph"]) for _ in range(self.rng.choice([0, 1, 1, 2, 3]))]
        for k, kind in enumerate(kinds):
            nxt = kinds[k + 1] if k + 1 < len(kinds) else None
            if kind == "stmt":
                want_dot = self.rng.random() < 0.6
                stk, triples, _ = self.stmt(data, noblank, allow_trailing=(nxt is None or want_dot or nxt == "graph"))
                tk += stk
                quads += [[None] + t for t in triples]
                if want_dot:
                    tk.append(("dot", "."))
            else:
                name = self.graph_name(data)
                tk += [("kw", "GRAPH"), ("t", name), ("p", "{")]
                m = self.rng.choice([0, 1, 1, 2])
                for j in range(m):
                    want_dot = self.rng.random() < 0.6
                    stk, triples, _ = self.stmt(data, noblank, allow_trailing=(j == m - 1 or want_dot))
                    tk += stk
                    quads += [[name] + t for t in triples]
                    if want_dot:
                        tk.append(("dot", "."))
                tk.append(("p", "}"))
                if self.rng.random() < 0.3:
                    tk.append(("dot", "."))
        tk.append(("p", "}"))
        return tk, quads

    def update(self):
        form = self.rng.choice(["InsertData", "DeleteData", "InsertWhere", "DeleteWhere", "DeleteInsertWhere", "DeleteWhereShorthand"])
        if form == "InsertData":
            q, qs = self.quad_block(data=True)
            return [("kw", "INSERT"), ("kw", "DATA")] + q, ["InsertData", qs]
        if form == "DeleteData":
            q, qs = self.quad_block(data=True, noblank=True)
            return [("kw", "DELETE"), ("kw", "DATA")] + q, ["DeleteData", qs]
        if form == "InsertWhere":
            q, qs = self.quad_block()
            g, gt = self.group(2)
            return [("kw", "INSERT")] + q + [("kw", "WHERE")] + g, ["InsertWhere", qs, gt]
        if form == "DeleteWhere":
            q, qs = self.quad_block(noblank=True)
            g, gt = self.group(2)
            return [("kw", "DELETE")] + q + [("kw", "WHERE")] + g, ["DeleteWhere", qs, gt]
        if form == "DeleteInsertWhere":
            q, qs = self.quad_block(noblank=True)
            q2, qs2 = self.quad_block()
            g, gt = self.group(2)
            return [("kw", "DELETE")] + q + [("kw", "INSERT")] + q2 + [("kw", "WHERE")] + g, ["DeleteInsertWhere", qs, qs2, gt]
        q, qs = self.quad_block(noblank=True)
        pats = [["Bgp", [x[1:]]] if x[0] is None else ["Graph", x[0], ["Bgp", [x[1:]]]] for x in qs]
        w = ["Unit"] if not pats else pats[0] if len(pats) == 1 else ["Join", pats]
        return [("kw", "DELETE"), ("kw", "WHERE")] + q, ["DeleteWhereShorthand", qs, w]

    def request(self):
        """a whole request: prologue + SELECT or update"""
        tk, prefixes = [], {}
        for _ in range(self.rng.choice([0, 0, 1, 2])):
            p = self.rng.choice(["ex", "foaf", "", "b", "éx", "p.q"])
            i = self.iri()
            # the prefix label and its colon are one token (the scanner finds the first `:`)
            tk += [("kw", "PREFIX"), ("t", p + ":"), ("t", i)]
            prefixes[p] = i[1:-1]
        if self.rng.random() < 0.6:
            stk, st = self.select(3)
            return tk + stk, {"prefixes": sorted([k, v] for k, v in prefixes.items()), "op": ["Select", st]}
        utk, ut = self.update()
        return tk + utk, {"prefixes": sorted([k, v] for k, v in prefixes.items()), "op": ["Update", ut]}


def case_style(rng, word, style):
    if style == "upper":
        return word.upper() if word not in ("isTRIPLE",) else "ISTRIPLE"
    if style == "lower":
        return word.lower()
    if style == "asis":
        return word
    return "".join(c.upper() if rng.random() < 0.5 else c.lower() for c in word)


SEPS = {
    "plain": [" "],
    "lines": ["\n", "\n  ", " ", "\n\t"],
    "comments": [" # c\n", "#x:y <z> \"'\n", " #\n", "\n# SELECT { }\n ", " "],
    "exotic": ["\u00a0", "\u3000", "\u2028", "\t", "\r\n", " \u2003 ", "\u0085"],
    "mixed": [" ", "  ", "\n", "\t", " # c\n", "#é€\n", "\u00a0", "\r\n", "\n\n   "],
}


def layout(rng, tokens, style):
    """tokens -> (text, mark positions).  style = (separator family, optional-gap probability, keyword case)"""
    fam, tight, kwcase = style
    out, pos = [], {}
    prev = None
    n = 0

    def emit(s):
        nonlocal n
        out.append(s)
        n += len(s)
    if rng.random() < 0.3 and fam != "plain":
        emit(rng.choice(SEPS[fam]))
    pending_marks = []
    for tok in tokens:
        if tok[0] == "mark":
            pending_marks.append(tok[1])
            continue
        kind, text = tok
        if prev is not None:
            pk = prev[0]
            required = not (pk == "p" or kind == "p" or pk == "dot")
            if kind == "dot" and pk != "p":
                required = True
            if pk == "dot" and text[:1].isdigit():
                required = True
            if required or rng.random() >= tight:
                emit(rng.choice(SEPS[fam]))
        # marks that precede this token are "start" marks if an operand starts here; the caller uses
        # (end of previous token, start of this token) appropriately: record both
        for mk in pending_marks:
            pos[mk] = (prev_end if prev is not None else 0, n)
        pending_marks = []
        emit(case_style(rng, text, kwcase) if kind == "kw" else text)
        prev = tok
        prev_end = n
    for mk in pending_marks:
        pos[mk] = (prev_end, prev_end)
    if rng.random() < 0.4:
        emit(rng.choice(SEPS[fam]).rstrip("\n") if fam == "comments" else rng.choice(SEPS[fam]))
    return "".join(out), pos


STYLES = [("plain", 0.0, "upper"), ("plain", 1.0, "upper"), ("lines", 0.5, "upper"), ("comments", 0.3, "upper"),
          ("plain", 0.5, "lower"), ("mixed", 0.5, "random"), ("exotic", 0.5, "asis"), ("mixed", 0.8, "random"),
          ("comments", 0.7, "lower"), ("mixed", 0.2, "random")]


def resolve_spans(tree, text, pos):
    """replace ("SPAN", a, b) by the printed source text between the start of mark a's token and the end of the token
    before mark b (that is what the parser reports for a comparison operand)"""
    if isinstance(tree, tuple) and tree and tree[0] == "SPAN":
        return text[pos[tree[1]][1]:pos[tree[2]][0]]
    if isinstance(tree, list):
        return [resolve_spans(x, text, pos) for x in tree]
    if isinstance(tree, dict):
        return {k: resolve_spans(v, text, pos) for k, v in tree.items()}
    return tree


# ---------------------------------------------------------------------------------------------------
# canonical trees: nested tuples with bytes leaves, from the driver's JSON (also the generator's expected
# trees) and from the model's constructor terms
# ---------------------------------------------------------------------------------------------------
def c_opt(x):
    return None if x is None else tob(x)


def ci_arith(a):
    return ("Op", tob(a[1])) if a[0] == "Op" else (a[0], ci_arith(a[1]), ci_arith(a[2]))


def ci_filter(f):
    t = f[0]
    if t == "Cmp":
        return ("Cmp", tob(f[1]), tob(f[2]), tob(f[3]))
    if t in ("And", "Or"):
        return (t, ci_filter(f[1]), ci_filter(f[2]))
    if t == "Not":
        return ("Not", ci_filter(f[1]))
    if t == "Arith":
        return ("Arith", ci_arith(f[1]))
    return ("Call", tob(f[1]), tuple(tob(x) for x in f[2]))


def ci_group(p):
    t = p[0]
    if t == "Unit":
        return ("Unit",)
    if t == "Bgp":
        return ("Bgp", tuple(tuple(tob(x) for x in tr) for tr in p[1]))
    if t in ("Join", "Union"):
        return (t, tuple(ci_group(x) for x in p[1]))
    if t == "Graph":
        return ("Graph", tob(p[1]), ci_group(p[2]))
    if t == "Filter":
        return ("Filter", ci_filter(p[1]))
    if t == "Bind":
        return ("Bind", tob(p[1]), tuple(tob(x) for x in p[2]), tob(p[3]))
    if t == "Values":
        return ("Values", tuple(tob(x) for x in p[1]), tuple(tuple(c_opt(v) for v in row) for row in p[2]))
    if t == "SubQuery":
        return ("SubQuery", ci_select(p[1]))
    raise ValueError(p)


def ci_select(q):
    return ("Select", q["distinct"], tuple((tob(k), tob(v), c_opt(a)) for k, v, a in q["vars"]), tuple(tob(x) for x in q["from"]),
            tuple(tob(x) for x in q["from_named"]), ci_group(q["pattern"]), tuple(tob(x) for x in q["group"]),
            tuple((tob(v), d == "Desc") for v, d in q["order"]), q["limit"])


def ci_quads(qs):
    return tuple((c_opt(q[0]), tob(q[1]), tob(q[2]), tob(q[3])) for q in qs)


def ci_update(u):
    t = u[0]
    if t in ("InsertData", "DeleteData"):
        return (t, ci_quads(u[1]))
    if t in ("InsertWhere", "DeleteWhere", "DeleteWhereShorthand"):
        return (t, ci_quads(u[1]), ci_group(u[2]))
    return (t, ci_quads(u[1]), ci_quads(u[2]), ci_group(u[3]))


def ci_top(c):
    pf = tuple(sorted((tob(k), tob(v)) for k, v in c["prefixes"]))
    op = c["op"]
    if op is None:
        return ("Extension",)
    ext = c.get("ext")
    if ext and (ext["retrieve"] or ext["register"] or ext["models"] or ext["neural"] or ext["train"] or ext["rule"] or ext["ml_predict"]):
        return ("Extension",)
    return ("Select", pf, ci_select(op[1])) if op[0] == "Select" else ("Update", pf, ci_update(op[1]))


def cm_opt(x):
    return None if x is None else tob(x[1])


def cm_arith(a):
    return ("Op", tob(a[1])) if a[0] == "AOp" else ({"AAdd": "Add", "ASub": "Sub", "AMul": "Mul", "ADiv": "Div"}[a[0]], cm_arith(a[1]), cm_arith(a[2]))


def cm_filter(f):
    t = f[0]
    if t == "FCmp":
        return ("Cmp", tob(f[1]), tob(f[2]), tob(f[3]))
    if t in ("FAnd", "FOr"):
        return (t[1:], cm_filter(f[1]), cm_filter(f[2]))
    if t == "FNot":
        return ("Not", cm_filter(f[1]))
    if t == "FArith":
        return ("Arith", cm_arith(f[1]))
    return ("Call", tob(f[1]), tuple(tob(x) for x in f[2]))


def cm_group(p):
    if p == "GUnit":
        return ("Unit",)
    t = p[0]
    if t == "GBgp":
        return ("Bgp", tuple(tuple(tob(x) for x in tr) for tr in p[1]))
    if t in ("GJoin", "GUnion"):
        return (t[1:], tuple(cm_group(x) for x in p[1]))
    if t == "GGraph":
        return ("Graph", tob(p[1]), cm_group(p[2]))
    if t == "GFilter":
        return ("Filter", cm_filter(p[1]))
    if t == "GBind":
        return ("Bind", tob(p[1]), tuple(tob(x) for x in p[2]), tob(p[3]))
    if t == "GValues":
        return ("Values", tuple(tob(x) for x in p[1]), tuple(tuple(None if v == "VUndef" else tob(v[1]) for v in row) for row in p[2]))
    if t == "GSub":
        return ("SubQuery", cm_select(p[1]))
    raise ValueError(p)


def cm_select(q):
    _, d, vs, fr, frn, pat, gv, order, limit = q
    return ("Select", d, tuple((tob(k), tob(v), cm_opt(a)) for k, v, a in vs), tuple(tob(x) for x in fr), tuple(tob(x) for x in frn),
            cm_group(pat), tuple(tob(x) for x in gv), tuple((tob(v), b) for v, b in order), None if limit is None else limit[1])


def cm_quads(qs):
    return tuple((cm_opt(g), tob(t[0]), tob(t[1]), tob(t[2])) for g, t in qs)


def cm_update(u):
    t = u[0]
    if t in ("InsertData", "DeleteData"):
        return (t, cm_quads(u[1]))
    if t in ("InsertWhere", "DeleteWhere", "DeleteWhereShorthand"):
        return (t, cm_quads(u[1]), cm_group(u[2]))
    return (t, cm_quads(u[1]), cm_quads(u[2]), cm_group(u[3]))


def cm_top(v):
    if v == "TExtension":
        return ("Extension",)
    pf = tuple(sorted((tob(k), tob(x)) for k, x in v[1]))
    return ("Select", pf, cm_select(v[2])) if v[0] == "TSelect" else ("Update", pf, cm_update(v[2]))


def count_triples(t):
    if isinstance(t, tuple):
        if t and t[0] == "Bgp":
            return len(t[1])
        return sum(count_triples(x) for x in t)
    return 0


ENTRY = {
    # entry -> (model function, impl tree converter, model tree converter, result carries a rest)
    "combined": ("run_v (m_top false)", ci_top, cm_top, False),
    "combined_alias": ("run_v (m_top true)", ci_top, cm_top, False),
    "select": ("run_v m_select", ci_select, cm_select, False),
    "group": ("run_p m_group", ci_group, cm_group, True),
    "select_core": ("run_p (m_select_core true)", ci_select, cm_select, True),
    "select_core_sub": ("run_p (m_select_core false)", ci_select, cm_select, True),
    "update_core": ("run_p (m_update_core false)", ci_update, cm_update, True),
    "update_core_alias": ("run_p (m_update_core true)", ci_update, cm_update, True),
    "triples": ("run_p m_triples", lambda ts: tuple(tuple(tob(x) for x in t) for t in ts), lambda ts: tuple(tuple(tob(x) for x in t) for t in ts), True),
    "quad_block": ("run_p m_quad_block", ci_quads, cm_quads, True),
    "filter": ("run_p m_filter", ci_filter, cm_filter, True),
}


def impl_parse_value(entry, im, n):
    _, ci, _, has_rest = ENTRY[entry]
    return canon_impl_out(im, n, (lambda ok: (ci(ok["tree"]), ok["rest"][1])) if has_rest else (lambda ok: ci(ok["tree"])))


def model_parse_value(entry, mo):
    _, _, cm, has_rest = ENTRY[entry]
    return canon_model_out(mo, (lambda v: (cm(v[0]), v[1])) if has_rest else cm)


def stream_tree(ctx, binpath):
    rng = ctx.rng
    ntrees = 400 if ctx.thorough else 36
    cases = []          # (entry, text, expected canonical tree or None)
    nodes = {}
    for k in range(ntrees):
        g = Gen(rng)
        tokens, tree = g.request()
        for style in STYLES:
            text, pos = layout(rng, tokens, style)
            raw = resolve_spans(tree, text, pos)
            cases.append(("combined", text, ci_top(raw), raw))
    # function-level grammar entries with something after the construct
    for k in range(ntrees // 2):
        g = Gen(rng)
        for entry, (tokens, tree), conv in (("group", g.group(2), ci_group), ("select_core", g.select(2), ci_select),
                                            ("filter", (lambda x: (x[0], x[1][1]))(g.filter_clause()), ci_filter)):
            style = rng.choice(STYLES)
            text, pos = layout(rng, tokens, style)
            text = text.rstrip() if style[0] != "comments" else text.rstrip(" \t")
            if style[0] == "comments" and "#" in text.split("\n")[-1]:
                text += "\n"
            tail = rng.choice(["", " }", "\n# end"] if entry == "select_core" else ["", " }", " .", " ?x", "\n# end", " UNION", ")"])
            raw = resolve_spans(tree, text, pos)
            cases.append((entry, text + tail, (conv(raw), None), raw))
    ctx.sample({"stream": "tree", "entry": cases[0][0], "s": cases[0][1]})
    impl = ctx.run_impl(binpath, [{"k": "parse", "entry": e, "s": s} for e, s, _, _ in cases])
    ctx.log("tree: %d cases through the implementation" % len(cases))
    model = model_batch(ctx, [(ENTRY[e][0], s) for e, s, _, _ in cases], chunk=8)
    ctx.log("tree: model evaluated")
    nviol = nmis = nrej = 0
    for (entry, s, exp, raw), im, mo in zip(cases, impl, model):
        ctx.count()
        n = len(s.encode("utf-8"))
        case = {"stream": "tree", "k": "parse", "entry": entry, "s": s, "expected": raw}
        iv = impl_parse_value(entry, im, n)
        if iv[0] in ("Panic", "Died"):
            ctx.violation(case, {"what": "parser panicked on the pretty-printing of a generated syntax tree", "impl": im})
            nviol += 1
            continue
        got = iv[1] if iv[0] == "Ok" else None
        if ENTRY[entry][3] and got is not None:
            got = (got[0], None)
        if got != exp:
            nviol += 1
            nrej += iv[0] != "Ok"
            ctx.violation(case, {"what": "the parser's syntax tree differs from the source tree of this pretty-printing (Spec: structure, order, terms, filters, modifiers are preserved under any layout)",
                                 "impl": repr(iv)[:1500], "expected": repr(exp)[:1500]})
            continue
        if isinstance(mo, tuple) and mo and mo[0] == "ERROR":
            ctx.broken("correspondence", "tree", "model evaluation failed: %s" % (mo[1],), case)
            continue
        mv = model_parse_value(entry, mo)
        if mv != iv:
            nmis += 1
            if nmis <= 10:
                ctx.broken("correspondence", "tree", "entry %s: implementation %s, model %s" % (entry, repr(iv)[:600], repr(mv)[:600]), case)
        if count_triples(iv[1]) > 0:
            ctx.nontrivial((entry, s))
            nodes["with_triples"] = nodes.get("with_triples", 0) + 1
    ctx.stream("tree", cases=len(cases), trees=ntrees, layouts_per_tree=len(STYLES), spec_violations=nviol, rejected=nrej,
               impl_model_mismatches=nmis, **nodes)



# ---------------------------------------------------------------------------------------------------
# known findings: narrow classes (each names one mechanism), witnesses in known_findings.json
# ---------------------------------------------------------------------------------------------------
def kf_error_offset(s, res):
    """(C16-error-offset, FIXED by b4ac3b3 - no longer a known class, kept for the statistics only.)  The parser
    reports an error slice that is NOT a suffix of the request (an offending term, prefix label, PROB(...) body ...);
    format_parse_error used to compute offset = len(request) - len(slice) and slice the request there."""
    r = res.get("combined")
    if not r or r[0] != "Err":
        return False
    off, ln = r[1][1]
    bs = s.encode("utf-8")
    return off >= 0 and off + ln != len(bs) and not is_boundary(bs, len(bs) - ln)


def classify_panic(s, entry, msg, res):
    """No panic of a string entry point is a known class any more: C16-error-offset (b4ac3b3), C16-mlpredict-slice
    (53d86cc) and C16-duration-overflow (583d310) are repaired; their witnesses are replayed from
    corpus/C16/cases.json and any panic is a VIOLATION."""
    return None


# ---------------------------------------------------------------------------------------------------
# stream: mutants of seed requests through every string entry point
# ---------------------------------------------------------------------------------------------------
ASCII_MUT = list("{}()<>\"'\\:;.,#?$_-%^@!=*/+|&0aZ \n")


def load_seeds():
    return [x["text"] for x in json.load(open(os.path.join(vf.VERIF, "corpus", "C16", "seeds.json")))]


def char_mutants(s, rng, frac):
    n = len(s)
    for i in range(n + 1):
        if rng.random() > frac:
            continue
        for m in MB:
            yield s[:i] + m + s[i:]
        yield s[:i]
        if i < n:
            yield s[:i] + s[i + 1:]
            yield s[:i] + rng.choice(ASCII_MUT) + s[i:]
            yield s[:i] + rng.choice(ASCII_MUT) + s[i + 1:]


def token_mutants(s, rng, k):
    words = re.split(r"(\s+)", s)
    idx = [i for i in range(0, len(words), 2) if words[i]]
    for _ in range(k):
        if len(idx) < 2:
            break
        w = list(words)
        r = rng.random()
        a = rng.choice(idx)
        b = rng.choice(idx)
        if r < 0.35:
            w[a], w[b] = w[b], w[a]
        elif r < 0.55:
            w[a] = w[a] + " " + w[a]
        elif r < 0.7:
            w[a] = ""
        elif r < 0.8:
            w[a] = re.sub(r"\d+", lambda m: m.group(0) + "9" * rng.choice([3, 17, 19, 25]), w[a]) if re.search(r"\d", w[a]) else w[a] + "9" * 20
        elif r < 0.9:
            c = rng.choice("{(<!")
            w[a] = (c if c != "<" else "<<") * rng.choice([3, 30, 200]) + w[a]
        else:
            w[a] = rng.choice(["SELECT", "WHERE", "FILTER", "UNION", "GRAPH", "PREFIX", "INSERT", "DATA", "ML.PREDICT(", "INPUT", "PROB(", "[RANGE", "a", "."]) + " " + w[a]
        yield "".join(w)


def starts_with_kw(s, kws):
    i, n = 0, len(s)
    while i < n:
        if ord(s[i]) in WS_CP:
            i += 1
        elif s[i] == "#":
            while i < n and s[i] not in "\r\n":
                i += 1
        else:
            break
    rest = s[i:i + 8].upper()
    for k in kws:
        if rest.startswith(k) and not (len(s) > i + len(k) and (s[i + len(k)].isalnum() or s[i + len(k)] in "_-:")):
            return k
    return None


def whole_input_check(s, res):
    """Spec: the top-level entry accepts iff its core parser accepts and leaves only whitespace/comments.
    Observed through the add-only hooks select_core / update_core (requests without a PREFIX prologue)."""
    bs = s.encode("utf-8")
    k = starts_with_kw(s, ["SELECT", "INSERT", "DELETE"])
    if not k:
        return None
    pairs = [("combined", "select_core" if k == "SELECT" else "update_core"),
             ("combined_alias", "select_core" if k == "SELECT" else "update_core_alias")]
    if k == "SELECT":
        pairs.append(("select", "select_core"))
    for top, core in pairs:
        t, c = res.get(top), res.get(core)
        if not t or not c or t[0] == "Panic" or c[0] == "Panic":
            continue
        core_whole = c[0] == "Ok" and is_layout(bs[c[1][0]:].decode("utf-8"))
        if t[0] == "Ok" and not core_whole:
            return "%s accepted the request although %s %s" % (top, core, "failed" if c[0] != "Ok" else "left unconsumed input %r" % bs[c[1][0]:][:40])
        if t[0] != "Ok" and core_whole:
            return "%s rejected the request although %s consumed it up to trailing whitespace/comments" % (top, core)
    return None


def error_position_check(s, res):
    """Spec: a reported error position is a slice of the request that starts on a character boundary (what
    format_parse_error relies on since b4ac3b3)."""
    bs = s.encode("utf-8")
    for e in ("combined", "combined_alias", "select"):
        r = res.get(e)
        if r and r[0] == "Err":
            off, ln = r[1][1]
            if off < 0 or off + ln > len(bs) or not is_boundary(bs, off) or not is_boundary(bs, off + ln):
                return "%s reported an error slice [%d, +%d] that is not a slice of the request on character boundaries" % (e, off, ln)
    return None


def run_mutants(ctx, binpath, muts, stream, model_sample):
    """muts: list of strings"""
    impl = ctx.run_impl(binpath, [{"k": "mut", "s": s} for s in muts], shards=16)
    outcomes = {}
    known = {}
    nviol = 0
    accepted = []
    for s, res in zip(muts, impl):
        ctx.count()
        case = {"stream": stream, "k": "mut", "s": s}
        if res is None or "driver_died" in res:
            ctx.violation(case, {"what": "the driver process died (abort / stack overflow) on this request", "impl": res})
            nviol += 1
            continue
        bad = None
        for e, v in res.items():
            outcomes[v[0]] = outcomes.get(v[0], 0) + 1
            if v[0] == "Panic":
                kf = classify_panic(s, e, str(v[1]), res)
                if kf:
                    known[kf] = known.get(kf, 0) + 1
                elif bad is None:
                    bad = (e, v[1])
        if bad:
            ctx.violation(case, {"what": "entry point %s panicked instead of returning a tree or an error" % bad[0], "panic": bad[1]})
            nviol += 1
            continue
        why = whole_input_check(s, res) or error_position_check(s, res)
        if why:
            ctx.violation(case, {"what": "whole-input acceptance violated: " + why, "impl": {k: res[k] for k in ("combined", "combined_alias", "select", "select_core", "update_core", "update_core_alias") if k in res}})
            nviol += 1
            continue
        if res.get("combined", [""])[0] == "Ok":
            accepted.append(s)
            ctx.nontrivial(("mut", s))
    ctx.stream(stream, mutants=len(muts), entry_outcomes=outcomes, spec_violations=nviol, accepted_by_combined=len(accepted), known_class=known)
    # model == implementation on a sample (SELECT / update requests; extension requests are outside the model)
    if model_sample:
        rng = ctx.rng
        pool = [s for s in muts if starts_with_kw(s, ["SELECT", "INSERT", "DELETE", "PREFIX"])]
        rng.shuffle(pool)
        sample = pool[:model_sample]
        cases = []
        for s in sample:
            cases.append(("combined", s))
            if rng.random() < 0.3:
                cases.append((rng.choice(["select", "combined_alias"]), s))
        compare_entries(ctx, binpath, cases, stream + "_model")
    return accepted


def compare_entries(ctx, binpath, cases, stream):
    """cases: (entry, text): implementation versus model, whole result (tree / error kind and position / panic)"""
    impl = ctx.run_impl(binpath, [{"k": "parse", "entry": e, "s": s} for e, s in cases])
    model = model_batch(ctx, [(ENTRY[e][0], s) for e, s in cases], chunk=8)
    nmis = next_ = 0
    kinds = {}
    for (entry, s), im, mo in zip(cases, impl, model):
        ctx.count()
        case = {"stream": stream, "k": "parse", "entry": entry, "s": s}
        if isinstance(mo, tuple) and mo and mo[0] == "ERROR":
            ctx.broken("correspondence", stream, "model evaluation failed: %s" % (mo[1],), case)
            continue
        n = len(s.encode("utf-8"))
        iv = impl_parse_value(entry, im, n)
        mv = model_parse_value(entry, mo)
        kinds[iv[0]] = kinds.get(iv[0], 0) + 1
        if iv[0] in ("Panic", "Died"):
            ctx.violation(case, {"what": "parser crashed", "impl": im, "model": repr(mv)[:300]})
            continue
        if mv == ("Ok", ("Extension",)) or (iv[0] == "Ok" and iv[1] == ("Extension",)):
            next_ += 1          # extension grammar: not modelled
            continue
        if iv != mv:
            nmis += 1
            if nmis <= 10:
                ctx.broken("correspondence", stream, "entry %s: implementation %s, model %s" % (entry, repr(iv)[:500], repr(mv)[:500]), case)
    ctx.stream(stream, cases=len(cases), impl_model_mismatches=nmis, extension_not_modelled=next_, outcomes=kinds)


def stream_mutants(ctx, binpath):
    rng = ctx.rng
    seeds = load_seeds()
    ctx.stream("seeds", count=len(seeds))
    # seeds themselves, with garbage / comment suffixes (metamorphic whole-input check on every grammar incl. extensions)
    base = run_mutants(ctx, binpath, seeds, "seeds_plain", 0)
    meta = []
    for s in base:
        meta.append(("reject", s + "\n\u00a7"))
        meta.append(("reject", s + "\n}"))
        meta.append(("accept", s + "\n# trailing comment \u00e9"))
        meta.append(("accept", "# leading comment\n" + s))
    impl = ctx.run_impl(binpath, [{"k": "mut", "s": s, "entries": ["combined"]} for _, s in meta], shards=16)
    nv = 0
    for (want, s), res in zip(meta, impl):
        ctx.count()
        got = res.get("combined", ["Died"])[0] if res else "Died"
        if (want == "reject" and got == "Ok") or (want == "accept" and got != "Ok"):
            nv += 1
            ctx.violation({"stream": "seed_suffix", "k": "mut", "s": s},
                          {"what": "an accepted request followed by %s must be %sed" % ("unconsumed garbage" if want == "reject" else "a comment", want), "impl": res})
    ctx.stream("seed_suffix", cases=len(meta), accepted_seeds=len(base), spec_violations=nv)
    # mutants
    if ctx.thorough:
        chosen, frac, ntok = seeds, 1.0, 40
    else:
        chosen, frac, ntok = rng.sample(seeds, 36), 0.5, 12
    muts = []
    for s in chosen:
        muts.extend(char_mutants(s, rng, frac))
        muts.extend(token_mutants(s, rng, ntok))
    ctx.sample({"stream": "mutants", "s": muts[len(muts) // 2]})
    run_mutants(ctx, binpath, muts, "mutants", 2500 if ctx.thorough else 220)


# ---------------------------------------------------------------------------------------------------
# corpus, known-finding witnesses, deep nesting
# ---------------------------------------------------------------------------------------------------
def stream_corpus(ctx, binpath):
    path = os.path.join(vf.VERIF, "corpus", "C16", "cases.json")
    corpus = json.load(open(path)) if os.path.exists(path) else []
    scan = [(c["f"], c["s"]) for c in corpus if c.get("k") == "scan"]
    if scan:
        run_scan_cases(ctx, binpath, scan, "corpus_scan")
    par = [(c["entry"], c["s"]) for c in corpus if c.get("k") == "parse"]
    if par:
        compare_entries(ctx, binpath, par, "corpus_parse")
    acc = [c for c in corpus if c.get("k") == "parse" and "accept" in c]
    if acc:
        res = ctx.run_impl(binpath, [{"k": "parse", "entry": c["entry"], "s": c["s"]} for c in acc])
        for c, r in zip(acc, res):
            ctx.count()
            ok = bool(r) and "ok" in r
            if ok != c["accept"]:
                ctx.violation({"stream": "corpus_accept", "k": "parse", "entry": c["entry"], "s": c["s"]},
                              {"what": "request of the supported fragment must be %s" % ("accepted" if c["accept"] else "rejected"), "impl": r})
    mut = [c["s"] for c in corpus if c.get("k") == "mut"]
    if mut:
        run_mutants(ctx, binpath, mut, "corpus_mut", 0)


def replay_known(ctx, binpath):
    for k in ctx.known_findings():
        w = k["witness"]
        fid = k["id"]
        if w.get("k") == "mut":
            res = ctx.run_impl(binpath, [{"k": "mut", "s": w["s"]}], shards=1)[0]
            if res and "driver_died" not in res:
                hit = [(e, v[1]) for e, v in res.items() if v[0] == "Panic" and classify_panic(w["s"], e, str(v[1]), res) == fid]
                if hit:
                    ctx.known(fid, "%s panics on %r: %s" % (hit[0][0], w["s"], str(hit[0][1])[:120]))
        elif w.get("k") == "scan":
            res = ctx.run_impl(binpath, [w], shards=1)[0]
            if res and "panic" in res and known_lexical_slice(w["f"], w["s"]):
                ctx.known(fid, "%s panics on %r: %s" % (w["f"], w["s"], res["panic"][:120]))
        elif w.get("k") == "deep":
            s = w["prefix"] + w["unit"] * w["depth"]
            res = ctx.run_impl(binpath, [{"k": "parse", "entry": "combined", "s": s}], shards=1)[0]
            if res is None or "driver_died" in res:
                ctx.known(fid, "the process aborts (stack overflow) on %r followed by %d x %r" % (w["prefix"], w["depth"], w["unit"]))
        elif w.get("k") == "e2e":
            res = ctx.run_impl(binpath, [dict(w, query=q) for q in (w["query"], w["query_with_comment"])], shards=1)
            if res[0] and res[1] and res[0].get("rows") and res[0] != res[1]:
                ctx.known(fid, "answers change when a comment is put inside << >>: %s versus %s" % (json.dumps(res[0])[:80], json.dumps(res[1])[:80]))


def stream_deep(ctx, binpath):
    """nesting well inside every stack (depth 400): must be handled without a crash; deeper nesting is the known class
    C16-deep-recursion (each case in its own process: a stack overflow aborts the process)"""
    cases = []
    for unit, prefix in (("{", "SELECT * WHERE "), ("(", "SELECT * WHERE { FILTER("), ("!", "SELECT * WHERE { FILTER("),
                         ("<<", "SELECT * WHERE { "), ("{ SELECT * WHERE ", "SELECT * WHERE ")):
        cases.append({"k": "parse", "entry": "combined", "s": prefix + unit * 400})
    res = ctx.run_impl(binpath, cases, shards=len(cases))
    nv = 0
    for c, r in zip(cases, res):
        ctx.count()
        if r is None or "driver_died" in r or "panic" in r:
            nv += 1
            ctx.violation({"stream": "deep", "k": "parse", "entry": "combined", "s": c["s"]}, {"what": "crash on 400 levels of nesting", "impl": r})
    ctx.stream("deep", cases=len(cases), depth=400, spec_violations=nv)


def stream_followers(ctx, binpath):
    """Exhaustive small scope at the grammar level: every sequence of up to three tokens of a small alphabet after a
    complete triple, inside a group graph pattern and inside a quad block (the look-aheads after `;`, the optional
    `.`, `}` / GRAPH / UNION / nested braces).  Implementation == model on the whole result."""
    import itertools
    toks = [";", ",", ".", "}", "{", "GRAPH ?g {", "graph ?g {", "UNION", "Union", "?x", "<q>", "a"]
    if ctx.thorough:
        toks += ["FILTER(?x)", "# c\n", "\"l\"", "_:b"]
    cases = []
    for n in (0, 1, 2, 3):
        for seq in itertools.product(toks, repeat=n):
            tail = " ".join(seq)
            cases.append(("combined", "SELECT * WHERE { ?s ?p ?o " + tail + " }"))
            cases.append(("combined", "INSERT DATA { <s> <p> <o> " + tail + " }"))
    compare_entries(ctx, binpath, cases, "followers")
    ctx.coverage["exhaustive_scope"] = ctx.coverage.get("exhaustive_scope", "") + "; every sequence of <= 3 tokens of %d after a complete triple in a group pattern and in a quad block (%d requests)" % (len(toks), len(cases))


KW_RE = re.compile(r"\b(SELECT|DISTINCT|WHERE|GRAPH|UNION|FILTER|BIND|AS|VALUES|UNDEF|FROM|NAMED|GROUP|BY|ORDER|ASC|DESC|LIMIT|INSERT|DELETE|DATA|PREFIX|"
                   r"SUM|MIN|MAX|AVG|ISTRIPLE|TRIPLE|SUBJECT|PREDICATE|OBJECT)\b")   # not true / false: a term keeps its spelling
KWCASE_TEMPLATES = [
    # the look-ahead after a dangling `;` (GRAPH / UNION / `.` / `}`), in WHERE groups and in quad templates
    "SELECT * WHERE { ?s ?p ?o ; GRAPH ?g { ?a ?b ?c } }",
    "SELECT * WHERE { ?s ?p ?o ; GRAPH ?g { ?a ?b ?c ; } GRAPH <h> { ?x ?y ?z ; } }",
    "SELECT * WHERE { ?s ?p ?o , ?q ; ?p2 ?o2 ; GRAPH ?g { ?a ?b ?c } ?x ?y ?z }",
    "SELECT * WHERE { { ?s ?p ?o ; } UNION { ?a ?b ?c ; } UNION { ?x ?y ?z } }",
    "SELECT * WHERE { ?s ?p ?o ; UNION { ?a ?b ?c } }",
    "SELECT * WHERE { ?s ?p ?o . GRAPH ?g { ?a ?b ?c } . GRAPH ?h { ?a ?b ?c } }",
    "SELECT * WHERE { ?s ?p ?o GRAPH ?g { ?a ?b ?c } }",
    "SELECT * WHERE { GRAPH ?g { ?s ?p ?o ; } { ?a ?b ?c } UNION { GRAPH ?g { ?a ?b ?c ; } } }",
    "INSERT DATA { <s> <p> <o> ; GRAPH <g> { <a> <b> <c> } }",
    "INSERT DATA { <s> <p> <o> . GRAPH <g> { <a> <b> <c> ; } <x> <y> <z> ; GRAPH <h> { <a> <b> <c> } }",
    "DELETE DATA { GRAPH <g> { <a> <b> <c> ; <d> <e> } <s> <p> <o> ; }",
    "DELETE { ?s ?p ?o ; GRAPH ?g { ?a ?b ?c } } INSERT { ?s ?p ?o ; GRAPH ?g { ?a ?b ?c ; } } WHERE { ?s ?p ?o ; GRAPH ?g { ?a ?b ?c } }",
    "INSERT { ?s ?p ?o ; GRAPH ?g { ?a ?b ?c } } WHERE { ?s ?p ?o ; }",
    "DELETE WHERE { ?s ?p ?o ; GRAPH ?g { ?a ?b ?c } }",
    "SELECT * WHERE { ?s ?p ?o ; FILTER(?o > 1) }",
    # the other keyword look-aheads of the grammar
    "PREFIX ex: <http://e/> PREFIX : <#> SELECT DISTINCT ?s (SUM(?x) AS ?t) (MIN(?x) AS ?u) MAX(?x) AVG(?x) FROM <g> FROM NAMED <h> WHERE { ?s ex:p ?x } GROUP BY ?s ORDER BY DESC(?s) ASC(?t) ?u LIMIT 3",
    "SELECT ?s WHERE { ?s ?p ?o } ORDER BY ?s , ?p LIMIT 10",
    "SELECT ?s { ?s ?p ?o } GROUP BY ?s LIMIT 1",
    "SELECT * WHERE { ?s ?p ?o FILTER(ISTRIPLE(?o) && SUBJECT(?o) = ?s || !(TRIPLE(?s, ?p, ?o) != ?o)) BIND(f(?s, 'x') AS ?b) VALUES ?v { UNDEF true false 1 } VALUES (?x ?y) { (UNDEF 1) (<a> 'b') } }",
    "SELECT * WHERE { ?s ?p true , false . { SELECT ?s WHERE { ?s ?p ?o } ORDER BY ?s } UNION { SELECT DISTINCT * { ?s ?p ?o } LIMIT 2 } }",
    "SELECT * WHERE { ?s ?p ?o } LIMIT 5 # done",
]


def kw_variants(rng, text):
    """the same request with its keywords in other letter cases: all lower, all capitalised, each keyword alone in
    lower case, and two random mixtures"""
    spans = [m.span() for m in KW_RE.finditer(text)]
    out = []

    def rewrite(fn):
        t, k = [], 0
        for idx, (a, b) in enumerate(spans):
            t.append(text[k:a])
            t.append(fn(idx, text[a:b]))
            k = b
        t.append(text[k:])
        return "".join(t)
    out.append(rewrite(lambda i, w: w.lower()))
    out.append(rewrite(lambda i, w: w.capitalize()))
    for j in range(len(spans)):
        out.append(rewrite(lambda i, w: w.lower() if i == j else w))
    for _ in range(2):
        out.append(rewrite(lambda i, w: "".join(c.lower() if rng.random() < 0.5 else c.upper() for c in w)))
    return [v for v in dict.fromkeys(out) if v != text]


def stream_kwcase(ctx, binpath):
    """Spec: the syntax tree does not depend on the letter case of keywords.  Every template (keywords in upper case)
    and its re-spellings must give the same outcome: the same tree, or an error in both.  Covers every keyword
    look-ahead site of the grammar (after a dangling `;`, after `.`, inside quad blocks, solution modifiers, ...)."""
    rng = ctx.rng
    cases = []
    for t in KWCASE_TEMPLATES:
        for v in kw_variants(rng, t):
            cases.append((t, v))
    texts = list(dict.fromkeys([t for t in KWCASE_TEMPLATES] + [v for _, v in cases]))
    res = dict(zip(texts, ctx.run_impl(binpath, [{"k": "parse", "entry": "combined", "s": x} for x in texts])))
    nv = nok = 0
    for base, var in cases:
        ctx.count()
        nv += kwcase_check(ctx, base, var, res[base], res[var])
        nok += bool(res[base]) and "ok" in res[base]
    ctx.stream("kwcase", templates=len(KWCASE_TEMPLATES), variants=len(cases), accepted_bases=nok, spec_violations=nv)


def kwcase_check(ctx, base, var, rb, rv):
    vb = impl_parse_value("combined", rb, len(base.encode("utf-8")))
    vv = impl_parse_value("combined", rv, len(var.encode("utf-8")))
    case = {"stream": "kwcase", "k": "kwcase", "base": base, "s": var}
    if vv[0] in ("Panic", "Died") or vb[0] in ("Panic", "Died"):
        ctx.violation(case, {"what": "parser crashed", "base": repr(vb)[:300], "variant": repr(vv)[:300]})
        return 1
    same = (vb == vv) if vb[0] == "Ok" or vv[0] == "Ok" else (vb[0] == vv[0])
    if not same:
        ctx.violation(case, {"what": "the outcome depends on the letter case of a keyword (Spec: same tree independent of keyword case)",
                             "base": repr(vb)[:600], "variant": repr(vv)[:600]})
        return 1
    if vb[0] == "Ok":
        ctx.nontrivial(("kwcase", var))
    return 0


def keyword_assumption(ctx):
    """the model's keyword comparison is exact only for keywords without `k`/`K` (U+212A KELVIN SIGN lowercases to `k`)"""
    src = open(os.path.join(vf.REPO, "kolibrie", "src", "parser.rs")).read()
    kws = set(re.findall(r'sparql_(?:starts_)?keyword\(\s*[A-Za-z_]+\s*,\s*"([^"]+)"', src))
    bad = [k for k in kws if "k" in k.lower() or not k.isascii()]
    if bad:
        ctx.broken("correspondence", "keywords", "a keyword passed to sparql_keyword contains `k` or a non-ASCII letter; the model's byte-wise case-insensitive comparison is no longer exact: %s" % bad)
    ctx.stream("keywords", literal_keywords=sorted(kws))


TRUSTED = [
    "Coq 8.16.1 kernel; vm_compute for running the model in the correspondence check",
    "hand-written Gallina model coq/Parser/{Utf8,Scanners,Grammar}.v of kolibrie/src/parser.rs (unified recursive parser) and of unescape_sparql_iri / literal_lexical_value in streamertail_optimizer/utils.rs",
    "coq/Parser/Unicode.v: generated tables of char::is_alphabetic / is_numeric / is_whitespace, compared with std on every code point each run",
    "correspondence check: harness/src/bin/c16.rs (public parser API + add-only verif_sparql_* hooks), checks/c16.py generators, printer, canonicalisation",
    "nom 8.0.0 combinators used by the unified parser (tag_no_case, char, take_while1, alt) are modelled by their documented behaviour; the extension grammars (about 2000 lines of nom) are not modelled",
]
ASSUME = [
    "inputs are Rust &str, i.e. valid UTF-8 (the theorems' hypothesis)",
    "keywords contain no letter k (KELVIN SIGN case folding), checked against parser.rs each run",
    "usize is 64 bits (LIMIT overflow bound)",
    "recursion depth: the model runs on fuel; stack exhaustion of the real parser on deeply nested input is a runtime fact (known finding C16-deep-recursion)",
]


def c16_binary(ctx):
    """development aid: VERIF_C16_BIN=<driver built against a private copy of the repository> (seeded-change confirmation
    without touching /repo); the verdict of such a run is about that copy"""
    override = os.environ.get("VERIF_C16_BIN")
    if override:
        ctx.log("USING DRIVER OVERRIDE %s (not /repo)" % override)
        return override
    return ctx.harness("c16")


def run(ctx):
    ctx.coq(SUB, "C16.v")
    binpath = c16_binary(ctx)
    only = os.environ.get("C16_STREAMS")          # development aid: run a subset of the streams
    on = (lambda name: True) if not only else (lambda name: name in only.split(","))
    keyword_assumption(ctx)
    for name, fn in (("corpus", stream_corpus), ("known", replay_known), ("tables", stream_tables), ("scan", stream_scan),
                     ("followers", stream_followers), ("kwcase", stream_kwcase), ("tree", stream_tree), ("mutants", stream_mutants), ("deep", stream_deep)):
        if on(name):
            fn(ctx, binpath)
            ctx.log("stream %s done" % name)
    ctx.finish(level="proof", rule=PROP_RULE, trusted_base=TRUSTED, assumptions=ASSUME,
               extra={"partial": [
                   "C16_roundtrip_partial: the round trip `parse (print cst) = tree cst` (any layout, comments, keyword case) is proved for triples statements "
                   "with `;` / `,` lists, FILTER expressions (|| && ! parentheses, comparisons, function calls, arithmetic), BIND, VALUES, GRAPH, UNION chains, "
                   "sub-selects, optional `.`, nested group patterns, SELECT with DISTINCT / projection / aggregates / FROM / FROM NAMED / GROUP BY / ORDER BY / LIMIT, "
                   "the six update forms with quad blocks and GRAPH templates (plus rejection theorems for the DATA-block checks), the PREFIX prologue and the "
                   "whole request up to end of input through parse_top, with the fuel of Run.v. Exponent numbers, @lang / ^^datatype literals, long strings, "
                   "one-level quoted triples and ASCII bare identifiers are proved at scanner / term-position level only (not yet part of the CST Term type). "
                   "NOT proved, checked by the tree and follower streams only: nested quoted triples, long strings containing their own quote unescaped, "
                   "non-ASCII bare identifiers, a parenthesised FILTER expression starting with a function call whose name is followed by a non-ASCII whitespace character",
                   "extension grammars (RULE, REGISTER/RSP-QL, ML.PREDICT, MODEL / NEURAL RELATION, legacy parse_where): not modelled, totality exercised by the mutant stream only",
                   "fuel adequacy is proved for arbitrary input (C16_fuel_adequate, C16_parser_total_no_fuel): 3 * length + 6 units suffice for every grammar entry",
                   "panic-freedom of the real code is a runtime fact tied to the model by the correspondence check only"]})


def replay(ctx):
    binpath = c16_binary(ctx)
    c = ctx.replay.get("case") or {}
    if not c and ctx.replay.get("broken"):
        c = ctx.replay["broken"][0].get("case") or {}
    k = c.get("k")
    if k == "scan":
        run_scan_cases(ctx, binpath, [(c["f"], c["s"])], "replay")
    elif k == "parse":
        compare_entries(ctx, binpath, [(c["entry"], c["s"])], "replay")
        if "expected" in c:
            conv = {"combined": ci_top, "group": ci_group, "select_core": ci_select, "filter": ci_filter}[c["entry"]]
            r = ctx.run_impl(binpath, [{"k": "parse", "entry": c["entry"], "s": c["s"]}], shards=1)[0]
            iv = impl_parse_value(c["entry"], r, len(c["s"].encode("utf-8")))
            got = iv[1] if iv[0] == "Ok" else None
            if ENTRY[c["entry"]][3] and got is not None:
                got = got[0]
            if got != conv(c["expected"]):
                ctx.violation(c, {"what": "the parser's syntax tree differs from the source tree of this pretty-printing", "impl": repr(iv)[:1500]})
        res = ctx.run_impl(binpath, [{"k": "parse", "entry": c["entry"], "s": c["s"]}], shards=1)[0]
        if res is None or "driver_died" in res or "panic" in res:
            ctx.violation(c, {"what": "parser crashed", "impl": res})
    elif k == "mut":
        run_mutants(ctx, binpath, [c["s"]], "replay", 0)
    elif k == "kwcase":
        rb, rv = ctx.run_impl(binpath, [{"k": "parse", "entry": "combined", "s": c["base"]}, {"k": "parse", "entry": "combined", "s": c["s"]}], shards=1)
        kwcase_check(ctx, c["base"], c["s"], rb, rv)
    ctx.finish(level="proof", rule=PROP_RULE, trusted_base=TRUSTED, assumptions=ASSUME)
