"""C18 - backward chaining returns only entailed answers, and all shallow ones (DESIGN.md section 7, C18).

Theorems: coq/Backward/C18.v.  Correspondence: the real `Reasoner::backward_chaining` (+ the public `resolve_term`
applied to the goal positions) against the Gallina model `KV.Backward.Run.run_bc` on the same program and goal
(multisets of answers), and against the Spec: the least model with derivation heights, computed here (Python,
bottom-up) and cross-checked on every case against the executable Coq Spec `run_spec` (`level`, proved equal to
the inductive `derivable`).  A function-level stream compares `resolve_term` with the model's on explicit
acyclic binding maps.
"""
import itertools
import json
import os
import vf

SUB = "Backward"
REQ = ["KV.Backward.Model", "KV.Backward.Spec", "KV.Backward.Run"]
PRE = "Open Scope string_scope. Open Scope N_scope."
MAX_DEPTH = 10
OPS = {">": "CGt", "<": "CLt", ">=": "CGe", "<=": "CLe", "=": "CEq", "!=": "CNe"}
GOAL_NAMES = ["X", "Y", "s", "v0", "v1", "v7", "x"]
RULE_NAMES = ["X", "Y", "Z", "W", "v0", "v1", "s"]

PROP_RULE = ("a case is one program (dictionary, <= 6 facts, 1-3 positive safe rules with 1-3 premises and 1-2 conclusions, "
             "constants and repeated variables in every position, occasionally a variable predicate, recursive "
             "templates: right/left/doubly recursive ancestor, symmetry, 3-premise chain; in two thirds of the random "
             "programs rules may carry 1-2 filters: numeric comparisons on a premise variable or any of the six operators between two "
             "premise variables, over dictionaries with numeric strings) and one goal pattern with 0-3 "
             "variables named from {X,Y,s,v0,v1,v7,x} (rule variables from {X,Y,Z,W,v0,v1,s}); the real engine's answer "
             "multiset (goal with resolve_term applied per returned binding map) is compared with the model's, and with "
             "the least model: soundness (every ground instance of every answer is in it) and shallow completeness "
             "(every fact of height <= 10 matching the goal is an answer). Exhaustive scope: every goal over subject/"
             "object terms {a,b,c,?X,?Y,?v0,?v1,?v7} and predicate {parent,anc,?X,?v0} on six fixed programs. "
             "A case is non-trivial when the least model contains a derived fact matching the goal (a rule had to "
             "fire for a required answer); distinct by program and goal. The resolve stream counts a case as "
             "non-trivial when some chain has length >= 2.")


# ---- rendering for Coq ---------------------------------------------------------------------------
def c_term(t):
    return ('Var "%s"' % t[1]) if t[0] == "v" else ("Cst %d" % t[1])


def c_atom(a):
    return "(%s, %s, %s)" % tuple(c_term(t) for t in a)


def c_filter(f):
    if "var" in f:
        return 'Filter "%s" %s (FVar "%s")' % (f["x"], OPS[f["op"]], f["var"])
    return 'Filter "%s" %s (FNum (%d)%%Z)' % (f["x"], OPS[f["op"]], f["num"])


def c_rule(r):
    return "Rule [%s] [%s] [%s]" % ("; ".join(c_atom(a) for a in r["prem"]), "; ".join(c_atom(a) for a in r["concl"]),
                                    "; ".join(c_filter(f) for f in r.get("filt", [])))


def c_fact(f):
    return "(%d, %d, %d)" % tuple(f)


def numeric_value(s):
    """What evaluate_filters makes of a dictionary string: parse::<f64>() or 0.0 (generated strings are plain
    integers or identifiers that do not parse)."""
    try:
        if s.strip() != s or "_" in s:
            return 0
        return int(s)
    except ValueError:
        return 0


def spec_fuel(case):
    n = len(case["dict"])
    return min(n * n * n + 2, 200)


def c_run_all(case):
    tbl = "; ".join("(%d, (%d)%%Z)" % (i, numeric_value(s)) for i, s in enumerate(case["dict"]) if numeric_value(s) != 0)
    return "run_all [%s] %d%%nat [%s] [%s] %s" % (tbl, spec_fuel(case), "; ".join(c_fact(f) for f in case["facts"]),
                                                   "; ".join(c_rule(r) for r in case["rules"]), c_atom(case["goal"]))


def c_run_resolve(case):
    return "run_resolve [%s] [%s]" % ("; ".join('("%s", %s)' % (x, c_term(t)) for x, t in case["bindings"]),
                                      "; ".join(c_term(t) for t in case["terms"]))


def m_term(v):
    """parsed Coq term -> ["v", name] | ["c", id]"""
    if v[0] == "Var":
        return ["v", v[1]]
    assert v[0] == "Cst", v
    return ["c", v[1]]


# ---- classes (as coq/Backward/Spec.v) -----------------------------------------------------------------
def known_filters(case):
    return any(len(r.get("filt", [])) > 0 for r in case["rules"])


def atom_vars(a):
    return [t[1] for t in a if t[0] == "v"]


def safe_rule(r):
    pv = set(v for a in r["prem"] for v in atom_vars(a))
    return all(v in pv for a in r["concl"] for v in atom_vars(a)) and \
        all(f["x"] in pv and ("var" not in f or f["var"] in pv) for f in r.get("filt", []))


# ---- the Spec in Python: least model with least derivation heights ------------------------------------------
def match_atom(a, f, env):
    env = dict(env)
    for t, c in zip(a, f):
        if t[0] == "c":
            if t[1] != c:
                return None
        else:
            if env.setdefault(t[1], c) != c:
                return None
    return env


def matches(prems, db, env):
    if not prems:
        yield env
        return
    for f in db:
        e = match_atom(prems[0], f, env)
        if e is not None:
            yield from matches(prems[1:], db, e)


def least_model(case, use_filters=True):
    """dict fact -> least height; bottom-up, level h+1 = facts + consequences of level h."""
    nums = [numeric_value(s) for s in case["dict"]]
    cmpf = {">": lambda a, b: a > b, "<": lambda a, b: a < b, ">=": lambda a, b: a >= b, "<=": lambda a, b: a <= b,
            "=": lambda a, b: a == b, "!=": lambda a, b: a != b}

    def holds(f, e):
        """rules.rs evaluate_filters on a ground rule instance: a variable value compares identifiers for = and != and
        numeric values for <, <=, >, >=; a numeric value compares the numeric value of the bound constant"""
        lhs = e[f["x"]]
        nv = lambda c: nums[c] if c < len(nums) else 0
        if "var" in f:
            rhs = e[f["var"]]
            if f["op"] in ("=", "!="):
                return cmpf[f["op"]](lhs, rhs)
            return cmpf[f["op"]](nv(lhs), nv(rhs))      # order operators: numeric values of both terms (7537bd2)
        return cmpf[f["op"]](nv(lhs), f["num"])
    height = {tuple(f): 0 for f in case["facts"]}
    h = 0
    while True:
        db = sorted(height)
        new = set()
        for r in case["rules"]:
            for e in matches(r["prem"], db, {}):
                if use_filters and not all(holds(f, e) for f in r.get("filt", [])):
                    continue
                for c in r["concl"]:
                    g = tuple(t[1] if t[0] == "c" else e[t[1]] for t in c)
                    if g not in height:
                        new.add(g)
        if not new:
            return height
        h += 1
        for g in new:
            height[g] = h


def goal_matches(goal, f):
    return match_atom(goal, f, {}) is not None


def ground_instances(ans, consts):
    vs = sorted(set(atom_vars(ans)))
    if not vs:
        yield tuple(t[1] for t in ans)
        return
    for vals in itertools.product(consts, repeat=len(vs)):
        e = dict(zip(vs, vals))
        yield tuple(t[1] if t[0] == "c" else e[t[1]] for t in ans)


# ---- generators ------------------------------------------------------------------------------------
def V(n):
    return ["v", n]


def C(i):
    return ["c", i]


def templates(P, Q, R, E, names):
    X, Y, Z, W = [V(n) for n in names[:4]]
    return {
        "copy": {"prem": [[X, C(P), Y]], "concl": [[X, C(Q), Y]]},
        "right": {"prem": [[X, C(P), Y], [Y, C(Q), Z]], "concl": [[X, C(Q), Z]]},
        "left": {"prem": [[X, C(Q), Y], [Y, C(P), Z]], "concl": [[X, C(Q), Z]]},
        "double": {"prem": [[X, C(Q), Y], [Y, C(Q), Z]], "concl": [[X, C(Q), Z]]},
        "sym": {"prem": [[X, C(Q), Y]], "concl": [[Y, C(Q), X]]},
        "chain3": {"prem": [[X, C(P), Y], [Y, C(P), Z], [Z, C(P), W]], "concl": [[X, C(R), W]]},
        "loop": {"prem": [[X, C(P), X]], "concl": [[X, C(R), C(E[0])]]},
        "two": {"prem": [[X, C(P), Y]], "concl": [[X, C(Q), Y], [Y, C(R), X]]},
    }


def random_rule(rng, E, PR, filt_nums=None):
    names = rng.sample(RULE_NAMES, 4)
    nv = rng.choice([1, 2, 2, 3, 3, 4])
    vs = names[:nv]
    npr = rng.choice([1, 1, 2, 2, 2, 3])

    def so():
        return V(rng.choice(vs)) if rng.random() < 0.82 else C(rng.choice(E))
    prem = []
    for _ in range(npr):
        p = C(rng.choice(PR[:2] if rng.random() < 0.8 else PR)) if rng.random() < 0.9 else V(rng.choice(vs))
        prem.append([so(), p, so()])
    pv = sorted(set(v for a in prem for v in atom_vars(a)))

    def ct(pred=False):
        if pred:
            if pv and rng.random() < 0.08:
                return V(rng.choice(pv))
            return C(rng.choice(PR[1:] if rng.random() < 0.8 else PR))
        if pv and rng.random() < 0.85:
            return V(rng.choice(pv))
        return C(rng.choice(E))
    concl = [[ct(), ct(True), ct()] for _ in range(rng.choice([1, 1, 1, 2]))]
    return {"prem": prem, "concl": concl, "filt": []}


def random_goal(rng, E, PR):
    def so():
        return V(rng.choice(GOAL_NAMES)) if rng.random() < 0.6 else C(rng.choice(E))
    p = C(rng.choice(PR)) if rng.random() < 0.85 else V(rng.choice(GOAL_NAMES))
    return [so(), p, so()]


def random_program(rng, filters=False):
    ne = rng.randint(3, 4)
    if filters:
        ents = rng.sample(["a", "b", "c"], ne - 2) + rng.sample(["1", "2", "3", "5", "8", "-1"], 2)
        rng.shuffle(ents)
    else:
        ents = ["a", "b", "c", "d"][:ne]
    dic = ents + ["p", "q", "r"]
    E = list(range(ne))
    PR = [ne, ne + 1, ne + 2]
    nf = rng.choice([0, 1, 2, 3, 3, 4, 4, 5, 5, 6, 6])
    facts = []
    for _ in range(nf):
        p = PR[0] if rng.random() < 0.7 else rng.choice(PR)
        facts.append([rng.choice(E), p, rng.choice(E)])
    facts = [list(t) for t in dict.fromkeys(tuple(f) for f in facts)]
    rules = []
    nrules = rng.choice([1, 2, 2, 2, 3])
    heavy = 0
    for _ in range(nrules):
        if rng.random() < 0.5:
            names = rng.sample(RULE_NAMES, 4)
            tname = rng.choice(["copy", "copy", "right", "right", "left", "double", "sym", "chain3", "loop", "two"])
            if tname in ("double", "left", "sym"):
                heavy += 1
                if heavy > 1:
                    tname = "right"
            t = templates(PR[0], PR[1], PR[2], E, names)[tname]
            r = {"prem": json.loads(json.dumps(t["prem"])), "concl": json.loads(json.dumps(t["concl"])), "filt": []}
        else:
            r = random_rule(rng, E, PR)
        if filters and rng.random() < 0.6:
            pv = sorted(set(v for a in r["prem"] for v in atom_vars(a)))
            for _ in range(rng.choice([1, 1, 2])):
                if len(pv) >= 2 and rng.random() < 0.4:
                    x, y = rng.sample(pv, 2)
                    r["filt"].append({"x": x, "op": rng.choice(["=", "!=", "<", "<=", ">", ">=", "<", ">"]), "var": y})
                elif pv:
                    r["filt"].append({"x": rng.choice(pv), "op": rng.choice(list(OPS)), "num": rng.choice([0, 1, 2, 3, 5])})
        rules.append(r)
    case = {"kind": "bc", "dict": dic, "facts": facts, "rules": rules, "goal": random_goal(rng, E, PR)}
    if rng.random() < 0.55:
        # aim at the least model: generalise one of its facts (derived ones preferred) to a goal pattern
        lm = least_model(case, use_filters=False)
        derived = sorted(f for f, h in lm.items() if h > 0)
        pool = derived if derived and rng.random() < 0.8 else sorted(lm)
        if pool:
            f = rng.choice(pool)
            names = {}
            goal = []
            for x in f:
                if rng.random() < 0.55:
                    # the same constant may get the same variable (repeated goal variable) or a fresh one
                    if x in names and rng.random() < 0.5:
                        goal.append(V(names[x]))
                    else:
                        nm = rng.choice(GOAL_NAMES)
                        if nm in names.values() and not (x in names and names[x] == nm):
                            goal.append(C(x))
                            continue
                        names[x] = nm
                        goal.append(V(nm))
                else:
                    goal.append(C(x))
            case["goal"] = goal
    return case


def cost_estimate(case, cap):
    """Number of helper calls the depth-limited search makes on the case (a Python transcription of the traversal
    only: answers are not used), capped.  Used to drop programs whose search is too large for the model to run
    inside the time budget; dropped cases are counted in the stream record."""
    calls = [0]

    def res(th, t):
        while t[0] == "v" and t[1] in th:
            t = th[t[1]]
        return t

    def unify_t(a, b, th):
        a, b = res(th, a), res(th, b)
        if a[0] == "c" and b[0] == "c":
            return a[1] == b[1]
        if a[0] == "v" and b[0] == "c":
            th[a[1]] = b
            return True
        if a[0] == "c" and b[0] == "v":
            th[b[1]] = a
            return True
        if a[1] != b[1]:
            th[a[1]] = b
        return True

    def unify(p1, p2, th):
        th = dict(th)
        for a, b in zip(p1, p2):
            if not unify_t(a, b, th):
                return None
        return th
    counter = [1000]

    def rename(r):
        m = {}

        def rt(t):
            if t[0] == "c":
                return t
            if t[1] not in m:
                m[t[1]] = "#%d" % counter[0]
                counter[0] += 1
            return ["v", m[t[1]]]
        prem = [[rt(t) for t in a] for a in r["prem"]]
        concl = [[rt(t) for t in a] for a in r["concl"]]
        return prem, concl

    class Over(Exception):
        pass

    def helper(q, th, depth):
        calls[0] += 1
        if calls[0] > cap:
            raise Over()
        if depth > MAX_DEPTH:
            return []
        sq = [res(th, t) for t in q]
        out = []
        for f in case["facts"]:
            nb = unify(sq, [C(x) for x in f], th)
            if nb is not None:
                out.append(nb)
        for r in case["rules"]:
            prem, concl = rename(r)
            for c in concl:
                rb = unify(c, sq, th)
                if rb is not None:
                    prs = [rb]
                    for p in prem:
                        nxt = []
                        for b in prs:
                            nxt.extend(helper(p, b, depth + 1))
                        prs = nxt
                    out.extend(prs)
        return out
    try:
        helper(case["goal"], {}, 0)
    except Over:
        return cap + 1
    return calls[0]


def exhaustive_cases(thorough):
    # ids: a=0 b=1 c=2 parent=3 anc=4
    dic = ["a", "b", "c", "parent", "anc"]
    P, A = 3, 4
    X, Y, Z = V("X"), V("Y"), V("Z")
    copy = {"prem": [[X, C(P), Y]], "concl": [[X, C(A), Y]], "filt": []}
    right = {"prem": [[X, C(P), Y], [Y, C(A), Z]], "concl": [[X, C(A), Z]], "filt": []}
    left = {"prem": [[X, C(A), Y], [Y, C(P), Z]], "concl": [[X, C(A), Z]], "filt": []}
    v_copy = {"prem": [[V("v0"), C(P), V("v1")]], "concl": [[V("v0"), C(A), V("v1")]], "filt": []}
    v_right = {"prem": [[V("v1"), C(P), V("v0")], [V("v0"), C(A), V("v7")]], "concl": [[V("v1"), C(A), V("v7")]], "filt": []}
    sym = {"prem": [[X, C(P), Y]], "concl": [[Y, C(P), X]], "filt": []}
    anyp = {"prem": [[X, Y, Z]], "concl": [[Z, C(A), X]], "filt": []}
    chain = [[0, P, 1], [1, P, 2]]
    ne = {"prem": [[X, C(P), Y]], "concl": [[X, C(A), Y]], "filt": [{"x": "X", "op": "!=", "var": "Y"}]}
    programs = [
        (chain + [[1, P, 1]], [ne, right]),
        (chain, [copy, right]),
        (chain, [v_copy, v_right]),
        (chain, [right, copy]),
        (chain + [[2, P, 0]], [copy, left]),
        ([[0, P, 1]], [sym, copy]),
        (chain + [[0, A, 0]], [anyp]),
    ]
    if thorough:
        double = {"prem": [[X, C(A), Y], [Y, C(A), Z]], "concl": [[X, C(A), Z]], "filt": []}
        two = {"prem": [[V("s"), C(P), V("v1")]], "concl": [[V("s"), C(A), V("v1")], [V("v1"), C(A), V("s")]], "filt": []}
        chain3 = {"prem": [[X, C(P), Y], [Y, C(P), Z], [Z, C(P), V("v0")]], "concl": [[X, C(A), V("v0")]], "filt": []}
        const = {"prem": [[X, C(P), X]], "concl": [[X, C(A), C(0)]], "filt": []}
        programs += [
            ([[0, P, 1]], [copy, double]),
            (chain, [two]),
            (chain + [[2, P, 0]], [chain3, v_copy]),
            (chain + [[1, P, 1]], [const, right]),
        ]
    so = [C(0), C(1), C(2), V("X"), V("Y"), V("v0"), V("v1"), V("v7")] + ([V("s")] if thorough else [])
    pr = [C(P), C(A), V("X"), V("v0")]
    cases = []
    for facts, rules in programs:
        for s in so:
            for p in pr:
                for o in so:
                    cases.append({"kind": "bc", "dict": dic, "facts": facts, "rules": rules, "goal": [s, p, o]})
    return cases, {"programs": len(programs), "goals_per_program": len(so) * len(pr) * len(so)}


def deep_cases():
    """Boundary of the depth bound: parent chains a0 -> a1 -> ... -> aL with L around MAX_DEPTH; anc over k edges has
    derivation height k, so heights 10 (required) and 11, 12 (beyond the bound) both occur."""
    cases = []
    for L in (9, 10, 11, 12):
        dic = ["a%d" % i for i in range(L + 1)] + ["parent", "anc"]
        P, A = L + 1, L + 2
        X, Y, Z = V("X"), V("Y"), V("v0")
        copy = {"prem": [[X, C(P), Y]], "concl": [[X, C(A), Y]], "filt": []}
        right = {"prem": [[X, C(P), Y], [Y, C(A), Z]], "concl": [[X, C(A), Z]], "filt": []}
        left = {"prem": [[X, C(A), Y], [Y, C(P), Z]], "concl": [[X, C(A), Z]], "filt": []}
        facts = [[i, P, i + 1] for i in range(L)]
        for rules in ([copy, right], [left, copy]):
            for goal in ([C(0), C(A), V("Y")], [V("v1"), C(A), C(L)], [C(0), C(A), C(L)], [C(0), C(A), C(min(L, 10))],
                         [C(1), C(A), V("v0")]):
                cases.append({"kind": "bc", "dict": dic, "facts": facts, "rules": rules, "goal": goal})
    # a long detour explored before a shortcut to the same sub-goal (a memo of failed sub-goals must not forget that the
    # failure at the end of the detour was caused by the depth bound): n0 -long-> ... -long-> nL, short(n0, nL), edge(nL, T)
    for L in (8, 9, 10, 11):
        dic = ["n%d" % i for i in range(L + 1)] + ["T", "long", "short", "edge", "reach"]
        T, LG, SH, ED, RE = L + 1, L + 2, L + 3, L + 4, L + 5
        X, Y, Z = V("X"), V("Y"), V("Z")
        r_long = {"prem": [[X, C(LG), Y], [Y, C(RE), Z]], "concl": [[X, C(RE), Z]], "filt": []}
        r_short = {"prem": [[X, C(SH), Y], [Y, C(RE), Z]], "concl": [[X, C(RE), Z]], "filt": []}
        r_edge = {"prem": [[X, C(ED), Y]], "concl": [[X, C(RE), Y]], "filt": []}
        facts = [[i, LG, i + 1] for i in range(L)] + [[0, SH, L], [L, ED, T]]
        for rules in ([r_long, r_short, r_edge], [r_edge, r_long, r_short], [r_short, r_long, r_edge]):
            for goal in ([C(0), C(RE), C(T)], [C(0), C(RE), V("where")], [V("v0"), C(RE), C(T)]):
                cases.append({"kind": "bc", "dict": dic, "facts": facts, "rules": rules, "goal": goal})
    return cases


def random_resolve_case(rng):
    names = rng.sample(["X", "Y", "Z", "v0", "v1", "v2", "v7", "s", "x", "v10"], rng.randint(1, 8))
    # acyclic: a variable may only be bound to a constant or to a variable later in `names`
    bindings = []
    for i, n in enumerate(names):
        if rng.random() < 0.75:
            later = names[i + 1:]
            if later and rng.random() < 0.7:
                bindings.append([n, V(rng.choice(later))])
            else:
                bindings.append([n, C(rng.randint(0, 5))])
    rng.shuffle(bindings)
    terms = [V(n) for n in names] + [V("unbound"), C(3)]
    return {"kind": "resolve", "bindings": bindings, "terms": terms}


# ---- evaluation ------------------------------------------------------------------------------------
def run_impl_guarded(ctx, binpath, cases):
    """ctx.run_impl, re-running the cases a shard did not reach because its driver ended on a case that exceeded the
    per-case time limit (the driver writes {"timeout": true} for that case and exits, see c18.rs)."""
    results = ctx.run_impl(binpath, cases)
    for _ in range(8):
        todo = [i for i, r in enumerate(results) if r is None or r.get("driver_died")]
        if not todo:
            break
        again = ctx.run_impl(binpath, [cases[i] for i in todo], shards=min(vf.NPROC, len(todo)))
        progress = False
        for i, r in zip(todo, again):
            if r is not None and not r.get("driver_died"):
                results[i] = r
                progress = True
        if not progress:
            break
    return results


def is_known(ctx, fid):
    return any(k["id"] == fid for k in ctx.known_findings())


def canon_answers(l):
    return sorted(json.dumps(a) for a in l)


def evaluate_bc(ctx, binpath, cases, stream):
    impl = run_impl_guarded(ctx, binpath, cases)
    model = ctx.run_model(SUB, REQ, [c_run_all(c) for c in cases], preamble=PRE, timeout=1500)
    st = {"cases": len(cases), "impl_model_mismatches": 0, "spec_violations": 0, "with_filters": 0, "filtered_out_instances": 0, "answers": 0, "empty_answers": 0, "goal_vars": 0, "goal_v_names": 0,
          "rules": 0, "premises": 0, "facts": 0, "lm_facts": 0, "lm_derived": 0, "lm_deeper_than_bound": 0,
          "required_answers": 0, "required_derived": 0, "max_required_height": 0, "unsafe_rule_cases": 0, "impl_timeouts": 0}
    for c, im, mo in zip(cases, impl, model):
        ctx.count()
        if isinstance(mo, tuple) and mo and mo[0] == "ERROR":
            ctx.broken("correspondence", stream, "model evaluation failed: %s" % (mo[1],), c)
            continue
        m_answers = [[m_term(t) for t in a] for a in mo[0]]
        m_heights, m_fix = mo[1]
        m_known, m_safe = mo[2]
        kn, safe = known_filters(c), all(safe_rule(r) for r in c["rules"])
        if (kn, safe) != (m_known, m_safe):
            ctx.broken("correspondence", stream, "class predicates of checks/c18.py and Spec.v disagree", c)
            continue
        lm = least_model(c, use_filters=True)
        if not m_fix or {tuple(e[:3]): e[3] for e in m_heights} != lm:
            ctx.broken("correspondence", "spec-oracle", "the Python least model and the Coq Spec `level` disagree (or fuel ran out)",
                       {"case": c, "coq": m_heights, "python": sorted(lm.items())})
            continue
        consts = sorted(set(x for f in lm for x in f) | set(t[1] for r in c["rules"] for a in r["prem"] + r["concl"] for t in a if t[0] == "c")
                        | set(t[1] for t in c["goal"] if t[0] == "c")) or [0]
        required = sorted(f for f, h in lm.items() if h <= MAX_DEPTH and goal_matches(c["goal"], f))
        st["rules"] += len(c["rules"])
        st["facts"] += len(c["facts"])
        st["premises"] += sum(len(r["prem"]) for r in c["rules"])
        st["goal_vars"] += len(set(atom_vars(c["goal"])))
        st["goal_v_names"] += any(v in ("v0", "v1", "v7") for v in atom_vars(c["goal"]))
        if kn:
            st["filtered_out_instances"] += len(least_model(c, use_filters=False)) - len(lm)
        st["lm_facts"] += len(lm)
        st["lm_derived"] += sum(1 for h in lm.values() if h > 0)
        st["lm_deeper_than_bound"] += sum(1 for h in lm.values() if h > MAX_DEPTH)
        st["required_answers"] += len(required)
        st["required_derived"] += sum(1 for f in required if lm[f] > 0)
        st["max_required_height"] = max([st["max_required_height"]] + [lm[f] for f in required])
        st["unsafe_rule_cases"] += not safe
        if any(lm[f] > 0 for f in required):
            ctx.nontrivial((c["dict"], c["facts"], c["rules"], c["goal"]))
        if im is not None and im.get("timeout"):
            # the model finished on this case (its search is below the helper-call cap) but the engine did not
            st["impl_timeouts"] += 1
            ctx.broken("correspondence", stream, "backward_chaining did not return within %s ms on a program whose modelled search "
                       "makes %d helper calls (model returns %d answers)" % (im.get("limit_ms"), cost_estimate(c, 10 ** 6), len(m_answers)),
                       {"case": c, "model": m_answers[:30]})
            continue
        if im is None or "answers" not in im:
            ctx.violation(c, {"what": "backward_chaining panicked / the driver died on a positive program", "impl": im})
            st["spec_violations"] += 1
            continue
        i_answers = im["answers"]
        st["answers"] += len(i_answers)
        st["empty_answers"] += not i_answers
        ok_model = canon_answers(i_answers) == canon_answers(m_answers)
        if not ok_model:
            st["impl_model_mismatches"] += 1
        # the Spec as oracle on the implementation's output
        got = set()
        unsound = []
        distinct = list({json.dumps(a): a for a in i_answers}.values())   # a changed engine may return huge multisets
        for a in distinct:
            for g in ground_instances(a, consts):
                if g not in got:
                    got.add(g)
                    if g not in lm and len(unsound) < 50:
                        unsound.append(g)
        # an answer that still has variables stands for all its instances; completeness wants the fact itself
        ground_got = set(tuple(t[1] for t in a) for a in distinct if not atom_vars(a))
        missing = [f for f in required if f not in ground_got and f not in got]
        if kn:
            st["with_filters"] += 1
        bad = None
        if missing:
            bad = {"what": "a fact of the least model with derivation height <= %d matches the goal but is not returned" % MAX_DEPTH,
                   "missing": missing[:10], "heights": [lm[f] for f in missing[:10]]}
        elif unsound:
            bad = {"what": "an answer applied to the goal is not a fact of the least model", "unsound": unsound[:10]}
            if kn:
                lm0 = least_model(c, use_filters=False)
                bad["in_least_model_without_filters"] = all(g in lm0 for g in unsound)
        if bad:
            bad.update({"impl_answers": i_answers[:20], "model_answers": m_answers[:20], "least_model": sorted(lm.items())[:40]})
            ctx.violation(c, bad)
            st["spec_violations"] += 1
            continue
        if not ok_model:
            ctx.broken("correspondence", stream, "implementation and model return different answer multisets (the Spec oracle accepts the implementation)",
                       {"case": c, "impl": i_answers[:30], "model": m_answers[:30]})
    ctx.stream(stream, **st)
    ctx.log("stream %s: %d cases, %d impl/model mismatches, %d spec violations" % (stream, len(cases), st["impl_model_mismatches"], st["spec_violations"]))


def evaluate_resolve(ctx, binpath, cases, stream):
    impl = ctx.run_impl(binpath, cases)
    model = ctx.run_model(SUB, REQ, [c_run_resolve(c) for c in cases], preamble=PRE)
    mism = 0
    for c, im, mo in zip(cases, impl, model):
        ctx.count()
        if isinstance(mo, tuple) and mo and mo[0] == "ERROR":
            ctx.broken("correspondence", stream, "model evaluation failed: %s" % (mo[1],), c)
            continue
        if im is None or "resolved" not in im:
            ctx.broken("correspondence", stream, "resolve driver failed: %s" % (im,), c)
            continue
        m = [m_term(t) for t in mo]
        b = dict((x, t) for x, t in c["bindings"])
        # independent expectation: follow the chain
        exp = []
        longest = 0
        for t in c["terms"]:
            n = 0
            while t[0] == "v" and t[1] in b:
                t = b[t[1]]
                n += 1
            longest = max(longest, n)
            exp.append(t)
        if longest >= 2:
            ctx.nontrivial(("resolve", c["bindings"]))
        if im["resolved"] != exp:
            ctx.violation(c, {"what": "resolve_term does not follow the binding chain to its end", "impl": im["resolved"], "expected": exp})
        elif im["resolved"] != m:
            mism += 1
            ctx.broken("correspondence", stream, "resolve_term and the model differ", {"case": c, "impl": im["resolved"], "model": m})
    ctx.stream(stream, cases=len(cases), mismatches=mism)
    ctx.log("stream %s: %d cases, %d mismatches" % (stream, len(cases), mism))


def load_corpus():
    d = os.path.join(vf.VERIF, "corpus", "C18")
    out = []
    if os.path.isdir(d):
        for fn in sorted(os.listdir(d)):
            if fn.endswith(".json"):
                with open(os.path.join(d, fn)) as f:
                    j = json.load(f)
                out.append({k: v for k, v in j.items() if not k.startswith("_")})
    return out


def replay_known(ctx, binpath):
    for k in ctx.known_findings():
        w = k.get("witness")
        if not isinstance(w, dict) or "goal" not in w:
            continue
        case = {"kind": "bc", "dict": w["dict"], "facts": w["facts"], "rules": w["rules"], "goal": w["goal"], "forward": True}
        im = ctx.run_impl(binpath, [case])[0]
        ctx.count()
        lm = least_model(case, use_filters=True)
        if im is None or "answers" not in im:
            ctx.violation(case, {"what": "driver died on the witness of %s" % k["id"], "impl": im})
            continue
        bad = [a for a in im["answers"] if atom_vars(a) or tuple(t[1] for t in a) not in lm]
        fwd = set(tuple(f) for f in im.get("forward", []))
        if bad:
            ctx.known(k["id"], "%s: goal %s returns %s, not in the least model (%d facts; the engine's own forward chaining stores %s)" % (
                k.get("what", ""), json.dumps(w["goal"]), json.dumps(bad[:3]), len(lm),
                "the same least model" if fwd == set(lm) else "%d facts" % len(fwd)))
        else:
            ctx.log("finding %s no longer reproduces on its witness (entry is stale)" % k["id"])


def run(ctx):
    ctx.coq(SUB, "C18.v")
    binpath = ctx.harness("c18")
    corpus = load_corpus()
    if corpus:
        evaluate_bc(ctx, binpath, corpus, "corpus")
    replay_known(ctx, binpath)
    nr = 2000 if ctx.thorough else 300
    res = [random_resolve_case(ctx.rng) for _ in range(nr)]
    ctx.sample(res[0])
    evaluate_resolve(ctx, binpath, res, "resolve")
    deep = deep_cases()
    ctx.sample({"deep_chain_goal": deep[11]["goal"], "facts": len(deep[11]["facts"])})
    evaluate_bc(ctx, binpath, deep, "depth-boundary")
    ex, exinfo = exhaustive_cases(ctx.thorough)
    ctx.sample(ex[5])
    evaluate_bc(ctx, binpath, ex, "exhaustive")
    ctx.coverage["exhaustive"] = True
    ctx.coverage["exhaustive_scope"] = ("%(programs)d fixed programs (ancestor right/left recursive in both rule orders, rule variables "
                                        "named v0/v1/v7, symmetry, a variable-predicate rule; thorough adds doubly recursive, two-conclusion, "
                                        "3-premise and constant-conclusion programs) x all %(goals_per_program)d goals over "
                                        "s/o in {a,b,c,?X,?Y,?v0,?v1,?v7} (+?s in thorough), p in {parent,anc,?X,?v0}" % exinfo)
    cap = 6000 if ctx.thorough else 2500
    n = 15000 if ctx.thorough else 520
    rnd, dropped, tried = [], 0, 0
    while len(rnd) < n and tried < 20 * n:
        tried += 1
        c = random_program(ctx.rng, filters=(tried % 3 != 0))     # two thirds of the programs may carry filters
        if cost_estimate(c, cap) > cap:
            dropped += 1
            continue
        rnd.append(c)
    ctx.stream("random-gen", generated=tried, dropped_search_too_large=dropped, helper_call_cap=cap)
    ctx.sample(rnd[0])
    ctx.sample(next((c for c in rnd if known_filters(c)), rnd[1]), limit=6)
    evaluate_bc(ctx, binpath, rnd, "random")
    finish(ctx)


def finish(ctx):
    ctx.finish(
        level="proof", rule=PROP_RULE,
        trusted_base=[
            "Coq 8.16.1 kernel; vm_compute for running the model and the Spec in the correspondence check",
            "hand-written Gallina model coq/Backward/Model.v of datalog/src/reasoning/backward_chaining.rs (whole file, quoted-triple arms excluded)",
            "correspondence check: harness/src/bin/c18.rs (public API only), checks/c18.py generators, canonicalisation and the Python least-model oracle (cross-checked against the Coq Spec on every case)",
            "HashMap<String, Term> modelled as an association list (insert = cons, lookup = newest entry); u32 ids and the usize counter modelled as unbounded N",
            "format!(\"v{}\", n) and str::parse::<usize> modelled with Coq's decimal conversion (DecimalString); names are byte strings",
        ],
        assumptions=["no quoted-triple terms in facts, rules or goals",
                     "rules are positive (negative premises are dropped by rename_rule_variables and are outside the property's quantifier)",
                     "the rename counter and goal variable indexes stay below 2^64 (usize overflow is not modelled)"])


def replay(ctx):
    binpath = ctx.harness("c18")
    if "case" in ctx.replay:
        c = ctx.replay["case"]
    else:
        # replay of a broken obligation: the first recorded disagreeing case, if any
        c = next((b["case"] for b in ctx.replay.get("broken", []) if isinstance(b.get("case"), dict)), None)
        if c is None or ("goal" not in c.get("case", c) and "bindings" not in c.get("case", c)):
            ctx.coq(SUB, "C18.v")
            ctx.finish(level="proof", rule=PROP_RULE)
    case = c.get("case", c)
    if case.get("kind") == "resolve":
        evaluate_resolve(ctx, binpath, [case], "replay")
    else:
        evaluate_bc(ctx, binpath, [case], "replay")
    ctx.finish(level="proof", rule=PROP_RULE)
