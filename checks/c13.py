"""C13 - loading a document adds exactly its triples, whatever its size or prior content (DESIGN.md section 7, C13).

Theorems: coq/Codec13/C13.v (chunking, N-Triples, N-Quads, N3 outside known_C13_n3, Turtle statements, format agreement
partial on RDF/XML, six refutations with witnesses).
Correspondence: the real loaders of kolibrie/src/sparql_database.rs (parse_ntriples_and_add, parse_nquads_and_add,
parse_turtle, parse_n3, parse_rdf) against the Gallina model (`KV.Codec13.Run.run`) on the same documents and prior
databases, observable = lexical quad set before and after every load; the Spec (`triples_of` of the document's
abstract syntax, coq/Codec13/Spec.v) is the oracle: after = before U triples_of(doc).
Function-level streams: parse_ntriples_parts, clean_ntriples_term, decode_ntriples_literal, tokenize_turtle_star_line,
clean_turtle_term, encode_term_star, and the per-chunk output of parse_ntriples.
"""
import itertools
import json
import os

import vf

SUB = "Codec13"
REQ = ["KV.Codec13.Model", "KV.Codec13.Spec", "KV.Codec13.Classes", "KV.Codec13.Run"]
PRE = "Open Scope N_scope.\n"
FMT = {"nt": 0, "nq": 1, "ttl": 2, "n3": 3}
THREADS = ["1", "4", "16"]
NONE = "\uffff<undecodable>"

PROP_RULE = ("a database case is a history of operations on one SparqlDatabase (direct quad insertions that build a prior "
             "database, and document loads), observed as the lexical quad set after the marked operations; it is "
             "non-trivial when some document load of the case changes the quad set by at least one quad AND the case "
             "has either a non-empty prior database or a document of at least 2 lines; distinct by the rendered "
             "operations. Function-level cases (tokenizer, term cleaning, literal decoding, per-chunk parse) are "
             "non-trivial when the implementation's output is non-empty; distinct by input string.")


# ---- Coq syntax ----------------------------------------------------------------------------------
def cs(s):
    return "[" + ";".join(str(ord(c)) for c in s) + "]"


def copt(s):
    return "None" if s is None else "(Some %s)" % cs(s)


def clchar(x):
    k = x[0]
    if k == "p":
        return "LPlain %d" % ord(x[1])
    if k == "e":
        return "LEsc %d" % ord(x[1])
    if k == "u4":
        return "LHex4 %s" % cs(x[1])
    return "LHex8 %s" % cs(x[1])


def cterm(t):
    k = t[0]
    if k == "iri":
        return "(TIri %s)" % cs(t[1])
    if k == "bn":
        return "(TBnode %s)" % cs(t[1])
    if k == "pn":
        return "(TPname %s %s)" % (cs(t[1]), cs(t[2]))
    if k == "lit":
        suf = t[2]
        cs_suf = "SNone" if suf is None else ("(SLang %s)" % cs(suf[1]) if suf[0] == "lang" else "(SDt %s)" % cs(suf[1]))
        return "(TLit [%s] %s)" % (";".join(clchar(x) for x in t[1]), cs_suf)
    if k == "qt":
        return "(TQuoted %s %s %s)" % (cterm(t[1]), cterm(t[2]), cterm(t[3]))
    raise ValueError(t)


DEFAULT_PAD = ["", " ", " ", " ", " ", ""]


def cpad(p):
    if list(p) == DEFAULT_PAD:
        return "P0"
    return "(mkPad %s)" % " ".join(cs(w) for w in p)


def citem(i):
    k = i[0]
    if k == "blank":
        return "IBlank %s" % cs(i[1])
    if k == "comment":
        return "IComment %s %s" % (cs(i[1]), cs(i[2]))
    if k == "stmt":
        g = "None" if i[5] is None else "(Some %s)" % cterm(i[5])
        return "IStmt %s %s %s %s %s" % (cpad(i[1]), cterm(i[2]), cterm(i[3]), cterm(i[4]), g)
    if k == "prefix":
        return "IPrefix %s %s" % (cs(i[1]), cs(i[2]))
    if k == "list":
        pos = ";".join("(%s, [%s])" % (cterm(p), ";".join(cterm(o) for o in os_)) for p, os_ in i[2])
        return "IList %s [%s]" % (cterm(i[1]), pos)
    raise ValueError(i)


def cbool(b):
    return "true" if b else "false"


def cop(op):
    k = op[0]
    if k == "add":
        return "OAdd %s %s %s %s %s" % (cs(op[1]), cs(op[2]), cs(op[3]), copt(op[4]), cbool(op[5]))
    if k == "raw":
        return "OLoad %d [%s] %s" % (FMT[op[1]], ";".join(cs(l) for l in op[2]), cbool(op[3]))
    if k == "doc":
        return "ODoc %d [%s] %s" % (FMT[op[1]], ";".join(citem(i) for i in op[2]), cbool(op[3]))
    if k == "cdoc":
        return "CDoc %d [%s] [%s] [%s] %s" % (FMT[op[1]], ";".join(cterm(t) for t in op[2]), ";".join(citem(i) for i in op[3]),
                                             ";".join("[" + ";".join(map(str, e)) + "]" for e in op[4]), cbool(op[5]))
    raise ValueError(op)


# ---- concrete text (mirrors Spec.render_doc; the checksum confirms that it does) -------------------
def rlchar(x):
    k = x[0]
    if k == "p":
        return x[1]
    if k == "e":
        return "\\" + x[1]
    if k == "u4":
        return "\\u" + x[1]
    return "\\U" + x[1]


def rterm(t):
    k = t[0]
    if k == "iri":
        return "<" + t[1] + ">"
    if k == "bn":
        return "_:" + t[1]
    if k == "pn":
        return t[1] + ":" + t[2]
    if k == "lit":
        suf = t[2]
        s = "" if suf is None else ("@" + suf[1] if suf[0] == "lang" else "^^<" + suf[1] + ">")
        return '"' + "".join(rlchar(x) for x in t[1]) + '"' + s
    return "<< " + rterm(t[1]) + " " + rterm(t[2]) + " " + rterm(t[3]) + " >>"


def ritem(i):
    k = i[0]
    if k == "blank":
        return i[1]
    if k == "comment":
        return i[1] + "#" + i[2]
    if k == "stmt":
        p = i[1]
        g = "" if i[5] is None else p[3] + rterm(i[5])
        return p[0] + rterm(i[2]) + p[1] + rterm(i[3]) + p[2] + rterm(i[4]) + g + p[4] + "." + p[5]
    if k == "prefix":
        return "@prefix " + i[1] + ": <" + i[2] + "> ."
    if k == "list":
        return rterm(i[1]) + " " + " ; ".join(rterm(p) + " " + " , ".join(rterm(o) for o in os_) for p, os_ in i[2]) + " ."
    raise ValueError(i)


HMASK = (1 << 44) - 1


def hmix(a, c):
    return (a * 33 + c) & HMASK


def checksum(lines):
    a = 0
    for l in lines:
        for ch in l:
            a = hmix(a, ord(ch) + 1)
        a = hmix(a, 11)
    return a


def op_items(op):
    """the document of a doc / cdoc operation as a list of items"""
    if op[0] == "doc":
        return op[2]
    if op[0] == "cdoc":
        terms, fill = op[2], op[3]
        out = []
        for e in op[4]:
            if len(e) == 1:
                out.append(fill[e[0]])
            else:
                out.append(["stmt", DEFAULT_PAD, terms[e[0]], terms[e[1]], terms[e[2]], terms[e[3]] if len(e) == 4 else None])
        return out
    return None


def op_obs(op):
    return {"add": 5, "raw": 3, "doc": 3, "cdoc": 5, "xml": 2}[op[0]]


def op_lines(op):
    if op[0] == "raw":
        return list(op[2])
    if op[0] in ("doc", "cdoc"):
        return [ritem(i) for i in op_items(op)]
    return None


def op_json(op, eol="\n"):
    """the operation as the driver wants it"""
    if op[0] == "add":
        return ["add", op[1], op[2], op[3], op[4], op[5]]
    if op[0] == "xml":
        return ["load", "rdfxml", op[1], op[2]]
    return ["load", op[1], "".join(l + eol for l in op_lines(op)), op[op_obs(op)]]


# ---- python mirror of the lexical reading, used ONLY to steer the generators (never as an oracle) ----
WS = set(map(chr, list(range(9, 14)) + [32, 133, 160, 5760] + list(range(8192, 8203)) + [8232, 8233, 8239, 8287, 12288]))
UNESC = {"t": "\t", "b": "\b", "n": "\n", "r": "\r", "f": "\f"}


def lit_value(body):
    out = []
    for x in body:
        if x[0] == "p":
            out.append(x[1])
        elif x[0] == "e":
            out.append(UNESC.get(x[1], x[1]))
        else:
            out.append(chr(int(x[1], 16)))
    return "".join(out)


def py_looks_quoted(s):
    return s.startswith("<<") and s.endswith(">>")


def py_unstable(s):
    t = s
    while t and t[0] in WS:
        t = t[1:]
    while t and t[-1] in WS:
        t = t[:-1]
    return t != s or s.startswith('"') or (s.startswith("<") and s.endswith(">"))


def lit_lex(t):
    v = lit_value(t[1])
    if t[2] is not None and t[2][0] == "lang":
        return v + "@" + t[2][1]
    return v


# ---- generators ------------------------------------------------------------------------------------
IRI_ALPHA = "ab:/#.?=&%-_~é€😀@^'`"
LIT_ALPHA = list("abzAZ09   .,;:#<>^@-_'/é€😀\u00a0\u3000\t")
DTS = ["http://www.w3.org/2001/XMLSchema#string", "http://www.w3.org/2001/XMLSchema#integer", "http://dt/x", "urn:dt"]
LANGS = ["en", "en-US", "de", "x-1", "fr"]


def gen_iri(rng, V, hash_ok=True):
    r = rng.random()
    if r < 0.72:
        return ("iri", "http://e/%s%d" % (rng.choice("spo"), rng.randrange(V)))
    if r < 0.82:
        return ("iri", "urn:x:%d" % rng.randrange(V))
    if r < 0.92:
        s = "http://e/" + "".join(rng.choice(IRI_ALPHA) for _ in range(rng.randrange(0, 6)))
    else:
        s = rng.choice(["", "a", "http://www.w3.org/1999/02/22-rdf-syntax-ns#type", "http://é/€#😀", "mailto:x@y.z", "x"])
    if not hash_ok:
        s = s.replace("#", "-")
    return ("iri", s)


def gen_scalar(rng, maxcp):
    while True:
        cp = rng.choice([rng.randrange(0, 128), rng.randrange(0, 0x800), rng.randrange(0, maxcp + 1)])
        if not (0xD800 <= cp <= 0xDFFF):
            return cp


def gen_lit(rng, clean=True, plain_only=False):
    n = rng.choice([0, 1, 1, 2, 3, 5, 8])
    body = []
    for _ in range(n):
        r = rng.random()
        if r < 0.74:
            body.append(("p", rng.choice(LIT_ALPHA)))
        elif r < 0.90:
            body.append(("e", rng.choice("tbnrf\"'\\")))
        elif r < 0.96:
            h = "%04X" % gen_scalar(rng, 0xFFFF)
            body.append(("u4", h if rng.random() < 0.5 else h.lower()))
        else:
            h = "%08X" % gen_scalar(rng, 0x10FFFF)
            body.append(("u8", h if rng.random() < 0.5 else h.lower()))
    r = rng.random()
    suf = None
    if not plain_only:
        if r < 0.2:
            suf = ("lang", rng.choice(LANGS))
        elif r < 0.4:
            suf = ("dt", rng.choice(DTS))
    t = ("lit", body, suf)
    if clean and py_looks_quoted(lit_lex(t)):
        # keep the value outside the residual re-cleaning class (a value that looks like a quoted triple)
        t = ("lit", [("p", "v")] + body, suf)
    return t


def gen_bnode(rng, V):
    return ("bn", rng.choice(["b%d" % rng.randrange(V), "b%d" % rng.randrange(V), "x-y", "b1.", "B_%d" % rng.randrange(3)]))


def gen_simple(rng, V):
    r = rng.random()
    if r < 0.6:
        return gen_iri(rng, V)
    if r < 0.8:
        return gen_bnode(rng, V)
    return ("lit", [("p", c) for c in rng.choice(["x", "l l", "", "a.b", "v1"])], None)


def gen_quoted(rng, V, depth=1):
    s = gen_quoted(rng, V, depth - 1) if depth > 0 and rng.random() < 0.25 else gen_simple(rng, V)
    if s[0] == "lit":
        s = gen_iri(rng, V)
    o = gen_quoted(rng, V, depth - 1) if depth > 0 and rng.random() < 0.25 else gen_simple(rng, V)
    return ("qt", s, ("iri", "http://e/p%d" % rng.randrange(V)), o)


def gen_pad(rng, plain=0.8, seps=(" ", "\t", "  ", " \t"), w3s=("", " ", "  ", "\t", "\u00a0")):
    if rng.random() < plain:
        return list(DEFAULT_PAD)
    return [rng.choice(["", " ", "\t ", "\u00a0", "\u3000 "]), rng.choice(seps), rng.choice(seps), rng.choice(seps),
            rng.choice(w3s), rng.choice(["", " ", "\t", "\r", " \u00a0"])]


def gen_nt_stmt(rng, V, quads, p_unclean=0.03, p_quoted=0.04):
    r = rng.random()
    if r < p_quoted:
        s = gen_quoted(rng, V)
    elif r < 0.85:
        s = gen_iri(rng, V)
    else:
        s = gen_bnode(rng, V)
    p = gen_iri(rng, max(2, V // 8))
    r = rng.random()
    if r < p_quoted:
        o = gen_quoted(rng, V)
    elif r < 0.5:
        o = gen_iri(rng, V)
    elif r < 0.58:
        o = gen_bnode(rng, V)
    elif rng.random() < p_unclean:
        o = ("lit", [("p", c) for c in rng.choice(["<<x y z>>", "<< <http://e/a> <http://e/b> <http://e/c> >>", "<<>>"])], None)
    else:
        o = gen_lit(rng, clean=True)
    g = None
    if quads and rng.random() < 0.6:
        g = rng.choice([("iri", "http://g/%d" % rng.randrange(3)), ("bn", "g%d" % rng.randrange(2)), gen_iri(rng, V)])
    return ["stmt", gen_pad(rng), s, p, o, g]


def gen_filler(rng):
    if rng.random() < 0.5:
        return ["blank", rng.choice(["", "", " ", "\t", " \u00a0 "])]
    return ["comment", rng.choice(["", "", " ", "\t"]), rng.choice(["", " a comment", "<http://e/s1> <http://e/p1> <http://e/o1> .", ' "', "é"])]


def gen_nt_doc(rng, n, quads=False, V=None, p_unclean=0.03, p_quoted=0.04):
    V = V or max(3, min(40, n // 3 + 3))
    items = []
    while len(items) < n:
        r = rng.random()
        if r < 0.06:
            items.append(gen_filler(rng))
        elif r < 0.14 and items:
            items.append(rng.choice(items))     # duplicate line
        else:
            items.append(gen_nt_stmt(rng, V, quads, p_unclean, p_quoted))
    return items


def gen_n3_term(rng, V, prefixes, p_lit=0.0, hash_ok=False):
    r = rng.random()
    if r < p_lit:
        return gen_lit(rng)
    if prefixes and r < 0.6:
        return ("pn", rng.choice(prefixes), "%s%d" % (rng.choice("spo"), rng.randrange(V)))
    t = gen_iri(rng, V, hash_ok=hash_ok)
    return t


def gen_n3_doc(rng, n, p_lit=0.0, hash_ok=False, prefix_anywhere=True):
    V = max(3, min(40, n // 3 + 3))
    items = []
    prefixes = []
    names = ["ex", "p0", "p1", ""]
    while len(items) < n:
        r = rng.random()
        if (not items and rng.random() < 0.7) or (prefix_anywhere and r < 0.03):
            nm = rng.choice(names)
            items.append(["prefix", nm, rng.choice(["http://e/", "http://ns/%s/" % (nm or "d"), "urn:q:"])])
            if nm not in prefixes:
                prefixes.append(nm)
        elif r < 0.08:
            items.append(gen_filler(rng))
        elif r < 0.14 and items:
            items.append(rng.choice(items))
        else:
            pad = gen_pad(rng, plain=0.85, seps=(" ", "\t", "  "), w3s=(" ", "  ", "\t"))
            items.append(["stmt", pad, gen_n3_term(rng, V, prefixes, 0, hash_ok), gen_n3_term(rng, max(2, V // 8), prefixes, 0, hash_ok),
                          gen_n3_term(rng, V, prefixes, p_lit, hash_ok), None])
    return items


TTL_LIT_ALPHA = list("abzAZ09   .,;#^@-_'/é€😀")


def gen_ttl_lit(rng, tagged=False):
    n = rng.choice([0, 1, 2, 3, 5])
    body = []
    for _ in range(n):
        r = rng.random()
        if r < 0.8:
            body.append(("p", rng.choice(TTL_LIT_ALPHA)))
        elif r < 0.95:
            body.append(("e", rng.choice("tnr\"'\\")))
        else:
            body.append(("u4", "%04X" % gen_scalar(rng, 0xFFFF)))
    body = [("p", "v")] + body + [("p", "w")]
    suf = None
    if tagged:
        suf = ("lang", rng.choice(LANGS)) if rng.random() < 0.5 else ("dt", rng.choice(DTS))
    return ("lit", body, suf)


def gen_ttl_term(rng, V, prefixes, obj=False, p_tagged=0.0):
    r = rng.random()
    if obj and r < 0.35:
        return gen_ttl_lit(rng, tagged=rng.random() < p_tagged)
    if prefixes and r < 0.65:
        return ("pn", rng.choice(prefixes), "%s%d" % (rng.choice("spo"), rng.randrange(V)))
    if r < 0.72:
        return ("bn", "b%d" % rng.randrange(V))
    return ("iri", rng.choice(["http://e/%s%d" % (rng.choice("spo"), rng.randrange(V)), "https://e/x?y=1&z", "http://e/#frag"]))


def gen_ttl_comp(rng, V):
    r = rng.random()
    if r < 0.5:
        return ("iri", "http://e/%s%d" % (rng.choice("spo"), rng.randrange(V)))
    if r < 0.7:
        return ("bn", "b%d" % rng.randrange(V))
    body = [("p", c) for c in rng.choice(["x", "l l", "a.b", "v;1", "é"])]
    return ("lit", body, rng.choice([None, None, ("dt", "http://dt/x")]))


def gen_ttl_quoted(rng, V):
    s = gen_ttl_comp(rng, V)
    if s[0] == "lit":
        s = ("bn", "b0")
    return ("qt", s, ("iri", "http://e/p%d" % rng.randrange(V)), gen_ttl_comp(rng, V))


def gen_ttl_doc(rng, n, p_tagged=0.0):
    V = max(3, min(30, n // 3 + 3))
    items = []
    prefixes = []
    while len(items) < n:
        r = rng.random()
        if (not items and rng.random() < 0.7) or r < 0.04:
            nm = rng.choice(["ex", "p0", "p1"])
            items.append(["prefix", nm, rng.choice(["http://e/", "http://ns/%s/" % nm])])
            if nm not in prefixes:
                prefixes.append(nm)
        elif r < 0.10:
            items.append(gen_filler(rng))
        elif r < 0.30:
            pos = []
            for _ in range(rng.choice([1, 1, 2, 3])):
                pos.append([gen_ttl_term(rng, max(2, V // 6), prefixes),
                            [gen_ttl_term(rng, V, prefixes, True, p_tagged) for _ in range(rng.choice([1, 1, 2, 3]))]])
            items.append(["list", gen_ttl_term(rng, V, prefixes), pos])
        else:
            pad = gen_pad(rng, plain=0.85, seps=(" ", "\t", "  "), w3s=(" ", "  ", ""))
            st = ["stmt", pad, gen_ttl_term(rng, V, prefixes), gen_ttl_term(rng, max(2, V // 6), prefixes),
                  gen_ttl_term(rng, V, prefixes, True, p_tagged), None]
            q = rng.random()
            if q < 0.08:        # quoted triple as subject and/or object (the statement then goes through encode_term_star)
                st[2] = gen_ttl_quoted(rng, V)
                if st[4][0] == "lit" and rng.random() < 0.15:
                    st[4] = ("lit", [("p", " ")] + list(st[4][1]), st[4][2])      # re-cleaned literal: known class
            elif q < 0.12:
                st[4] = gen_ttl_quoted(rng, V)
            items.append(st)
    return items


def gen_prior(rng, kind, doc_ops):
    """operations that build the prior database: 'empty' | 'disjoint' | 'sharing' | 'loaded'"""
    ops = []
    if kind == "empty":
        return ops
    if kind == "loaded":
        ops.append(["doc", "nt", gen_nt_doc(rng, rng.choice([1, 3, 8]), V=6, p_unclean=0, p_quoted=0), False])
        return ops
    pool = ["zz%d" % i for i in range(6)]
    if kind == "sharing":
        # bare lexical forms that the document will mention (IRIs without brackets, literal values)
        for op in doc_ops:
            for it in op[2][:40]:
                if it[0] == "stmt":
                    for t in (it[2], it[3], it[4]):
                        if t[0] == "iri":
                            pool.append(t[1])
                        elif t[0] == "lit":
                            pool.append(lit_lex(t))
                        elif t[0] == "bn":
                            pool.append("_:" + t[1])
    for _ in range(rng.choice([1, 2, 4, 7])):
        g = rng.choice([None, None, "http://g/0", rng.choice(pool)])
        ops.append(["add", rng.choice(pool), rng.choice(pool), rng.choice(pool), g, False])
    return ops


# ---- canonical forms ---------------------------------------------------------------------------------
def mstr(v):
    return "".join(map(chr, v))


def mopt(v):
    return NONE if v is None else mstr(v[1])


def model_den(v):
    out = set()
    for (s, p, o, g) in v:
        if g is None:
            gg = ""
        elif g[1] is None:
            gg = NONE
        else:
            gg = "G" + mstr(g[1][1])
        out.add((mopt(s), mopt(p), mopt(o), gg))
    return out


def impl_den(v):
    return set(tuple(NONE if x is None else x for x in q) for q in v)


def spec_quads(v):
    out = set()
    for (s, p, o, g) in v:
        out.add((mstr(s), mstr(p), mstr(o), "" if g is None else "G" + mstr(g[1])))
    return out


def show(den, limit=6):
    return [list(q) for q in sorted(den)][:limit]


KNOWN = {
    "C13-n3-nonempty-dictionary": "parse_n3 into a database whose dictionary is not empty: the chunk's local ids are inserted as if they were ids of the receiving dictionary",
    "C13-n3-multichunk": "parse_n3 of a document of more than 1000 lines: each chunk has its own dictionary and prefix table",
    "C13-literal-recleaned": "a literal VALUE that looks like a quoted triple is parsed as one (N-Triples/N-Quads); Turtle statements with a quoted triple re-clean their literals",
    "C13-n3-literal-quoted": "parse_n3 stores a literal together with its quotes (and datatype), unlike the other loaders",
    "C13-n3-hash-in-term": "parse_n3 cuts every line at the first '#', also inside an IRI or a literal",
}


def has_hash(op):
    for it in op_items(op):
        if it[0] == "stmt" and "#" in ritem(it):
            return True
    return False


def classes_of(op, flags):
    """known classes (ids) the document load `op` falls in; flags come from the Coq classifiers"""
    n3k, recl, n3lit, n3hash, ttlrecl = flags
    fmt = op[1]
    out = []
    if fmt in ("nt", "nq") and recl:
        out.append("C13-literal-recleaned")
    if fmt == "ttl" and ttlrecl:
        out.append("C13-literal-recleaned")
    if fmt == "n3":
        if n3k:
            nl = len(op_items(op))
            out.append("C13-n3-multichunk" if nl > 1000 else "C13-n3-nonempty-dictionary")
        if n3lit:
            out.append("C13-n3-literal-quoted")
        if n3hash:
            out.append("C13-n3-hash-in-term")
    return out


# ---- evaluation of database cases ------------------------------------------------------------------
def hstr(a, s):
    for ch in s:
        a = hmix(a, ord(ch) + 2)
    return hmix(a, 1)


def hcomp(a, o):
    return hmix(a, 0) if o is None else hmix(hstr(a, o), 1)


def qhash(q):
    """mirror of Run.qhash on a canonical quad (s, p, o, g); g = "" | "G<name>" | NONE"""
    a = 17
    for x in q[:3]:
        a = hcomp(a, None if x == NONE else x)
    g = q[3]
    if g == "":
        return hmix(a, 7)
    return hcomp(hmix(a, 8), None if g == NONE else g[1:])


def expand(case):
    """materialise generated operations (`gen` ops keep witnesses and corpus files small)"""
    ops = []
    for op in case["ops"]:
        if op[0] == "gen":
            ops.append(GENERATED[op[1]](*op[2]) + [op[3]])
        else:
            ops.append(op)
    c = dict(case)
    c["ops"] = ops
    return c


def combos(rng, n, S, P, O, G=None):
    """n index lists over a small term table; distinct combinations first, so that no line of the
    document is covered by another line carrying the same triple"""
    idx = []
    seen = set()
    tries = 0
    while len(idx) < n:
        e = (rng.choice(S), rng.choice(P), rng.choice(O)) + ((rng.choice(G),) if G and rng.random() < 0.6 else ())
        tries += 1
        if e in seen and tries < 20 * n:
            continue
        seen.add(e)
        idx.append(list(e))
    return idx


def gen_big_nt(rng, n, quads=False, dup=0.03, fill=0.03):
    terms = []
    S = list(range(0, 24))
    for i in S:
        terms.append(("iri", "%d:s" % i) if i % 6 else ("bn", "b%d" % i))
    P = list(range(24, 30))
    for i in P:
        terms.append(("iri", "http://e/p%d" % i))
    O = list(range(30, 60))
    for i in O:
        terms.append(("iri", "%d:o" % i) if i % 3 == 0 else gen_lit(rng, clean=True))
    G = list(range(60, 64))
    for i in G:
        terms.append(("iri", "http://g/%d" % i) if i % 2 else ("bn", "g%d" % i))
    fillers = [gen_filler(rng) for _ in range(4)] + [gen_nt_stmt(rng, 6, quads, 0.0, 0.0) for _ in range(4)]
    idx = combos(rng, n, S, P, O, G if quads else None)
    for k in range(len(idx)):
        r = rng.random()
        if r < fill:
            idx[k] = [rng.randrange(len(fillers))]
        elif r < fill + dup and k > 0:
            idx[k] = idx[rng.randrange(k)]
    return ["cdoc", "nq" if quads else "nt", terms, fillers, idx]


def gen_big_n3(rng, n, prefix_first=True, late_prefix=False):
    terms = []
    S = list(range(0, 24))
    for i in S:
        terms.append(("pn", "ex", "s%d" % i) if i % 2 else ("iri", "%d:s" % i))
    P = list(range(24, 30))
    for i in P:
        terms.append(("pn", "ex", "p%d" % i) if i % 2 else ("iri", "http://e/q%d" % i))
    O = list(range(30, 60))
    for i in O:
        terms.append(("pn", "ex", "o%d" % i) if i % 2 else ("iri", "%d:o" % i))
    fillers = [["prefix", "ex", "http://e/"], ["blank", ""], ["comment", "", " c"], ["prefix", "p1", "http://ns/p1/"]]
    idx = combos(rng, n, S, P, O)
    if prefix_first and idx:
        idx[0] = [0]
    for k in range(1, len(idx)):
        r = rng.random()
        if r < 0.02:
            idx[k] = [rng.choice([1, 2])]
        elif late_prefix and r < 0.025:
            idx[k] = [3]
    return ["cdoc", "n3", terms, fillers, idx]


def gen_big_ttl(rng, n):
    op = gen_big_n3(rng, n)
    op[1] = "ttl"
    op[2] = [("lit", [("p", c) for c in "v%d w" % i], None) if (i >= 30 and i % 5 == 0) else t for i, t in enumerate(op[2])]
    return op


def gen_n3_prefix_first(n):
    terms = [("pn", "ex", "p")] + [("pn", "ex", "s%d" % i) for i in range(40)] + [("pn", "ex", "o%d" % i) for i in range(40)]
    idx = [[0]] + [[1 + (i % 40), 0, 41 + ((i // 40) % 40)] for i in range(n - 1)]
    return ["cdoc", "n3", terms, [["prefix", "ex", "http://e/"]], idx]


def gen_nt_numbered(n):
    terms = [("iri", "http://e/p")] + [("iri", "http://e/s%d" % i) for i in range(40)] + [("lit", [("p", c) for c in "v%d" % i], None) for i in range(40)]
    idx = [[1 + (i % 40), 0, 41 + ((i // 40) % 40)] for i in range(n)]
    return ["cdoc", "nt", terms, [], idx]


GENERATED = {"n3_prefix_first": gen_n3_prefix_first, "nt_numbered": gen_nt_numbered}


def norm_case(case):
    return expand(case)


def is_big(c):
    return any(op[0] == "cdoc" or (op[0] in ("doc", "raw") and len(op[2]) > 200) for op in c["ops"])


def eval_db(ctx, binpath, cases, stream, threads_all=False):
    t0 = vf.time.time()
    cases = [norm_case(c) for c in cases]
    n = len(cases)
    if n == 0:
        return []
    for c in cases:
        c["hashed"] = is_big(c)
    order = sorted(range(n), key=lambda i: (not cases[i]["hashed"], ctx.rng.random()))
    # large documents first, one per shard
    nbig = sum(1 for c in cases if c["hashed"])
    exprs = ["%s [%s]" % ("run_h" if cases[i]["hashed"] else "run", ";".join(cop(op) for op in cases[i]["ops"] if op[0] != "xml")) for i in order]
    model = [None] * n
    if nbig:
        t = ctx.run_model(SUB, REQ, exprs[:nbig], preamble=PRE, timeout=1500, chunk=1)
        for k in range(nbig):
            model[order[k]] = t[k]
    if n > nbig:
        t = ctx.run_model(SUB, REQ, exprs[nbig:], preamble=PRE, timeout=1500)
        for k in range(nbig, n):
            model[order[k]] = t[k - nbig]
    drv = [{"kind": "db", "ops": [op_json(op, c.get("eol", "\n")) for op in c["ops"]]} for c in cases]
    impls = {}
    for ti, th in enumerate(THREADS):
        idx = [i for i in range(n) if threads_all or cases[i].get("threads_all") or i % 3 == ti]
        res = ctx.run_impl(binpath, [drv[i] for i in idx], env={"RAYON_NUM_THREADS": th})
        for i, r in zip(idx, res):
            impls.setdefault(i, []).append((th, r))
    counts = dict(cases=n, large_documents=nbig, impl_runs=0, impl_model_mismatches=0, spec_violations=0, known_class_cases=0,
                  loads=0, quads_loaded=0, tainted_obs=0)
    verdicts = []
    for i, c in enumerate(cases):
        ctx.count()
        mo = model[i]
        if isinstance(mo, tuple) and mo and mo[0] == "ERROR":
            ctx.broken("correspondence", stream, "model evaluation failed: %s" % (mo[1][-600:],), compact(c))
            verdicts.append("model-error")
            continue
        verdict = "ok"
        for th, im in impls[i]:
            counts["impl_runs"] += 1
            v = judge(ctx, c, mo, im, th, stream, counts)
            if v != "ok":
                verdict = v
        verdicts.append(verdict)
    counts["wall_s"] = round(vf.time.time() - t0, 1)
    ctx.stream(stream, **counts)
    ctx.log("stream %s: %d cases (%d large) in %.1fs" % (stream, n, nbig, vf.time.time() - t0))
    return verdicts


def compact(c):
    """a case small enough for a replay file"""
    c = {k: v for k, v in c.items() if k != "hashed"}
    s = json.dumps(c)
    if len(s) < 1500000:
        return json.loads(s)
    return {"note": "case too large to inline; regenerate with the same seed", "ops_summary": [[op[0], op[1] if len(op) > 1 else None] for op in c["ops"]]}


def judge(ctx, c, mo, im, th, stream, counts):
    ops = c["ops"]
    hashed = c["hashed"]
    if "dens" not in im:
        ctx.violation(compact(c), {"what": "the loader panicked or the driver died", "impl": im, "threads": th})
        counts["spec_violations"] += 1
        return "violation"
    idens = []
    for d in im["dens"]:
        qs = impl_den(d)
        idens.append({qhash(q): q for q in qs} if hashed else {q: q for q in qs})
    k = 0                       # index into the observed denotations
    before = {}                 # implementation's quad set at the previous observation (key -> quad)
    have_before = True          # the quad set before the first operation is empty, by construction
    tainted = False
    verdict = "ok"
    nontrivial = False
    mi = 0
    for op in ops:
        if op[0] == "xml":
            mout = None
        else:
            mout = mo[mi]
            mi += 1
        if not op[op_obs(op)]:
            have_before = False
            continue
        if k >= len(idens):
            ctx.broken("correspondence", stream, "driver returned fewer observations than requested", compact(c))
            return "broken"
        after = idens[k]
        k += 1
        akeys = set(after)
        # ---- implementation vs model
        mism = None
        if mout is not None:
            mden_opt, spec_opt, cks, flags = mout
            if op[0] in ("raw", "doc", "cdoc") and cks != checksum(op_lines(op)):
                ctx.broken("correspondence", stream, "the text rendered by the check differs from Spec.render_doc", compact(c))
                return "broken"
            if mden_opt is not None:
                mkeys = set(mden_opt[1]) if hashed else model_den(mden_opt[1])
                if mkeys != akeys:
                    mism = {"model_only": (len(mkeys - akeys) if hashed else show(mkeys - akeys)), "impl_only": show([after[x] for x in akeys - mkeys])}
        # ---- implementation vs Spec
        if op[0] in ("doc", "cdoc", "xml") and have_before and not tainted:
            counts["loads"] += 1
            if op[0] == "xml":
                spec = set(tuple(q) for q in op[3])
                kl = []
                fmt = "rdfxml"
                nl = 0
            else:
                spec = set(spec_opt[1]) if hashed else spec_quads(spec_opt[1])
                kl = classes_of(op, flags)
                fmt = op[1]
                nl = len(op_items(op))
            expected = set(before) | spec
            counts["quads_loaded"] += len(akeys - set(before))
            if akeys != set(before) and (before or nl >= 2):
                nontrivial = True
            if akeys != expected:
                if kl:
                    counts["known_class_cases"] += 1
                    for fid in kl:
                        counts["known:" + fid] = counts.get("known:" + fid, 0) + 1
                    tainted = True
                    if verdict == "ok":
                        verdict = "known"
                else:
                    missing = expected - akeys
                    ctx.violation(compact({"ops": ops_upto(c, op), "eol": c.get("eol", "\n")}),
                                  {"what": "after loading, the store is not the previous quads plus the document's triples",
                                   "format": fmt, "threads": th, "lines": nl,
                                   "missing": (len(missing) if hashed else show(missing)), "unexpected": show([after[x] for x in akeys - expected]),
                                   "quads_before": len(before), "quads_after": len(after), "spec_triples": len(spec)})
                    counts["spec_violations"] += 1
                    return "violation"
        elif op[0] == "add" and have_before and not tainted:
            q = (op[1], op[2], op[3], "" if op[4] is None else "G" + op[4])
            exp = set(before) | {qhash(q) if hashed else q}
            if akeys != exp:
                ctx.broken("correspondence", stream, "direct quad insertion did not add exactly the quad (harness or store defect, see C04/C15)", compact(c))
                return "broken"
        elif tainted:
            counts["tainted_obs"] += 1
        if mism is not None:
            counts["impl_model_mismatches"] += 1
            ctx.broken("correspondence", stream,
                       "implementation and model quad sets differ (threads=%s) while the Spec does not reject the implementation: %s" % (th, json.dumps(mism)[:600]),
                       compact({"ops": ops_upto(c, op), "eol": c.get("eol", "\n")}))
            return "broken"
        before = after
        have_before = True
    if nontrivial:
        ctx.nontrivial(vf.hashlib.sha1(json.dumps(ops).encode()).hexdigest())
    return verdict


def ops_upto(c, op):
    out = []
    for o in c["ops"]:
        out.append(o)
        if o is op:
            break
    return out


# ---- function-level streams --------------------------------------------------------------------------
FN = {
    "parts": ("parse_parts %s", "list"),
    "clean": ("clean_nt_term %s", "str"),
    "declit": ("decode_literal %s", "declit"),
    "ttl_tokens": ("turtle_tokens %s", "list"),
    "ttl_clean": ("clean_turtle_term %s", "str"),
}


NON_ASCII_AFTER_TAG = vf.re.compile('"@[A-Za-z0-9-]*[^\x00-\x7f]')


def outside_model(s):
    """char::is_alphanumeric is modelled exactly on ASCII only: a non-ASCII character directly after a language tag is
    outside the model (documented boundary), such strings are not used"""
    return NON_ASCII_AFTER_TAG.search(s) is not None


def eval_fn(ctx, binpath, kind, strings, stream):
    strings = [s for s in dict.fromkeys(strings) if not (kind == "parts" and outside_model(s))]
    if not strings:
        return
    tmpl, shape = FN[kind]
    impl = ctx.run_impl(binpath, [{"kind": kind, "arg": s} for s in strings])
    model = ctx.run_model(SUB, REQ, [tmpl % cs(s) for s in strings], preamble=PRE, chunk=max(1, min(2500, (len(strings) + vf.NPROC - 1) // vf.NPROC)))
    mism = 0
    for s, im, mo in zip(strings, impl, model):
        ctx.count()
        if isinstance(mo, tuple) and mo and mo[0] == "ERROR":
            ctx.broken("correspondence", stream, "model evaluation failed: %s" % (mo[1],), {"kind": kind, "arg": s})
            return
        if shape == "list":
            m = [mstr(x) for x in mo]
            i = im.get("list")
        elif shape == "str":
            m = mstr(mo)
            i = im.get("str")
        else:
            m = None if mo is None else [mstr(mo[1][0]), mstr(mo[1][1])]
            i = None if im.get("none") else im.get("some")
        if "panic" in im:
            i = "PANIC"
        if i != m:
            mism += 1
            if mism <= 3:
                ctx.broken("correspondence", stream, "%s: implementation %r, model %r" % (kind, i, m), {"kind": kind, "arg": s})
        elif i:
            ctx.nontrivial((kind, s))
    ctx.stream(stream, cases=len(strings), impl_model_mismatches=mism)
    ctx.log("stream %s: %d cases" % (stream, len(strings)))


def eval_star(ctx, binpath, seqs, stream):
    if not seqs:
        return
    impl = ctx.run_impl(binpath, [{"kind": "star", "args": s} for s in seqs])
    model = ctx.run_model(SUB, REQ, ["run_star [%s]" % ";".join(cs(t) for t in s) for s in seqs], preamble=PRE)
    mism = 0
    for s, im, mo in zip(seqs, impl, model):
        ctx.count()
        if isinstance(mo, tuple) and mo and mo[0] == "ERROR":
            ctx.broken("correspondence", stream, "model evaluation failed: %s" % (mo[1],), {"kind": "star", "args": s})
            return
        m = [None if x is None else mstr(x[1]) for x in mo]
        i = im.get("decoded", "PANIC")
        if i != m:
            mism += 1
            if mism <= 3:
                ctx.broken("correspondence", stream, "encode_term_star/decode_any: implementation %r, model %r" % (i, m), {"kind": "star", "args": s})
        else:
            ctx.nontrivial(("star", tuple(s)))
    ctx.stream(stream, cases=len(seqs), impl_model_mismatches=mism)


def h3(t):
    return hstr(hstr(hstr(17, t[0]), t[1]), t[2])


def eval_chunks(ctx, binpath, ops, stream):
    """parse_ntriples: the per-chunk vectors (order-preserving collect) against map parse_chunk (chunks 1000 lines);
    ops are doc / cdoc operations; every parsed string triple is compared through its hash"""
    if not ops:
        return
    t0 = vf.time.time()
    exprs = []
    for op in ops:
        if op[0] == "cdoc":
            exprs.append("run_nt_chunks_c [%s] [%s] [%s]" % (";".join(cterm(t) for t in op[2]), ";".join(citem(i) for i in op[3]),
                                                            ";".join("[" + ";".join(map(str, e)) + "]" for e in op[4])))
        else:
            exprs.append("run_nt_chunks_h [%s]" % ";".join(cs(l) for l in op_lines(op)))
    model = ctx.run_model(SUB, REQ, exprs, preamble=PRE, chunk=1)
    mism = 0
    sizes = {}
    docs = [op_lines(op) for op in ops]
    for th in THREADS:
        impl = ctx.run_impl(binpath, [{"kind": "nt_chunks", "text": "".join(l + "\n" for l in d)} for d in docs], env={"RAYON_NUM_THREADS": th})
        for d, im, mo in zip(docs, impl, model):
            ctx.count()
            if isinstance(mo, tuple) and mo and mo[0] == "ERROR":
                ctx.broken("correspondence", stream, "model evaluation failed: %s" % (mo[1][-500:],), None)
                return
            m = [list(ch) for ch in mo]
            i = [[h3(t) for t in ch] for ch in im["chunks"]] if "chunks" in im else "PANIC"
            sizes[len(d)] = sizes.get(len(d), 0) + 1
            if i != m:
                mism += 1
                if mism <= 3:
                    ctx.broken("correspondence", stream, "parse_ntriples chunk structure differs (threads=%s, %d lines): impl chunks %s, model chunks %s"
                               % (th, len(d), [len(x) for x in i] if i != "PANIC" else i, [len(x) for x in m]), {"kind": "nt_chunks", "lines": d[:50], "n_lines": len(d)})
            elif len(d) >= 2 and any(m):
                ctx.nontrivial(("chunks", len(d), checksum(d)))
    ctx.stream(stream, cases=len(docs) * len(THREADS), impl_model_mismatches=mism, line_counts=dict(sorted(sizes.items())))
    ctx.log("stream %s: %d documents in %.1fs" % (stream, len(docs), vf.time.time() - t0))


# ---- the format-agreement stream ---------------------------------------------------------------------
def xml_escape(s):
    return s.replace("&", "&amp;").replace("<", "&lt;").replace(">", "&gt;").replace('"', "&quot;")


def gen_agreement(rng, n, with_literals):
    """a list of triples and its five renderings"""
    V = max(3, n // 2 + 2)
    triples = []
    for _ in range(n):
        s = ("iri", "http://e/s%d" % rng.randrange(V))
        p = ("iri", "http://e/p%d" % rng.randrange(max(2, V // 4)))
        if with_literals and rng.random() < 0.4:
            suf = None
            if with_literals == 2 and rng.random() < 0.6:
                suf = ("lang", rng.choice(LANGS)) if rng.random() < 0.5 else ("dt", rng.choice(DTS))
            o = ("lit", [("p", ch) for ch in rng.choice(["x", "hello world", "v%d" % rng.randrange(V), "a b c", "Z9"])], suf)
        else:
            o = ("iri", "http://e/o%d" % rng.randrange(V))
        triples.append((s, p, o))
    stmts = [["stmt", list(DEFAULT_PAD), s, p, o, None] for s, p, o in triples]
    pn = lambda t: ("pn", "ex", t[1][len("http://e/"):]) if t[0] == "iri" else t
    pstmts = [["prefix", "ex", "http://e/"]] + [["stmt", list(DEFAULT_PAD), pn(s), pn(p), pn(o), None] for s, p, o in triples]
    xml = ['<?xml version="1.0"?>', '<rdf:RDF xmlns:rdf="http://www.w3.org/1999/02/22-rdf-syntax-ns#" xmlns:ex="http://e/">']
    for s, p, o in triples:
        xml.append('  <rdf:Description rdf:about="%s">' % xml_escape(s[1]))
        local = p[1][len("http://e/"):]
        if o[0] == "iri":
            xml.append('    <ex:%s rdf:resource="%s"/>' % (local, xml_escape(o[1])))
        else:
            xml.append('    <ex:%s>%s</ex:%s>' % (local, xml_escape(lit_value(o[1])), local))
        xml.append('  </rdf:Description>')
    xml.append('</rdf:RDF>')
    spec = sorted(set((s[1], p[1], o[1] if o[0] == "iri" else lit_value(o[1]), "") for s, p, o in triples))
    return {"nt": stmts, "nq": stmts, "ttl": stmts if rng.random() < 0.5 else pstmts, "n3": stmts if rng.random() < 0.5 else pstmts,
            "xml": "\n".join(xml) + "\n", "spec": [list(q) for q in spec]}


def agreement_cases(rng, n_cases, sizes):
    cases = []
    for k in range(n_cases):
        a = gen_agreement(rng, rng.choice(sizes), with_literals=(k % 3))    # 0 IRIs only, 1 plain literals, 2 tagged/typed
        for fmt in ("nt", "nq", "ttl", "n3"):
            cases.append({"ops": [["doc", fmt, a[fmt], True]], "agree": k})
        if k % 3 != 2:      # parse_rdf has no syntax for language tags / datatypes in this subset
            cases.append({"ops": [["xml", a["xml"], True, a["spec"]]], "agree": k})
    return cases


# ---- string generators for the function-level streams --------------------------------------------------
PARTS_ALPHA = ['<', '>', '"', '\\', ' ', 'a', '^', '@']
TOK_ALPHA = list('<>"\\ \ta^@._:-#;,é\u00a0') + ["<<", ">>", "^^", '"x"', "<http://e/a>"]


def random_token_string(rng, alpha, maxlen):
    return "".join(rng.choice(alpha) for _ in range(rng.randrange(0, maxlen + 1)))


def exhaustive_strings(alpha, maxlen):
    out = [""]
    for L in range(1, maxlen + 1):
        out += ["".join(t) for t in itertools.product(alpha, repeat=L)]
    return out


def term_strings(rng, n):
    out = []
    for _ in range(n):
        r = rng.random()
        if r < 0.3:
            out.append(rterm(gen_lit(rng, clean=False)))
        elif r < 0.45:
            out.append(rterm(gen_iri(rng, 5)))
        elif r < 0.55:
            out.append(rterm(gen_quoted(rng, 5)))
        else:
            out.append(random_token_string(rng, TOK_ALPHA, 10))
        if rng.random() < 0.2:
            out[-1] = rng.choice([" ", "\t", "\u00a0", ""]) + out[-1] + rng.choice([" ", "", "\u3000"])
    return out


def literal_strings(rng, n):
    out = []
    alpha = list('"\\tbnrfuU\'09aAfFgG x€') + ["\\u", "\\U", "\\\\", '\\"']
    for _ in range(n):
        r = rng.random()
        if r < 0.4:
            out.append(rterm(gen_lit(rng, clean=False)) + rng.choice(["", "", " rest", '"']))
        else:
            out.append(rng.choice(['"', '"', "", "x"]) + random_token_string(rng, alpha, 12) + rng.choice(['"', '"', "", '"@en', '"^^<x>']))
    out += ['"\\uD800"', '"\\uDFFF"', '"\\U00110000"', '"\\U0010FFFF"', '"\\u00e9"', '"\\u12"', '"\\u12G4"', '"\\x"', '"abc', 'abc"', '"', '""', '"\\"', '"\\\\"']
    return out


def malformed_lines(rng, n, fmt):
    """lines outside the subset: the Spec says nothing about them; implementation and model must still agree"""
    out = []
    for _ in range(n):
        r = rng.random()
        if r < 0.35:
            good = ritem(gen_nt_stmt(rng, 5, fmt == "nq"))
            k = rng.randrange(0, len(good) + 1)
            if rng.random() < 0.5:
                good = good[:k] + good[k + 1:]
            else:
                good = good[:k] + rng.choice(TOK_ALPHA) + good[k:]
            out.append(good)
        elif r < 0.6:
            out.append(random_token_string(rng, TOK_ALPHA, 14) + rng.choice([" .", ".", ""]))
        elif r < 0.8:
            out.append(" ".join(rng.choice(["<http://e/a>", "_:b", '"x"', '"x"@en', '"5"^^<http://dt>', "a", "<< <http://e/a> <http://e/b> <http://e/c> >>", "<a", 'b"', "<<", ">>", "^^", "é"]) for _ in range(rng.choice([1, 2, 3, 3, 4, 5]))) + rng.choice([" .", ".", " . ", ""]))
        else:
            out.append(ritem(gen_nt_stmt(rng, 5, fmt == "nq")))
    out = [l for l in out if not outside_model(l)]
    return out


def lone_quote_token(line):
    return any(t == '"' for t in line.replace("\t", " ").split(" ")) or line.count('"') % 2 == 1


# ---- the check -----------------------------------------------------------------------------------------
BOUNDARY = [999, 1000, 1001, 1999, 2000, 2001]


def corpus_cases():
    d = os.path.join(vf.VERIF, "corpus", "C13")
    out = []
    if os.path.isdir(d):
        for fn in sorted(os.listdir(d)):
            if fn.endswith(".json"):
                c = json.load(open(os.path.join(d, fn)))
                c["corpus"] = fn
                out.append(c)
    return out


def replay_known(ctx, binpath):
    """replay the witness of every open finding; print KNOWN-FINDING when it still fails"""
    for f in ctx.known_findings():
        w = f["witness"]
        case = norm_case({"ops": w["ops"], "threads_all": True})
        hashed = is_big(case)
        drv = {"kind": "db", "ops": [op_json(op) for op in case["ops"]]}
        mo = ctx.run_model(SUB, REQ, ["%s [%s]" % ("run_h" if hashed else "run", ";".join(cop(op) for op in case["ops"]))], preamble=PRE)[0]
        if isinstance(mo, tuple) and mo and mo[0] == "ERROR":
            ctx.broken("correspondence", "known-finding witness", "model evaluation failed: %s" % (mo[1][-400:],), {"finding": f["id"]})
            continue
        spec = set(mo[-1][1][1]) if hashed else spec_quads(mo[-1][1][1])      # the Spec quads of the last load
        still = False
        for th in THREADS:
            im = ctx.run_impl(binpath, [drv], env={"RAYON_NUM_THREADS": th})[0]
            ctx.count()
            if "dens" not in im:
                still = True
                continue
            dens = [set(qhash(q) for q in impl_den(x)) if hashed else impl_den(x) for x in im["dens"]]
            before = dens[-2] if len(dens) >= 2 else set()
            if dens[-1] != before | spec:
                still = True
        if still:
            ctx.known(f["id"], f["what"])
        else:
            ctx.log("finding %s no longer reproduces (not suppressing anything)" % f["id"])


def run(ctx):
    ctx.coq(SUB, "C13.v")
    binpath = os.environ.get("C13_BIN") or ctx.harness("c13")    # C13_BIN: development only (a private build)
    rng = ctx.rng
    T = ctx.thorough
    replay_known(ctx, binpath)

    # 1. corpus
    eval_db(ctx, binpath, [c for c in corpus_cases() if T or c.get("tier") != "thorough"], "corpus", threads_all=True)

    # 2. function-level, exhaustive small scope + random
    L = 5 if T else 4
    L2 = 6 if T else 5
    eval_fn(ctx, binpath, "parts", exhaustive_strings(PARTS_ALPHA, L) + exhaustive_strings(PARTS_ALPHA[:5], L2) + term_strings(rng, 3000 if T else 250)
            + [ritem(gen_nt_stmt(rng, 5, True))[:-1] for _ in range(2000 if T else 200)] + malformed_lines(rng, 3000 if T else 200, "nq"), "fn_parse_ntriples_parts")
    ctx.coverage["exhaustive"] = True
    ctx.coverage["exhaustive_scope"] = ("parse_ntriples_parts on every string of length <= %d over the alphabet %s and of length <= %d over %s; "
                                        "tokenize_turtle_star_line likewise (length <= %d); documents of exactly 0, 1, 2, 999, 1000, 1001, 1999, 2000, 2001 lines"
                                        % (L, PARTS_ALPHA, L2, PARTS_ALPHA[:5], L))
    eval_fn(ctx, binpath, "ttl_tokens", exhaustive_strings(['<', '>', '"', '\\', ' ', 'a', '.', ';'], L) + term_strings(rng, 2000 if T else 300)
            + [ritem(i) for i in gen_ttl_doc(rng, 1500 if T else 150, p_tagged=0.3)], "fn_tokenize_turtle_star_line")
    eval_fn(ctx, binpath, "clean", term_strings(rng, 4000 if T else 500) + literal_strings(rng, 2000 if T else 300), "fn_clean_ntriples_term")
    eval_fn(ctx, binpath, "declit", literal_strings(rng, 6000 if T else 700), "fn_decode_ntriples_literal")
    eval_fn(ctx, binpath, "ttl_clean", term_strings(rng, 2000 if T else 300) + literal_strings(rng, 1500 if T else 200) + ['"', ' " ', '""', '"x', 'x"'], "fn_clean_turtle_term")
    eval_star(ctx, binpath, [term_strings(rng, rng.choice([1, 3, 6])) for _ in range(1500 if T else 250)], "fn_encode_term_star")

    # 3. chunk structure of parse_ntriples at the boundaries (C13_chunking)
    docs = []
    for n in ([0, 1, 2] + BOUNDARY + [2999, 3000, 3001, 3500] if T else [0, 1, 999, 1000, 1001, 1999, 2000, 2001]):
        for rep in range(2 if T else 1):
            docs.append(gen_big_nt(rng, n, fill=0.05) if n > 10 else ["doc", "nt", gen_nt_doc(rng, n, V=12, p_unclean=0.0)])
    eval_chunks(ctx, binpath, docs, "nt_chunks")

    # 4. N-Triples / N-Quads documents x prior databases
    cases = []
    sizes_small = [0, 1, 1, 2, 3, 5, 8, 13, 30]
    nsmall = 900 if T else 100
    for k in range(nsmall):
        fmt = "nq" if k % 3 == 0 else "nt"
        doc = ["doc", fmt, gen_nt_doc(rng, rng.choice(sizes_small), quads=(fmt == "nq"), p_unclean=0.04), True]
        kind = ["empty", "disjoint", "sharing", "loaded"][k % 4]
        ops = gen_prior(rng, kind, [doc])
        if ops:
            ops[-1][-1] = True          # observe the prior database
        ops.append(doc)
        if rng.random() < 0.3:          # a second document into the now populated database
            f2 = rng.choice(["nt", "nq"])
            ops.append(["doc", f2, gen_nt_doc(rng, rng.choice(sizes_small), quads=(f2 == "nq"), p_unclean=0.0), True])
        cases.append({"ops": ops, "eol": rng.choice(["\n", "\n", "\r\n"]), "prior": kind})
    big = []
    for n in BOUNDARY + ([3500, 1500, 2500, 3499] if T else []):
        for rep in range(3 if T else 1):
            for fmt in ("nt", "nq"):
                if fmt == "nq" and not T and n != 1001:
                    continue
                doc = gen_big_nt(rng, n, quads=(fmt == "nq")) + [True]
                kind = ["empty", "sharing", "disjoint"][(len(big)) % 3]
                ops = gen_prior(rng, kind, [["doc", fmt, op_items(doc)[:60]]])
                if ops:
                    ops[-1][-1] = True
                ops.append(doc)
                big.append({"ops": ops, "threads_all": True, "prior": kind})
    ctx.sample({"ops": json.loads(json.dumps(cases[1]["ops"]))[:3]})
    eval_db(ctx, binpath, cases, "nt_nq_small")
    eval_db(ctx, binpath, big, "nt_nq_boundary_sizes")

    # 5. N3: single chunk into an empty database (the theorem's side), and the known classes
    n3 = []
    for k in range(600 if T else 90):
        n = rng.choice([0, 1, 2, 3, 5, 8, 20, 60])
        r = k % 10
        doc = ["doc", "n3", gen_n3_doc(rng, n, p_lit=(0.3 if r == 7 else 0.0), hash_ok=(r == 8)), True]
        ops = []
        if r in (5, 6):
            ops = gen_prior(rng, "disjoint" if r == 5 else "sharing", [doc])
            ops[-1][-1] = True
        ops.append(doc)
        if r == 9:      # a consistent database produced by parse_n3 must accept a later N-Triples document
            ops.append(["doc", "nt", gen_nt_doc(rng, rng.choice([1, 3, 8]), p_unclean=0.0), True])
        n3.append({"ops": ops, "eol": rng.choice(["\n", "\r\n"])})
    for n in [999, 1000, 1001, 1500] + ([1999, 2000, 2001, 3500] if T else []):
        for rep in range(2 if T else 1):
            n3.append({"ops": [gen_big_n3(rng, n, late_prefix=(rep == 1)) + [True]], "threads_all": True})
    ctx.sample({"ops": json.loads(json.dumps(n3[0]["ops"]))})
    eval_db(ctx, binpath, n3, "n3")

    # 6. Turtle, one statement (or one ; , list) per line
    ttl = []
    for k in range(500 if T else 60):
        n = rng.choice([0, 1, 2, 3, 5, 8, 20])
        doc = ["doc", "ttl", gen_ttl_doc(rng, n, p_tagged=0.4), True]
        ops = []
        if k % 3 == 1:
            ops = gen_prior(rng, "disjoint", [doc])
            ops[-1][-1] = True
        ops.append(doc)
        ttl.append({"ops": ops})
    for n in ([1000, 1001, 2001] if T else []):
        ttl.append({"ops": [gen_big_ttl(rng, n) + [True]]})
    eval_db(ctx, binpath, ttl, "turtle")

    # 6b. Turtle `{| p o |}` annotations (RDF-star), incl. markers inside a literal (fix e7e251c): implementation vs model
    ann = []
    objs = ['<http://e/o>', '"v"', '"a {| b c |} d"', '"{|}"', '"x"@en', '"5"^^<http://dt/x>', 'ex:o', '_:b1', '"a {| b"']
    anns = ['{| <http://e/q> "w" |}', '{| ex:q <http://e/z> |}', '{| <http://e/q> |}', '{| |}', '{| <http://e/q> "w"', '|} {| <http://e/q> "w" |}', '']
    for o in objs:
        for a in anns:
            ann.append({"ops": [["raw", "ttl", ["@prefix ex: <http://e/> .", "<http://e/s> <http://e/p> %s %s ." % (o, a)], True]]})
    eval_db(ctx, binpath, ann, "turtle_annotations")

    # 7. malformed documents: implementation vs model only
    mal = []
    for k in range(600 if T else 100):
        fmt = ["nt", "nq", "ttl", "nt"][k % 4]
        lines = malformed_lines(rng, rng.choice([1, 2, 4, 8]), fmt)
        mal.append({"ops": [["raw", fmt, lines, True]]})
    eval_db(ctx, binpath, mal, "malformed")

    # 8. the same triples in five formats
    eval_db(ctx, binpath, agreement_cases(rng, 120 if T else 24, [1, 2, 3, 5, 9, 20]), "formats_agree")
    if T:
        eval_db(ctx, binpath, agreement_cases(rng, 4, [999, 1000]), "formats_agree_large")

    finish(ctx)


def finish(ctx):
    ctx.finish(
        level="proof", rule=PROP_RULE,
        trusted_base=[
            "Coq 8.16.1 kernel; vm_compute for running the model in the correspondence check",
            "hand-written Gallina model coq/Codec13/{Str,Model}.v of the loaders in kolibrie/src/sparql_database.rs and of Dictionary::{encode,decode,merge}",
            "correspondence check: harness/src/bin/c13.rs (public API + add-only verif_c13_* hooks), checks/c13.py generators, rendering (confirmed by checksum against Spec.render_doc) and canonicalisation",
            "str::lines, str::trim/char::is_whitespace (White_Space set written out), HashMap as association list, u32 ids as unbounded N",
            "rayon par_iter().map().collect() preserves chunk order (runtime; exercised with RAYON_NUM_THREADS in {1,4,16})",
        ],
        assumptions=[
            "thread-count independence is a property of rayon's ordered collect: partial, exercised not proved",
            "RDF/XML (quick-xml + crossbeam workers) is not modelled: it takes part in the format-agreement stream only",
            "char::is_alphanumeric is modelled exactly on ASCII only (the character after a language tag is ASCII or end of term)",
            "typed literals are stored by lexical form only (the store has no datatype component); language-tagged literals as value@tag",
            "u32 identifiers are unbounded N in the model; the theorems assume room for the new identifiers (next_id + 4*|quads| <= 2^31)",
        ],
        extra={"partial_statements": [
            "C13_formats_agree_partial: proved for N-Triples = N-Quads = Turtle = N3; RDF/XML is not modelled (differential stream only)",
            "thread-count independence: C13_chunking proves chunk-size independence given order-preserving collection; rayon's ordered collect itself is runtime (exercised with RAYON_NUM_THREADS in 1, 4, 16)",
            "quoted triples (tokenizers at depth > 0, split_quoted_triple_content) and the Turtle {| |} annotation syntax: modelled / not modelled, no theorem",
        ]})


def replay(ctx):
    binpath = os.environ.get("C13_BIN") or ctx.harness("c13")
    c = ctx.replay["case"]
    if "ops" in c:
        eval_db(ctx, binpath, [c], "replay", threads_all=True)
    elif c.get("kind") in FN:
        eval_fn(ctx, binpath, c["kind"], [c["arg"]], "replay")
    elif c.get("kind") == "star":
        eval_star(ctx, binpath, [c["args"]], "replay")
    elif c.get("kind") == "nt_chunks":
        eval_chunks(ctx, binpath, [["raw", "nt", c["lines"], True]], "replay")
    finish(ctx)
